"""C07 -- the Python (pycparser) and the C (parse_c_type.c) type-string parsers denote the same type.

Theorems (lean/CffiVerif/Props/C07.lean) are about the model of the C parser
(Model/TypeParser.lean) and of the backend's printer (Model/CName.lean).

Tie to the code / property oracle:
  every generated string goes to
    (a) an in-line `cffi.FFI()` with the cdef            -> Python parser,
    (b) an out-of-line FFI (emit_python_code) of the same cdef -> C parser,
    (c) the Lean model of the C parser (driver C07).
  The property's own statement is evaluated on (a) vs (b): both reject, or the
  same type (identical ctype object when the tree has no aggregate, same tree
  with aggregates compared by kind+name otherwise).  (b) vs (c) is the
  correspondence that ties the model to parse_c_type.c / realize_c_type.c.

Known classes of divergence are decided constructively: a class has a *feature*
detector and a *repair* that removes the feature without changing what the
reference parser of that class reads; a divergence belongs to the class only if
after the repair both real parsers agree with what the reference parser said
about the original string.
"""
import importlib
import os
import re
import sys

import common
from common import InfraError

MANIFEST = {
    "text": "Kernel-checked theorems about the model of the C type-string parser (tokenizer next_token, parse_complete, "
            "parse_sequel of parse_c_type.c) and of the backend's name printer: the parser reads the name printed for every "
            "well-formed type of the full type language -- primitive/struct/union/enum leaves, pointers, arrays and function "
            "pointer types with fixed, empty and variadic parameter lists nested at will -- back as that type, over every "
            "declaration context (parse_cname, typeof_cname; parse_cname_partial is the earlier fragment corollary); blanks "
            "between void and ) never matter (void_param_list_blank_insensitive); const/volatile are ignored wherever the parser accepts "
            "them (qualifiers_ignored); the decimal, octal and hex texts of a length are one number token each and denote "
            "the same number (decimal_octal_hex_length); every order of the short/long/signed/unsigned specifiers gives "
            "the same result (spec_order); the model's keyword and standard-typename tables are the ones re-extracted from "
            "the C source on every run and every primitive name the backend prints re-parses to itself "
            "(keyword_table_matches_source, standard_typenames_match_source, primitive_names_reparse).  The model is tied to "
            "the code by running both real parsers (in-line FFI = pycparser front end, out-of-line FFI = parse_c_type.c + "
            "realize_c_type.c) and the model on grammar-generated and near-miss strings over random declaration contexts; "
            "the property itself (both reject, or the same type) is evaluated between the two real parsers on every string.",
    "note": "Partial: the Python side (pycparser + cparser.py) is not modelled, only run.  The opcode array with "
            "back-patching is represented by the declarator data the model returns; that gap is covered by the "
            "correspondence only.  WF asks for adjusted parameter lists (no array parameter, (void) is the empty list): "
            "wf_hypotheses_needed shows the statement is false on trees without it.  Not modelled: length*itemsize overflow, "
            "the 1200-opcode limit, embedded NUL / non-ASCII bytes.  Trusted: glibc strtoull, the harness generators, "
            "canonicalisers and the constructive classification of known divergences.",
    "technique": "Lean 4 proof (structural induction over type trees, declarators and token lists; regenerated name tables) + "
                 "three-way differential correspondence (pycparser front end, parse_c_type.c, Lean model) with constructive "
                 "classification of known divergences",
}

RULE = ("type trees over a random declaration context (typedefs incl. array/function-pointer/function typedefs, complete and "
        "opaque structs, unions, enums, #define constants) rendered with random specifier orders, qualifier positions, "
        "redundant parentheses, variable/parameter names, decimal/octal/hex/named lengths, void/fixed/variadic parameter "
        "lists, __cdecl/__stdcall, random blanks; plus near-miss strings (token deletion, duplication, swap). "
        "Non-trivial = the string has a declarator (pointer, array, function or parenthesis) or more than one specifier; "
        "distinct = distinct (context, string) pairs")
ASSUMPTIONS = ["array lengths are kept small enough that length*itemsize does not overflow (that check is not modelled)",
               "strings are ASCII without NUL, blanks are space/tab/newline",
               "typedef'd array types used directly as a parameter make the *name* of a function type depend on which "
               "equal type was built first; names are then not compared with the model (identity and tree still are)"]

# --------------------------------------------------------------------------
# type trees:  ('P', name) ('S', tag) ('U', tag) ('E', tag) ('*', t) ('A', n|None, t) ('F', [args], res, ell)

PRIM_SPECS = {
    "char": [["char"]],
    "signed char": [["signed", "char"]],
    "unsigned char": [["unsigned", "char"]],
    "short": [["short"], ["short", "int"], ["signed", "short"], ["signed", "short", "int"]],
    "unsigned short": [["unsigned", "short"], ["unsigned", "short", "int"]],
    "int": [["int"], ["signed"], ["signed", "int"]],
    "unsigned int": [["unsigned"], ["unsigned", "int"]],
    "long": [["long"], ["long", "int"], ["signed", "long"], ["signed", "long", "int"]],
    "unsigned long": [["unsigned", "long"], ["unsigned", "long", "int"]],
    "long long": [["long", "long"], ["long", "long", "int"], ["signed", "long", "long"], ["signed", "long", "long", "int"]],
    "unsigned long long": [["unsigned", "long", "long"], ["unsigned", "long", "long", "int"]],
    "float": [["float"]],
    "double": [["double"]],
    "long double": [["long", "double"]],
    "_Bool": [["_Bool"], ["bool"]],
    "void": [["void"]],
    "_cffi_float_complex_t": [["float", "_Complex"], ["_cffi_float_complex_t"]],
    "_cffi_double_complex_t": [["double", "_Complex"], ["_cffi_double_complex_t"]],
}
STD_NAMES = ["wchar_t", "int8_t", "uint8_t", "int16_t", "uint16_t", "int32_t", "uint32_t", "int64_t", "uint64_t",
             "intptr_t", "uintptr_t", "ptrdiff_t", "size_t", "ssize_t", "int_least8_t", "uint_least8_t",
             "int_least16_t", "uint_least16_t", "int_least32_t", "uint_least32_t", "int_least64_t", "uint_least64_t",
             "int_fast8_t", "uint_fast8_t", "int_fast16_t", "uint_fast16_t", "int_fast32_t", "uint_fast32_t",
             "int_fast64_t", "uint_fast64_t", "intmax_t", "uintmax_t", "char16_t", "char32_t"]
for _n in STD_NAMES:
    PRIM_SPECS[_n] = [[_n]]
PRIM_NAMES = list(PRIM_SPECS)
COMMON_PRIMS = ["int", "char", "unsigned int", "long", "unsigned long long", "short", "double", "float", "void",
                "unsigned char", "signed char", "long long", "unsigned short", "unsigned long", "long double", "_Bool"]
VAR_NAMES = ["x", "p", "v", "arg", "fp", "n_", "a1", "cb"]
KEYWORDS = set("_Bool char _Complex const double enum float int long short signed struct union unsigned void "
               "volatile __cdecl __stdcall".split())


def c_decl(t, d=""):
    """Canonical C declaration text of tree `t` with declarator `d` (independent of cffi)."""
    k = t[0]
    if k == "P":
        return t[1] + (" " + d if d else "")
    if k in "SUE":
        return {"S": "struct ", "U": "union ", "E": "enum "}[k] + t[1] + (" " + d if d else "")
    if k == "T":          # a typedef name used as a base (only inside cdef texts)
        return t[1] + (" " + d if d else "")
    if k == "*":
        d = "*" + d
        if t[1][0] in "AF":
            d = "(" + d + ")"
        return c_decl(t[1], d)
    if k == "A":
        return c_decl(t[2], d + "[%s]" % ("" if t[1] is None else t[1]))
    if k == "F":
        args = ", ".join(c_decl(a) for a in t[1])
        if t[3]:
            args += ", ..." if t[1] else "..."
        return c_decl(t[2], d + "(" + (args or "void") + ")")
    raise AssertionError(t)


def has_aggregate(t):
    k = t[0]
    if k in "SUE":
        return True
    if k == "P":
        return False
    if k == "*":
        return has_aggregate(t[1])
    if k == "A":
        return has_aggregate(t[2])
    return any(has_aggregate(a) for a in t[1]) or has_aggregate(t[2])


def tree_words(t):
    k = t[0]
    if k == "P":
        return ["P", hx(t[1])]
    if k in "SUE":
        return [k, hx(t[1])]
    if k == "*":
        return ["*"] + tree_words(t[1])
    if k == "A":
        return ["A", "-" if t[1] is None else str(t[1])] + tree_words(t[2])
    w = ["F", str(len(t[1])), "1" if t[3] else "0"]
    for a in t[1]:
        w += tree_words(a)
    return w + tree_words(t[2])


def words_tree(ws, i=0):
    k = ws[i]
    if k == "P":
        return ("P", unhx(ws[i + 1])), i + 2
    if k in "SUE":
        return (k, unhx(ws[i + 1])), i + 2
    if k == "*":
        t, j = words_tree(ws, i + 1)
        return ("*", t), j
    if k == "A":
        t, j = words_tree(ws, i + 2)
        return ("A", None if ws[i + 1] == "-" else int(ws[i + 1]), t), j
    if k == "F":
        n, e = int(ws[i + 1]), ws[i + 2] == "1"
        j = i + 3
        args = []
        for _ in range(n):
            a, j = words_tree(ws, j)
            args.append(a)
        r, j = words_tree(ws, j)
        return ("F", args, r, e), j
    raise InfraError("bad tree words %r" % (ws,))


def hx(s):
    return s.encode("latin-1").hex() or "-"


def unhx(h):
    return "" if h == "-" else bytes.fromhex(h).decode("latin-1")


# --------------------------------------------------------------------------
# declaration contexts

class Decls:
    """A random declaration context: cdef text + what the model needs."""

    def __init__(self, rng, idx):
        self.rng = rng
        self.idx = idx
        self.consts = []      # (name, value)
        self.aggs = []        # (tag, 'S'|'U', complete, cname)
        self.enums = []       # (tag, cname)
        self.typedefs = []    # (name, tree)
        self.lines = []
        self.build()
        self.cdef = "\n".join(self.lines) + "\n"

    def build(self):
        rng = self.rng
        for i in range(rng.randint(1, 4)):
            v = rng.choice([0, 1, 2, 3, 5, 7, 8, 16, 31, 100])
            if rng.random() < 0.12:
                v = rng.choice([-1, -5, 2 ** 63, 2 ** 64 + 1])
            nm = "K%d%s" % (i, rng.choice(["", "_N", "x"]))
            self.consts.append((nm, v))
            self.lines.append("#define %s %d" % (nm, v))
        for i in range(rng.randint(1, 3)):
            tag = "e%d%s" % (i, rng.choice(["", "_k"]))
            names = ["%s_A%d" % (tag.upper(), j) for j in range(rng.randint(1, 3))]
            vals, cur, parts = [], 0, []
            for nmv in names:
                if rng.random() < 0.5:
                    cur = rng.randint(0, 12)
                    parts.append("%s = %d" % (nmv, cur))
                else:
                    parts.append(nmv)
                vals.append((nmv, cur))
                cur += 1
            self.enums.append((tag, "enum " + tag))
            self.consts += vals
            self.lines.append("enum %s { %s };" % (tag, ", ".join(parts)))
        for i in range(rng.randint(2, 5)):
            kind = "U" if rng.random() < 0.3 else "S"
            tag = "%s%d%s" % ("u" if kind == "U" else "s", i, rng.choice(["", "_t", "node"]))
            kw = "union" if kind == "U" else "struct"
            r = rng.random()
            if r < 0.25:
                self.aggs.append((tag, kind, False, kw + " " + tag))
                self.lines.append("%s %s;" % (kw, tag))
            elif r < 0.4:
                tdn = "anon%d_t" % i
                self.aggs.append(("$" + tdn, kind, True, tdn))
                self.typedefs.append((tdn, (kind, "$" + tdn)))
                self.lines.append("typedef %s { int a; char b[%d]; } %s;" % (kw, rng.randint(1, 9), tdn))
            else:
                self.aggs.append((tag, kind, True, kw + " " + tag))
                fields = rng.choice(["int a; short b;", "double d; char c;", "long long q[2];",
                                     "%s %s *next; int v;" % (kw, tag), "char c;"])
                self.lines.append("%s %s { %s };" % (kw, tag, fields))
        for i in range(rng.randint(2, 6)):
            nm = "%s%d%s" % (rng.choice(["T", "td", "my"]), i, rng.choice(["", "_t", "_p"]))
            r = rng.random()
            if r < 0.1:       # function typedef
                t = ("F", [gen_tree(rng, self, 1, arg=True, strict=True) for _ in range(rng.randint(0, 2))],
                     gen_tree(rng, self, 1, result=True, strict=True), False)
            elif r < 0.3:     # array typedef
                t = ("A", rng.randint(1, 6), gen_tree(rng, self, 1, item=True, strict=True))
            else:
                t = gen_tree(rng, self, 2, strict=True)
            rt = resolve(self, t)
            if rt == ("S", "_IO_FILE"):
                # `typedef FILE a; typedef a b;` makes emit_python_code fail an assertion (recompiler.py:278);
                # that is not this property's subject
                t = ("*", t)
                rt = resolve(self, t)
            if not tree_ok(self, rt) and not (rt[0] == "F" and tree_ok(self, ("*", rt))):
                t = rt = ("P", "int")
            self.lines.append("typedef %s;" % c_decl(t, nm))
            self.typedefs.append((nm, rt))

    # what the model needs
    def model_lines(self):
        ls = ["reset"]
        for tag, kind, complete, _ in self.aggs:
            ls.append("agg %s %s %d" % (hx(tag), "u" if kind == "U" else "s", 1 if complete else 0))
        for tag, _ in self.enums:
            ls.append("enum %s" % hx(tag))
        for nm, v in self.consts:
            ls.append("const %s %d" % (hx(nm), v))
        for nm, t in self.typedefs:
            ls.append("td %s %s" % (hx(nm), " ".join(tree_words(t))))
        return ls

    def agg_tag_of_cname(self, kind, cname, alias=False):
        if cname == "FILE":
            return "_IO_FILE"
        if alias:
            # cparser: the first typedef that is directly `struct X` / `union X` / `enum X` forces its name on X
            for nm, t in self.typedefs:
                if nm == cname and t[0] == kind and not t[1].startswith("$"):
                    return t[1]
        if kind == "E":
            for tag, cn in self.enums:
                if cn == cname:
                    return tag
        else:
            for tag, k, _, cn in self.aggs:
                if cn == cname and k == kind:
                    return tag
        return "?" + cname

    def is_complete(self, tag):
        for t, _, c, _ in self.aggs:
            if t == tag:
                return c
        return False


def sized(d, t):
    k = t[0]
    if k == "P":
        return t[1] != "void"
    if k == "E" or k == "*":
        return True
    if k in "SU":
        return d.is_complete(t[1])
    if k == "A":
        return t[1] is not None
    return False


def tree_ok(d, t):
    """Mirror of the backend's checks (used only to steer the generator towards accepted types)."""
    k = t[0]
    if k in "PSUE":
        return True
    if k == "*":
        if t[1][0] == "F":
            f = t[1]
            r = f[2]
            if not tree_ok(d, r) or r[0] in "AF" or not (sized(d, r) or r == ("P", "void")):
                return False
            for a in f[1]:
                if not tree_ok(d, a) or a[0] == "F":
                    return False
                if not f[3] and not (a[0] == "A" or sized(d, a)):
                    return False
            return True
        return tree_ok(d, t[1])
    if k == "A":
        return tree_ok(d, t[2]) and sized(d, t[2])
    return False


def resolve(d, t):
    """Expand ('T', name) leaves."""
    k = t[0]
    if k == "T":
        if t[1] == "FILE":
            return ("S", "_IO_FILE")
        for nm, tt in d.typedefs:
            if nm == t[1]:
                return tt
        raise AssertionError(t)
    if k == "*":
        return ("*", resolve(d, t[1]))
    if k == "A":
        return ("A", t[1], resolve(d, t[2]))
    if k == "F":
        return ("F", [resolve(d, a) for a in t[1]], resolve(d, t[2]), t[3])
    return t


def gen_base(rng, d):
    r = rng.random()
    if r < 0.42:
        return ("P", rng.choice(COMMON_PRIMS))
    if r < 0.52:
        return ("P", rng.choice(PRIM_NAMES))
    if r < 0.70 and d.typedefs:
        return ("T", rng.choice(d.typedefs)[0])
    if r < 0.88 and d.aggs:
        tag, kind, _, cn = rng.choice(d.aggs)
        if tag.startswith("$"):
            return ("T", cn)
        return (kind, tag)
    if r < 0.96 and d.enums:
        return ("E", rng.choice(d.enums)[0])
    if r < 0.98:
        return ("T", "FILE")
    return ("P", "int")


def gen_tree(rng, d, depth, arg=False, result=False, item=False, strict=False):
    """A random type tree with ('T', name) leaves for typedef uses; mostly accepted by the backend."""
    t = gen_base(rng, d)
    n = rng.choice([0, 0, 1, 1, 1, 2, 2, 3]) if depth > 0 else rng.choice([0, 0, 1])
    for _ in range(n):
        rt = resolve_T(d, t)
        r = rng.random()
        wild = rng.random() < 0.04 and not strict         # let a few ill-formed trees through
        if r < 0.5:
            t = ("*", t)
        elif r < 0.8:
            if rt[0] == "F" or (not wild and not sized(d, rt)):
                t = ("*", t)
            else:
                ln = rng.choice([0, 1, 2, 3, 5, 8, 10, 16, 64, 255])
                t = ("A", ln, t)
        else:
            if depth <= 0 or rt[0] == "F" or (not wild and (rt[0] == "A" or not (sized(d, rt) or rt == ("P", "void")))):
                t = ("*", t)
            else:
                ell = rng.random() < 0.25
                args = []
                for _ in range(rng.choice([0, 1, 1, 2, 3])):
                    a = gen_tree(rng, d, depth - 1, arg=True, strict=strict)
                    ra = resolve_T(d, a)
                    if strict and ra == ("P", "void"):
                        a = ("*", a)            # `(void, ...)` is not C: never in the cdef itself
                        ra = resolve_T(d, a)
                    if not wild and not ell and not (ra[0] in "AF" or sized(d, ra)):
                        a = ("*", a)
                    args.append(a)
                if ell and not args:
                    args = [("P", "int")]
                t = ("*", ("F", args, t, ell))
    rt = resolve_T(d, t)
    if (item or result) and rng.random() < 0.95:
        if rt[0] == "F" or (rt[0] == "A" and result) or (not sized(d, rt) and not (result and rt == ("P", "void"))):
            t = ("*", t)
    if not arg and not result and not item and rng.random() < 0.1 and sized(d, rt) and rt[0] != "F":
        t = ("A", None, t)              # open array, outermost only
    return t


def resolve_T(d, t):
    return resolve(d, t)


# --------------------------------------------------------------------------
# rendering with variations

def sp(rng, must=False):
    r = rng.random()
    if must:
        return " " if r < 0.8 else rng.choice(["  ", "\t", "\n", " \t "])
    if r < 0.55:
        return ""
    return " " if r < 0.9 else rng.choice(["  ", "\t", "\n"])


def quals(rng, p):
    if rng.random() >= p:
        return []
    return rng.choice([["const"], ["volatile"], ["const", "volatile"], ["volatile", "const"], ["const", "const"]])


class Render:
    def __init__(self, rng, d, odd=0.03):
        self.rng, self.d, self.odd = rng, d, odd
        self.feat = set()

    def lit(self, n):
        rng = self.rng
        if n is None:
            return ""
        r = rng.random()
        if r < 0.45:
            return str(n)
        if r < 0.6:
            self.feat.add("octal")
            return "0%o" % n if n else rng.choice(["0", "00"])
        if r < 0.8:
            self.feat.add("hex")
            s = "%x" % n
            if rng.random() < 0.5:
                s = s.upper()
            return rng.choice(["0x", "0X"]) + rng.choice(["", "0", "00"]) + s
        cands = [nm for nm, v in self.d.consts if v == n]
        if cands:
            self.feat.add("named-length")
            return rng.choice(cands)
        return str(n)

    def base(self, t):
        rng = self.rng
        k = t[0]
        if k == "P":
            specs = list(rng.choice(PRIM_SPECS[t[1]]))
            if len(specs) > 1 and rng.random() < 0.5:
                mods = [s for s in specs if s in ("short", "long", "signed", "unsigned")]
                rest = [s for s in specs if s not in mods]
                rng.shuffle(mods)
                specs = mods + rest
                self.feat.add("spec-order")
                if rng.random() < 0.08:
                    rng.shuffle(specs)          # `int` may end up in front: both must reject
            words = specs
        elif k == "T":
            words = [t[1]]
        else:
            words = [{"S": "struct", "U": "union", "E": "enum"}[k], t[1]]
        pre = quals(rng, 0.15)
        post = quals(rng, 0.12)
        if pre or post:
            self.feat.add("qualifier")
        words = pre + words + post
        if len(words) > 2 and rng.random() < self.odd:
            words.insert(rng.randint(1, len(words) - 1), rng.choice(["const", "volatile"]))
        out = words[0]
        for w in words[1:]:
            out += sp(rng, True) + w
        return out

    def params(self, f):
        rng = self.rng
        parts = []
        for a in f[1]:
            nm = rng.choice(VAR_NAMES) if rng.random() < 0.15 else ""
            parts.append(self.decl(a, nm))
        if f[3]:
            parts.append("...")
            self.feat.add("variadic")
        if not parts:
            if rng.random() < 0.8:
                self.feat.add("void-params")
                return "void"
            self.feat.add("empty-params")
            return ""
        sep = "," + sp(rng)
        return sep.join(parts)

    def decl(self, t, d=""):
        rng = self.rng
        k = t[0]
        if k in "PSUET":
            b = self.base(t)
            if not d:
                return b
            if d[0] in "([*" and rng.random() < 0.6:
                return b + sp(rng) + d
            return b + sp(rng, True) + d
        if k == "*":
            q = quals(rng, 0.12)
            if q:
                self.feat.add("qualifier")
            qs = "".join(sp(rng, i > 0 or False) + w if i else w for i, w in enumerate(q))
            d2 = "*" + sp(rng) + qs
            if qs and d and (d[0].isalnum() or d[0] in "_$"):
                d2 += sp(rng, True)
            elif qs:
                d2 += sp(rng)
            d2 += d
            inner = t[1]
            need = inner[0] in "AF"
            if need or rng.random() < 0.07:
                if not need:
                    self.feat.add("redundant-parens")
                abi = ""
                pre = ""
                if inner[0] == "F" and rng.random() < 0.15:
                    kwd = rng.choice(["__cdecl", "__stdcall"])
                    self.feat.add(kwd)
                    if rng.random() < 0.5:
                        abi = kwd + sp(rng, True)
                    else:
                        pre = kwd + sp(rng, True)
                d2 = pre + "(" + sp(rng) + abi + d2 + sp(rng) + ")"
                if rng.random() < self.odd:
                    d2 = "(" + d2 + ")"
                    self.feat.add("nested-parens")
            return self.decl(inner, d2)
        if k == "A":
            if d and not d.startswith("(") and (d[0].isalnum() or d[0] in "_$") and rng.random() < self.odd:
                d = "(" + d + ")"            # `int (x)[3]`
            if not d and rng.random() < 0.03:
                self.feat.add("redundant-parens")
                return self.decl(t[2], "(" + "[" + sp(rng) + self.lit(t[1]) + sp(rng) + "])")
            return self.decl(t[2], d + sp(rng) + "[" + sp(rng) + self.lit(t[1]) + sp(rng) + "]")
        if k == "F":
            return self.decl(t[2], d + sp(rng) + "(" + sp(rng) + self.params(t) + sp(rng) + ")")
        raise AssertionError(t)


TOKEN_RE = re.compile(r"[A-Za-z_$][A-Za-z0-9_$]*|[0-9][0-9A-Za-z]*|\.\.\.|\S")


def join_tokens(toks, rng=None):
    out = ""
    for t in toks:
        if out and (out[-1].isalnum() or out[-1] in "_$") and (t[0].isalnum() or t[0] in "_$"):
            out += " "
        elif out and rng is not None and rng.random() < 0.3:
            out += " "
        out += t
    return out


def mutate(rng, s):
    toks = TOKEN_RE.findall(s)
    if not toks:
        return s
    for _ in range(rng.choice([1, 1, 1, 2])):
        if not toks:
            break
        i = rng.randrange(len(toks))
        r = rng.random()
        if r < 0.4:
            del toks[i]
        elif r < 0.7:
            toks.insert(i, toks[i])
        elif len(toks) > 1:
            j = rng.randrange(len(toks))
            toks[i], toks[j] = toks[j], toks[i]
    return join_tokens(toks, rng)


def gen_strings(rng, d, n):
    """[(string, kind, features)]"""
    out = []
    for _ in range(n):
        t = gen_tree(rng, d, 2)
        r = Render(rng, d)
        name = rng.choice(VAR_NAMES) if rng.random() < 0.06 else ""
        s = r.decl(t, name)
        if name:
            r.feat.add("named")
        if rng.random() < 0.3:
            s = rng.choice([" ", "\n", "\t "]) + s
        if rng.random() < 0.3:
            s = s + rng.choice([" ", "\n", "  "])
        out.append((s, "grammar", sorted(r.feat)))
        if rng.random() < 0.45:
            out.append((mutate(rng, s), "near-miss", sorted(r.feat)))
    return out


FIXED = ["int", "long((*))", "unsigned const short", "long const double", "double const _Complex", "const *",
         "long signed signed", "int(const *)", "int[const 3]", "uint64_t(*)) (", "int x, int y", "int(*)(...)",
         "int[0x]", "int[08]", "int[1x5]", "char[9223372036854775807]", "int[9223372036854775808]",
         "char[18446744073709551616]", "int[0b1]", "int[]", "int[][3]", "int[3][]", "void[2]", "int(*)(void, int)",
         "int(*)(int)(int)", "int(int)", "int(*(*)[3])(int, ...)", "FILE", "bool *",
         "int(__stdcall *)(int)", "int(__cdecl *)(int)", "int __stdcall(*)(int)", "int(__stdcall *)",
         "int (*)(int, ...)", "void(*)(int[5])", "void(*)(int(int))", "long long long", "short long", "unsigned float",
         "float _Complex", "_Complex float", "long double _Complex", "int *[3]", "int (*[3])[4]", "int(*volatile const)",
         "", " ", "*", "(", "int)", "int[", "int[3", "...", "int(...)", "struct", "struct int", "enum", "unsigned T_undefined",
         "undefined_name", "int $x", "signed char", "char signed", "int unsigned", "long int long", "long unsigned long",
         "int (x)", "int (x)[3]", "int (*x)", "int ([3])", "int ((*x))", "int (*(x))", "int . .", "int ....", "int[3]x",
         "int x[3]", "int x y", "int(*fp)(int a, char *b)", "int(*)(int, )", "int(*)(, int)", "int(*)(void void)",
         "int(void)", "void(*)(void)", "void(*)(void *)", "void (*)(void )", "int(*)(int void)"]


# --------------------------------------------------------------------------
# running the three parsers

def _quiet(fn):
    so = os.dup(1)
    devnull = os.open(os.devnull, os.O_WRONLY)
    sys.stdout.flush()
    os.dup2(devnull, 1)
    try:
        return fn()
    finally:
        sys.stdout.flush()
        os.dup2(so, 1)
        os.close(devnull)
        os.close(so)


_modcount = [0]


def make_ffis(ctx, cdef):
    """(in-line FFI, out-of-line ffi) for one cdef text."""
    import cffi
    import warnings
    fi = cffi.FFI()
    with warnings.catch_warnings():
        warnings.simplefilter("ignore")
        fi.cdef(cdef)
    fb = cffi.FFI()
    with warnings.catch_warnings():
        warnings.simplefilter("ignore")
        fb.cdef(cdef)
    _modcount[0] += 1
    modname = "_c07_mod_%d_%d" % (os.getpid(), _modcount[0])
    fb.set_source(modname, None)
    path = os.path.join(ctx.scratch, modname + ".py")
    _quiet(lambda: fb.emit_python_code(path))
    if ctx.scratch not in sys.path:
        sys.path.insert(0, ctx.scratch)
    importlib.invalidate_caches()
    m = importlib.import_module(modname)
    return fi, m.ffi


def real_ellipsis(ct):
    """`ct.ellipsis` answers True whenever no libffi cif could be prepared (union/complex arguments); read the
    name instead: the parameter list follows the name position."""
    import _cffi_backend
    nm = _cffi_backend.getcname(ct, "&")
    i = nm.index("&")
    if nm[i + 1:i + 3] != ")(":
        return bool(ct.ellipsis)      # the name position is not where it belongs (C08's subject): best effort
    depth, j = 1, i + 3
    while depth and j < len(nm):
        depth += {"(": 1, ")": -1}.get(nm[j], 0)
        j += 1
    return nm[i + 3:j - 1].endswith("...")


def ctype_tree(ct, d, depth=0, alias=False):
    """Tree of a real ctype by introspection (kind, item, length, args, result, ellipsis, cname of leaves).
    alias=True: an aggregate named after the typedef that the in-line FFI forces on it is mapped to its tag."""
    if depth > 60:
        raise InfraError("ctype nesting too deep")
    k = ct.kind
    if k == "primitive":
        return ("P", ct.cname)
    if k == "void":
        return ("P", "void")
    if k == "pointer":
        return ("*", ctype_tree(ct.item, d, depth + 1, alias))
    if k == "array":
        return ("A", ct.length, ctype_tree(ct.item, d, depth + 1, alias))
    if k in ("struct", "union", "enum"):
        kk = {"struct": "S", "union": "U", "enum": "E"}[k]
        return (kk, d.agg_tag_of_cname(kk, ct.cname, alias) if d else ct.cname)
    if k == "function":
        return ("*", ("F", [ctype_tree(a, d, depth + 1, alias) for a in ct.args],
                      ctype_tree(ct.result, d, depth + 1, alias), real_ellipsis(ct)))
    raise InfraError("unknown ctype kind %r" % (k,))


def typeof(ffi, s):
    """('ok', ctype) or ('err', exception type name)."""
    import warnings
    try:
        with warnings.catch_warnings():
            warnings.simplefilter("ignore")
            return ("ok", ffi.typeof(s))
    except Exception as e:           # any refusal; which exception types are allowed is C30's property
        return ("err", type(e).__name__)


def same_type(ra, rb, d):
    """The property's relation between the two answers.  Returns (agree, description)."""
    if ra[0] == "err" and rb[0] == "err":
        return True, "both reject"
    if ra[0] != rb[0]:
        return False, "one parser rejects: in-line %s, out-of-line %s" % (show(ra), show(rb))
    ta, tb = ctype_tree(ra[1], d), ctype_tree(rb[1], d)
    if ta != tb:
        return False, "different types: in-line %s, out-of-line %s" % (ra[1].cname, rb[1].cname)
    if not has_aggregate(ta) and ra[1] is not rb[1]:
        return False, "equal non-aggregate types are not one object: %s" % ra[1].cname
    return True, "same type"


def show(r):
    return r[1].cname if r[0] == "ok" else "<%s>" % r[1]


# --------------------------------------------------------------------------
# known classes: feature + repair, verified on the real parsers

def toks_of(s):
    return TOKEN_RE.findall(s)


MODS = ("short", "long", "signed", "unsigned")
SPEC = MODS + ("int", "char", "double", "float", "void", "_Bool", "_Complex")
QUAL = ("const", "volatile")
ABI = ("__cdecl", "__stdcall")
IDENT_RE = re.compile(r"[A-Za-z_$][A-Za-z0-9_$]*$")


def _pairs(toks):
    match, st = {}, []
    for i, t in enumerate(toks):
        if t == "(":
            st.append(i)
        elif t == ")" and st:
            match[st.pop()] = i
    return match


def _rep_nested_grouping(toks, d):
    """remove a parenthesis pair whose content (after calling-convention keywords) starts with `(`"""
    out = []
    for i, j in sorted(_pairs(toks).items()):
        k = i + 1
        while k < j and toks[k] in ABI:
            k += 1
        if k < j and toks[k] == "(":
            out.append(toks[:i] + toks[i + 1:j] + toks[j + 1:])
    return out


def _rep_qual_between(toks, d):
    """move qualifiers standing between two specifiers to the front of the specifier run"""
    for i, t in enumerate(toks):
        if t in QUAL and i > 0:
            j = i
            while j > 0 and toks[j - 1] in QUAL:
                j -= 1
            k = i
            while k + 1 < len(toks) and toks[k + 1] in QUAL:
                k += 1
            if j > 0 and k + 1 < len(toks):
                prev, nxt = toks[j - 1], toks[k + 1]
                if (prev in MODS and nxt in SPEC) or (prev in ("float", "double") and nxt == "_Complex"):
                    b = j - 1
                    while b > 0 and (toks[b - 1] in SPEC or toks[b - 1] in QUAL):
                        b -= 1
                    return [toks[:b] + toks[j:k + 1] + toks[b:j] + toks[k + 1:]]
    return []


def _is_type_name(t, d):
    return (t in KEYWORDS or t in PRIM_SPECS or t in ("FILE", "bool")
            or any(t == nm for nm, _ in d.typedefs))


def _implicit_int_sites(toks, d):
    """qualifiers at the start of a declaration that are not followed by a type specifier"""
    n = len(toks)
    for i in range(n):
        if (i == 0 or toks[i - 1] in ("(", ",")) and toks[i] in QUAL:
            j = i
            while j < n and toks[j] in QUAL:
                j += 1
            if j == n or toks[j] in ("*", ")", ",", "[", "(") or \
                    (IDENT_RE.match(toks[j]) and not _is_type_name(toks[j], d)):
                yield i, j


def _rep_qual_first_group(toks, d):
    """`T ( const …` : an opening parenthesis that is the first one of its declarator and is followed by a qualifier is
    a grouping parenthesis for the C parser, the start of a parameter list for pycparser"""
    out = []
    for i, j in _implicit_int_sites(toks, d):
        if i >= 2 and toks[i - 1] == "(" and toks[i - 2] not in ("(", ",", ")", "]"):
            out.append(toks[:i] + ["int"] + toks[i:])          # `(int const *`
    for i in range(2, len(toks)):
        if toks[i - 1] == "(" and toks[i - 2] not in ("(", ",", ")", "]") and toks[i] in QUAL:
            j = i
            while j < len(toks) and toks[j] in QUAL:
                j += 1
            k = j
            while k < len(toks) and (toks[k] in SPEC or toks[k] in ("struct", "union", "enum")
                                     or (k > j and toks[k - 1] in ("struct", "union", "enum"))
                                     or (k == j and _is_type_name(toks[k], d))):
                k += 1
            if k > j:
                out.append(toks[:i] + toks[j:k] + toks[i:j] + toks[k:])   # specifiers first, then the qualifiers
    return out


def _rep_implicit_int(toks, d):
    out = []
    for i, j in _implicit_int_sites(toks, d):
        out.append(toks[:j] + ["int"] + toks[j:])
        out.append(toks[:i] + ["int"] + toks[i:])
    return out


def _rep_signed_ignored(toks, d):
    """cparser.py drops `signed` prefixes before it looks at the rest: a repeated `signed`, or `signed` next to
    `unsigned`, is accepted in-line"""
    out = []
    i = 0
    while i < len(toks):
        if toks[i] in SPEC or toks[i] in QUAL:
            j = i
            while j < len(toks) and (toks[j] in SPEC or toks[j] in QUAL):
                j += 1
            run = range(i, j)
            signs = [k for k in run if toks[k] in ("signed", "unsigned")]
            idx = [k for k in run if toks[k] == "signed"][:4]
            odd = any(toks[k] in ("double", "float", "void", "_Bool", "_Complex") for k in run)
            if (len(signs) >= 2 or odd) and idx:
                for mask in range(1, 1 << len(idx)):
                    drop = set(idx[b] for b in range(len(idx)) if mask >> b & 1)
                    out.append([t for k, t in enumerate(toks) if k not in drop])
            i = j
        else:
            i += 1
    return out


def _rep_qual_in_brackets(toks, d):
    for i in range(len(toks) - 1):
        if toks[i] == "[" and toks[i + 1] in QUAL + ("static",):
            return [toks[:i + 1] + toks[i + 2:]]
    return []


def _rep_trailing(toks, d):
    """cut at the first unbalanced `)` or top-level `,`"""
    depth = 0
    for i, t in enumerate(toks):
        if t in "([":
            depth += 1
        elif t in ")]":
            if depth == 0:
                return [toks[:i]] if i > 0 else []
            depth -= 1
        elif t == "," and depth == 0:
            return [toks[:i]] if i > 0 else []
    return []


def _rep_ellipsis_only(toks, d):
    for i in range(len(toks) - 2):
        if toks[i] == "(" and toks[i + 1] == "..." and toks[i + 2] == ")":
            return [toks[:i + 1] + ["int", ","] + toks[i + 1:]]
    return []


def _rep_ellipsis_as_name(toks, d):
    """`...` becomes the identifier __dotdotdot__ for pycparser: where a declarator name may stand it is a parameter name"""
    out = []
    for i, t in enumerate(toks):
        if t == "...":
            b = i
            while b > 0 and toks[b - 1] in ("int", "long", "short", "signed", "unsigned", "char", "double", "float"):
                b -= 1          # cparser turns `long ...` into the identifier __dotdotdotint__
            if b > 0 and toks[b - 1] not in (",", "("):
                out.append(toks[:b] + toks[i + 1:])
            if b < i and i > 0:
                out.append(toks[:i] + toks[i + 1:])
    return out


def _rep_binary_literal(toks, d):
    for i, t in enumerate(toks):
        if re.match(r"0[bB][01]+$", t):
            return [toks[:i] + [str(int(t[2:], 2))] + toks[i + 1:]]
    return []


def _rep_abi(toks, d):
    if any(t in ABI for t in toks):
        return [[t for t in toks if t not in ABI]]
    return []


def _rep_paren_name(toks, d):
    """parentheses around a declarator that starts with its name: `int (x)`, `int (x[2])[3]`"""
    out = []
    for i, j in sorted(_pairs(toks).items()):
        if i > 0 and i + 1 < j and IDENT_RE.match(toks[i + 1]) and not _is_type_name(toks[i + 1], d) \
                and toks[i - 1] not in ("(", ","):
            out.append(toks[:i] + toks[i + 1:j] + toks[j + 1:])
    return out


def _rep_typedef_as_name(toks, d):
    """the C parser takes any identifier after the specifiers as the variable name, pycparser does not accept a
    typedef name there"""
    names = [nm for nm, _ in d.typedefs] + list(PRIM_SPECS) + ["FILE", "bool"]
    return [toks[:i] + ["zz9_"] + toks[i + 1:] for i, t in enumerate(toks)
            if i > 0 and t in names and IDENT_RE.match(t) and t not in KEYWORDS]


def _rep_qualified_void(toks, d):
    """only the bare `(void)` is an empty parameter list for the C parser; cparser.py also takes a qualified void,
    a named one (`void x`) and a typedef of void"""
    voids = ["void"] + [nm for nm, t in d.typedefs if t == ("P", "void")]
    for i, j in sorted(_pairs(toks).items()):
        inner = toks[i + 1:j]
        core = [t for t in inner if t not in QUAL]
        if inner != ["void"] and 1 <= len(core) <= 2 and core[0] in voids and \
                (len(core) == 1 or (IDENT_RE.match(core[1]) and not _is_type_name(core[1], d))):
            return [toks[:i + 1] + ["void"] + toks[j:]]
    return []


def _rep_no_specifier(toks, d):
    """a string that starts with its declarator: pycparser assumes int"""
    if toks and (toks[0] in ("*", "(", "[") or toks[0] in ABI):
        return [["int"] + toks]
    return []


def _rep_function_typedef_param(toks, d):
    """a parameter declared with a bare function typedef: pycparser's front end adjusts it to a pointer, the C
    parser only adjusts function declarators it sees itself"""
    fnames = [nm for nm, t in d.typedefs if t[0] == "F"]
    out = []
    for i, t in enumerate(toks):
        if t in fnames:
            b = i
            while b > 0 and toks[b - 1] in QUAL:
                b -= 1
            e = i + 1
            while e < len(toks) and toks[e] in QUAL:
                e += 1
            if e < len(toks) and IDENT_RE.match(toks[e]) and toks[e] not in KEYWORDS:
                e += 1
            if b > 0 and toks[b - 1] in ("(", ",") and e < len(toks) and toks[e] in (",", ")"):
                out.append(toks[:i + 1] + ["*"] + toks[i + 1:])
    return out


def undeclared_tags(toks, d):
    res = []
    for i in range(len(toks) - 1):
        if toks[i] in ("struct", "union", "enum") and IDENT_RE.match(toks[i + 1]) and toks[i + 1] not in KEYWORDS:
            tag = toks[i + 1]
            if toks[i] == "enum":
                ok = any(tg == tag for tg, _ in d.enums)
            else:
                ok = any(tg == tag and k == ("U" if toks[i] == "union" else "S") for tg, k, _, _ in d.aggs)
            if not ok and (toks[i], tag) not in res:
                res.append((toks[i], tag))
    return res


# class name -> (reference parser whose reading the repair must preserve, 'type' | 'verdict', candidates(toks, decls))
KNOWN = [
    ("C07/nested-grouping", "py", "type", _rep_nested_grouping),
    ("C07/qualifier-between-specifiers", "py", "type", _rep_qual_between),
    ("C07/repeated-signed", "py", "type", _rep_signed_ignored),
    ("C07/qualifier-in-brackets", "py", "type", _rep_qual_in_brackets),
    ("C07/parenthesised-name", "py", "type", _rep_paren_name),
    ("C07/trailing-garbage-after-unbalanced", "py", "type", _rep_trailing),
    ("C07/qualifier-first-group", "py", "type", _rep_qual_first_group),
    ("C07/implicit-int", "py", "type", _rep_implicit_int),
    ("C07/implicit-int", "py", "type", _rep_no_specifier),
    ("C07/qualified-void-parameter", "py", "type", _rep_qualified_void),
    ("C07/binary-literal", "py", "type", _rep_binary_literal),
    ("C07/function-typedef-parameter", "py", "type", _rep_function_typedef_param),
    ("C07/ellipsis-as-name", "py", "type", _rep_ellipsis_as_name),
    ("C07/calling-convention-placement", "py", "type", _rep_abi),
    ("C07/ellipsis-only", "c", "verdict", _rep_ellipsis_only),
    ("C07/typedef-name-as-variable", "c", "type", _rep_typedef_as_name),
    ("C07/calling-convention-placement", "c", "type", _rep_abi),
]
OTHER_CLASSES = ["C07/struct-named-by-typedef", "C07/undeclared-tag"]
CLASSES = {name: (lambda case, name=name: case.get("class") == name)
           for name in sorted(set(k[0] for k in KNOWN)) + OTHER_CLASSES}


def equal_result(a, b, d, mode="type", alias=False):
    if a[0] == "err" or b[0] == "err":
        return a[0] == b[0]
    if mode == "verdict":
        return True
    ta, tb = ctype_tree(a[1], d, alias=alias), ctype_tree(b[1], d, alias=alias)
    return ta == tb and (has_aggregate(ta) or a[1] is b[1])


class Runner:
    """Fresh FFIs for one declaration context (optionally with extra declarations)."""

    def __init__(self, ctx, d):
        self.ctx, self.d = ctx, d
        self.c = {}

    def py(self, s, extra=""):
        import cffi
        import warnings
        f = cffi.FFI()
        with warnings.catch_warnings():
            warnings.simplefilter("ignore")
            f.cdef(self.d.cdef + extra)
        return typeof(f, s)

    def cc(self, s, extra=""):
        if extra not in self.c:
            self.c[extra] = make_ffis(self.ctx, self.d.cdef + extra)[1]
        return typeof(self.c[extra], s)


def classify(s, run, d, model_matches_c):
    """Explain a divergence at `s` by known classes, constructively.  Returns (class name | None)."""
    def agree(x, extra=""):
        return equal_result(run.py(x, extra), run.cc(x, extra), d, alias=True)

    strict = equal_result(run.py(s), run.cc(s), d)
    if strict:
        return "not-reproduced"
    if agree(s):
        return "C07/struct-named-by-typedef"        # equal up to the name the in-line FFI gives typedef'd aggregates
    toks, cur, first, side, extra = toks_of(s), s, None, None, ""
    und = undeclared_tags(toks, d)
    if und:
        # in-line FFIs declare unknown tags implicitly; with the tags declared both must read the same type
        decl = "".join("enum %s { %s__only };\n" % (tag, tag) if kw == "enum" else "%s %s;\n" % (kw, tag)
                       for kw, tag in und)
        a0, a1 = run.py(s), run.py(s, decl)
        if a0[0] == a1[0] and model_matches_c:
            if agree(s, decl):
                return "C07/undeclared-tag"
            extra, first = decl, "C07/undeclared-tag"
    for _ in range(8):
        progressed = False
        for name, ref, mode, rep in KNOWN:
            if side is not None and ref != side:
                continue
            if ref == "py" and not model_matches_c:
                continue          # the C parser does not behave as its model here: not a known divergence
            refrun = run.py if ref == "py" else run.cc
            for new in rep(toks, d):
                if new == toks:
                    continue
                s2 = join_tokens(new)
                if not equal_result(refrun(cur, extra), refrun(s2, extra), d, mode):
                    continue          # the repair changed what the reference parser reads
                toks, cur, first, side, progressed = new, s2, first or name, ref, True
                break
            if progressed:
                if agree(cur, extra):
                    return first
                break
        if not progressed:
            return None
    return None



def translators(ctx):
    sys.path.insert(0, os.path.join(common.VERIF, "translate"))
    import typenames
    return [typenames.translate]


# --------------------------------------------------------------------------
# the check

def nontrivial(s):
    toks = toks_of(s)
    return any(t in "*[(" for t in toks) or len(toks) > 1


def run_context(ctx, d, strings, lines, expect):
    fi, fc = make_ffis(ctx, d.cdef)
    ml = d.model_lines()
    lines += ml
    expect += [None] * len(ml)
    for s, kind, feat in strings:
        case = {"cdef": d.cdef, "s": s, "kind": kind}
        ra, rb = typeof(fi, s), typeof(fc, s)
        ctx.case((d.idx, s) if nontrivial(s) else None,
                 sample={"s": s, "kind": kind, "in-line": show(ra), "out-of-line": show(rb)})
        ctx.count("%s:%s" % (kind, "accept" if rb[0] == "ok" else "reject"))
        for f in feat:
            ctx.count("feature:" + f)
        if rb[0] == "err":
            ctx.count("c-error:" + rb[1])
        if ra[0] == "err":
            ctx.count("py-error:" + ra[1])
        agree, why = same_type(ra, rb, d)
        lines.append("typeof " + hx(s))
        expect.append((case, rb, d, None if agree else why))


def model_vs_c(o, rb, d):
    """None if the model's answer `o` matches the C parser's result, else a description."""
    w = o.split(" ")
    if rb[0] == "err":
        if w[0] != "err":
            return "C parser rejects, model accepts"
        if w[1] == "Parse" and rb[1] not in ("error", "FFIError"):
            return "model: parse error, implementation raised another type"
        if w[1] == "Fuel":
            return "model ran out of fuel"
        return None
    if w[0] != "ok":
        return "C parser accepts, model rejects"
    name, hist = unhx(w[1]), w[3] == "1"
    mtree, _ = words_tree(w, 4)
    itree = ctype_tree(rb[1], d)
    if mtree != itree:
        return "type trees differ: model %r, implementation %r" % (mtree, itree)
    if not hist and name != rb[1].cname:
        return ("name", name)
    return None


def recheck_names(ctx, pending):
    """A function type is identified by its decayed parameter types, its name keeps the spelling (`T[10]` or `T *`)
    of whichever equal type was built first in this process.  A name that differs from the model's must at least
    denote the same type: the model re-parses it (in the case's context) to the same tree."""
    lines, exp = [], []
    for case, rb, d, name in pending:
        ml = d.model_lines()
        lines += ml + ["typeof " + hx(rb[1].cname)]
        exp += [None] * len(ml) + [(case, rb, d, name)]
    out = ctx.driver(lines) if lines else []
    for o, e in zip(out, exp):
        if e is None:
            continue
        case, rb, d, name = e
        w = o.split(" ")
        ok = w[0] == "ok" and words_tree(w, 4)[0] == ctype_tree(rb[1], d)
        ctx.count("name-spelling-from-an-earlier-equal-type" if ok else "name-mismatch")
        if not ok:
            ctx.disagree(case, rb[1].cname, name, "names differ and the implementation's name does not denote the type")


def judge(ctx, out, expect, with_model=True):
    runners = {}
    pending = []
    for o, e in zip(out, expect):
        if e is None:
            continue
        case, rb, d, why = e
        dis = model_vs_c(o, rb, d)
        if isinstance(dis, tuple):
            if with_model:
                pending.append((case, rb, d, dis[1]))
            dis = None
        if dis is not None and with_model:
            ctx.disagree(case, show(rb), o, dis)
            if os.environ.get("VERIF_DEBUG"):
                common.log("DISAGREE %r impl=%s model=%s (%s)" % (case["s"], show(rb), o, dis))
        if why is None:
            continue
        run = runners.setdefault(d.idx, Runner(ctx, d))
        cls = classify(case["s"], run, d, dis is None)
        if cls == "not-reproduced":
            ctx.count("divergence-not-reproduced-on-fresh-ffi")
            continue
        if cls is not None:
            case["class"] = cls
            ctx.count("known:" + cls)
            ctx.known_hits.setdefault(cls, {"case": case, "detail": why})
            if any(f["class"] == cls for f in ctx.open_findings):
                ctx.fail(case, why)
        else:
            if os.environ.get("VERIF_DEBUG"):
                common.log("FAIL %s" % __import__("json").dumps({"cdef": case["cdef"], "s": case["s"], "why": why}))
            ctx.fail(case, why)
    recheck_names(ctx, pending)


def correspond(ctx):
    nctx = ctx.n(28, 900)
    per = ctx.n(45, 70)
    lines, expect = [], []
    d0 = Decls(ctx.rng, 0)
    run_context(ctx, d0, [(s, "fixed", []) for s in FIXED], lines, expect)
    for i in range(1, nctx + 1):
        d = Decls(ctx.rng, i)
        run_context(ctx, d, gen_strings(ctx.rng, d, per), lines, expect)
    out = ctx.driver(lines)
    judge(ctx, out, expect)


def search(ctx):
    lines, expect = [], []
    for i in range(ctx.n(60, 600)):
        d = Decls(ctx.rng, 10000 + i)
        run_context(ctx, d, gen_strings(ctx.rng, d, 60), lines, expect)
    out = ctx.driver(lines)
    judge(ctx, out, expect, with_model=False)


def replay(ctx, obj):
    case = obj["case"]
    fi, fc = make_ffis(ctx, case["cdef"])
    ra, rb = typeof(fi, case["s"]), typeof(fc, case["s"])
    agree, why = same_type(ra, rb, None)
    print("typeof(%r): in-line %s, out-of-line %s -> %s" % (case["s"], show(ra), show(rb), why))
    return 0 if agree else 1


WITNESS_CDEF = "typedef int T0;\n"


def check_witness(ctx, finding):
    w = finding["witness"]
    fi, fc = make_ffis(ctx, w.get("cdef", WITNESS_CDEF))
    ra, rb = typeof(fi, w["s"]), typeof(fc, w["s"])
    return not same_type(ra, rb, None)[0]
