"""C02 -- bit-field reads and writes are range-exact, round-trip and isolated.

Theorems (lean/CffiVerif/Props/C02.lean) over the model of
convert_to_object_bitfield / convert_from_object_bitfield whose arithmetic
expressions are regenerated from the C source (translate/bitfield.py):
shifts_in_range, read_is_c_semantics, store_accepts_iff, reject_is_overflow,
store_isolated, read_after_store.

Tie to the code: (1) the regenerated expressions; (2) correspondence: structs
with bit-fields at many (type, width, bit offset) placements are built through
cdef; stores of boundary / random Python ints are executed on the real backend
and on the Lean model, comparing outcome and the bytes of the storage unit;
(3) property oracle independent of the model: plain-Python range arithmetic on
the struct's bytes, and a gcc-compiled accessor library reading and writing the
same structs (the value C sees).
"""
import ctypes
import os
import sys

import common
from common import InfraError

sys.path.insert(0, os.path.join(common.VERIF, "translate"))

MANIFEST = {
    "text": "Kernel-checked theorems, for every well-formed bit-field (unit size 1/2/4/8, any width 1..8*size, any "
            "shift), every storage content and every Python int: a store is accepted iff the value is in the C range of "
            "the field (signed 1-bit also accepts 1), a rejected store is an OverflowError, an accepted store changes "
            "only the field's bits, reading after it returns the value (-1 in the 1-bit case), the value read is the "
            "zero/sign extension of the field's bits as C reads it, and no shift count in the two C functions is "
            "outside [0,64). The mask/shift/bound expressions and the full-width early return inside the model are "
            "regenerated from _cffi_backend.c on every run; the hand-written control structure is tied to the code by "
            "differential execution on cdef-built structs and unions of bit-fields, and the C-side value by a gcc-compiled accessor library.",
    "note": "Trusted: Lean kernel; the C-expression translator (translate/cexpr.py, bitfield.py); x86-64 semantics of "
            "variable shifts (count mod 64) as the model of what gcc emits -- the theorem shifts_in_range shows the "
            "model never relies on it; PyLong_AsLongLong / read_raw_*/write_raw_integer_data are modelled by hand "
            "(little-endian, LP64); struct layout itself is C01's subject and is taken from the real ffi.typeof().fields.",
    "technique": "Lean 4 proof over BitVec 64 (bit extensionality + omega) on a model whose expressions are regenerated "
                 "from the C source + differential correspondence + gcc accessor oracle",
}

RULE = ("placements = (integer type, width, leading-bits, leading-char) sampled from all 8 integer types x widths "
        "1..8*size (all widths visited in the thorough tier) plus _Bool:1, plus unions of bit-fields whose member "
        "under test follows a member of width 1, 3, 7 or 8*size-1; values = fmin-1, fmin, -1, 0, 1, fmax, "
        "fmax+1, +-2^63, +-2^64, random in-range and random up to 70 bits; a case (placement, value class) is "
        "non-trivial when the field shares its storage unit with other bits or the value is within 1 of a bound; "
        "distinct = distinct (type, width, shift, value class)")
ASSUMPTIONS = ["little endian, LP64", "gcc's bit-field accessors as the meaning of 'the value C reads'"]

TYPES = [("signed char", 1, True), ("unsigned char", 1, False), ("short", 2, True), ("unsigned short", 2, False),
         ("int", 4, True), ("unsigned int", 4, False), ("long long", 8, True), ("unsigned long long", 8, False),
         ("long", 8, True), ("unsigned long", 8, False)]


def translators(ctx):
    import bitfield
    return [bitfield.translator]


def gen_placements(ctx, n):
    rng = ctx.rng
    out = []
    # all widths of every type in thorough; a stratified sample in quick
    for tname, size, signed in TYPES:
        widths = list(range(1, 8 * size + 1))
        if ctx.quick:
            keep = {1, 2, 8 * size - 1, 8 * size, 7, 8, 9, 31, 32, 33, 63}
            widths = [w for w in widths if w in keep] + rng.sample(widths, min(3, len(widths)))
        for w in sorted(set(widths)):
            room = 8 * size - w
            leads = {0, room} | ({rng.randint(0, room)} if room else set())
            if not ctx.quick:
                leads |= {rng.randint(0, room) for _ in range(3)} if room else set()
            for lead in sorted(leads):
                out.append({"type": tname, "size": size, "signed": signed, "width": w, "lead": lead,
                            "char": rng.random() < 0.3, "tail": rng.random() < 0.5})
    out.append({"type": "_Bool", "size": 1, "signed": False, "width": 1, "lead": 0, "char": False, "tail": True})
    out.append({"type": "_Bool", "size": 1, "signed": False, "width": 1, "lead": 3, "char": True, "tail": False})
    rng.shuffle(out)
    out = out[:n] if n else out
    # unions of bit-fields (every run): each member starts at bit 0 of the union whatever precedes it, so a
    # member declared after a bit-field whose width is not a multiple of 8 must not inherit its bit position
    uni = []
    for tname, size, signed in TYPES:
        for lead in (1, 3, 7, 8 * size - 1):
            for w in sorted({1, 5, 8 * size - lead, 8 * size, rng.randint(1, 8 * size)}):
                if 1 <= w <= 8 * size and 1 <= lead <= 8 * size:
                    uni.append({"type": tname, "size": size, "signed": signed, "width": w, "lead": lead,
                                "char": False, "tail": rng.random() < 0.5, "agg": "union"})
    rng.shuffle(uni)
    return out + (uni[:60] if ctx.quick else uni)


def tag(i, p):
    return "%s bf%d" % (p.get("agg", "struct"), i)


def struct_src(i, p):
    if p.get("agg") == "union":
        lead_t = "unsigned char" if p["type"] == "_Bool" else p["type"]
        fields = ["%s a:%d;" % (lead_t, p["lead"]), "%s x:%d;" % (p["type"], p["width"])]
        if p["tail"]:
            fields.append("%s z:%d;" % (lead_t, max(1, 8 * p["size"] - p["width"])))
        return "union bf%d { %s };" % (i, " ".join(fields))
    fields = []
    if p["char"]:
        fields.append("char c0;")
    lead_t = "unsigned char" if p["type"] == "_Bool" else p["type"]
    if p["lead"]:
        fields.append("%s a:%d;" % (lead_t, p["lead"]))
    fields.append("%s x:%d;" % (p["type"], p["width"]))
    room = 8 * p["size"] - p["width"] - p["lead"]
    if p["tail"] and room > 0:
        fields.append("%s z:%d;" % (lead_t, room))
    return "struct bf%d { %s };" % (i, " ".join(fields))


def values_for(rng, p):
    w, signed = p["width"], p["signed"]
    if signed:
        fmin, fmax = -(1 << (w - 1)), (1 << (w - 1)) - 1
    else:
        fmin, fmax = 0, (1 << w) - 1
    vals = {fmin - 1: "fmin-1", fmin: "fmin", -1: "-1", 0: "0", 1: "1", fmax: "fmax", fmax + 1: "fmax+1",
            2 ** 63: "2^63", -2 ** 63: "-2^63", 2 ** 63 - 1: "2^63-1", -2 ** 63 - 1: "-2^63-1",
            2 ** 64: "2^64", 2 ** 64 - 1: "2^64-1", -2 ** 64: "-2^64"}
    for _ in range(3):
        vals.setdefault(rng.randint(fmin, fmax), "random-in")
    for _ in range(2):
        vals.setdefault(rng.choice([-1, 1]) * rng.getrandbits(rng.randint(1, 70)), "random-any")
    return sorted(vals.items())


def in_range(p, v):
    w = p["width"]
    if p["signed"]:
        return -(1 << (w - 1)) <= v <= (1 << (w - 1)) - 1 or (w == 1 and v == 1)
    return 0 <= v <= (1 << w) - 1


def build(ctx, placements):
    import cffi
    ffi = cffi.FFI()
    cdef = "\n".join(struct_src(i, p) for i, p in enumerate(placements))
    ffi.cdef(cdef)
    # gcc accessor library: what C reads / writes
    csrc = [cdef]
    for i, p in enumerate(placements):
        t = tag(i, p)
        csrc.append("long long get%d(void *p) { return (long long)((%s *)p)->x; }" % (i, t))
        csrc.append("unsigned long long getu%d(void *p) { return (unsigned long long)((%s *)p)->x; }" % (i, t))
        csrc.append("void set%d(void *p, unsigned long long v) { ((%s *)p)->x = v; }" % (i, t))
        csrc.append("int size%d(void) { return sizeof(%s); }" % (i, t))
    cfile = os.path.join(ctx.scratch, "c02_acc_%d.c" % len(os.listdir(ctx.scratch)))
    with open(cfile, "w") as f:
        f.write("\n".join(csrc) + "\n")
    so = cfile[:-2] + ".so"
    common.compile_shared(cfile, so)
    return ffi, ctypes.CDLL(so)


def run_cases(ctx, placements, with_model=True):
    rng = ctx.rng
    ffi, acc = build(ctx, placements)
    lines, expect = [], []
    for i, p in enumerate(placements):
        ct = ffi.typeof(tag(i, p))
        fld = dict(ct.fields)["x"]
        size, shift, width, off = ffi.sizeof(fld.type), fld.bitshift, fld.bitsize, fld.offset
        signed = int(ffi.cast(fld.type, -1)) < 0
        total = ffi.sizeof(ct)
        getattr(acc, "get%d" % i).restype = ctypes.c_longlong
        getattr(acc, "getu%d" % i).restype = ctypes.c_ulonglong
        getattr(acc, "get%d" % i).argtypes = [ctypes.c_void_p]
        getattr(acc, "getu%d" % i).argtypes = [ctypes.c_void_p]
        getattr(acc, "set%d" % i).argtypes = [ctypes.c_void_p, ctypes.c_ulonglong]
        if getattr(acc, "size%d" % i)() != total or width != p["width"] or size != p["size"]:
            # layout is C01's subject; a placement cffi lays out differently from gcc is skipped here
            ctx.count("skipped-layout-differs")
            continue
        ptr = ffi.new(tag(i, p) + " *")
        ctx.count("aggregate:" + p.get("agg", "struct"))
        buf = ffi.buffer(ptr)
        addr = int(ffi.cast("uintptr_t", ptr))
        for v, vclass in values_for(rng, p):
            before = bytes(rng.getrandbits(8) for _ in range(total))
            buf[:] = before
            unit_before = int.from_bytes(before[off:off + size], "little")
            case = {"type": p["type"], "size": size, "signed": signed, "width": width, "shift": shift,
                    "offset": off, "struct": struct_src(i, p), "value": v, "vclass": vclass, "before": before.hex()}
            shares = width < 8 * size
            near = vclass in ("fmin-1", "fmin", "fmax", "fmax+1")
            ctx.case((p["type"], width, shift, vclass) if (shares or near) else None, sample=case)
            # --- C reads the same storage (property: value read == value C reads)
            c_read = getattr(acc, "get%d" % i)(addr) if signed else getattr(acc, "getu%d" % i)(addr)
            got_read = ptr.x
            if int(got_read) != c_read:
                ctx.fail(dict(case, op="read"), "cffi reads %r, C reads %r from the same storage" % (got_read, c_read))
            # --- store
            try:
                ptr.x = v
                outcome = "ok"
            except OverflowError:
                outcome = "OverflowError"
            except Exception as e:          # any other exception type is outside the property
                outcome = type(e).__name__
            after = bytes(buf)
            unit_after = int.from_bytes(after[off:off + size], "little")
            ctx.count("store:" + ("accepted" if outcome == "ok" else outcome))
            ctx.count("vclass:" + vclass)
            exp_ok = in_range(p, v)
            if exp_ok:
                mask = ((1 << width) - 1) << shift
                want_unit = (unit_before & ~mask) | ((v << shift) & mask)
                want = before[:off] + want_unit.to_bytes(size, "little") + before[off + size:]
                want_read = -1 if (signed and width == 1 and v == 1) else v
                if outcome != "ok":
                    ctx.fail(case, "in-range value rejected with %s" % outcome)
                else:
                    if after != want:
                        ctx.fail(case, "bytes after store %s, expected %s" % (after.hex(), want.hex()))
                    rb = ptr.x
                    if rb != want_read:
                        ctx.fail(case, "read back %r, expected %r" % (rb, want_read))
                    c_after = getattr(acc, "get%d" % i)(addr) if signed else getattr(acc, "getu%d" % i)(addr)
                    if c_after != want_read:
                        ctx.fail(case, "C reads %r after the store, expected %r" % (c_after, want_read))
            else:
                if outcome != "OverflowError":
                    ctx.fail(case, "out-of-range value: outcome %s, expected OverflowError" % outcome)
                if after != before:
                    ctx.fail(case, "rejected store changed memory: %s -> %s" % (before.hex(), after.hex()))
            # --- C writes, cffi reads (only representable values: C would truncate others)
            if exp_ok and not (signed and width == 1 and v == 1):
                buf[:] = before
                getattr(acc, "set%d" % i)(addr, v & (2 ** 64 - 1))
                rb = ptr.x
                if rb != v:
                    ctx.fail(dict(case, op="c-write"), "C stored %r, cffi reads %r" % (v, rb))
            if with_model:
                sg = 1 if signed else 0
                lines.append("read %d %d %d %d %d" % (size, sg, shift, width, unit_before))
                expect.append((dict(case, op="read"), "ok %d" % int(got_read)))
                lines.append("write %d %d %d %d %d %d" % (size, sg, shift, width, unit_before, v))
                expect.append((case, "ok %d" % unit_after if outcome == "ok" else
                               ("err overflow" if outcome == "OverflowError" else "exc " + outcome)))
    if with_model and lines:
        out = ctx.driver(lines)
        for o, (case, want) in zip(out, expect):
            if o != want:
                ctx.disagree(case, want, o, "bit-field model vs backend")


def correspond(ctx):
    placements = gen_placements(ctx, ctx.n(160, 0))
    for k in range(0, len(placements), 400):
        run_cases(ctx, placements[k:k + 400])


def search(ctx):
    # every width of every type, more offsets, oracle only
    quick = ctx.quick
    ctx.quick = False
    try:
        placements = gen_placements(ctx, 0)
    finally:
        ctx.quick = quick
    for k in range(0, len(placements), 400):
        run_cases(ctx, placements[k:k + 400], with_model=False)


def replay(ctx, obj):
    import cffi
    case = obj["case"]
    ffi = cffi.FFI()
    src = case["struct"]
    ffi.cdef(src)
    name = src.split("{")[0].strip()
    ptr = ffi.new(name + " *")
    buf = ffi.buffer(ptr)
    buf[:] = bytes.fromhex(case["before"])
    v = int(case["value"])
    print("struct:", src, " before:", case["before"], " read:", ptr.x)
    try:
        ptr.x = v
        print("store", v, "accepted; bytes after:", bytes(buf).hex(), "read back:", ptr.x)
    except Exception as e:
        print("store", v, "raised", type(e).__name__, "; bytes after:", bytes(buf).hex())
    ctx2 = common.Ctx(ctx.prop, ctx.tier, ctx.seed, ctx.scratch)
    # re-evaluate the oracle on exactly this case
    p = {"type": case["type"], "size": case["size"], "signed": case["signed"], "width": case["width"]}
    ok = in_range(p, v)
    buf[:] = bytes.fromhex(case["before"])
    try:
        ptr.x = v
        acc = True
    except OverflowError:
        acc = False
    good = (acc == ok) and (not acc or ptr.x == (-1 if (case["signed"] and case["width"] == 1 and v == 1) else v))
    # what C reads from the same storage (gcc accessor for exactly this aggregate)
    cfile = os.path.join(ctx.scratch, "c02_replay.c")
    with open(cfile, "w") as f:
        f.write(src + "\nlong long get(void *p) { return (long long)((%s *)p)->x; }\n"
                      "unsigned long long getu(void *p) { return (unsigned long long)((%s *)p)->x; }\n" % (name, name))
    acc_lib = ctypes.CDLL(common.compile_shared(cfile, cfile[:-2] + ".so"))
    acc_lib.get.restype, acc_lib.getu.restype = ctypes.c_longlong, ctypes.c_ulonglong
    acc_lib.get.argtypes = acc_lib.getu.argtypes = [ctypes.c_void_p]
    buf[:] = bytes.fromhex(case["before"])
    addr = int(ffi.cast("uintptr_t", ptr))
    c_read = acc_lib.get(addr) if case["signed"] else acc_lib.getu(addr)
    print("C reads", c_read, "from the same storage; cffi reads", ptr.x)
    good = good and int(ptr.x) == c_read
    return 0 if good else 1
