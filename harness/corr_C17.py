"""C17 -- cdata equality, ordering and hashing are mutually consistent.

Theorems (lean/CffiVerif/Props/C17.lean) over the model of cdata_richcompare / cdata_hash and of
CPython's dispatch around them (Model/Compare.lean): eq_imp_hash_eq, ptr_cmp_is_addr_cmp,
prim_cmp_is_value_cmp, mixed_is_notimplemented (+ their Python-level forms).

Tie to the code: pools of objects -- primitive cdata of every primitive type, long double cdata,
pointer / array / struct / union / function cdata at shared and distinct addresses (one address
seen through several types, owning and non-owning cdata classes), Python numbers / bytes / str --
and every ordered pair with at least one cdata:
  * property oracle (no Lean): pointer-like pairs must compare as their addresses (read through
    ffi.cast('uintptr_t', ...)), primitive cdata as the Python value they convert to (int(x),
    float(x), bytes, str, complex(x)), mixed pairs ==False / !=True / TypeError; a == b implies
    hash(a) == hash(b); hash(primitive) == hash(its value); set/dict membership agrees with ==;
  * the model through the driver: the six operators as Python evaluates them, the raw
    tp_richcompare slot (x.__lt__(y) ...: NotImplemented visible), and the hashes
    (_Py_HashPointer of the address, Python's int hash).
Only exception *types* are compared.
"""
import operator
import time

import common
from common import InfraError

MANIFEST = {
    "text": "Kernel-checked theorems on the model of cdata_richcompare/cdata_hash and CPython's comparison dispatch: "
            "whenever a == b holds for two objects of which at least one is a cdata, their hashes are equal (given that "
            "the Python values primitives convert to satisfy the same contract -- a hypothesis); pointer, array, struct and "
            "function cdata compare as their unsigned addresses under all six operators; primitive cdata compare and hash "
            "as their converted value; pointer-like against anything else is NotImplemented (== False, orderings "
            "TypeError). The model is run against the real objects on random pools covering every primitive type, shared "
            "and distinct addresses seen through different types and cdata classes, and Python numbers/bytes/str.",
    "note": "Trusted: CPython's comparison and hashing of int/float/bool/bytes/str/complex (parameters of the model; the "
            "int instance is computed by the model itself), do_richcompare as transcribed, the harness. Comparison of "
            "unrelated C pointers is modelled as unsigned address comparison (what gcc emits on x86-64).",
    "technique": "Lean 4 proof (case analysis over operand kinds and the dispatch order) over definitions re-extracted from "
                 "cdata_richcompare/cdata_hash on every run + differential correspondence on random object pools, with an "
                 "independent address/value oracle",
}

RULE = ("pools of 26 objects drawn from: casts of a small set of colliding numbers (0, 1, -1, 65, 255, 256, -5, 2^31.., 2^63.., "
        "2^64-1, code points) and random 64-bit numbers to every primitive type; long double; pointer-like cdata made from "
        "shared addresses (0, 8, 2^63-8, 2^63, 2^64-8, live allocations and interior addresses) viewed as char*, struct*, "
        "int[2], function pointer, struct/union lvalue, ffi.gc/ffi.from_buffer/owning objects; Python ints, floats (nan, inf, "
        "-0.0), bools, bytes, str, None, complex, tuples. Every ordered pair with at least one cdata, all six operators. A pair "
        "is non-trivial when the two operands are distinct objects; distinct = distinct (recipe a, recipe b) pairs")
ASSUMPTIONS = ["CPython 3.12 do_richcompare / _Py_HashPointer / int hash modulus 2^61-1",
               "comparison of two unrelated pointers compiles to an unsigned comparison"]
CLASSES = {}

CDEF = """
struct c17_s { int a; int b; };
union c17_u { int i; char c; };
enum c17_e { C17_A, C17_B = -5, C17_C = 7 };
enum c17_big { C17_U = 4000000000 };
"""

OPS = [("eq", operator.eq), ("ne", operator.ne), ("lt", operator.lt),
       ("le", operator.le), ("gt", operator.gt), ("ge", operator.ge)]
SWAP = {"eq": "eq", "ne": "ne", "lt": "gt", "le": "ge", "gt": "lt", "ge": "le"}
DUNDER = {"eq": "__eq__", "ne": "__ne__", "lt": "__lt__", "le": "__le__", "gt": "__gt__", "ge": "__ge__"}

NUMS = [0, 1, -1, 2, 65, 97, 127, 128, 255, 256, -5, 7, 2 ** 31 - 1, -2 ** 31, 2 ** 31, 2 ** 32 - 1, 2 ** 32,
        2 ** 63 - 1, -2 ** 63, 2 ** 63, 2 ** 64 - 1, 0x1f600, 4000000000, 2 ** 61 - 1, 2 ** 61, -(2 ** 61 - 1)]
INT_TYPES = ["signed char", "short", "int", "long", "long long", "unsigned char", "unsigned short", "unsigned int",
             "unsigned long", "unsigned long long", "int8_t", "uint8_t", "int16_t", "uint16_t", "int32_t", "uint32_t",
             "int64_t", "uint64_t", "size_t", "ssize_t", "intptr_t", "uintptr_t", "ptrdiff_t", "_Bool",
             "enum c17_e", "enum c17_big"]
NAN = float("nan")
FLOATS = [0.0, -0.0, 1.0, -1.0, 65.0, 0.5, 0.1, 255.0, 256.0, 2.0 ** 31, 2.0 ** 63, -2.0 ** 63, 1e300, 16777217.0,
          float("inf"), float("-inf"), NAN, 4000000000.0, -5.0, 7.0, 128512.0]
ADDRS = [0, 8, 16, 4096, 2 ** 63 - 8, 2 ** 63, 2 ** 63 + 8, 2 ** 64 - 8, 2 ** 64 - 1, 0x7fff12345678]
PTR_VIEWS = ["char *", "void *", "struct c17_s *", "int *", "int(*)(int)", "int[2]", "union c17_u *", "struct c17_s[1]"]
ALLOC_VIEWS = ["self", "char *", "struct c17_s *", "deref", "int[2]", "fn", "field-b", "gc", "plus1", "addressof", "union"]

_state = {}


def _setup(ctx):
    if "ffi" in _state:
        return _state
    import cffi
    ffi = cffi.FFI()
    ffi.cdef(CDEF)
    allocs = [ffi.new("struct c17_s[2]") for _ in range(3)]
    bufs = [bytearray(16) for _ in range(2)]
    _state.update(ffi=ffi, allocs=allocs, bufs=bufs, keep=[])
    return _state


# ---------------------------------------------------------------- recipes -> objects

def gen_recipe(rng):
    r = rng.random()
    if r < 0.30:      # integer-like primitive cdata
        t = rng.choice(INT_TYPES)
        if t == "enum c17_e":
            v = rng.choice((0, -5, 7, 1, 65))
        elif t == "enum c17_big":
            v = rng.choice((4000000000, 0, 65, 7))
        else:
            v = rng.choice(NUMS) if rng.random() < 0.8 else rng.getrandbits(64) - 2 ** 63
        return ["prim", t, v]
    if r < 0.36:
        t = rng.choice(("char", "wchar_t", "char16_t", "char32_t"))
        hi = {"char": 255, "char16_t": 0xffff}.get(t, 0x10ffff)
        v = rng.choice([c for c in (0, 1, 65, 97, 127, 128, 255, 256, 0xd800, 0xffff, 0x1f600, 0x10ffff) if c <= hi])
        return ["prim", t, v]
    if r < 0.44:
        return ["primf", rng.choice(("float", "double")), FLOATS.index(rng.choice(FLOATS))]
    if r < 0.47:
        return ["primc", rng.choice(("float _Complex", "double _Complex")),
                FLOATS.index(rng.choice(FLOATS)), FLOATS.index(rng.choice(FLOATS[:8]))]
    if r < 0.50:
        return ["ld", FLOATS.index(rng.choice(FLOATS))]
    if r < 0.62:
        return ["ptrcast", rng.choice(PTR_VIEWS), rng.choice(ADDRS)]
    if r < 0.76:
        return ["alloc", rng.randrange(3), rng.choice(ALLOC_VIEWS)]
    if r < 0.78:
        return ["frombuf", rng.randrange(2), rng.choice(("char[]", "int[]"))]
    if r < 0.79:
        return ["null"]
    # python values
    k = rng.random()
    if k < 0.40:
        return ["pyint", rng.choice(NUMS) if rng.random() < 0.85 else rng.getrandbits(70) - 2 ** 69]
    if k < 0.60:
        return ["pyfloat", FLOATS.index(rng.choice(FLOATS))]
    if k < 0.68:
        return ["pybool", rng.random() < 0.5]
    if k < 0.78:
        return ["pybytes", rng.choice(("41", "61", "ff", "00", "", "4142", "80"))]
    if k < 0.88:
        return ["pystr", rng.choice(([65], [97], [255], [0], [], [65, 66], [0x1f600], [0xd800], [0x10ffff], [256]))]
    if k < 0.92:
        return ["pynone"]
    if k < 0.97:
        return ["pycomplex", FLOATS.index(rng.choice(FLOATS[:10])), rng.choice((0, 0, 2))]
    return ["pytuple"]


def build(st, rc):
    ffi = st["ffi"]
    k = rc[0]
    if k == "prim":
        return ffi.cast(rc[1], rc[2])
    if k == "primf":
        return ffi.cast(rc[1], FLOATS[rc[2]])
    if k == "primc":
        return ffi.cast(rc[1], complex(FLOATS[rc[2]], FLOATS[rc[3]]))
    if k == "ld":
        return ffi.cast("long double", FLOATS[rc[1]])
    if k == "ptrcast":
        return ffi.cast(rc[1], rc[2])
    if k == "null":
        return ffi.NULL
    if k == "frombuf":
        return ffi.from_buffer(rc[2], st["bufs"][rc[1]])
    if k == "alloc":
        base = st["allocs"][rc[1]]
        v = rc[2]
        if v == "self":
            return base
        if v == "char *":
            return ffi.cast("char *", base)
        if v == "struct c17_s *":
            return ffi.cast("struct c17_s *", base)
        if v == "deref":
            return base[0]
        if v == "int[2]":
            return ffi.cast("int[2]", base)
        if v == "fn":
            return ffi.cast("void(*)(void)", base)
        if v == "field-b":
            return ffi.addressof(base[0], "b")
        if v == "gc":
            return ffi.gc(ffi.cast("struct c17_s *", base), _nothing)
        if v == "plus1":
            return base + 1
        if v == "addressof":
            return ffi.addressof(base[1])
        if v == "union":
            return ffi.cast("union c17_u *", base)[0]
    if k == "pyint":
        return rc[1]
    if k == "pyfloat":
        return FLOATS[rc[1]]
    if k == "pybool":
        return bool(rc[1])
    if k == "pybytes":
        return bytes.fromhex(rc[1])
    if k == "pystr":
        return "".join(chr(c) for c in rc[1])
    if k == "pynone":
        return None
    if k == "pycomplex":
        return complex(FLOATS[rc[1]], rc[2])
    if k == "pytuple":
        return (1, 2)
    raise InfraError("unknown recipe %r" % (rc,))


def _nothing(p):
    pass


class Item(object):
    __slots__ = ("rc", "obj", "kind", "addr", "pv", "unstable", "oid", "cd", "ck")


def classify(st, rc, oid):
    """Kind / address / converted value of an object, obtained without using comparison or hashing."""
    ffi = st["ffi"]
    it = Item()
    it.rc, it.oid = rc, oid
    x = it.obj = build(st, rc)
    it.addr = it.pv = it.ck = None
    it.unstable = False
    it.cd = isinstance(x, ffi.CData)
    if not it.cd:
        it.kind, it.pv = "py", x
    else:
        t = ffi.typeof(x)
        if t.kind in ("pointer", "array", "function"):
            it.kind, it.addr, it.ck = "ptr", int(ffi.cast("uintptr_t", x)), t.kind
        elif t.kind in ("struct", "union"):
            it.kind, it.addr, it.ck = "ptr", int(ffi.cast("uintptr_t", ffi.addressof(x))), t.kind
        elif t.cname == "long double":
            it.kind, it.ck = "ld", "longdouble"
        elif t.kind == "enum":
            it.kind, it.pv = "prim", int(x)
            it.ck = "enum" if int(ffi.cast(t, -1)) < 0 else "uenum"
        elif t.kind == "primitive":
            it.kind = "prim"
            c = t.cname
            if c == "_Bool":
                it.pv, it.ck = bool(int(x)), "bool"
            elif c == "char":
                it.pv, it.ck = bytes([int(x)]), "char"
            elif c in ("wchar_t", "char16_t", "char32_t"):
                it.pv, it.ck = chr(int(x)), "char"
            elif c in ("float", "double"):
                it.pv, it.ck = float(x), "float"
            elif "omplex" in c:
                it.pv, it.ck = complex(x), "complex"
            else:
                it.pv = int(x)
                it.ck = "signed" if int(ffi.cast(t, -1)) < 0 else "unsigned"
        else:
            raise InfraError("unexpected cdata kind %s" % t.kind)
    pv = it.pv
    if isinstance(pv, float) and pv != pv:
        it.unstable = True           # hash(nan) depends on the object identity in CPython >= 3.10
    if isinstance(pv, complex) and (pv.real != pv.real or pv.imag != pv.imag):
        it.unstable = True
    return it


def token(it):
    if it.kind == "ptr":
        return "ptr:%d:%d:%s" % (it.oid, it.addr, it.ck)
    if it.kind == "ld":
        return "ld:%d:0:longdouble" % it.oid
    pre = "p" if it.kind == "prim" else "y"
    suf = ":" + it.ck if it.kind == "prim" else ""
    if isinstance(it.pv, int):       # bool included: compares and hashes as 0/1
        return "%si:%d:%d%s" % (pre, it.oid, int(it.pv), suf)
    return "%so:%d:%d%s" % (pre, it.oid, it.oid, suf)


# ---------------------------------------------------------------- outcomes

def outcome(fn, a, b):
    try:
        r = fn(a, b)
    except Exception as e:      # noqa
        return ("err", type(e).__name__)
    if r is True or r is False:
        return ("ok", r)
    if r is NotImplemented:
        return ("ni", None)
    return ("ok?", repr(type(r)))


def expected(a, b, opname, fn):
    """The property's own statement of what `a op b` must be."""
    if a.kind == "ptr" and b.kind == "ptr":
        return ("ok", fn(a.addr, b.addr))
    if a.kind == "ptr" or b.kind == "ptr":
        if opname == "eq":
            return ("ok", False)
        if opname == "ne":
            return ("ok", True)
        return ("err", "TypeError")
    if a.kind == "ld" or b.kind == "ld":
        return ("err", "NotImplementedError")
    return outcome(fn, a.pv, b.pv)


def fmt(o):
    if o[0] == "ok":
        return "ok True" if o[1] else "ok False"
    if o[0] == "ni":
        return "ni"
    if o[0] == "err":
        return "err " + (o[1] if o[1] in ("TypeError", "NotImplementedError") else "Other")
    return "other " + str(o[1])


def oracle_tok(o):
    if o is None:
        return "-"
    if o[0] == "ok":
        return "T" if o[1] else "F"
    return "E" + o[1]


def safe_hash(x):
    try:
        return ("ok", hash(x))
    except Exception as e:      # noqa
        return ("err", type(e).__name__)


# ---------------------------------------------------------------- one pool

def run_pool(ctx, st, recipes, lines, expect, oracle_only=False, all_slots=True):
    items = [classify(st, rc, i) for i, rc in enumerate(recipes)]
    rng = ctx.rng
    ok = True
    # -- per object: hash
    for it in items:
        if not it.cd:
            continue
        case = {"part": "hash", "a": it.rc}
        ctx.count("hash:" + it.kind)
        ctx.case(("h",) + tuple(map(str, it.rc)), sample=case)
        h = safe_hash(it.obj)
        h2 = safe_hash(it.obj)
        if it.kind == "prim" and not it.unstable:
            hv = safe_hash(it.pv)
            if h != hv:
                ctx.fail(case, "hash(%r) is %r but the value it converts to, %r, hashes to %r" % (it.rc, h, it.pv, hv))
                ok = False
            if not oracle_only:
                lines.append("hash %s %s" % (token(it), "-" if isinstance(it.pv, int) else hv[1]))
                expect.append((case, fmt_hash(h), "hash of a primitive cdata"))
        elif it.kind == "ptr":
            if h[0] != "ok" or h != h2:
                ctx.fail(case, "hash of pointer-like cdata %r is not a stable integer: %r / %r" % (it.rc, h, h2))
                ok = False
            if not oracle_only:
                lines.append("hash %s -" % token(it))
                expect.append((case, fmt_hash(h), "hash of a pointer-like cdata"))
        elif it.kind == "ld":
            if h[0] != "ok" or h != h2:
                ctx.fail(case, "hash of a long double cdata is not a stable integer: %r / %r" % (h, h2))
                ok = False
    # -- pairs
    for a in items:
        for b in items:
            if not (a.cd or b.cd):
                continue
            case = {"part": "pair", "a": a.rc, "b": b.rc}
            ctx.count("pair:%s-%s" % (a.kind, b.kind))
            ctx.case((str(a.rc), str(b.rc)) if a is not b else None, sample=case)
            bsub = type(b.obj) is not type(a.obj) and issubclass(type(b.obj), type(a.obj))
            eq_true = False
            for opname, fn in OPS:
                got = outcome(fn, a.obj, b.obj)
                want = expected(a, b, opname, fn)
                if got != want:
                    ctx.fail(dict(case, op=opname), "%r %s %r gives %r; by address / converted value it must be %r"
                             % (a.rc, opname, b.rc, got, want))
                    ok = False
                if opname == "eq" and got == ("ok", True):
                    eq_true = True
                if oracle_only:
                    continue
                both_vals = a.kind in ("prim", "py") and b.kind in ("prim", "py")
                o1 = outcome(fn, a.pv, b.pv) if both_vals else None
                o2 = outcome(getattr(operator, SWAP[opname]), b.pv, a.pv) if both_vals else None
                lines.append("binop %s %s %s %d %s %s" % (opname, token(a), token(b), 1 if bsub else 0,
                                                          oracle_tok(o1), oracle_tok(o2)))
                expect.append((dict(case, op=opname), fmt(got), "a %s b as Python evaluates it" % opname))
                if a.cd and (all_slots or rng.random() < 0.3):
                    sl = outcome(lambda x, y: getattr(type(x), DUNDER[opname])(x, y), a.obj, b.obj)
                    lines.append("slot %s %s %s %s" % (opname, token(a), token(b), oracle_tok(o1)))
                    expect.append((dict(case, op=opname), fmt(sl), "tp_richcompare slot"))
            if eq_true and not (a.unstable or b.unstable):
                ha, hb = safe_hash(a.obj), safe_hash(b.obj)
                if ha[0] == "ok" and hb[0] == "ok" and ha != hb:
                    ctx.fail(dict(case, op="eq"), "%r == %r is True but the hashes differ: %d, %d" % (a.rc, b.rc, ha[1], hb[1]))
                    ok = False
    # -- membership in set / dict
    members = [it for it in items if it.kind != "ld" and not it.unstable and safe_hash(it.obj)[0] == "ok"]
    half = members[::2]
    S = set(it.obj for it in half)
    D = dict((it.obj, it.oid) for it in half)
    for b in members:
        if not (b.cd or any(a.cd for a in half)):
            continue
        case = {"part": "member", "set": [a.rc for a in half], "b": b.rc}
        ctx.count("membership")
        ctx.case(None)
        want = any(outcome(operator.eq, a.obj, b.obj) == ("ok", True) for a in half)
        got_s, got_d = b.obj in S, b.obj in D
        if got_s != want or got_d != want:
            ctx.fail(case, "%r in set/dict of %d objects: %r/%r, but == finds an equal member: %r"
                     % (b.rc, len(half), got_s, got_d, want))
            ok = False
    return ok


def fmt_hash(h):
    return "ok %d" % h[1] if h[0] == "ok" else "err Other"


def fixed_pools():
    """A few hand-made pools so that the important coincidences always occur."""
    p1 = [["prim", "int", 65], ["prim", "unsigned char", 65], ["prim", "char", 65], ["prim", "wchar_t", 65],
          ["primf", "double", FLOATS.index(65.0)], ["primf", "float", FLOATS.index(65.0)], ["prim", "_Bool", 1],
          ["prim", "enum c17_e", 7], ["prim", "long long", -1], ["prim", "unsigned long long", 2 ** 64 - 1],
          ["pyint", 65], ["pyfloat", FLOATS.index(65.0)], ["pybytes", "41"], ["pystr", [65]], ["pybool", True],
          ["pyint", -1], ["pyint", 2 ** 64 - 1], ["pyint", 1], ["pyint", 7], ["primc", "double _Complex", FLOATS.index(65.0), 0],
          ["pycomplex", FLOATS.index(65.0), 0], ["ld", FLOATS.index(65.0)], ["primf", "float", FLOATS.index(0.1)],
          ["primf", "double", FLOATS.index(0.1)], ["pyfloat", FLOATS.index(0.1)], ["primf", "double", FLOATS.index(-0.0)],
          ["pyint", 0], ["primf", "double", FLOATS.index(NAN)], ["pyfloat", FLOATS.index(NAN)]]
    p2 = [["alloc", 0, v] for v in ALLOC_VIEWS] + [["alloc", 1, "self"], ["alloc", 1, "char *"], ["null"],
         ["ptrcast", "void *", 0], ["ptrcast", "int(*)(int)", 0], ["ptrcast", "char *", 2 ** 63 - 8],
         ["ptrcast", "int *", 2 ** 63], ["ptrcast", "struct c17_s *", 2 ** 64 - 8], ["ptrcast", "void *", 2 ** 64 - 1],
         ["ptrcast", "char *", 8], ["frombuf", 0, "char[]"], ["frombuf", 0, "int[]"], ["frombuf", 1, "char[]"],
         ["pyint", 0], ["pyint", 8], ["prim", "uintptr_t", 8], ["prim", "uintptr_t", 2 ** 64 - 8], ["pynone"],
         ["ld", FLOATS.index(0.0)], ["pyfloat", FLOATS.index(0.0)], ["pybytes", ""], ["pytuple"]]
    return [p1, p2]


def run(ctx, npools, oracle_only=False):
    st = _setup(ctx)
    t0 = time.time()
    lines, expect = [], []
    pools = fixed_pools() + [[gen_recipe(ctx.rng) for _ in range(26)] for _ in range(npools)]
    for i, rcs in enumerate(pools):
        run_pool(ctx, st, rcs, lines, expect, oracle_only, all_slots=(i < 2 or i % 4 == 0))
    if oracle_only or not lines:
        return
    t1 = time.time()
    out = ctx.driver(lines)
    common.log("C17: %d pools, %d model operations; implementation %.1fs, driver %.1fs"
               % (len(pools), len(lines), t1 - t0, time.time() - t1))
    for o, (case, want, what) in zip(out, expect):
        if o != want:
            ctx.disagree(case, want, o, what)


def translators(ctx):
    """Generated/CompareExprs.lean: the flag tests, the six pointer comparisons, the operand order of the delegated
    comparison and the hashed pointer, re-extracted from cdata_richcompare / cdata_hash (translate/c17_exprs.py)."""
    import os
    import sys
    sys.path.insert(0, os.path.join(common.VERIF, "translate"))
    import c17_exprs
    return [c17_exprs.translator]


def correspond(ctx):
    run(ctx, ctx.n(36, 1200))


def search(ctx):
    run(ctx, ctx.n(150, 1500), oracle_only=True)


def replay(ctx, obj):
    st = _setup(ctx)
    case = obj["case"]
    before = len(ctx.failures)

    def fix(rc):
        if rc[0] == "pybytes":
            return rc
        return [int(x) if isinstance(x, str) and x.lstrip("-").isdigit() else x for x in rc]
    if case.get("part") == "member":
        rcs = [fix(r) for r in case["set"]]
        pool = []
        for r in rcs:          # members sit at the even positions of a pool
            pool += [r, ["pynone"]]
        pool.append(fix(case["b"]))
    elif case.get("part") == "hash":
        pool = [fix(case["a"])]
    else:
        pool = [fix(case["a"]), fix(case["b"])]
    run_pool(ctx, st, pool, [], [], oracle_only=True)
    new = ctx.failures[before:]
    for f in new:
        print("still failing:", f["detail"])
    if not new:
        print("the case passes now")
    return 1 if new else 0
