"""C32 -- verify() module names are deterministic and input-sensitive.

Theorems (lean/CffiVerif/Props/C32.lean): parse_flatten, flatten_injective,
kwargs_order_irrelevant, flatten_error_iff, key_injective_partial,
key_not_injective_with_nul, k1_k2_unambiguous, name_collision_only_by_crc(_text),
model_is_the_translated_source over
the model of ffiplatform.flatten and of the key/name construction in
Verifier.__init__ (lean/CffiVerif/Model/Flatten.lean).

Tie to the code:
  T. translate/c32_py.py re-translates `_flatten` (dispatch order, format strings, sorted keys, loops) and the name
     computation of `Verifier.__init__` (key parts, separator, CRC halves, mask, strip sets, name format) into
     Generated/FlattenPy.lean on every run (raising when the code changes shape);
     `model_is_the_translated_source` proves the model equal to it.
  F. the real `ffiplatform.flatten` against the model on random nested values
     (text and TypeError), the model's *parser* applied to the text the real
     flatten wrote must give the value back (dicts in key order);
     oracle on the real code alone: distinct values -> distinct texts, same dict
     in another insertion order -> same text.
  V. the real `Verifier(ffi, source, **kw)` (never compiled): the bytes handed to
     binascii.crc32 are recorded, the key text and the chosen name are compared
     with the model; oracle on the real code alone: the name is the same in
     subprocesses under several PYTHONHASHSEEDs and keyword orders, and distinct
     inputs have distinct keys (compared as texts, so CRC collisions play no role).
"""
import ast
import json
import os
import subprocess
import sys
import warnings
import zlib

import common
from common import InfraError

MANIFEST = {
    "text": "Kernel-checked theorems on a model of ffiplatform.flatten and of the key/name construction of "
            "Verifier.__init__: a parser inverts flatten for every nested value (so flatten is injective and "
            "prefix-free up to dict insertion order), a dict written in another keyword order gives the same text, "
            "the NUL-joined key determines all inputs when no input string contains NUL (with a NUL it does not: "
            "known finding), the two CRCs are recoverable from the name and two different keys share a name only "
            "through a CRC32 collision on one half.  The model is tied to the code by running the real flatten and "
            "the real Verifier (crc32 inputs intercepted, never compiling) against it, and the real Verifier in "
            "subprocesses under several hash seeds and keyword orders.",
    "note": "Trusted: Lean kernel; harness and driver parsing; binascii.crc32 is an uninterpreted parameter; the UTF-8 "
            "encoding of the key is not part of the model (the key text is compared after decoding the hashed bytes); "
            "dict keys restricted to int/str (tuple keys not modelled); the version strings are inputs.",
    "technique": "Lean 4 proof (parser inverting the encoder, sorted-permutation uniqueness, digit-printer inversion) + "
                 "differential correspondence with ffiplatform.flatten and cffi.verifier.Verifier, multi-process determinism runs",
}

RULE = ("F: nested values (depth <= 3) of ints (negative, > 64 bit, bool), strs over an alphabet of the format's own "
        "characters (digits, s l d i -), NUL and non-ASCII, lists/tuples, dicts with str or int keys; plus mixed-key "
        "dicts and unsupported objects for TypeError; every value is also re-inserted in a shuffled order; non-trivial "
        "= contains a container or a str holding a format character; distinct = distinct canonical values.  "
        "V: (cdef list of 0-3 declarations with random comments, source, kwargs of 0-4 setuptools-like keywords) "
        "triples and derived near-miss variants (text moved between neighbouring parts, a cdef split in two, "
        "a NUL-separated twin), and a deterministic re-chunking family per base text (the same text cut into cdef() "
        "calls at every unit / character position, white space at a cut dropped or exchanged, empty chunks, "
        "ffi.include() markers, pieces moved between cdef list, source and keyword values: all members pairwise "
        "distinct inputs => pairwise distinct key texts); each triple is evaluated in-process and in subprocesses with PYTHONHASHSEED in "
        "{0,1,4242,random} under original/reversed/shuffled keyword orders; distinct = distinct canonical inputs")
ASSUMPTIONS = ["binascii.crc32 is a function of its argument (uninterpreted in the model)",
               "dict keys are int or str",
               "same Python version and cffi.__version_verifier_modules__ in every process (they are part of the key)"]

CLASSES = {
    # two inputs with one key because some input string (cdef source, preamble or keyword string) contains NUL
    "C32/nul-in-cdef-source": lambda case: bool(case.get("nul")),
}

FMT = "0123456789sild-"
EXTRA = ["x", " ", "\0", "é", "€", "\U0001d11e", "A", "_"]


def translators(ctx):
    sys.path.insert(0, os.path.join(common.VERIF, "translate"))
    import c32_py
    return [c32_py.run]


# ------------------------------------------------------------------ values

def gen_str(rng, fmt=True):
    n = rng.choice([0, 0, 1, 1, 2, 2, 3, 5, 5, 10, 11, 23])
    pool = FMT if fmt and rng.random() < 0.7 else FMT + "".join(EXTRA)
    return "".join(rng.choice(pool) for _ in range(n))


def gen_int(rng):
    r = rng.random()
    if r < 0.1:
        return rng.choice([True, False])
    if r < 0.6:
        return rng.randint(-12, 120)
    if r < 0.8:
        return rng.choice([-1, 1]) * rng.randint(0, 10 ** rng.randint(1, 30))
    return rng.choice([0, -0, 9, 10, 11, 99, 100, 2 ** 63, -2 ** 63, 2 ** 64 - 1])


def gen_val(rng, depth=3, mixed=False):
    r = rng.random()
    if depth == 0 or r < 0.3:
        return gen_int(rng) if rng.random() < 0.45 else gen_str(rng)
    if r < 0.65:
        xs = [gen_val(rng, depth - 1 if rng.random() < 0.8 else 0, mixed)
              for _ in range(rng.choice([0, 1, 2, 2, 3, 3, 10, 12]) if depth == 3 else rng.choice([0, 1, 2, 2, 3]))]
        return tuple(xs) if rng.random() < 0.3 else xs
    n = rng.choice([0, 1, 2, 2, 3, 4, 11]) if depth == 3 else rng.choice([0, 1, 2, 2, 3, 4])
    d = {}
    intkeys = rng.random() < 0.3
    for _ in range(n):
        if mixed and rng.random() < 0.5:
            k = gen_int(rng) if rng.random() < 0.5 else gen_str(rng)
        else:
            k = gen_int(rng) if intkeys else gen_str(rng)
        d[k] = gen_val(rng, depth - 1, mixed)
    return d


def canon(x):
    """Order-free canonical form: Python `==` of the supported values."""
    if isinstance(x, bool):
        return ("I", int(x))
    if isinstance(x, int):
        return ("I", x)
    if isinstance(x, str):
        return ("S", x)
    if isinstance(x, (list, tuple)):
        return ("L", tuple(canon(v) for v in x))
    if isinstance(x, dict):
        items = [(canon(k), canon(v)) for k, v in x.items()]
        kinds = set(k[0] for k, _ in items)
        if len(kinds) > 1:
            raise TypeError("mixed keys")
        return ("D", tuple(sorted(items, key=lambda kv: kv[0][1])))
    raise TypeError("unsupported")


def cps(s):
    return ",".join(str(ord(c)) for c in s) or "-"


def words(x, sort=False):
    """Protocol words of a value (insertion order unless sort)."""
    if isinstance(x, bool):
        return ["I", str(int(x))]
    if isinstance(x, int):
        return ["I", str(x)]
    if isinstance(x, str):
        return ["S", cps(x)]
    if isinstance(x, (list, tuple)):
        out = ["L", str(len(x))]
        for v in x:
            out += words(v, sort)
        return out
    if isinstance(x, dict):
        items = list(x.items())
        if sort:
            items.sort(key=lambda kv: (int(kv[0]) if isinstance(kv[0], int) else kv[0]))
        out = ["D", str(len(items))]
        for k, v in items:
            out += words(k, sort) + words(v, sort)
        return out
    raise TypeError(x)


def has_mixed(x):
    if isinstance(x, dict):
        kinds = set(isinstance(k, int) for k in x)
        return len(kinds) > 1 or any(has_mixed(v) for v in x.values())
    if isinstance(x, (list, tuple)):
        return any(has_mixed(v) for v in x)
    return False


def shuffled(rng, x):
    """The same value with every dict re-inserted in another order."""
    if isinstance(x, dict):
        items = [(k, shuffled(rng, v)) for k, v in x.items()]
        rng.shuffle(items)
        return dict(items)
    if isinstance(x, list):
        return [shuffled(rng, v) for v in x]
    if isinstance(x, tuple):
        return tuple(shuffled(rng, v) for v in x)
    return x


def nontrivial(x):
    if isinstance(x, (list, tuple, dict)):
        return len(x) > 0
    return isinstance(x, str) and any(c in FMT for c in x)


def all_strings(x):
    if isinstance(x, str):
        yield x
    elif isinstance(x, (list, tuple)):
        for v in x:
            yield from all_strings(v)
    elif isinstance(x, dict):
        for k, v in x.items():
            yield from all_strings(k)
            yield from all_strings(v)


# ------------------------------------------------------------------ part F

def real_flatten(x):
    from cffi import ffiplatform
    try:
        return ("ok", ffiplatform.flatten(x))
    except TypeError:
        return ("err", "TypeError")


def part_f(ctx, n, oracle_only=False):
    rng = ctx.rng
    lines, expect = [], []
    seen = {}            # text -> canonical value (injectivity on the real code)
    for i in range(n):
        r = rng.random()
        if r < 0.06:
            x = gen_val(rng, 2, mixed=True)
        elif r < 0.10:
            bad = rng.choice([1.5, None, b"ab", {1, 2}, 2 + 3j, object])
            x = rng.choice([bad, [1, bad], {"a": bad}, ("x", [bad])])
            got = real_flatten(x)
            case = {"part": "F", "value": repr(x), "kind": "unsupported"}
            ctx.case(None, sample=None)
            ctx.count("F:unsupported")
            if got != ("err", "TypeError"):
                ctx.fail(case, "unsupported object accepted by flatten: %r" % (got,))
            continue
        else:
            x = gen_val(rng, 3)
        got = real_flatten(x)
        case = {"part": "F", "value": repr(x)}
        mixed = has_mixed(x)
        try:
            cx = canon(x)
        except TypeError:
            cx = None
        ctx.case(repr(cx) if (cx is not None and nontrivial(x)) else None, sample=case)
        ctx.count("F:TypeError" if got[0] == "err" else "F:ok")
        # -- oracle on the real implementation
        if mixed != (got[0] == "err"):
            # a mixed-key dict with a single comparison-free sort (<= 1 key) cannot occur: mixed needs >= 2 keys
            ctx.fail(case, "mixed-key dict %s but flatten %s" % (mixed, got[0]))
            continue
        if got[0] == "ok":
            prev = seen.setdefault(got[1], (cx, repr(x)))
            if prev[0] != cx:
                ctx.fail({"part": "F", "a": prev[1], "b": repr(x), "text": got[1]},
                         "two different values flatten to the same text")
            y = shuffled(rng, x)
            goty = real_flatten(y)
            ctx.case(None)
            if goty != got:
                ctx.fail({"part": "F", "a": repr(x), "b": repr(y)},
                         "the same dict items inserted in another order flatten differently")
        if oracle_only:
            continue
        lines.append("flatten " + " ".join(words(x)))
        expect.append((case, "ok " + cps(got[1]) if got[0] == "ok" else "err TypeError", "flatten"))
        if got[0] == "ok":
            lines.append("parse " + cps(got[1]))
            expect.append((case, "ok " + " ".join(words(x, sort=True)), "model parser on the real text"))
    if lines:
        out = ctx.driver(lines)
        for o, (case, want, what) in zip(out, expect):
            if o != want:
                ctx.disagree(case, want, o, what)


def collision_search(ctx, n):
    """Small values over the format's own alphabet: an ambiguous encoding collides quickly."""
    rng = ctx.rng
    seen = {}
    alpha = "01sild-"
    for _ in range(n):
        def s():
            return "".join(rng.choice(alpha) for _ in range(rng.choice([0, 1, 1, 2, 3])))

        def v(d):
            r = rng.random()
            if d == 0 or r < 0.5:
                return s() if rng.random() < 0.7 else rng.randint(-2, 21)
            if r < 0.8:
                return [v(d - 1) for _ in range(rng.choice([0, 1, 2, 3]))]
            return {s(): v(d - 1) for _ in range(rng.choice([0, 1, 2]))}
        x = v(2)
        got = real_flatten(x)
        ctx.case(None)
        ctx.count("F:collision-search")
        if got[0] != "ok":
            ctx.fail({"part": "F", "value": repr(x)}, "flatten rejected a supported value")
            continue
        cx = canon(x)
        prev = seen.setdefault(got[1], (cx, repr(x)))
        if prev[0] != cx:
            ctx.fail({"part": "F", "a": prev[1], "b": repr(x), "text": got[1]},
                     "two different values flatten to the same text")
            return
        y = shuffled(rng, x)
        if real_flatten(y) != got:
            ctx.fail({"part": "F", "a": repr(x), "b": repr(y)},
                     "the same dict items inserted in another order flatten differently")
            return


# ------------------------------------------------------------------ part V

DECLS = ["int f%d(int);", "typedef int t%d;", "struct s%d { int a; };", "extern int g%d;",
         "double h%d(double, int);", "#define K%d 5", "enum e%d { E%d };"]
KWNAMES = ["define_macros", "libraries", "include_dirs", "library_dirs", "extra_compile_args",
           "extra_link_args", "sources", "undef_macros", "depends", "language"]


def gen_comment(rng, nul_ok):
    pool = "ab 0123sild-é€" + ("\0" if nul_ok else "")
    return "".join(rng.choice(pool) for _ in range(rng.randint(0, 6)))


def gen_cdef(rng, idx, nul_ok):
    parts = []
    for j in range(rng.randint(1, 2)):
        d = rng.choice(DECLS)
        parts.append(d.replace("%d", "%d_%d" % (idx, j)))
        if rng.random() < 0.5:
            parts.append(" // " + gen_comment(rng, nul_ok))
        elif rng.random() < 0.3 and not d.startswith("#"):
            parts.append(" /* " + gen_comment(rng, nul_ok) + " */")
        parts.append("\n")
    return "".join(parts)


def gen_kw(rng, nul_ok):
    kw = {}
    for _ in range(rng.choice([0, 1, 1, 2, 3, 4])):
        k = rng.choice(KWNAMES)
        r = rng.random()

        def s():
            t = gen_str(rng, fmt=rng.random() < 0.4)
            return t if nul_ok else t.replace("\0", "n")
        if k == "define_macros":
            v = [(s(), rng.choice([s(), s(), 1])) for _ in range(rng.randint(0, 3))]
        elif k == "language":
            v = s()
        elif r < 0.1:
            v = {s(): [s()] for _ in range(rng.randint(0, 3))}
        else:
            v = [s() for _ in range(rng.randint(0, 3))]
        kw[k] = v
    return kw


def gen_triple(rng, i):
    nul_ok = rng.random() < 0.12
    cdefs = [gen_cdef(rng, i * 10 + j, nul_ok) for j in range(rng.choice([0, 1, 1, 2, 3]))]
    src = rng.choice(["", "#include <math.h>\n", "/* %s */" % gen_comment(rng, nul_ok), gen_str(rng, False)])
    if not nul_ok:
        src = src.replace("\0", "n")
    t = {"cdefs": cdefs, "source": src, "kw": gen_kw(rng, nul_ok),
         "tag": rng.choice(["", "", "", "t1", "a_b"]), "generic": rng.random() < 0.2}
    return t


def variants(rng, t):
    """Near-miss twins of a triple: different inputs that an ambiguous key would confuse."""
    out = []
    c = t["cdefs"]
    if c:
        k = rng.randrange(len(c))
        d = c[k]
        cut = d.find(";") + 1
        if 0 < cut < len(d):
            # the same text as two cdef() calls, and as one call with a NUL where the cut is
            out.append(dict(t, cdefs=c[:k] + [d[:cut], d[cut:]] + c[k + 1:]))
            if "//" in d[:cut] or True:
                # NUL inside a trailing // comment of the first half: the known ambiguity
                first = d[:cut] + " // "
                out.append(dict(t, cdefs=c[:k] + [first, d[cut:]] + c[k + 1:]))
                out.append(dict(t, cdefs=c[:k] + [first + "\0" + d[cut:]] + c[k + 1:]))
        # move the source's tail / the flattened kwds' neighbourhood
        out.append(dict(t, source=t["source"] + " ", cdefs=c))
    if len(c) >= 2:
        out.append(dict(t, cdefs=[c[0] + c[1]] + c[2:]))
        out.append(dict(t, cdefs=[c[1], c[0]] + c[2:]))
    kw = t["kw"]
    if kw:
        k = rng.choice(sorted(kw))
        v = kw[k]
        if isinstance(v, list) and len(v) >= 2 and all(isinstance(e, str) for e in v):
            out.append(dict(t, kw=dict(kw, **{k: [v[0] + v[1]] + v[2:]})))
            out.append(dict(t, kw=dict(kw, **{k: [v[1], v[0]] + v[2:]})))
        if isinstance(v, list) and v and isinstance(v[0], str):
            out.append(dict(t, kw=dict(kw, **{k: [v[0] + "1"] + v[1:]})))
        out.append(dict(t, kw={kk: vv for kk, vv in kw.items() if kk != k}))
    return out


def effective_sources(t):
    """The list of cdef sources the FFI ends up with (`ffi._cdefsources`): the cdef() arguments in call order;
    `ffi.include(g)` contributes '[', g's sources, ']' at the position it is called."""
    c = list(t["cdefs"])
    inc = t.get("include")
    if inc is None:
        return c
    pos, chunks = inc
    return c[:pos] + ["["] + list(chunks) + ["]"] + c[pos:]


def canon_triple(t):
    return repr((tuple(effective_sources(t)), t["source"], canon(t["kw"])))


def triple_has_nul(t):
    return (any("\0" in s for s in effective_sources(t)) or "\0" in t["source"]
            or any("\0" in s for s in all_strings(t["kw"])))


class _Binascii:
    """Stands in for the `binascii` module inside cffi.verifier: records crc32 arguments."""
    def __init__(self, real, log):
        self._real, self._log = real, log

    def __getattr__(self, name):
        return getattr(self._real, name)

    def crc32(self, data, *a):
        self._log.append(bytes(data))
        return self._real.crc32(data, *a)


def interleave(ev, od):
    out = bytearray()
    for i in range(len(ev)):
        out.append(ev[i])
        if i < len(od):
            out.append(od[i])
    return bytes(out)


def real_name(t, tmpdir, kw=None):
    """(module name, key bytes) chosen by the real Verifier for the triple; never compiles."""
    import binascii
    import cffi
    import cffi.verifier as V
    ffi = cffi.FFI()
    with warnings.catch_warnings():
        warnings.simplefilter("ignore")
        if t.get("inject"):
            # the list is installed directly (chunks need not be C): what Verifier.__init__ reads is ffi._cdefsources
            ffi._cdefsources = effective_sources(t)
        else:
            inc = t.get("include")
            for i, c in enumerate(t["cdefs"]):
                if inc is not None and inc[0] == i:
                    g = cffi.FFI()
                    for gc in inc[1]:
                        g.cdef(gc)
                    ffi.include(g)
                ffi.cdef(c)
            if inc is not None and inc[0] >= len(t["cdefs"]):
                g = cffi.FFI()
                for gc in inc[1]:
                    g.cdef(gc)
                ffi.include(g)
        if ffi._cdefsources != effective_sources(t):
            raise InfraError("ffi._cdefsources is not the list of cdef()/include() arguments: %r" % (ffi._cdefsources,))
    log = []
    old = V.binascii
    V.binascii = _Binascii(binascii, log)
    try:
        ver = V.Verifier(ffi, t["source"], tmpdir=tmpdir, tag=t["tag"],
                         force_generic_engine=t["generic"], **(t["kw"] if kw is None else kw))
        name = ver.get_module_name()
    finally:
        V.binascii = old
    if len(log) != 2 or not (len(log[1]) <= len(log[0]) <= len(log[1]) + 1):
        raise InfraError("expected two crc32 calls on the halves of the key, saw %r" % ([len(x) for x in log],))
    return name, interleave(log[0], log[1])


CHILD = r'''
import ast, binascii, json, random, sys, warnings
import cffi, cffi.verifier as V
cases = ast.literal_eval(open(sys.argv[1], encoding="utf-8").read())
mode, tmpdir = sys.argv[2], sys.argv[3]
def reorder(x, rnd):
    if isinstance(x, dict):
        items = [(k, reorder(v, rnd)) for k, v in x.items()]
        if mode == "reversed": items.reverse()
        elif mode == "shuffled": rnd.shuffle(items)
        return dict(items)
    if isinstance(x, list): return [reorder(v, rnd) for v in x]
    if isinstance(x, tuple): return tuple(reorder(v, rnd) for v in x)
    return x
class B:
    def __init__(self): self.log = []
    def __getattr__(self, n): return getattr(binascii, n)
    def crc32(self, d, *a):
        self.log.append(bytes(d)); return binascii.crc32(d, *a)
out = []
warnings.simplefilter("ignore")
for i, t in enumerate(cases):
    ffi = cffi.FFI()
    for c in t["cdefs"]: ffi.cdef(c)
    b = B(); V.binascii = b
    kw = reorder(t["kw"], random.Random(i))
    v = V.Verifier(ffi, t["source"], tmpdir=tmpdir, tag=t["tag"], force_generic_engine=t["generic"], **kw)
    out.append([v.get_module_name(), b.log[0].hex(), b.log[1].hex()])
json.dump(out, sys.stdout)
'''


def run_children(ctx, triples, configs):
    script = os.path.join(ctx.scratch, "c32_child.py")
    with open(script, "w") as f:
        f.write(CHILD)
    data = os.path.join(ctx.scratch, "c32_cases.txt")
    with open(data, "w", encoding="utf-8") as f:
        f.write(repr(triples))
    res = []
    for seed, mode in configs:
        env = dict(os.environ)
        env["PYTHONHASHSEED"] = seed
        env["PYTHONPATH"] = os.pathsep.join([ctx.scratch, os.path.join(common.REPO, "src")])
        try:
            r = subprocess.run([common.PYTHON, script, data, mode, ctx.scratch], env=env, timeout=600,
                               stdout=subprocess.PIPE, stderr=subprocess.PIPE, universal_newlines=True)
        except subprocess.TimeoutExpired:
            raise InfraError("child Verifier run timed out")
        if r.returncode != 0:
            raise InfraError("child Verifier run failed: " + r.stderr[-2000:])
        res.append(((seed, mode), json.loads(r.stdout)))
    return res


def part_v(ctx, n, oracle_only=False):
    import cffi
    rng = ctx.rng
    pyver = "%d.%d" % sys.version_info[:2]
    vermod = cffi.__version_verifier_modules__
    triples = []
    for i in range(n):
        t = gen_triple(rng, i)
        triples.append(t)
        vs = variants(rng, t)
        rng.shuffle(vs)
        triples.extend(vs[:3])
    # ---- in-process: record key and name
    lines, expect = [], []
    bykey = {}
    inproc = []
    ok_triples = []
    for t in triples:
        try:
            name, kb = real_name(t, ctx.scratch)
        except cffi.CDefError:
            ctx.count("V:variant-not-valid-C")      # a derived twin that cut a declaration in two
            continue
        ok_triples.append(t)
        inproc.append((name, kb))
    triples = ok_triples
    for t, (name, kb) in zip(triples, inproc):
        ct = canon_triple(t)
        case = {"part": "V", "triple": t, "nul": triple_has_nul(t)}
        ctx.case(ct, sample={"part": "V", "cdefs": t["cdefs"], "source": t["source"], "kw": repr(t["kw"])})
        ctx.count("V:nul" if case["nul"] else "V:plain")
        ctx.count("V:kw=%d" % len(t["kw"]))
        # injectivity of the key on the real implementation (texts compared, not CRCs)
        prev = bykey.setdefault(kb, (ct, t))
        if prev[0] != ct:
            pair = {"part": "V", "a": prev[1], "b": t, "nul": triple_has_nul(prev[1]) or triple_has_nul(t)}
            ctx.fail(pair, "two different (cdefs, source, kwargs) inputs are hashed through the same key "
                             "and get the module name %s" % name)
        if oracle_only:
            continue
        try:
            keytext = kb.decode("utf-8")
        except UnicodeDecodeError:
            raise InfraError("hashed key is not UTF-8")
        lines.append(" ".join(["vkey", cps(pyver), cps(vermod), cps(t["source"]), str(len(t["cdefs"]))]
                              + [cps(c) for c in t["cdefs"]] + words(t["kw"])))
        expect.append((case, "ok " + cps(keytext), "key text"))
        lines.append(" ".join(["name", cps(t["tag"]), cps("g" if t["generic"] else "x"),
                               ",".join(str(b) for b in kb) or "-",
                               str(zlib.crc32(kb[0::2]) & 0xffffffff), str(zlib.crc32(kb[1::2]) & 0xffffffff)]))
        expect.append((case, "ok " + cps(name), "module name"))
    # ---- subprocesses: determinism across hash seeds and keyword orders
    rseed = str(rng.randint(2, 2 ** 32 - 1))
    configs = [("0", "original"), ("1", "reversed"), ("4242", "shuffled"), (rseed, "reversed"), ("random", "shuffled")]
    if ctx.quick:
        configs = configs[:4]
    for cfg, res in run_children(ctx, triples, configs):
        ctx.count("V:child-runs")
        if len(res) != len(triples):
            raise InfraError("child returned %d results for %d cases" % (len(res), len(triples)))
        for t, (name, kb), (cname, ce, co) in zip(triples, inproc, res):
            ctx.case(None)
            ckb = interleave(bytes.fromhex(ce), bytes.fromhex(co))
            if cname != name or ckb != kb:
                ctx.fail({"part": "V", "triple": t, "config": list(cfg), "nul": False},
                         "module name differs between processes / keyword orders: %s here, %s with "
                         "PYTHONHASHSEED=%s order=%s" % (name, cname, cfg[0], cfg[1]))
    if lines:
        out = ctx.driver(lines)
        for o, (case, want, what) in zip(out, expect):
            if o != want:
                ctx.disagree(case, want, o, what)


# ------------------------------------------------------------------ re-chunking family (injectivity of the key)

def compositions(units, maxcuts=None):
    """All ways of cutting the unit sequence into consecutive non-empty chunks (each chunk = concatenated units)."""
    n = len(units)
    if n == 0:
        return [[]]
    out = []
    for mask in range(1 << (n - 1)):
        if maxcuts is not None and bin(mask).count("1") > maxcuts:
            continue
        chunks, cur = [], units[0]
        for i in range(1, n):
            if mask >> (i - 1) & 1:
                chunks.append(cur)
                cur = units[i]
            else:
                cur += units[i]
        chunks.append(cur)
        out.append(chunks)
    return out


def with_empty_chunks(chunks):
    res = [[""] + chunks, chunks + [""]]
    if len(chunks) >= 2:
        res.append(chunks[:1] + [""] + chunks[1:])
    return res


def is_ws(u):
    return u != "" and u.strip() == ""


def unit_variants(units):
    """The unit sequence itself, with one white-space unit deleted, and with one white-space unit exchanged."""
    seqs = [list(units)]
    for i, u in enumerate(units):
        if is_ws(u):
            seqs.append(units[:i] + units[i + 1:])
            seqs.append(units[:i] + ["\n" if u != "\n" else " "] + units[i + 1:])
    return seqs


def base_triple(**kw):
    t = {"cdefs": [], "source": "", "kw": {}, "tag": "", "generic": False}
    t.update(kw)
    return t


def rechunk_family(rng, idx):
    """A deterministic family of inputs built from one base text by cutting it into cdef() calls at every unit /
    character position, dropping or exchanging the white space at a cut, adding empty chunks, moving pieces between
    the cdef list, the included FFI, the source string and keyword values.  All members are NUL-free; any two
    members that differ as inputs must be hashed through different key texts."""
    n = idx * 7 + rng.randint(0, 5)
    decl = ["int fa%d(int);" % n, "typedef int tb%d;" % n, "extern int gc%d;" % n, "struct sd%d { int a; };" % n,
            "double he%d(double);" % n]
    rng.shuffle(decl)
    ws = ["\n", " ", "\n", "\t", "  ", "\n\n"]
    fam = []
    # A: real cdef() calls; units = declarations, white space, complete comments: every concatenation is valid C
    units = [decl[0], rng.choice(ws), decl[1], " ", "// c%d\n" % n, decl[2], "\n", "/* k */", decl[3]]
    units = units[:rng.choice([6, 7, 9])]
    for seq in unit_variants(units):
        for chunks in compositions(seq, maxcuts=4):
            fam.append(("A", base_triple(cdefs=chunks)))
            if len(chunks) <= 2:
                for ch in with_empty_chunks(chunks):
                    fam.append(("A", base_triple(cdefs=ch)))
    # A': ffi.include(): the '[' ... ']' markers, text moved across them
    g_units = ["typedef int u%d;" % n, "\n", "typedef int v%d;" % n]
    own = [decl[0], " ", decl[1]]
    for gseq in unit_variants(g_units):
        for gch in compositions(gseq):
            for och in compositions(own):
                for pos in range(len(och) + 1):
                    fam.append(("I", base_triple(cdefs=och, include=[pos, gch])))
    for k in (1, 2):          # a declaration of the included FFI declared by the including one instead, and back
        fam.append(("I", base_triple(cdefs=["".join(g_units[-k:])] + own, include=[0, ["".join(g_units[:-k])]])))
        fam.append(("I", base_triple(cdefs=own + ["".join(g_units[-k:])], include=[len(own), ["".join(g_units[:-k])]])))
        fam.append(("I", base_triple(cdefs=["".join(g_units[:k])] + own, include=[1, ["".join(g_units[k:])]])))
    # B: the list Verifier.__init__ reads, cut at every character position (chunks need not be C)
    text = rng.choice(["ab\nc d[e]\n\nf", "[\n]\n [ ]x\ny", "a b\n\n[c\n]d e", "x\n[\ny\n]\nz w"])
    texts = [text] + [text[:i] + text[i + 1:] for i, c in enumerate(text) if c in "\n []"]
    for tx in texts:
        for chunks in compositions(list(tx), maxcuts=2 if tx is text else 1):
            fam.append(("B", base_triple(cdefs=chunks, inject=True)))
            if len(chunks) <= 2:
                for ch in with_empty_chunks(chunks):
                    fam.append(("B", base_triple(cdefs=ch, inject=True)))
    # C: text moved between the source string, keyword values and the cdef list
    s_ = rng.choice(["m\nz q", "lib x\ny", "a b\nc"])
    for i in range(len(s_) + 1):
        a, b = s_[:i], s_[i:]
        fam.append(("C", base_triple(source=a, kw={"libraries": [b]})))
        fam.append(("C", base_triple(source=b, kw={"libraries": [a]})))
        fam.append(("C", base_triple(kw={"libraries": [a, b]})))
        fam.append(("C", base_triple(kw={"libraries": [a], "include_dirs": [b]})))
        fam.append(("C", base_triple(kw={"libraries": [a + "\n" + b]})))
        fam.append(("C", base_triple(source=a, cdefs=[decl[0]], kw={"libraries": [b]})))
    cu = [decl[0], "\n", decl[1], " ", decl[2]]
    src0 = "#include <x.h>\n"
    for k in range(len(cu) + 1):
        head, tail = cu[:k], "".join(cu[k:])
        pre = "".join(cu[:k])
        for chunks in compositions(head, maxcuts=2):
            fam.append(("C", base_triple(cdefs=chunks, source=tail + src0)))     # suffix of the cdefs -> front of the source
            fam.append(("C", base_triple(cdefs=chunks, source=src0 + tail)))
            fam.append(("C", base_triple(cdefs=chunks, source=src0, kw={"libraries": [tail]})))
        for chunks in compositions(cu[k:], maxcuts=2):
            fam.append(("C", base_triple(cdefs=chunks, source=src0 + pre)))      # prefix of the cdefs -> end of the source
            fam.append(("C", base_triple(cdefs=chunks, source=src0, kw={"sources": [pre]})))
    return fam


def rechunk_search(ctx, nbases):
    """Oracle on the real Verifier alone: distinct members of a re-chunking family have distinct key texts."""
    for idx in range(nbases):
        fam = rechunk_family(ctx.rng, idx)
        bykey = {}
        for kind, t in fam:
            name, kb = real_name(t, ctx.scratch)
            ct = canon_triple(t)
            ctx.case(None)
            ctx.count("V:rechunk-" + kind)
            prev = bykey.setdefault(kb, (ct, t))
            if prev[0] != ct:
                ctx.fail({"part": "V", "a": prev[1], "b": t, "nul": False},
                         "two different inputs (the same text cut / distributed differently) are hashed through the "
                         "same key and get the module name %s without any CRC collision" % name)
                return


# ------------------------------------------------------------------ entry points

def correspond(ctx):
    part_f(ctx, ctx.n(500, 20000))
    collision_search(ctx, ctx.n(3000, 100000))
    rechunk_search(ctx, ctx.n(2, 12))
    part_v(ctx, ctx.n(40, 500))


def search(ctx):
    rechunk_search(ctx, ctx.n(6, 40))
    if ctx.failures:
        return
    collision_search(ctx, ctx.n(40000, 400000))
    if not ctx.failures:
        part_f(ctx, ctx.n(4000, 40000), oracle_only=True)
    if not ctx.failures:
        part_v(ctx, ctx.n(80, 500), oracle_only=True)


def check_witness(ctx, finding):
    w = finding["witness"]
    a = {"cdefs": w["a"]["cdefs"], "source": w["a"].get("source", ""), "kw": w["a"].get("kw", {}), "tag": "", "generic": False}
    b = {"cdefs": w["b"]["cdefs"], "source": w["b"].get("source", ""), "kw": w["b"].get("kw", {}), "tag": "", "generic": False}
    return real_name(a, ctx.scratch) == real_name(b, ctx.scratch)


def replay(ctx, obj):
    case = obj["case"]
    if case.get("part") == "F":
        if "a" in case:
            a, b = ast.literal_eval(case["a"]), ast.literal_eval(case["b"])
            fa, fb = real_flatten(a), real_flatten(b)
            print("flatten(%r) = %r\nflatten(%r) = %r" % (a, fa, b, fb))
            same_value = canon(a) == canon(b)
            return 0 if (fa == fb) == same_value else 1
        print("flatten(%s) = %r" % (case["value"], real_flatten(ast.literal_eval(case["value"]))
                                    if case.get("kind") != "unsupported" else "?"))
        return 1
    if "a" in case:
        na, nb = real_name(case["a"], ctx.scratch), real_name(case["b"], ctx.scratch)
        print("a: %r -> %s\nb: %r -> %s" % (case["a"], na[0], case["b"], nb[0]))
        return 1 if na[1] == nb[1] else 0
    t = case["triple"]
    here = real_name(t, ctx.scratch)
    res = run_children(ctx, [t], [tuple(case.get("config", ["0", "original"]))])
    print("in-process %s, child %s" % (here[0], res[0][1][0][0]))
    return 0 if res[0][1][0][0] == here[0] else 1
