"""C06 -- primitive type facts agree with the compiler and across all type tables.

Proof side (lean/CffiVerif/Props/C06.lean): kernel `decide`s over the complete tables
that translate/primitives.py re-extracts from /repo on every run (ENUM_PRIMITIVE_TYPES,
primitive_name[], _CFFI_PRIM_*, PRIM_*/PRIMITIVE_TO_INDEX, ALL_PRIMITIVE_TYPES, the arms
of search_standard_typename, next_token keywords, parse_complete specifier tables,
COMMON_TYPES / common_simple_types[]) and over what a gcc-compiled program prints for
every name (Generated/Platform.lean), plus one theorem for all strings
(standardTypename_exact).

Run-time side (this file), exhaustive over the primitive names:
  oracle   every name goes through five real routes to a ctype -- the in-line FFI
           (pycparser), `_cffi_backend.FFI()` (C parser), an out-of-line ABI module and an
           API-mode module (typedef -> opcode index emitted by the code generator ->
           primitive_name[] -> new_primitive_type, and struct fields laid out by the C
           compiler) and a hand-built `_types` table with OP_PRIMITIVE i for every i --
           and sizeof / alignof / int(cast(T,-1)) / kind / integer range / struct offset are
           compared with what gcc says about the C type of that name; the ctype must be the
           same object on every route.  Keyword spellings (all sequences of up to 3
           specifier keywords, sampled longer ones with qualifiers) that are valid C and
           accepted by cffi must denote the type gcc says they denote
           (__builtin_types_compatible_p).  Every one-character variation of every name
           (substitution, deletion, insertion, suffixes) must be rejected by both parsers.
  model    the same observations against the Lean driver (index / name / backend / ctype).
"""
import importlib
import itertools
import os
import struct
import sys

import common
from common import InfraError

sys.path.insert(0, os.path.join(common.VERIF, "translate"))
import primitives as tr

MANIFEST = {
    "text": "Kernel-checked (decide +kernel) agreement of the complete primitive-type tables re-extracted from the source "
            "on every run: _CFFI_PRIM_i = PRIM_i = position in primitive_name[] and PRIMITIVE_TO_INDEX/primitive_name[] are "
            "inverse; model.py, PRIMITIVE_TO_INDEX and the backend list have the same names; kind letters match the backend "
            "flags and gcc's type class; signedness, sizeof/alignof of the backend's C type, integer range and "
            "CT_PRIMITIVE_FITS_LONG match what a gcc-compiled program reports for the type of each name; every arm of "
            "search_standard_typename matches exactly its own name (theorem for all strings) and returns "
            "PRIMITIVE_TO_INDEX[name]; the keyword/specifier path of the C parser maps every primitive name to its index.  "
            "At run time every name is resolved through the in-line, C-parser, out-of-line, API-mode and hand-built-opcode "
            "routes and its size, alignment, sign, kind, range and ctype identity are compared with gcc.",
    "note": "Trusted: Lean kernel; the regex/ast extractors of translate/primitives.py (they pin the surrounding code shape "
            "and raise when it changes); gcc 12 x86-64 as the reference for the C meaning of each name; the "
            "control flow of parse_complete's modifier loop is hand-modelled (its text is pinned) and tied by the "
            "ctype correspondence.  Plain `char` has no signedness in cffi (int(cast('char',-1)) == 255): excluded from "
            "the signedness comparison.",
    "technique": "Lean 4 proof (decide +kernel over regenerated complete tables, one structural proof for all strings) + "
                 "exhaustive differential run of all primitive names against gcc-compiled facts and the model driver",
}

RULE = ("exhaustive: every name of ALL_PRIMITIVE_TYPES/PRIMITIVE_TO_INDEX x every route (in-line typeof, C-parser typeof, "
        "out-of-line typedef, out-of-line typeof, API typedef, API typeof, API struct field, hand-built opcode index for "
        "every index -3..NUM_PRIM+3); every sequence of <= 3 specifier keywords plus seeded longer sequences with "
        "qualifiers; every one-character variation of every name (must be rejected); a case is non-trivial when the route resolves to a ctype (or the spelling is accepted); "
        "distinct = distinct (name-or-spelling, route)")
ASSUMPTIONS = ["gcc 12 / x86-64 SysV is the reference compiler for the meaning of each primitive name",
               "HAVE_WCHAR_H is defined by pyconfig.h (checked by #error in the platform program)"]
TRUSTED_EXTRA = ["translate/primitives.py PLATFORM_C: the C program whose output defines Generated/Platform.lean and the run-time oracle"]
CLASSES = {}

COMPLEX_SPELLING = [("float _Complex", "_cffi_float_complex_t"), ("double _Complex", "_cffi_double_complex_t")]
KW = ["short", "long", "signed", "unsigned", "int", "char", "double", "float", "_Bool", "_Complex"]
QUALS = ["const", "volatile"]

# C11 6.7.2p2: the valid multisets of type specifiers (keyword part) -- used only to decide
# which spellings are worth asking gcc about; gcc decides what they mean.
_VALID = [
    "char", "signed char", "unsigned char", "short", "signed short", "short int", "signed short int",
    "unsigned short", "unsigned short int", "int", "signed", "signed int", "unsigned", "unsigned int",
    "long", "signed long", "long int", "signed long int", "unsigned long", "unsigned long int",
    "long long", "signed long long", "long long int", "signed long long int",
    "unsigned long long", "unsigned long long int", "float", "double", "long double", "_Bool",
    "float _Complex", "double _Complex", "long double _Complex"]
VALID_MULTISETS = set(tuple(sorted(v.split())) for v in _VALID)


def _quiet(fn):
    so = os.dup(1)
    devnull = os.open(os.devnull, os.O_WRONLY)
    sys.stdout.flush()
    os.dup2(devnull, 1)
    try:
        return fn()
    finally:
        sys.stdout.flush()
        os.dup2(so, 1)
        os.close(devnull)
        os.close(so)


def translators(ctx):
    return [lambda: tr.translate_primitives(common.REPO),
            lambda: tr.translate_platform(common.REPO, ctx.scratch)]


# ------------------------------------------------------------------ the implementation's own tables (imported)

def runtime_tables():
    from cffi import model, cffi_opcode
    kinds = dict(model.PrimitiveType.ALL_PRIMITIVE_TYPES)
    p2i = dict(cffi_opcode.PRIMITIVE_TO_INDEX)
    names = list(kinds)
    for n in p2i:
        if n not in kinds:
            names.append(n)
    return names, kinds, p2i, cffi_opcode._NUM_PRIM


def cspell(name):
    for k, v in COMPLEX_SPELLING:
        if v == name:
            return k
    return name


def gcc_facts(ctx, names, kinds):
    """gcc's view of the C type of each name; independent of the extraction."""
    ex = {"all_primitive_types": [(n, kinds.get(n, "i")) for n in names], "common_py": COMPLEX_SPELLING,
          "backend": {"entries": [], "fits_long": [], "typedefs": []}}
    return tr.platform_facts(ex, ctx.scratch)["name"]


# ------------------------------------------------------------------ the routes

PRELUDE = ("#include <stddef.h>\n#include <stdint.h>\n#include <sys/types.h>\n#include <wchar.h>\n#include <uchar.h>\n")


def build_modules(ctx, names, kinds, tag):
    """One out-of-line ABI module and one API-mode module declaring, for every name k:
    typedef <name> td_k;  struct s_k { char c; <name> v; };  (API: SZ_k / AL_k compile-time constants)."""
    import cffi
    cdef, csrc = [], [PRELUDE]
    for k, n in enumerate(names):
        cdef.append("typedef %s td_%d;" % (n, k))
        cdef.append("struct s_%d { char c; %s v; };" % (k, n))
        csrc.append("typedef %s td_%d;" % (n, k))
        csrc.append("struct s_%d { char c; %s v; };" % (k, n))
    api_cdef = list(cdef)
    for k, n in enumerate(names):
        api_cdef.append("static const int SZ_%d;\nstatic const int AL_%d;" % (k, k))
        csrc.append("#define SZ_%d ((int)sizeof(td_%d))\n#define AL_%d ((int)_Alignof(td_%d))" % (k, k, k, k))
    sys.path.insert(0, ctx.scratch)
    f1 = cffi.FFI()
    f1.cdef("\n".join(cdef))
    ool_name = "_c06_ool_%s" % tag
    f1.set_source(ool_name, None)
    _quiet(lambda: f1.emit_python_code(os.path.join(ctx.scratch, ool_name + ".py")))
    ool = importlib.import_module(ool_name)
    f2 = cffi.FFI()
    f2.cdef("\n".join(api_cdef))
    api_name = "_c06_api_%s" % tag
    f2.set_source(api_name, "\n".join(csrc))
    cpath = os.path.join(ctx.scratch, api_name + ".c")
    _quiet(lambda: f2.emit_c_code(cpath))
    common.compile_ext(cpath, ctx.scratch, api_name)
    api = importlib.import_module(api_name)
    return ool, api


def handmade_ffi(lo, hi):
    """A compiled-style FFI whose type table is OP_PRIMITIVE i for every i in [lo, hi):
    `t<k>` resolves through build_primitive_type(i) directly."""
    import _cffi_backend
    idx = list(range(lo, hi))
    types = b"".join(struct.pack(">i", (i << 8) | 1) for i in idx)
    tn = tuple(struct.pack(">i", k) + ("t%03d" % k).encode() for k in range(len(idx)))
    return _cffi_backend.FFI("_c06_handmade", _version=0x2601, _types=types, _typenames=tn), idx


def resolve(ffi, s):
    """ctype or the exception class name."""
    try:
        return ffi.typeof(s)
    except Exception as e:          # ffi.error / FFIError / CDefError / NotImplementedError / KeyError ...
        return type(e).__name__


def observe_kind(ffi, ct):
    """Kind letter from behaviour: what reading an item of this type gives."""
    p = ffi.new(ffi.getctype(ct, "*"))
    v = p[0]
    if isinstance(v, (bool, int)):
        return "i"
    if isinstance(v, (bytes, str)):
        return "c"
    if isinstance(v, float):
        return "f"
    if isinstance(v, complex):
        return "j"
    if isinstance(v, ffi.CData) and ffi.typeof(v).cname == "long double":
        return "f"
    return "?"


GCC_CLASS = {"i": 1, "c": 1, "f": 8, "j": 9}


def check_ctype(ctx, ffi, ct, name, F, kinds, route, deep):
    """Property oracle for one resolved ctype against gcc's facts F of `name`."""
    case = {"name": name, "route": route}
    bad = []
    if ct.kind != "primitive":
        bad.append("kind %r is not 'primitive'" % ct.kind)
    if ct.cname != name:
        bad.append("resolves to ctype %r" % ct.cname)
    if ffi.sizeof(ct) != F["size"]:
        bad.append("sizeof %d, gcc says %d" % (ffi.sizeof(ct), F["size"]))
    if ffi.alignof(ct) != F["align"]:
        bad.append("alignof %d, gcc says %d" % (ffi.alignof(ct), F["align"]))
    if deep and not bad:
        k = observe_kind(ffi, ct)
        if GCC_CLASS.get(k) != F["cls"]:
            bad.append("behaves as kind %r, gcc class %d" % (k, F["cls"]))
        if name in kinds and kinds[name] != k:
            bad.append("behaves as kind %r, model.py says %r" % (k, kinds[name]))
        if F["cls"] == 1 and name != "char":
            got = int(ffi.cast(ct, -1))
            if got != F["minus1"]:
                bad.append("int(cast(T,-1)) = %d, gcc (T)-1 = %d" % (got, F["minus1"]))
        if F["cls"] == 8:
            if int(ffi.cast(ct, -1)) != -1 or float(ffi.cast(ct, 1.5)) != 1.5:
                bad.append("float cast does not preserve -1 / 1.5")
        if k == "i":
            ptr = ffi.getctype(ct, "*")
            for v, ok in ((F["max"], True), (F["max"] + 1, False), (F["min"], True), (F["min"] - 1, False)):
                try:
                    r = int(ffi.new(ptr, v)[0])
                    acc = True
                except OverflowError:
                    r, acc = None, False
                if acc != ok or (acc and r != v):
                    bad.append("value %d %s (gcc range %d..%d)" % (v, "accepted as %r" % r if acc else "rejected", F["min"], F["max"]))
        arr = ffi.typeof(ffi.getctype(ct, "[3]"))
        if ffi.sizeof(arr) != 3 * F["size"]:
            bad.append("sizeof T[3] = %d" % ffi.sizeof(arr))
    for b in bad:
        ctx.fail(dict(case, what=b), "%s via %s: %s" % (name, route, b))
    return not bad


def names_pass(ctx, tag, oracle_only=False):
    import cffi
    import _cffi_backend
    names, kinds, p2i, num_prim = runtime_tables()
    F = gcc_facts(ctx, names, kinds)
    inline = cffi.FFI()
    backend = _cffi_backend.FFI()
    ool, api = build_modules(ctx, names, kinds, tag)
    lines, expect = [], []

    for k, name in enumerate(names):
        routes = [
            ("inline.typeof", inline, name),
            ("cparser.typeof", backend, name),
            ("ool.typedef", ool.ffi, "td_%d" % k),
            ("ool.typeof", ool.ffi, name),
            ("api.typedef", api.ffi, "td_%d" % k),
            ("api.typeof", api.ffi, name),
        ]
        first = None
        for i, (route, ffi, s) in enumerate(routes):
            ct = resolve(ffi, s)
            case = {"name": name, "route": route}
            if isinstance(ct, str):
                ctx.case(None, sample=case)
                ctx.count("name-rejected:" + route)
                ctx.fail(dict(case, what="rejected"), "%s via %s raises %s" % (name, route, ct))
                continue
            ctx.case((name, route), sample=case)
            ctx.count("route:" + route)
            check_ctype(ctx, ffi, ct, name, F[name], kinds, route, deep=(i in (0, 2, 4)))
            if first is None:
                first = (route, ct)
            elif ct is not first[1]:
                ctx.fail(dict(case, what="identity"), "%s: ctype via %s is not the object obtained via %s (%r vs %r)"
                         % (name, route, first[0], ct, first[1]))
        # struct field laid out by cffi (out-of-line) and by the C compiler (API mode)
        for route, m in (("ool.struct", ool), ("api.struct", api)):
            case = {"name": name, "route": route}
            ctx.case((name, route), sample=None)
            ctx.count("route:" + route)
            try:
                st = m.ffi.typeof("struct s_%d" % k)
                off = m.ffi.offsetof(st, "v")
                fld = dict(st.fields)["v"].type
                tot = m.ffi.sizeof(st)
            except Exception as e:
                ctx.fail(dict(case, what="struct"), "struct {char; %s} via %s raises %s" % (name, route, type(e).__name__))
                continue
            want_tot = -(-(F[name]["align"] + F[name]["size"]) // F[name]["align"]) * F[name]["align"]
            if off != F[name]["align"] or tot != want_tot or fld.cname != name or (first and fld is not first[1]):
                ctx.fail(dict(case, what="struct"),
                         "struct {char c; %s v;} via %s: offsetof v = %d, sizeof = %d, field type %r; gcc: align %d size %d"
                         % (name, route, off, tot, fld.cname, F[name]["align"], F[name]["size"]))
        sz, al = getattr(api.lib, "SZ_%d" % k), getattr(api.lib, "AL_%d" % k)
        if (sz, al) != (F[name]["size"], F[name]["align"]):
            raise InfraError("the API module's compiler disagrees with the platform program about %s" % name)
        # model lines
        if not oracle_only and first is not None:
            ct = first[1]
            lines.append("index " + name)
            expect.append(({"name": name, "route": "PRIMITIVE_TO_INDEX"}, "ok %s" % p2i.get(name, "none")))
            lines.append("backend " + name)
            expect.append(({"name": name, "route": "new_primitive_type"},
                           "ok %d %d %s" % (inline.sizeof(ct), inline.alignof(ct), observe_kind(inline, ct))))

    # every opcode index, through build_primitive_type
    hand, idx = handmade_ffi(-3, num_prim + 3)
    byname = {}
    for k, i in enumerate(idx):
        ct = resolve(hand, "t%03d" % k)
        case = {"index": i, "route": "handmade.opcode"}
        ctx.count("route:handmade.opcode")
        if isinstance(ct, str):
            ctx.case(None, sample=case)
            obs = "ok none"
            if 1 <= i < num_prim:
                ctx.fail(dict(case, what="rejected"), "OP_PRIMITIVE %d raises %s" % (i, ct))
        else:
            ctx.case(("index", i), sample=case)
            obs = "ok " + ct.cname.replace(" ", "+")
            if i == 0:
                if ct.cname != "void":
                    ctx.fail(dict(case, what="void"), "OP_PRIMITIVE 0 is %r, not void" % ct.cname)
                obs = "ok none"      # the model's nameOfIndex covers primitive_name[] only (slot 0 is NULL: void)
            else:
                want = [n for n in names if p2i.get(n) == i]
                if want != [ct.cname]:
                    ctx.fail(dict(case, what="index"), "OP_PRIMITIVE %d realizes %r; PRIMITIVE_TO_INDEX maps %r to it"
                             % (i, ct.cname, want))
                elif ct is not resolve(inline, ct.cname):
                    ctx.fail(dict(case, what="identity"), "OP_PRIMITIVE %d: not the in-line ctype object" % i)
                byname[ct.cname] = i
        if not oracle_only:
            lines.append("name %d" % i)
            expect.append((case, obs))
    for n in names:
        if n not in byname:
            ctx.fail({"name": n, "route": "handmade.opcode", "what": "unreachable"},
                     "no opcode index realizes %r" % n)

    MODEL_LINES.extend((l, c, w, "names") for l, (c, w) in zip(lines, expect))
    return names, kinds, p2i, F, inline, backend


# ------------------------------------------------------------------ keyword spellings

def spellings(ctx, n_long):
    seqs = []
    for r in (1, 2, 3):
        seqs += [list(t) for t in itertools.product(KW, repeat=r)]
    pool = KW + QUALS + ["long", "unsigned", "int", "signed"]
    seen = set(tuple(s) for s in seqs)
    tries = 0
    while len(seqs) < 1110 + n_long and tries < 50 * n_long + 100:
        tries += 1
        s = [ctx.rng.choice(pool) for _ in range(ctx.rng.randint(2, 6))]
        if ctx.rng.random() < 0.5:
            base = ctx.rng.choice(_VALID).split()
            ctx.rng.shuffle(base)
            s = base
            for _ in range(ctx.rng.randint(0, 2)):
                s.insert(ctx.rng.randint(0, len(s)), ctx.rng.choice(QUALS))
        if tuple(s) not in seen:
            seen.add(tuple(s))
            seqs.append(s)
    return seqs


COMPAT_C = r"""
#include <stdio.h>
int main(void) {
%s
    return 0;
}
"""


def spellings_pass(ctx, names, kinds, p2i, inline, backend, n_long, oracle_only=False):
    seqs = spellings(ctx, n_long)
    lines, expect, ask = [], [], []
    for s in seqs:
        text = " ".join(s)
        core = tuple(sorted(w for w in s if w not in QUALS))
        valid = core in VALID_MULTISETS
        got = {}
        for route, ffi in (("cparser.typeof", backend), ("inline.typeof", inline)):
            ct = resolve(ffi, text)
            got[route] = ct
            acc = not isinstance(ct, str)
            ctx.case((text, route) if acc else None, sample={"spelling": text, "route": route} if acc else None)
            ctx.count("spelling:%s:%s:%s" % (route.split(".")[0], "valid-C" if valid else "invalid-C",
                                             "accepted" if acc else "rejected"))
            if acc and valid:
                ask.append((text, route, ct))
        a, b = got["cparser.typeof"], got["inline.typeof"]
        if not isinstance(a, str) and not isinstance(b, str) and valid and a is not b:
            ctx.fail({"spelling": text, "route": "both", "what": "identity"},
                     "%r: C parser gives %r, in-line parser gives %r" % (text, a.cname, b.cname))
        if not oracle_only:
            lines.append("ctype " + text)
            if isinstance(a, str):
                obs = "ok error"
            elif a.cname == "void":
                obs = "ok prim 0"
            else:
                obs = "ok prim %s" % p2i.get(a.cname, "?")
            expect.append(({"spelling": text, "route": "cparser.typeof"}, obs))
    # gcc decides what the accepted valid spellings mean
    if ask:
        body = []
        for k, (text, route, ct) in enumerate(ask):
            target = cspell(ct.cname)
            if ct.cname not in kinds:
                ctx.fail({"spelling": text, "route": route, "what": "non-primitive"}, "%r resolves to %r" % (text, ct.cname))
                continue
            body.append('    printf("%d|%%d\\n", __builtin_types_compatible_p(%s, %s));' % (k, text, target))
        cfile = os.path.join(ctx.scratch, "c06_compat_%d.c" % len(os.listdir(ctx.scratch)))
        with open(cfile, "w") as f:
            f.write(PRELUDE + COMPAT_C % "\n".join(body))
        exe = cfile[:-2]
        common.compile_prog(cfile, exe)
        for line in common.run_prog(exe).split():
            k, ok = line.split("|")
            text, route, ct = ask[int(k)]
            if ok != "1":
                ctx.fail({"spelling": text, "route": route, "what": "meaning"},
                         "%r is accepted via %s as %r; gcc says it is a different type" % (text, route, ct.cname))
    MODEL_LINES.extend((l, c, w, "spelling") for l, (c, w) in zip(lines, expect))


# ------------------------------------------------------------------ near misses of the `_t` names

def near_misses(names):
    out, seen = [], set(names)
    for n in names:
        if " " in n:
            continue
        cands = []
        for i in range(len(n)):
            for c in ("X", "0", "_", "t"):
                if n[i] != c and not (i == 0 and c == "0"):
                    cands.append(n[:i] + c + n[i + 1:])
            cands.append(n[:i] + n[i + 1:])
            cands.append(n[:i] + "x" + n[i:])
        cands += [n + "_t", n + "x", n[:-2], n.upper()]
        for c in cands:
            if c and c not in seen and c not in KW and c not in QUALS and c not in ("bool", "void", "FILE", "enum", "struct", "union"):
                seen.add(c)
                out.append((n, c))
    return out


def near_miss_pass(ctx, names, inline, backend, oracle_only=False):
    """No string that is not a primitive name may be taken for one: the C parser (whose
    search_standard_typename compares prefixes and lengths by hand) must reject every
    one-character variation of every name, as the in-line parser does."""
    lines, expect = [], []
    for n, c in near_misses(names):
        a, b = resolve(backend, c), resolve(inline, c)
        ctx.case(None)
        ctx.count("near-miss:" + ("rejected" if isinstance(a, str) else "accepted"))
        if not isinstance(a, str) or not isinstance(b, str):
            got = a if not isinstance(a, str) else b
            ctx.fail({"spelling": c, "route": "cparser.typeof" if not isinstance(a, str) else "inline.typeof", "what": "near-miss"},
                     "%r is not a type name (variation of %r) but resolves to %r" % (c, n, got.cname))
        if not oracle_only:
            lines.append("ctype " + c)
            expect.append(({"spelling": c, "route": "cparser.typeof"}, "ok error" if isinstance(a, str) else "ok prim ?"))
    MODEL_LINES.extend((l, c, w, "near-miss") for l, (c, w) in zip(lines, expect))


MODEL_LINES = []


def run_model(ctx):
    """One driver run for everything the passes collected."""
    if not MODEL_LINES:
        return
    out = ctx.driver([m[0] for m in MODEL_LINES])
    for o, (line, case, want, mode) in zip(out, MODEL_LINES):
        got = o
        if mode == "names" and case.get("route") == "new_primitive_type" and o.startswith("ok ") and o != "ok none":
            got = " ".join(o.split()[:4])          # the fits-long column is not observable from Python
        if mode == "spelling" and o == "ok other":
            ctx.count("model:other")
            continue
        if got != want:
            ctx.disagree(case, want, o, "implementation vs model (%s)" % mode)
    del MODEL_LINES[:]


# ------------------------------------------------------------------ entry points

def correspond(ctx):
    import time
    t0 = time.time()
    names, kinds, p2i, F, inline, backend = names_pass(ctx, "c%d" % ctx.seed)
    common.log("C06: names pass %.1f s" % (time.time() - t0))
    t0 = time.time()
    spellings_pass(ctx, names, kinds, p2i, inline, backend, ctx.n(400, 6000))
    common.log("C06: spellings pass %.1f s" % (time.time() - t0))
    t0 = time.time()
    near_miss_pass(ctx, names, inline, backend)
    run_model(ctx)
    common.log("C06: near-miss pass + model driver %.1f s" % (time.time() - t0))
    ctx.coverage["exhaustive"] = True
    ctx.coverage["names"] = len(names)


def search(ctx):
    """The proof or the correspondence broke and no name failed yet: look harder at the
    real implementation (more spellings; the names again with fresh modules)."""
    names, kinds, p2i, F, inline, backend = names_pass(ctx, "s%d" % ctx.seed, oracle_only=True)
    spellings_pass(ctx, names, kinds, p2i, inline, backend, ctx.n(4000, 30000), oracle_only=True)
    near_miss_pass(ctx, names, inline, backend, oracle_only=True)


def replay(ctx, obj):
    import cffi
    import _cffi_backend
    case = obj["case"]
    names, kinds, p2i, num_prim = runtime_tables()
    F = gcc_facts(ctx, names, kinds)

    class Rec:
        def __init__(self):
            self.failures = []
            self.rng = ctx.rng
            self.scratch = ctx.scratch

        def fail(self, c, d):
            self.failures.append((c, d))

        def case(self, *a, **k): pass
        def count(self, *a, **k): pass
    rec = Rec()
    if "spelling" in case:
        text = case["spelling"]
        got = {}
        for route, ffi in (("cparser.typeof", _cffi_backend.FFI()), ("inline.typeof", cffi.FFI())):
            ct = resolve(ffi, text)
            got[route] = ct
            print("%r via %s -> %s" % (text, route, ct if isinstance(ct, str) else ct.cname))
        a, b = got["cparser.typeof"], got["inline.typeof"]
        what = case.get("what")
        if what == "near-miss":
            return 0 if isinstance(a, str) and isinstance(b, str) else 1
        if what == "identity":
            return 1 if not isinstance(a, str) and not isinstance(b, str) and a is not b else 0
        ct = got.get(case.get("route"), a)
        if isinstance(ct, str):
            return 0
        if ct.cname not in kinds:
            return 1
        cfile = os.path.join(ctx.scratch, "c06_replay.c")
        with open(cfile, "w") as f:
            f.write(PRELUDE + COMPAT_C % ('    printf("%%d\\n", __builtin_types_compatible_p(%s, %s));' % (text, cspell(ct.cname))))
        common.compile_prog(cfile, cfile[:-2])
        ok = common.run_prog(cfile[:-2]).strip()
        print("gcc: __builtin_types_compatible_p(%s, %s) = %s" % (text, cspell(ct.cname), ok))
        return 0 if ok == "1" else 1
    if "index" in case:
        hand, idx = handmade_ffi(case["index"], case["index"] + 1)
        ct = resolve(hand, "t000")
        got = ct if isinstance(ct, str) else ct.cname
        want = [n for n in names if p2i.get(n) == case["index"]]
        print("OP_PRIMITIVE %d -> %s; PRIMITIVE_TO_INDEX maps %r to it" % (case["index"], got, want))
        return 0 if want == [got] or (case["index"] == 0 and got == "void") else 1
    name, route = case["name"], case["route"]
    if name not in F:
        print("unknown primitive name %r" % name)
        return 1
    k = names.index(name)
    if route.startswith(("ool", "api")):
        ool, api = build_modules(ctx, names, kinds, "replay")
        m = ool if route.startswith("ool") else api
        ffi = m.ffi
        s = "td_%d" % k if route.endswith("typedef") else name
        if route.endswith("struct"):
            st = ffi.typeof("struct s_%d" % k)
            print("struct {char c; %s v;} via %s: offsetof v = %d, sizeof = %d; gcc align %d size %d"
                  % (name, route, ffi.offsetof(st, "v"), ffi.sizeof(st), F[name]["align"], F[name]["size"]))
            return 0 if ffi.offsetof(st, "v") == F[name]["align"] else 1
    elif route.startswith("inline"):
        ffi, s = cffi.FFI(), name
    else:
        ffi, s = _cffi_backend.FFI(), name
    ct = resolve(ffi, s)
    if isinstance(ct, str):
        print("%s via %s raises %s" % (name, route, ct))
        return 1
    ok = check_ctype(rec, ffi, ct, name, F[name], kinds, route, deep=True)
    other = resolve(cffi.FFI(), name)
    if ct is not other:
        rec.failures.append((case, "ctype via %s is not the in-line ctype object" % route))
    print("%s via %s -> %r sizeof %d alignof %d; gcc: %r" % (name, route, ct.cname, ffi.sizeof(ct), ffi.alignof(ct), F[name]))
    for c, d in rec.failures:
        print("FAILS: " + d)
    return 1 if rec.failures else 0
