"""C13 -- all call paths to a C function agree (partial).

Theorems (lean/CffiVerif/Props/C13.lean) over the model of the two conversion layers
(generated API-mode wrapper vs. cdata_call): arg_paths_agree, arg_int_spec,
res_paths_agree, arg_then_res_roundtrip, variadic_promotion, prepare_seq_datasize,
bytes_passthrough, tmp_array_zero_filled, tmp_buffers_distinct (over the allocation expressions
re-extracted from cdata_call), and the tie of the API-path range checks to the
macro text of the working tree (api_*_is_source over Generated/IntMacros.lean).

Tie to the code: random C functions (<= 8 parameters over integers of every size and
sign, _Bool, char, float, double, pointers, small structs by value, variadic tails)
that log every argument they receive into a global buffer, set errno, write through
their `out` pointers and return a mixing function of everything they saw; plus fixed
pointer probes.  One C source per run is built (i) as an API-mode module (`lib.f` and
`ffi.addressof(lib, 'f')`) and (ii) as a plain shared library opened with an in-line
`ffi.dlopen` and with an out-of-line ABI module.  The same abstract argument tuple
(in-range, boundary, out-of-range, wrong type; cdata / list / bytes for pointers) is
instantiated for each path.
  oracle (independent of the Lean model): outcome (canonical value or exception type),
      logged arguments, pointed-to memory and ffi.errno are equal across the four paths;
  correspondence: for integer/_Bool/char parameters and results, and for the pointer
      probes, the logged bytes / exception types are what the model computes.
"""
import importlib
import os
import re
import struct
import sys

import common
from common import InfraError

sys.path.insert(0, os.path.join(common.VERIF, "translate"))
import c13_flatten  # noqa: E402  (flat <op> ct_length of fb_fill_type's two struct-flattening loops)
import c13_tmpbuf  # noqa: E402   (per-argument temporary handling of cdata_call / the API wrapper, shape-checked)
import intmacros  # noqa: E402   (C03's extractor of the _cffi_to_c_SIGNED_FN/_UNSIGNED_FN conditions and the _cffi_to_c_int dispatch)

MANIFEST = {
    "text": "Kernel-checked theorems that the argument conversion of the generated API-mode wrapper (_cffi_to_c_int with "
            "the macro bounds of _cffi_to_c_SIGNED_FN/_UNSIGNED_FN, _cffi_to_c__Bool, _cffi_to_c_char) and of cdata_call "
            "(convert_from_object) produce the same bytes or the same exception type for every integer/_Bool/char type and "
            "every Python object, that the outcome is the exact image of an in-range int and OverflowError otherwise, that "
            "both result conversions yield the C value, that variadic small integers are promoted to int with the same "
            "value, and that the temporary array for list/tuple pointer arguments has the computed size and is zero "
            "wherever no item wrote; the API-path range checks and the _cffi_to_c_int dispatch of the model are proved equal "
            "to the macro conditions regenerated from _cffi_backend.c / _cffi_include.h on every run.  Random C functions over all supported parameter kinds, compiled once per run, are "
            "called through lib.f, ffi.addressof(lib,'f'), in-line dlopen and out-of-line dlopen with identical argument "
            "tuples; outcomes, logged arguments, pointed-to memory and ffi.errno are compared pairwise and against the model.",
    "note": "PARTIAL: libffi's marshalling and gcc's calling convention (how the converted bytes reach the callee and how "
            "the return value reaches the result buffer) are external and covered only by the correspondence run, as are "
            "float/double/pointer/struct conversions (compared across paths, not modelled). long double, complex, wchar_t, "
            "enums, bit-field structs, unions and FILE* arguments are not exercised. The model's PyObj abstracts Python "
            "objects to the cases the converters distinguish. Finding class C13/partial-struct-by-value (struct passed by "
            "value as a list/dict initialiser that omits fields: the omitted fields are indeterminate) is explored only "
            "while it is listed in KNOWN_FINDINGS.jsonl.",
    "technique": "Lean 4 proof (case analysis over type sizes, omega over the macro bounds evaluated in the kernel and tied to "
                 "the regenerated macro text; induction for the temporary array) + four-path differential correspondence on "
                 "random generated C functions",
}

RULE = ("functions: 0-8 parameters drawn from {signed/unsigned char, short, int, long, long long, _Bool, char, float, double, "
        "pointers (in/out, 8 item types), 4 structs by value}, return type from the same set or void, 1 in 6 variadic; "
        "argument tuples: 60% all-valid (boundary values min/max/0/-1, random in range, cdata casts, objects with __int__, "
        "cdata arrays / lists / bytes for pointers, cdata / list / dict for structs), 40% with 1-2 bad arguments "
        "(min-1, max+1, 2**64, -2**63-1, float for int, str, None, bytes of wrong length, wrong pointer type, int for pointer); "
        "pointer probes: lists of 0-6 items incl. partial struct initialisers, bytes, bad items; a case is one (function, "
        "argument tuple) called through 4 paths; non-trivial = the function has >= 1 parameter; distinct = distinct "
        "(signature, argument tuple)")
ASSUMPTIONS = ["x86-64 SysV, little endian, LP64 (sizes of the C types are asserted against ffi.sizeof at start)",
               "gcc passes struct padding bytes unspecified: struct arguments are logged field by field"]
TRUSTED_EXTRA = ["the generated C functions of corr_C13 (argument logging, mixing function) and gcc"]


def _partial_struct_by_value(case):
    """A struct parameter passed by value is given a list/dict initialiser that leaves fields out."""
    fn, rec = case.get("fn"), case.get("argrec")
    if not fn or not rec:
        return False
    for p, r in zip(fn["params"], rec["args"]):
        if p["c"] == "struct" and r["k"] in ("list", "tuple", "dict") and len(r["v"]) < len(STRUCTS[p["t"]]):
            return True
    return False


CLASSES = {"C13/partial-struct-by-value": _partial_struct_by_value}
PARTIAL_STRUCTS = [False]      # explored only while the finding class is listed as open (values are indeterminate)

SENTINEL = 31337

# --------------------------------------------------------------------------- types

INTS = {  # name -> (kind, size)
    "signed char": ("sint", 1), "unsigned char": ("uint", 1), "short": ("sint", 2), "unsigned short": ("uint", 2),
    "int": ("sint", 4), "unsigned int": ("uint", 4), "long": ("sint", 8), "unsigned long": ("uint", 8),
    "long long": ("sint", 8), "unsigned long long": ("uint", 8),
    "int8_t": ("sint", 1), "uint16_t": ("uint", 2), "int32_t": ("sint", 4), "uint64_t": ("uint", 8),
}
STRUCTS = {  # name -> [(field, type)]
    "struct P1": [("c", "unsigned char")],
    "struct P2": [("a", "int"), ("b", "int")],
    "struct PD": [("d", "double"), ("s", "short")],
    "struct PL": [("x", "long long"), ("y", "long long"), ("z", "long long")],
}
STRUCT_DECL = "".join("%s { %s };\n" % (n, " ".join("%s %s;" % (t, f) for f, t in fl)) for n, fl in STRUCTS.items())
PTR_ITEMS = ["int", "char", "unsigned char", "short", "double", "long long", "_Bool", "struct P2", "void"]


def tsize(t):
    if t in INTS:
        return INTS[t][1]
    if t in ("_Bool", "char"):
        return 1
    if t == "float":
        return 4
    if t == "double":
        return 8
    if t in STRUCTS:
        return {"struct P1": 1, "struct P2": 8, "struct PD": 16, "struct PL": 24}[t]
    if t == "void":
        return 1
    raise KeyError(t)


def model_type(t):
    if t in INTS:
        return INTS[t]
    if t == "_Bool":
        return ("bool", 1)
    if t == "char":
        return ("char", 1)
    return None


def int_range(t):
    kind, size = INTS[t]
    if kind == "sint":
        return -(1 << (8 * size - 1)), (1 << (8 * size - 1)) - 1
    return 0, (1 << (8 * size)) - 1


def pack_scalar(t, v):
    """Little-endian image of a value of scalar type t (oracle side, not the Lean model)."""
    if t in INTS:
        return (v % (1 << (8 * INTS[t][1]))).to_bytes(INTS[t][1], "little")
    if t == "_Bool":
        return bytes([1 if v else 0])
    if t == "char":
        return bytes(v) if isinstance(v, bytes) else bytes([v])
    if t == "float":
        return struct.pack("<f", v)
    if t == "double":
        return struct.pack("<d", v)
    raise KeyError(t)


# --------------------------------------------------------------------------- C source generation

PRELUDE = r"""
#include <errno.h>
#include <string.h>
#include <stdarg.h>
#include <stdint.h>
""" + STRUCT_DECL + r"""
static unsigned char g_log[16384];
static int g_logn;
static char g_store[64];
static void LOGB(const void *p, int n)
{ if (g_logn + n <= (int)sizeof(g_log)) { memcpy(g_log + g_logn, p, n); g_logn += n; } }
#define LOGV(x) LOGB(&(x), (int)sizeof(x))
#define MIXB(p, n) do { int _i; for (_i = 0; _i < (int)(n); _i++) \
    mix = mix * 1000003ULL + ((const unsigned char *)(p))[_i] + 1; } while (0)
#define MIXV(x) MIXB(&(x), sizeof(x))
unsigned char *c13_log(void) { return g_log; }
int c13_logn(void) { return g_logn; }
void c13_reset(void) { g_logn = 0; memset(g_store, 0, sizeof g_store); }
char *c13_base(void) { return g_store; }
void probe_u8(unsigned char *p, int nbytes) { LOGB(p, nbytes); errno = 11; }
void probe_char(char *p, int nbytes) { LOGB(p, nbytes); errno = 12; }
void probe_i16(short *p, int nbytes) { LOGB(p, nbytes); errno = 13; }
void probe_i32(int *p, int nbytes) { LOGB(p, nbytes); errno = 14; }
void probe_u64(unsigned long long *p, int nbytes) { LOGB(p, nbytes); errno = 15; }
void probe_bool(_Bool *p, int nbytes) { LOGB(p, nbytes); errno = 16; }
void probe_p2(struct P2 *p, int nbytes) { LOGB(p, nbytes); errno = 17; }
void probe_void(void *p, int nbytes) { LOGB(p, nbytes); errno = 18; }
void probe_f64(double *p, int nbytes) { LOGB(p, nbytes); errno = 19; }
"""
PRELUDE_CDEF = STRUCT_DECL + """
unsigned char *c13_log(void);
int c13_logn(void);
void c13_reset(void);
char *c13_base(void);
void probe_u8(unsigned char *p, int nbytes);
void probe_char(char *p, int nbytes);
void probe_i16(short *p, int nbytes);
void probe_i32(int *p, int nbytes);
void probe_u64(unsigned long long *p, int nbytes);
void probe_bool(_Bool *p, int nbytes);
void probe_p2(struct P2 *p, int nbytes);
void probe_void(void *p, int nbytes);
void probe_f64(double *p, int nbytes);
"""
PROBES = {"probe_u8": "unsigned char", "probe_char": "char", "probe_i16": "short", "probe_i32": "int",
          "probe_u64": "unsigned long long", "probe_bool": "_Bool", "probe_p2": "struct P2", "probe_void": "void",
          "probe_f64": "double"}

VSPEC = {"i": "int", "u": "unsigned int", "l": "long", "L": "unsigned long long", "d": "double", "p": "int *"}


def gen_param(rng):
    r = rng.random()
    if r < 0.45:
        return {"c": "int", "t": rng.choice(sorted(INTS))}
    if r < 0.53:
        return {"c": "bool", "t": "_Bool"}
    if r < 0.60:
        return {"c": "char", "t": "char"}
    if r < 0.66:
        return {"c": "float", "t": "float"}
    if r < 0.73:
        return {"c": "float", "t": "double"}
    if r < 0.90:
        item = rng.choice(PTR_ITEMS)
        mode = "in" if item == "void" or rng.random() < 0.6 else "out"
        return {"c": "ptr", "t": item + " *", "item": item, "span": rng.randint(1, 3), "mode": mode}
    return {"c": "struct", "t": rng.choice(sorted(STRUCTS))}


def gen_ret(rng):
    r = rng.random()
    if r < 0.1:
        return {"c": "void", "t": "void"}
    if r < 0.65:
        return {"c": "int", "t": rng.choice(sorted(INTS))}
    if r < 0.72:
        return {"c": "bool", "t": "_Bool"}
    if r < 0.78:
        return {"c": "char", "t": "char"}
    if r < 0.86:
        return {"c": "float", "t": rng.choice(["float", "double"])}
    if r < 0.93:
        return {"c": "ptr", "t": "char *"}
    return {"c": "struct", "t": rng.choice(sorted(STRUCTS))}


def gen_function(rng, idx):
    variadic = rng.random() < 1 / 6
    nparams = rng.randint(0, 8)
    params = [gen_param(rng) for _ in range(nparams)]
    if variadic:
        # first fixed parameter is the spec string describing the tail
        params = [{"c": "spec", "t": "const char *"}] + [p for p in params[:5] if p["c"] != "struct"]
    return {"name": "f%d" % idx, "ret": gen_ret(rng), "params": params, "variadic": variadic,
            "salt": rng.randrange(1, 1 << 62)}


def c_decl(fn):
    ps = ["%s x%d" % (p["t"], i) if not p["t"].endswith("*") else "%sx%d" % (p["t"], i)
          for i, p in enumerate(fn["params"])]
    if fn["variadic"]:
        ps.append("...")
    return "%s %s(%s)" % (fn["ret"]["t"], fn["name"], ", ".join(ps) or "void")


def c_body(fn):
    out = ["{", "  unsigned long long mix = %dULL;" % fn["salt"]]
    for i, p in enumerate(fn["params"]):
        x = "x%d" % i
        if p["c"] in ("int", "bool", "char", "float"):
            out.append("  LOGV(%s); MIXV(%s);" % (x, x))
        elif p["c"] == "struct":
            for f, _ in STRUCTS[p["t"]]:
                out.append("  LOGV(%s.%s); MIXV(%s.%s);" % (x, f, x, f))
        elif p["c"] == "ptr":
            n = p["span"] * tsize(p["item"])
            if p["mode"] == "in":
                if p["item"] == "struct P2":
                    out.append("  { int j; for (j = 0; j < %d; j++) { LOGV(%s[j].a); LOGV(%s[j].b); "
                               "MIXV(%s[j].a); MIXV(%s[j].b); } }" % (p["span"], x, x, x, x))
                else:
                    out.append("  LOGB(%s, %d); MIXB(%s, %d);" % (x, n, x, n))
        elif p["c"] == "spec":
            out.append("  {")
            out.append("    va_list ap; const char *s;")
            out.append("    va_start(ap, x%d);" % (len(fn["params"]) - 1))
            out.append("    LOGB(x0, (int)strlen(x0) + 1);")
            out.append("    for (s = x0; *s; s++) {")
            out.append("      if (*s == 'i') { int v = va_arg(ap, int); LOGV(v); MIXV(v); }")
            out.append("      else if (*s == 'u') { unsigned int v = va_arg(ap, unsigned int); LOGV(v); MIXV(v); }")
            out.append("      else if (*s == 'l') { long v = va_arg(ap, long); LOGV(v); MIXV(v); }")
            out.append("      else if (*s == 'L') { unsigned long long v = va_arg(ap, unsigned long long); LOGV(v); MIXV(v); }")
            out.append("      else if (*s == 'd') { double v = va_arg(ap, double); LOGV(v); MIXV(v); }")
            out.append("      else if (*s == 'p') { int *v = va_arg(ap, int *); LOGB(v, 8); MIXB(v, 8); v[1] = (int)mix; }")
            out.append("    }")
            out.append("    va_end(ap);")
            out.append("  }")
    # spec must be processed after the fixed parameters in C too; order in the log is by position, the
    # spec block is emitted at position 0 -- the harness parses the log in the same order.
    for i, p in enumerate(fn["params"]):
        if p["c"] == "ptr" and p["mode"] == "out":
            x = "x%d" % i
            if p["item"] == "struct P2":
                out.append("  { int j; for (j = 0; j < %d; j++) { %s[j].a = (int)(mix + j); %s[j].b = (int)(mix >> 7) - j; } }"
                           % (p["span"], x, x))
            elif p["item"] == "_Bool":
                out.append("  { int j; for (j = 0; j < %d; j++) %s[j] = (_Bool)((mix >> j) & 1); }" % (p["span"], x))
            elif p["item"] == "double":
                out.append("  { int j; for (j = 0; j < %d; j++) %s[j] = (double)((mix >> 3) %% 100000 + j) / 4; }" % (p["span"], x))
            else:
                out.append("  { int j; for (j = 0; j < %d; j++) %s[j] = (%s)(mix + 3 * j); }" % (p["span"], x, p["item"]))
    out.append("  errno = (int)(mix % 30000) + 1;")
    r = fn["ret"]
    if r["c"] == "void":
        out.append("  return;")
    elif r["c"] in ("int", "char"):
        out.append("  { %s r = (%s)(mix >> 5); LOGV(r); return r; }" % (r["t"], r["t"]))
    elif r["c"] == "bool":
        out.append("  { _Bool r = (_Bool)((mix >> 9) & 1); LOGV(r); return r; }")
    elif r["c"] == "float":
        out.append("  { %s r = (%s)((mix >> 4) %% 1000000) / 8 - 1000; LOGV(r); return r; }" % (r["t"], r["t"]))
    elif r["c"] == "ptr":
        out.append("  { int k = (int)((mix >> 6) % 64); LOGV(k); g_store[k] = 1; return &g_store[k]; }")
    elif r["c"] == "struct":
        out.append("  { %s r; memset(&r, 0, sizeof r);" % r["t"])
        for j, (f, ft) in enumerate(STRUCTS[r["t"]]):
            if ft == "double":
                out.append("    r.%s = (double)((mix >> %d) %% 4096) / 2;" % (f, j + 2))
            else:
                out.append("    r.%s = (%s)(mix >> %d);" % (f, ft, 3 * j + 1))
            out.append("    LOGV(r.%s);" % f)
        out.append("    return r; }")
    out.append("}")
    return "\n".join(out)


def make_source(fns):
    return PRELUDE + "\n".join(c_decl(f) + "\n" + c_body(f) for f in fns) + "\n"


def make_cdef(fns):
    return PRELUDE_CDEF + "".join(c_decl(f) + ";\n" for f in fns)


# --------------------------------------------------------------------------- building the four paths

def _quiet(fn):
    so = os.dup(1)
    devnull = os.open(os.devnull, os.O_WRONLY)
    sys.stdout.flush()
    os.dup2(devnull, 1)
    try:
        return fn()
    finally:
        sys.stdout.flush()
        os.dup2(so, 1)
        os.close(devnull)
        os.close(so)


_counter = [0]


class Path:
    def __init__(self, name, ffi, lib, get):
        self.name, self.ffi, self.lib, self.get = name, ffi, lib, get

    def reset(self):
        self.lib.c13_reset()

    def log(self):
        n = self.lib.c13_logn()
        return bytes(self.ffi.buffer(self.lib.c13_log(), n)) if n else b""


def build_world(ctx, fns, extra_src="", extra_cdef=""):
    import cffi
    if ctx.scratch not in sys.path:
        sys.path.insert(0, ctx.scratch)
    _counter[0] += 1
    tag = "%d_%d_%d" % (ctx.seed, os.getpid(), _counter[0])
    src, cdef = make_source(fns) + extra_src, make_cdef(fns) + extra_cdef
    name = "_c13_api_" + tag
    ffi = cffi.FFI()
    ffi.cdef(cdef)
    ffi.set_source(name, src)
    cpath = os.path.join(ctx.scratch, name + ".c")
    _quiet(lambda: ffi.emit_c_code(cpath))
    common.compile_ext(cpath, ctx.scratch, name)
    m = importlib.import_module(name)
    csrc = os.path.join(ctx.scratch, "c13_%s.c" % tag)
    with open(csrc, "w") as f:
        f.write(src)
    so = os.path.join(ctx.scratch, "libc13_%s.so" % tag)
    common.compile_shared(csrc, so)
    affi = cffi.FFI()
    affi.cdef(cdef)
    alib = affi.dlopen(so)
    oname = "_c13_ool_" + tag
    f2 = cffi.FFI()
    f2.cdef(cdef)
    f2.set_source(oname, None)
    _quiet(lambda: f2.emit_python_code(os.path.join(ctx.scratch, oname + ".py")))
    m2 = importlib.import_module(oname)
    olib = m2.ffi.dlopen(so)
    paths = [
        Path("api", m.ffi, m.lib, lambda n, lib=m.lib: getattr(lib, n)),
        Path("addr", m.ffi, m.lib, lambda n, lib=m.lib, ffi=m.ffi: ffi.addressof(lib, n)),
        Path("abi", affi, alib, lambda n, lib=alib: getattr(lib, n)),
        Path("ool", m2.ffi, olib, lambda n, lib=olib: getattr(lib, n)),
    ]
    for t in list(INTS) + ["_Bool", "char", "float", "double"] + list(STRUCTS):
        if m.ffi.sizeof(t) != tsize(t):
            raise InfraError("platform assumption: sizeof(%s) = %d" % (t, m.ffi.sizeof(t)))
    return paths


# --------------------------------------------------------------------------- argument recipes

class IntLike(object):
    def __init__(self, v):
        self.v = v

    def __int__(self):
        return self.v


def build_arg(ffi, r, keep):
    k = r["k"]
    if k == "int":
        return r["v"]
    if k == "bool":
        return bool(r["v"])
    if k == "float":
        return struct.unpack("<d", bytes.fromhex(r["v"]))[0]
    if k == "str":
        return r["v"]
    if k == "none":
        return None
    if k == "bytes":
        return bytes.fromhex(r["v"])
    if k == "intlike":
        return IntLike(r["v"])
    if k == "cast":
        return ffi.cast(r["t"], r["v"] if not isinstance(r["v"], str) else bytes.fromhex(r["v"]))
    if k == "castf":
        return ffi.cast(r["t"], struct.unpack("<d", bytes.fromhex(r["v"]))[0])
    if k == "new":
        init = r["v"]
        cd = ffi.new(r["t"], unjson(init))
        keep.append((r, cd))
        return cd
    if k == "list":
        return unjson(r["v"])
    if k == "tuple":
        return tuple(unjson(r["v"]))
    if k == "dict":
        return {kk: unjson(vv) for kk, vv in r["v"].items()}
    if k == "struct":
        p = ffi.new(r["t"] + " *", unjson(r["v"]))
        keep.append((None, p))
        return p[0]
    if k == "null":
        return ffi.NULL
    raise AssertionError(k)


def unjson(v):
    if isinstance(v, list):
        return [unjson(x) for x in v]
    if isinstance(v, dict) and "hexfloat" in v:
        return struct.unpack("<d", bytes.fromhex(v["hexfloat"]))[0]
    if isinstance(v, dict) and "hexbytes" in v:
        return bytes.fromhex(v["hexbytes"])
    return v


def model_obj(r):
    """Protocol spelling of a recipe for the model's PyObj, or None when the model does not cover it."""
    k = r["k"]
    if k == "int":
        return "int %d" % r["v"]
    if k == "bool":
        return "int %d" % int(r["v"])
    if k == "float":
        return "float"
    if k in ("str", "list", "tuple", "dict", "new", "struct", "null"):
        return "other"
    if k == "none":
        return "none"
    if k == "bytes":
        return "bytes " + (r["v"] or "-")
    if k == "intlike":
        return "intlike %d" % r["v"]
    if k == "cast":
        if r["t"] in INTS:
            lo, hi = int_range(r["t"])
            v = r["v"] % (1 << (8 * INTS[r["t"]][1]))
            if v > hi:
                v -= 1 << (8 * INTS[r["t"]][1])
            return "intlike %d" % v
        if r["t"] == "_Bool":
            return "intlike %d" % (1 if r["v"] else 0)
        if r["t"] == "char":
            return "charcdata %d" % bytes.fromhex(r["v"])[0]
    if k == "castf":
        return "float"
    return None


def fhex(x):
    return struct.pack("<d", x).hex()


def good_int(rng, t):
    lo, hi = int_range(t)
    r = rng.random()
    if r < 0.35:
        v = rng.choice([lo, hi, 0, 1, hi - 1, lo + 1, (hi + 1) // 2, min(hi, 255), min(hi, 65535)])
        if lo < 0:
            v = rng.choice([v, -1, -128, -129 if lo < -129 else -1])
        return {"k": "int", "v": max(lo, min(hi, v))}
    if r < 0.75:
        return {"k": "int", "v": rng.randint(lo, hi)}
    if r < 0.82:
        return {"k": "intlike", "v": rng.randint(lo, hi)}
    if r < 0.86 and lo <= 1 <= hi:
        return {"k": "bool", "v": rng.random() < 0.5}
    ct = rng.choice(sorted(INTS))
    clo, chi = int_range(ct)
    return {"k": "cast", "t": ct, "v": rng.randint(max(lo, clo), min(hi, chi))}


def bad_int(rng, t):
    lo, hi = int_range(t)
    r = rng.random()
    if r < 0.5:
        return {"k": "int", "v": rng.choice([lo - 1, hi + 1, hi + 1 + rng.randint(0, 1000), lo - 1 - rng.randint(0, 1000),
                                              1 << 64, -(1 << 63) - 1, (1 << 63), 1 << 200, -(1 << 64)])}
    if r < 0.6:
        return {"k": "intlike", "v": rng.choice([lo - 1, hi + 1, 1 << 70])}
    if r < 0.75:
        return {"k": "float", "v": fhex(rng.choice([0.0, 1.5, -3.0]))}
    if r < 0.8:
        return {"k": "castf", "t": "double", "v": fhex(2.0)}
    return rng.choice([{"k": "str", "v": "seven"}, {"k": "none"}, {"k": "bytes", "v": "07"}, {"k": "list", "v": [1]}])


def good_ptr(rng, p, allow_nonwritable=True):
    item, span = p["item"], p["span"]
    n = span + rng.randint(0, 2)
    if item == "void":
        r = rng.random()
        if r < 0.4:
            return {"k": "bytes", "v": bytes(rng.randrange(256) for _ in range(n)).hex()}
        if r < 0.7:
            return {"k": "new", "t": "unsigned char[]", "v": [rng.randrange(256) for _ in range(n)]}
        return {"k": "new", "t": "int[]", "v": [rng.randint(-5, 5) for _ in range(n)]}
    writable_only = p["mode"] == "out"
    r = rng.random()
    if item in ("char", "unsigned char") and not writable_only and r < 0.3:
        return {"k": "bytes", "v": bytes(rng.randrange(256) for _ in range(n)).hex()}
    if item == "_Bool" and not writable_only and r < 0.2:
        return {"k": "bytes", "v": bytes(rng.randrange(2) for _ in range(n)).hex()}
    items = [good_item(rng, item) for _ in range(n)]
    if r < 0.55:
        return {"k": rng.choice(["list", "tuple"]), "v": items}      # temporary array (writes are lost)
    return {"k": "new", "t": item + "[]", "v": items}


def good_item(rng, item):
    if item in INTS:
        lo, hi = int_range(item)
        return rng.choice([lo, hi, 0, rng.randint(lo, hi)])
    if item == "_Bool":
        return rng.randrange(2)
    if item == "char":
        return {"hexbytes": bytes([rng.randrange(256)]).hex()}
    if item == "double":
        return {"hexfloat": fhex(rng.choice([0.0, -1.5, 1e300, float(rng.randint(-1000, 1000)) / 8]))}
    if item == "struct P2":
        return rng.choice([[rng.randint(-9, 9), rng.randint(-9, 9)], [rng.randint(-9, 9)], []])
    raise KeyError(item)


def bad_ptr(rng, p):
    item = p["item"]
    other = "double" if item not in ("double", "void") else "short"
    choices = [{"k": "int", "v": 0}, {"k": "none"}, {"k": "float", "v": fhex(1.0)}, {"k": "str", "v": "abc"}]
    if item != "void":
        choices.append({"k": "new", "t": other + "[]", "v": [1, 2, 3, 4] if other == "short" else [{"hexfloat": fhex(1.0)}] * 4})
    if item not in ("char", "unsigned char", "signed char", "_Bool", "void"):
        choices.append({"k": "bytes", "v": "0001020304050607" * 4})
    if item in INTS:
        lo, hi = int_range(item)
        choices.append({"k": "list", "v": [0] * p["span"] + [hi + 1]})
        choices.append({"k": "list", "v": [{"hexfloat": fhex(1.5)}] * (p["span"] + 1)})
    if item == "_Bool":
        choices.append({"k": "bytes", "v": "000102"})
        choices.append({"k": "list", "v": [0, 1, 2]})
    return rng.choice(choices)


def good_struct(rng, t):
    fields = STRUCTS[t]
    vals = []
    for f, ft in fields:
        vals.append({"hexfloat": fhex(float(rng.randint(-99, 99)) / 4)} if ft == "double" else good_item(rng, ft))
    r = rng.random()
    if r < 0.5:
        return {"k": "struct", "t": t, "v": vals}
    partial = PARTIAL_STRUCTS[0]
    if r < 0.75:
        return {"k": "list", "v": vals[:rng.randint(0, len(vals))] if partial and rng.random() < 0.3 else vals}
    keep = [i for i in range(len(fields)) if not partial or rng.random() < 0.8]
    return {"k": "dict", "v": {fields[i][0]: vals[i] for i in keep}}


def bad_struct(rng, t):
    other = "struct P2" if t != "struct P2" else "struct P1"
    return rng.choice([{"k": "int", "v": 3}, {"k": "none"}, {"k": "struct", "t": other, "v": []},
                       {"k": "list", "v": [1] * 5}, {"k": "dict", "v": {"nosuchfield": 1}}])


def gen_tail(rng):
    spec, args = "", []
    for _ in range(rng.randint(0, 4)):
        c = rng.choice("iiuulLdp")
        if c == "i":
            ct = rng.choice(["signed char", "unsigned char", "short", "unsigned short", "int", "_Bool", "int8_t", "uint16_t"])
            if ct == "_Bool":
                args.append({"k": "cast", "t": ct, "v": rng.randrange(2)})
            else:
                lo, hi = int_range(ct)
                args.append({"k": "cast", "t": ct, "v": rng.choice([lo, hi, -1 if lo < 0 else 0, rng.randint(lo, hi)])})
        elif c == "u":
            args.append({"k": "cast", "t": "unsigned int", "v": rng.choice([0, 2 ** 32 - 1, rng.randrange(2 ** 32)])})
        elif c == "l":
            args.append({"k": "cast", "t": rng.choice(["long", "long long"]), "v": rng.choice([-2 ** 63, 2 ** 63 - 1, rng.randint(-2 ** 63, 2 ** 63 - 1)])})
        elif c == "L":
            args.append({"k": "cast", "t": rng.choice(["unsigned long", "uint64_t"]), "v": rng.choice([0, 2 ** 64 - 1, rng.randrange(2 ** 64)])})
        elif c == "d":
            args.append({"k": "castf", "t": "double", "v": fhex(rng.choice([0.5, -1e10, float(rng.randint(-999, 999)) / 16]))})
        else:
            args.append({"k": "new", "t": "int[]", "v": [rng.randint(-2 ** 31, 2 ** 31 - 1), 0, 7]})
        spec += c
    return spec, args


def gen_args(rng, fn):
    nbad = 0 if rng.random() < 0.6 else rng.randint(1, 2)
    params = fn["params"]
    badset = set(rng.sample(range(len(params)), min(nbad, len(params)))) if params else set()
    args, valid = [], []
    tail_spec, tail = ("", [])
    tail_bad = False
    if fn["variadic"]:
        tail_spec, tail = gen_tail(rng)
    for i, p in enumerate(params):
        bad = i in badset
        c = p["c"]
        if c == "spec":
            args.append({"k": "bytes", "v": tail_spec.encode().hex()})
            bad = False
        elif c == "int":
            args.append(bad_int(rng, p["t"]) if bad else good_int(rng, p["t"]))
        elif c == "bool":
            args.append(rng.choice([{"k": "int", "v": 2}, {"k": "int", "v": -1}, {"k": "float", "v": fhex(1.0)},
                                    {"k": "none"}, {"k": "int", "v": 1 << 64}, {"k": "str", "v": ""}]) if bad else
                        rng.choice([{"k": "int", "v": 0}, {"k": "int", "v": 1}, {"k": "bool", "v": True},
                                    {"k": "bool", "v": False}, {"k": "intlike", "v": 1},
                                    {"k": "cast", "t": "_Bool", "v": 1}, {"k": "cast", "t": "int", "v": 0}]))
        elif c == "char":
            args.append(rng.choice([{"k": "int", "v": 65}, {"k": "bytes", "v": "4142"}, {"k": "bytes", "v": ""},
                                    {"k": "str", "v": "a"}, {"k": "none"}, {"k": "cast", "t": "int", "v": 65}]) if bad else
                        rng.choice([{"k": "bytes", "v": bytes([rng.randrange(256)]).hex()},
                                    {"k": "cast", "t": "char", "v": bytes([rng.randrange(256)]).hex()}]))
        elif c == "float":
            if bad:
                args.append(rng.choice([{"k": "str", "v": "1.0"}, {"k": "none"}, {"k": "int", "v": 10 ** 400},
                                        {"k": "bytes", "v": "31"}, {"k": "list", "v": []}]))
            else:
                args.append(rng.choice([{"k": "float", "v": fhex(rng.choice([0.0, -0.0, 1.5, 1e300, -2.5e-300, 3.4e38,
                                                                             float(rng.randint(-10 ** 6, 10 ** 6)) / 64]))},
                                        {"k": "int", "v": rng.randint(-10 ** 6, 10 ** 6)},
                                        {"k": "castf", "t": rng.choice(["float", "double"]), "v": fhex(rng.randint(-99, 99) / 8)},
                                        {"k": "bool", "v": True}]))
        elif c == "ptr":
            args.append(bad_ptr(rng, p) if bad else good_ptr(rng, p))
        elif c == "struct":
            args.append(bad_struct(rng, p["t"]) if bad else good_struct(rng, p["t"]))
        valid.append(not bad)
    if fn["variadic"] and tail and rng.random() < 0.1:
        j = rng.randrange(len(tail))
        tail[j] = rng.choice([{"k": "int", "v": 5}, {"k": "float", "v": fhex(1.0)}, {"k": "none"}])   # not a cdata -> TypeError
        tail_bad = True
    return {"args": args + tail, "valid": valid, "ntail": len(tail), "tail_bad": tail_bad}


# --------------------------------------------------------------------------- calling

def canon_result(path, fn, res, base):
    c = fn["ret"]["c"]
    if c == "void":
        return ["none", res is None]
    if c in ("int",):
        return ["int", int(res), type(res).__name__]
    if c == "bool":
        return ["bool", res is True, type(res).__name__]
    if c == "char":
        return ["bytes", res.hex(), type(res).__name__]
    if c == "float":
        return ["float", struct.pack("<d", res).hex()]
    if c == "ptr":
        return ["ptr", int(path.ffi.cast("intptr_t", res)) - base]
    if c == "struct":
        out = ["struct"]
        for f, ft in STRUCTS[fn["ret"]["t"]]:
            v = getattr(res, f)
            out.append(struct.pack("<d", v).hex() if ft == "double" else int(v))
        return out
    raise AssertionError(c)


def call_path(path, fn, argrec):
    keep = []
    try:
        args = [build_arg(path.ffi, r, keep) for r in argrec["args"]]
    except Exception as e:             # a recipe that cannot even be built is a harness bug
        raise InfraError("cannot build argument %r: %r" % (argrec, e))
    f = path.get(fn["name"])
    path.reset()
    base = int(path.ffi.cast("intptr_t", path.lib.c13_base()))
    path.ffi.errno = SENTINEL
    try:
        res = f(*args)
        outcome = ["ok"] + canon_result(path, fn, res, base)
    except Exception as e:
        outcome = ["exc", type(e).__name__]
    err = path.ffi.errno
    log = path.log()
    mem = [bytes(path.ffi.buffer(cd)).hex() for r, cd in keep if r is not None]
    return {"outcome": outcome, "errno": err, "log": log.hex(), "mem": mem}


def compare_paths(ctx, case, obs):
    ref = obs["api"]
    for name in ("addr", "abi", "ool"):
        o = obs[name]
        for what in ("outcome", "log", "mem", "errno"):
            if o[what] != ref[what]:
                ctx.fail(case, "%s differs between lib.f and %s: %r vs %r" % (what, name, ref[what], o[what]))
                return False
    if ref["outcome"][0] == "exc" and (ref["log"] or ref["errno"] != SENTINEL):
        ctx.fail(case, "the C function ran although the call raised: log=%s errno=%d" % (ref["log"], ref["errno"]))
        return False
    return True


def split_log(fn, argrec, log):
    """Logged bytes per parameter position (None where the size is not statically known)."""
    pos, out = 0, []
    params = fn["params"]
    tail = argrec["args"][len(params):]
    for i, p in enumerate(params):
        c = p["c"]
        if c in ("int", "bool", "char", "float"):
            n = tsize(p["t"])
        elif c == "struct":
            n = sum(tsize(ft) for _, ft in STRUCTS[p["t"]])
        elif c == "ptr":
            n = p["span"] * tsize(p["item"]) if p["mode"] == "in" else 0
        elif c == "spec":
            spec = bytes.fromhex(argrec["args"][0]["v"]).decode()
            n = len(spec) + 1
            out.append(log[pos:pos + n])
            pos += n
            tl = []
            for ch in spec:
                m = {"i": 4, "u": 4, "l": 8, "L": 8, "d": 8, "p": 8}[ch]
                tl.append(log[pos:pos + m])
                pos += m
            out_tail = tl
            continue
        out.append(log[pos:pos + n])
        pos += n
    ret = log[pos:]
    return out, (out_tail if fn["variadic"] else []), ret


def model_lines(fn, argrec, obs):
    """Protocol lines for one call, and a plan telling how to read the model's answers:
    per path a list of steps in parameter order -- ("m", line index, param index, logged hex or None)
    for a modelled parameter, ("u", designed-valid?) for an unmodelled one -- then vararg / res checks."""
    lines, plan = [], []
    params = fn["params"]
    for pname, mp in (("api", "api"), ("addr", "ffi")):
        if fn["variadic"]:
            mp = "ffi"         # lib.f of a variadic function is a cdata too
        o = obs[pname]
        ok = o["outcome"][0] == "ok"
        per, tail, ret = split_log(fn, argrec, bytes.fromhex(o["log"])) if ok else ([], [], b"")
        steps, extra = [], []
        for i, p in enumerate(params):
            mt = model_type(p["t"]) if p["c"] in ("int", "bool", "char") else None
            mo = model_obj(argrec["args"][i]) if mt else None
            if mt is None or mo is None:
                steps.append(("u", argrec["valid"][i]))
                continue
            steps.append(("m", len(lines), i, per[i].hex() if ok else None))
            lines.append("arg %s %s %d %s" % (mp, mt[0], mt[1], mo))
        if ok and fn["variadic"]:
            for j, r in enumerate(argrec["args"][len(params):]):
                if r["k"] == "cast" and (r["t"] in INTS or r["t"] == "_Bool"):
                    mt = model_type(r["t"])
                    extra.append(("vararg", len(lines), j, tail[j].hex()))
                    lines.append("vararg %s %d %s" % (mt[0], mt[1], model_obj(r).split()[1]))
        if ok and fn["ret"]["c"] in ("int", "bool", "char"):
            mt = model_type(fn["ret"]["t"])
            extra.append(("res", len(lines)))
            lines.append("res %s %s %d %s" % (mp, mt[0], mt[1], ret.hex()))
        plan.append((pname, o["outcome"], steps, extra))
    return lines, plan


def check_model(ctx, case, plan, answers):
    """Compare the model's answers with what was observed."""
    for pname, outcome, steps, extra in plan:
        if outcome[0] == "ok":
            for st in steps:
                if st[0] == "m" and answers[st[1]] != "ok " + (st[3] or "-"):
                    ctx.disagree(case, st[3], answers[st[1]], "%s: bytes received for parameter %d" % (pname, st[2]))
                    return
        elif not case["argrec"].get("tail_bad"):
            verdict = None
            for st in steps:
                if st[0] == "u":
                    if not st[1]:
                        verdict = "unknown"      # an unmodelled bad argument comes first
                        break
                elif answers[st[1]].startswith("err "):
                    verdict = answers[st[1]][4:]
                    which = st[2]
                    break
            if verdict is None:
                ctx.disagree(case, outcome[1], "no error", "%s: the call raised, the model converts every argument" % pname)
                return
            if verdict != "unknown" and verdict != outcome[1]:
                ctx.disagree(case, outcome[1], verdict, "%s: exception type for parameter %d" % (pname, which))
                return
        for ex in extra:
            a = answers[ex[1]]
            if ex[0] == "vararg" and a != "ok " + ex[3]:
                ctx.disagree(case, ex[3], a, "%s: variadic argument %d" % (pname, ex[2]))
                return
            if ex[0] == "res":
                o = outcome
                want = {"int": lambda: "ok int %d" % o[2], "bool": lambda: "ok bool %d" % int(o[2]),
                        "bytes": lambda: "ok bytes " + o[2]}[o[1]]()
                if a != want:
                    ctx.disagree(case, want, a, "%s: result conversion" % pname)
                    return


# --------------------------------------------------------------------------- pointer probes

def item_image(item, v):
    """Image written by one list item (oracle side): full item, or the given prefix of fields for struct P2."""
    if item == "struct P2":
        return b"".join(pack_scalar("int", x) for x in v)
    if item == "double":
        return pack_scalar("double", unjson(v))
    if item == "char":
        return unjson(v)
    return pack_scalar(item, v)


def gen_probe(rng):
    name = rng.choice(sorted(PROBES))
    item = PROBES[name]
    isz = tsize(item)
    r = rng.random()
    case = {"probe": name, "item": item}
    if item == "void":
        if r < 0.5:
            b = bytes(rng.randrange(256) for _ in range(rng.randint(0, 6)))
            case.update(init={"k": "bytes", "v": b.hex()}, nbytes=len(b) + 1, expect=["pass", (b + b"\0").hex()])
        elif r < 0.8:
            case.update(init={"k": "list", "v": [1, 2]}, nbytes=0, expect=["err", "TypeError"])
        else:
            case.update(init={"k": "int", "v": 5}, nbytes=0, expect=["err", "TypeError"])
        return case
    if item in ("char", "unsigned char", "_Bool") and r < 0.3:
        if item == "_Bool":
            b = bytes(rng.randrange(3 if rng.random() < 0.3 else 2) for _ in range(rng.randint(0, 6)))
            if any(x > 1 for x in b):
                case.update(init={"k": "bytes", "v": b.hex()}, nbytes=0, expect=["err", "ValueError"])
                return case
        else:
            b = bytes(rng.randrange(256) for _ in range(rng.randint(0, 6)))
        case.update(init={"k": "bytes", "v": b.hex()}, nbytes=len(b) + 1, expect=["pass", (b + b"\0").hex()])
        return case
    if r < 0.4 and item not in ("char", "unsigned char", "_Bool"):
        if rng.random() < 0.5:
            case.update(init={"k": "bytes", "v": "00010203"}, nbytes=0, expect=["err", "TypeError"])
        else:
            case.update(init=rng.choice([{"k": "int", "v": 4}, {"k": "none"}, {"k": "float", "v": fhex(2.0)}]),
                        nbytes=0, expect=["err", "TypeError"])
        return case
    n = rng.randint(0, 6)
    items = [good_item(rng, item) for _ in range(n)]
    bad = None
    if n and rng.random() < 0.15 and item in INTS:
        lo, hi = int_range(item)
        j = rng.randrange(n)
        items[j] = rng.choice([hi + 1, lo - 1, 1 << 64])
        bad = ("OverflowError", j)
    elif n and rng.random() < 0.1 and item in INTS:
        j = rng.randrange(n)
        items[j] = {"hexfloat": fhex(1.5)}
        bad = ("TypeError", j)
    elif n and item == "_Bool" and rng.random() < 0.2:
        j = rng.randrange(n)
        items[j] = 2
        bad = ("OverflowError", j)
    datasize = max(n * isz, 1)
    kind = rng.choice(["list", "tuple"])
    if bad:
        case.update(init={"k": kind, "v": items}, nbytes=0, expect=["err", bad[0]], bad_item=bad[1], datasize=datasize)
    else:
        images = [item_image(item, v).hex() for v in items]
        case.update(init={"k": kind, "v": items}, nbytes=datasize, expect=["tmp", datasize], images=images, datasize=datasize)
    return case


def run_probe(ctx, paths, case, lines, plans):
    obs = {}
    for path in paths:
        keep = []
        arg = build_arg(path.ffi, case["init"], keep)
        f = path.get(case["probe"])
        path.reset()
        path.ffi.errno = SENTINEL
        try:
            f(arg, case["nbytes"])
            outcome = ["ok"]
        except Exception as e:
            outcome = ["exc", type(e).__name__]
        obs[path.name] = {"outcome": outcome, "log": path.log().hex(), "errno": path.ffi.errno, "mem": []}
    key = repr(case)
    ctx.case(key, sample={"probe": case["probe"], "init": case["init"]})
    ctx.count("probe:%s:%s" % (case["item"], case["expect"][0] + (":" + str(case["expect"][1]) if case["expect"][0] == "err" else "")))
    if not compare_paths(ctx, case, obs):
        return
    ref = obs["api"]
    # oracle on the zero fill / passthrough (plain Python, not the Lean model)
    exp = case["expect"]
    if exp[0] == "err":
        if ref["outcome"] != ["exc", exp[1]]:
            ctx.fail(case, "expected %s, got %r" % (exp[1], ref["outcome"]))
    elif exp[0] == "pass":
        if ref["outcome"] != ["ok"] or ref["log"] != exp[1]:
            ctx.fail(case, "bytes not passed through with their terminator: %r" % (ref,))
    else:
        isz = tsize(case["item"])
        want = b"".join(bytes.fromhex(h).ljust(isz, b"\0") for h in case["images"]).ljust(case["datasize"], b"\0")
        if ref["outcome"] != ["ok"] or bytes.fromhex(ref["log"]) != want:
            ctx.fail(case, "temporary array is not the items padded with zeros: got %s want %s" % (ref["log"], want.hex()))
    # model lines
    item = case["item"]
    isz = -1 if item == "void" else tsize(item)
    vc = int(item in ("char", "void"))
    i1 = int(item in ("unsigned char", "signed char", "_Bool", "int8_t"))
    ib = int(item == "_Bool")
    init = case["init"]
    spell = {"bytes": lambda: "bytes " + (init["v"] or "-"), "list": lambda: "seq %d" % len(init["v"]),
             "tuple": lambda: "seq %d" % len(init["v"])}.get(init["k"], lambda: "other")()
    lines.append("ptr %d %d %d %d %s" % (isz, vc, i1, ib, spell))
    if exp[0] == "pass":
        plans.append((case, "ok pass " + exp[1]))
    elif exp[0] == "tmp":
        plans.append((case, "ok tmp %d" % exp[1]))
        for mp in ("api", "ffi"):
            lines.append("tmp %s %d %d %s" % (mp, case["datasize"], isz, " ".join(h or "-" for h in case["images"])))
            plans.append((case, "ok " + (ref["log"] or "-")))
    elif "bad_item" in case:
        plans.append((case, "ok tmp %d" % case["datasize"]))
        mt = model_type(item)
        bad = init["v"][case["bad_item"]]
        mo = "float" if isinstance(bad, dict) else "int %d" % bad
        lines.append("arg ffi %s %d %s" % (mt[0], mt[1], mo))
        plans.append((case, "err " + exp[1]))
    else:
        plans.append((case, "err " + exp[1]))



# --------------------------------------------------------------------------- structs with multi-dimensional array fields

# (type, sizeof, struct.pack code); char elements are single bytes
ELEM = {"float": (4, "<f"), "double": (8, "<d"), "char": (1, None), "short": (2, "<h"), "int": (4, "<i"), "long long": (8, "<q")}
# always present (every seed): <= 16 bytes and 17..40 bytes, 2-D and 3-D, mixed with scalars; in every array the product
# of the dimensions differs from the last dimension
FIXED_ARRAY_STRUCTS = [
    [("float", [2, 2])],                                        # 16
    [("double", [2, 1]), ("int", [])],                          # 24
    [("short", [2, 3])],                                        # 12
    [("char", [2, 2, 2]), ("float", [2, 1])],                   # 16
    [("int", [2, 2])],                                          # 16
    [("float", []), ("float", [2, 1]), ("float", [])],          # 16
    [("double", [2, 1])],                                       # 16
    [("float", [3, 2]), ("int", [])],                           # 28
    [("double", [2, 2])],                                       # 32
    [("short", [2, 2, 2]), ("double", [])],                     # 24
    [("char", [3, 3]), ("int", [2, 1]), ("float", [])],         # 24
    [("int", []), ("double", [1, 2, 1])],                       # 24
    [("short", [2, 2]), ("float", [2, 1])],                     # 16
    [("char", [4, 2]), ("double", [])],                         # 16
    [("long long", [2, 2]), ("char", [2, 2])],                  # 40
]


def gen_array_struct(rng):
    while True:
        fields, total = [], 0
        for _ in range(rng.randint(1, 3)):
            t = rng.choice(sorted(ELEM))
            if rng.random() < 0.75:
                dims = [rng.randint(2, 3)] + [rng.randint(1, 3) for _ in range(rng.randint(1, 2))]
            else:
                dims = []
            n = 1
            for d in dims:
                n *= d
            fields.append((t, dims))
            total += n * ELEM[t][0]
        if total <= 40 and any(d for _, d in fields):
            return fields


def nelem(dims):
    n = 1
    for d in dims:
        n *= d
    return n


def as_decl(k, fields):
    return "struct SA%d { %s };\n" % (k, " ".join("%s f%d%s;" % (t, j, "".join("[%d]" % d for d in dims))
                                                  for j, (t, dims) in enumerate(fields)))


def as_source(k, fields):
    S = "struct SA%d" % k
    logs = lambda v: " ".join("LOGB(&%s.f%d, (int)sizeof(%s.f%d)); MIXB(&%s.f%d, sizeof(%s.f%d));" % ((v, j) * 4)
                              for j in range(len(fields)))
    fill, bump = [], []
    for j, (t, dims) in enumerate(fields):
        n = nelem(dims)
        ptr = "((%s *)&r.f%d)" % (t, j)
        ptrs = "((%s *)&s.f%d)" % (t, j)
        if t in ("float", "double"):
            fill.append("{ int q; for (q = 0; q < %d; q++) %s[q] = (%s)(x %% 97 + 5 * q + %d) / 4; }" % (n, ptr, t, j))
            bump.append("{ int q; for (q = 0; q < %d; q++) %s[q] = %s[q] * 2 + (%s)x / 8 + q; }" % (n, ptrs, ptrs, t))
        else:
            fill.append("{ int q; for (q = 0; q < %d; q++) %s[q] = (%s)(x * 7 + 13 * q + %d); }" % (n, ptr, t, j))
            bump.append("{ int q; for (q = 0; q < %d; q++) %s[q] = (%s)(%s[q] + x + q); }" % (n, ptrs, t, ptrs))
    return """
long long sa_take_%(k)d(%(S)s s, int x)
{ unsigned long long mix = (unsigned long long)x; %(logs_s)s errno = (int)(mix %% 30000) + 1; return (long long)(mix >> 3); }
%(S)s sa_make_%(k)d(int x)
{ unsigned long long mix = 1; %(S)s r; memset(&r, 0, sizeof r); %(fill)s %(logs_r)s errno = (int)(mix %% 30000) + 1; return r; }
%(S)s sa_echo_%(k)d(int pre, %(S)s s, int x)
{ unsigned long long mix = (unsigned long long)pre; %(logs_s)s %(bump)s %(logs_s)s errno = (int)(mix %% 30000) + 1; return s; }
%(S)s sa_cb_%(k)d(%(S)s (*cb)(%(S)s, int), %(S)s s, int x)
{ unsigned long long mix = 2; %(S)s r; %(logs_s)s r = cb(s, x); %(logs_r)s errno = (int)(mix %% 30000) + 1; return r; }
""" % {"k": k, "S": S, "logs_s": logs("s"), "logs_r": logs("r"), "fill": " ".join(fill), "bump": " ".join(bump)}


def as_cdef(k, fields):
    S = "struct SA%d" % k
    return (as_decl(k, fields) + "long long sa_take_%d(%s s, int x);\n%s sa_make_%d(int x);\n%s sa_echo_%d(int pre, %s s, int x);\n"
            "%s sa_cb_%d(%s (*cb)(%s, int), %s s, int x);\n" % (k, S, S, k, S, k, S, S, k, S, S, S))


def gen_elems(rng, fields):
    """Flat element values per field (JSON-able: floats as multiples of 1/8, chars as ints)."""
    vals = []
    for t, dims in fields:
        n = nelem(dims)
        if t in ("float", "double"):
            vals.append([rng.randint(-4000, 4000) / 8.0 for _ in range(n)])
        elif t == "char":
            vals.append([rng.randrange(256) for _ in range(n)])
        else:
            lo = -(1 << (8 * ELEM[t][0] - 1))
            vals.append([rng.choice([lo, -lo - 1, -1, 0, rng.randint(lo, -lo - 1)]) for _ in range(n)])
    return vals


def elems_image(fields, vals):
    out = b""
    for (t, dims), vs in zip(fields, vals):
        out += b"".join(bytes([v]) if t == "char" else struct.pack(ELEM[t][1], v) for v in vs)
    return out


def reshape(t, dims, vs):
    vs = [bytes([v]) for v in vs] if t == "char" else list(vs)
    if not dims:
        return vs[0]
    for d in reversed(dims[1:]):
        vs = [vs[i:i + d] for i in range(0, len(vs), d)]
    return vs


def build_struct(ffi, k, fields, vals, keep):
    p = ffi.new("struct SA%d *" % k, [reshape(t, dims, vs) for (t, dims), vs in zip(fields, vals)])
    keep.append(p)
    return p[0]


def struct_image(ffi, fields, s):
    """Concatenated field images of a struct cdata (padding between fields left out)."""
    return b"".join(bytes(ffi.buffer(ffi.addressof(s, "f%d" % j))) for j in range(len(fields)))


def run_array_structs(ctx, nrandom, nvalues):
    """By-value structs with 2-D / 3-D array fields as arguments and results, through the four call paths and through
    ffi.callback closures.  Oracle: the images are computed with struct.pack from the element values (and the API-mode
    `lib.f` path is gcc's own calling convention); the libffi paths must agree with both."""
    rng = ctx.rng
    structs = list(FIXED_ARRAY_STRUCTS) + [gen_array_struct(rng) for _ in range(nrandom)]
    src = "".join(as_decl(k, f) for k, f in enumerate(structs)) + "".join(as_source(k, f) for k, f in enumerate(structs))
    cdef = "".join(as_cdef(k, f) for k, f in enumerate(structs))
    paths = build_world(ctx, [], extra_src=src, extra_cdef=cdef)
    for k, fields in enumerate(structs):
        size = sum(nelem(d) * ELEM[t][0] for t, d in fields)
        for _ in range(nvalues):
            vals, ret_vals = gen_elems(rng, fields), gen_elems(rng, fields)
            x, pre = rng.randint(-1000, 1000), rng.randint(0, 1000)
            for op in ("take", "make", "echo", "cb"):
                case = {"array_struct": fields, "k": k, "op": op, "vals": vals, "ret_vals": ret_vals, "x": x, "pre": pre}
                ctx.case(repr((fields, op, vals, ret_vals, x)), sample={"struct": as_decl(k, fields).strip(), "op": op})
                ctx.count("array-struct:%s:%s" % (op, "<=16" if size <= 16 else ">16"))
                obs = {p.name: array_struct_call(p, k, fields, op, vals, ret_vals, x, pre) for p in paths}
                if not compare_paths(ctx, case, obs):
                    continue
                ref = obs["api"]
                img = elems_image(fields, vals).hex()
                if op in ("take", "echo", "cb") and not ref["log"].startswith(img):
                    ctx.fail(case, "the C function did not receive the struct: got %s, passed %s" % (ref["log"][:len(img)], img))
                if op == "cb":
                    rimg = elems_image(fields, ret_vals).hex()
                    if ref["cb_got"] != [img, x]:
                        ctx.fail(case, "the callback did not receive the struct C passed: %r vs %r" % (ref["cb_got"], [img, x]))
                    elif ref["log"] != img + rimg or ref["outcome"] != ["ok", rimg]:
                        ctx.fail(case, "the struct returned by the callback did not arrive: log %s outcome %r, returned %s"
                                 % (ref["log"], ref["outcome"], rimg))
                if op in ("make", "echo") and ref["outcome"][0] == "ok" and not ref["log"].endswith(ref["outcome"][1]):
                    ctx.fail(case, "the struct result differs from what the C function returned: %s vs log %s"
                             % (ref["outcome"][1], ref["log"]))


def array_struct_call(path, k, fields, op, vals, ret_vals, x, pre):
    ffi = path.ffi
    keep, got = [], {}
    f = path.get("sa_%s_%d" % (op, k))
    path.reset()
    ffi.errno = SENTINEL
    try:
        if op == "take":
            r = f(build_struct(ffi, k, fields, vals, keep), x)
            outcome = ["ok", int(r)]
        elif op == "make":
            outcome = ["ok", struct_image(ffi, fields, f(x)).hex()]
        elif op == "echo":
            outcome = ["ok", struct_image(ffi, fields, f(pre, build_struct(ffi, k, fields, vals, keep), x)).hex()]
        else:
            def body(s, xx):
                got["cb"] = [struct_image(ffi, fields, s).hex(), xx]
                return build_struct(ffi, k, fields, ret_vals, keep)
            cb = ffi.callback("struct SA%d(struct SA%d, int)" % (k, k), body)
            outcome = ["ok", struct_image(ffi, fields, f(cb, build_struct(ffi, k, fields, vals, keep), x)).hex()]
    except Exception as e:
        outcome = ["exc", type(e).__name__]
    err = ffi.errno
    return {"outcome": outcome, "errno": err, "log": path.log().hex(), "mem": [], "cb_got": got.get("cb")}


# --------------------------------------------------------------------------- entry points

def translators(ctx):
    """Generated/IntMacros.lean: the macro conditions and the dispatch the API-path model is proved equal to
    (api_signed_check_is_source, api_unsigned_check_is_source, api_dispatch_is_source)."""
    return [intmacros.translator(ctx), c13_tmpbuf.translator(ctx), c13_flatten.translator(ctx)]


def run_module(ctx, nfuncs, ntuples, nprobes, model=True):
    rng = ctx.rng
    import time
    t0 = time.time()
    fns = [gen_function(rng, i) for i in range(nfuncs)]
    paths = build_world(ctx, fns)
    common.log("C13: module with %d functions built in %.1fs" % (nfuncs, time.time() - t0))
    lines, plans = [], []
    for fn in fns:
        for _ in range(ntuples if fn["params"] else 1):
            argrec = gen_args(rng, fn)
            case = {"fn": fn, "argrec": argrec}
            obs = {p.name: call_path(p, fn, argrec) for p in paths}
            sig = (fn["ret"]["t"], tuple(p["t"] for p in fn["params"]), fn["variadic"])
            ctx.case((sig, repr(argrec["args"])) if fn["params"] else None,
                     sample={"sig": c_decl(fn), "args": argrec["args"][:3]})
            ctx.count("outcome:" + (obs["api"]["outcome"][0] if obs["api"]["outcome"][0] == "ok" else obs["api"]["outcome"][1]))
            ctx.count("ret:" + fn["ret"]["c"])
            for p in fn["params"]:
                ctx.count("param:" + p["c"])
            if fn["variadic"]:
                ctx.count("variadic-call")
            if not compare_paths(ctx, case, obs):
                continue
            if model:
                ls, plan = model_lines(fn, argrec, obs)
                if ls:
                    lines.append((case, ls, plan))
    probe_lines, probe_plans = [], []
    for _ in range(nprobes):
        run_probe(ctx, paths, gen_probe(rng), probe_lines, probe_plans)
    common.log("C13: calls done at %.1fs" % (time.time() - t0))
    if not model:
        return
    flat = [l for _, ls, _ in lines for l in ls] + probe_lines
    if not flat:
        return
    out = ctx.driver(flat)
    common.log("C13: model answered %d lines at %.1fs" % (len(flat), time.time() - t0))
    pos = 0
    for case, ls, plan in lines:
        check_model(ctx, case, plan, out[pos:pos + len(ls)])
        pos += len(ls)
    for (case, want), got in zip(probe_plans, out[pos:]):
        if want != got:
            ctx.disagree(case, want, got, "pointer preparation / temporary array")


def correspond(ctx):
    PARTIAL_STRUCTS[0] = any(f["class"] == "C13/partial-struct-by-value" for f in ctx.open_findings)
    run_array_structs(ctx, ctx.n(5, 40), ctx.n(3, 12))
    for _ in range(ctx.n(2, 10)):
        run_module(ctx, 40, ctx.n(24, 50), ctx.n(300, 800))


def search(ctx):
    run_array_structs(ctx, ctx.n(20, 80), ctx.n(6, 20))
    for _ in range(ctx.n(3, 12)):
        run_module(ctx, 40, ctx.n(30, 60), ctx.n(300, 1000), model=False)


def check_witness(ctx, finding):
    """struct P2 passed by value as the partial initialiser [7]: is field b still indeterminate?"""
    import cffi
    if ctx.scratch not in sys.path:
        sys.path.insert(0, ctx.scratch)
    name = "_c13_witness_%d_%d" % (ctx.seed, os.getpid())
    ffi = cffi.FFI()
    ffi.cdef("struct P2 { int a; int b; }; int getb(struct P2 s); int dirty(int n);")
    ffi.set_source(name, "struct P2 { int a; int b; };\nint getb(struct P2 s) { return s.b; }\n"
                         "int dirty(int n) { volatile char buf[2048]; int i; for (i = 0; i < 2048; i++) buf[i] = (char)(n + i);"
                         " return buf[n & 1023]; }\n")
    cpath = os.path.join(ctx.scratch, name + ".c")
    _quiet(lambda: ffi.emit_c_code(cpath))
    common.compile_ext(cpath, ctx.scratch, name)
    m = importlib.import_module(name)
    seen = set()
    for k in range(40):
        m.lib.dirty(k * 37 + 1)
        seen.add(m.lib.getb([7]))
        seen.add(m.ffi.addressof(m.lib, "getb")([7]))
        seen.add(m.lib.getb({"a": 7}))
    return seen != {0}


def _num(v):
    """Replay files store integers beyond 2**62 as decimal strings (common.jsonable)."""
    if isinstance(v, str) and re.match(r"^-?\d+$", v):
        return int(v)
    if isinstance(v, list):
        return [_num(x) for x in v]
    if isinstance(v, dict):
        return {k: (x if k in ("hexfloat", "hexbytes") else _num(x)) for k, x in v.items()}
    return v


def _fix_recipe(r):
    r = dict(r)
    if r["k"] in ("int", "intlike") or (r["k"] == "cast" and r["t"] != "char"):
        r["v"] = _num(r["v"])
    elif r["k"] in ("list", "tuple", "new", "struct", "dict"):
        r["v"] = _num(r["v"])
    return r


def replay_array_struct(ctx, case):
    fields = [(t, list(d)) for t, d in case["array_struct"]]
    k = 0
    paths = build_world(ctx, [], extra_src=as_decl(k, fields) + as_source(k, fields), extra_cdef=as_cdef(k, fields))
    obs = {p.name: array_struct_call(p, k, fields, case["op"], _num(case["vals"]), _num(case["ret_vals"]),
                                     _num(case["x"]), _num(case["pre"])) for p in paths}
    print(as_decl(k, fields).strip(), case["op"])
    for name, o in obs.items():
        print(name, o)
    ok = compare_paths(ctx, case, obs)
    img = elems_image(fields, _num(case["vals"])).hex()
    if ok and case["op"] != "make" and not obs["api"]["log"].startswith(img):
        ok = False
    if ok and case["op"] == "cb" and (obs["api"]["cb_got"] != [img, _num(case["x"])]
                                      or obs["api"]["outcome"] != ["ok", elems_image(fields, _num(case["ret_vals"])).hex()]):
        ok = False
    return 0 if ok else 1


def replay(ctx, obj):
    case = obj["case"]
    if "array_struct" in case:
        return replay_array_struct(ctx, case)
    if "init" in case:
        case["init"] = _fix_recipe(case["init"])
    if "fn" in case:
        case["fn"]["salt"] = _num(case["fn"]["salt"])
        case["argrec"]["args"] = [_fix_recipe(r) for r in case["argrec"]["args"]]
    if "probe" in case:
        paths = build_world(ctx, [])
        lines, plans = [], []
        run_probe(ctx, paths, case, lines, plans)
        for f in ctx.failures:
            print("FAIL:", f["detail"])
        return 1 if ctx.failures else 0
    fn = case["fn"]
    paths = build_world(ctx, [fn])
    obs = {p.name: call_path(p, fn, case["argrec"]) for p in paths}
    print(c_decl(fn))
    for k, v in obs.items():
        print(k, v)
    ok = compare_paths(ctx, case, obs)
    for f in ctx.failures:
        print("FAIL:", f["detail"])
    return 0 if ok else 1
