"""C18 -- ffi.unpack(p, n) equals [p[i] for i in range(n)].

Theorems (lean/CffiVerif/Props/C18.lean) over the model of b_unpack / convert_to_object
(Model/Unpack.lean), whose fast-path selection and readers are interpreted over
Generated/UnpackTable.lean: table_shape, fast_eq_generic, unpackElem_eq_index,
unpack_eq_map_index, unpack_unsized_raises, unpack_char8_eq_join, unpack_char16_same_units,
unpack_char32_eq_join_partial (+ the negation at the out-of-range witness),
unpack_char32_single_out_of_range.

Tie to the code:
  * translate/unpack_table.py re-extracts the `casenum` selection and the reader `switch` of
    b_unpack from the working tree on every run; fast_eq_generic is stated over that table;
  * every primitive / pointer / aggregate item type x random contents written through
    ffi.buffer x aligned and misaligned starts (char* + k, cast) x lengths 0..64:
    ffi.unpack(p, n) against [p[i] for i in range(n)] on the rebuilt backend (property oracle,
    no model involved; values compared canonically: ints, float bit patterns, addresses and
    ctypes of cdata, UTF-16 units for 16-bit characters), and both against the Lean driver.
"""
import json
import os
import signal
import struct
import sys
import traceback

import common
from common import InfraError

sys.path.insert(0, os.path.join(common.VERIF, "translate"))

MANIFEST = {
    "text": "Kernel-checked theorems over a Lean model of b_unpack and convert_to_object whose fast-path table is re-extracted "
            "from the C source on every run: every fast reader the selection can choose equals the generic conversion for every "
            "item type, byte content, alignment and offset (errors included: a _Bool byte outside {0,1} raises ValueError on both "
            "sides), hence ffi.unpack(p, n) = [p[i] for i in range(n)] for every non-character item type of known size; for char "
            "the bytes are the join, for char16_t both sides spell the same UTF-16 units, for char32_t/wchar_t the join holds when "
            "all units are code points (negation proved at the out-of-range witness: known finding). Tied to the code by the "
            "translator and by running all item types x random contents x aligned/misaligned starts x lengths 0..64 on the rebuilt "
            "backend against both the element-wise read (oracle) and the model driver.",
    "note": "Trusted: Lean kernel; translate/unpack_table.py (regex extraction); the harness canonicalisers; x86-64 LP64 sizes, "
            "little endian, cvtss2sd float widening and x87 long double copies are modelled, not verified; CPython's "
            "PyLong_From*/PyFloat_FromDouble/PyUnicode_FromKindAndData are modelled; items of unknown size under indexing are not modelled.",
    "technique": "Lean 4 proof (case analysis over the generated fast-path table, omega on two's-complement ranges) + translator "
                 "+ differential correspondence with the rebuilt backend + element-wise property oracle",
}

RULE = ("item type drawn from all integer types of every size and sign, enums, _Bool, float, double, long double, complex, "
        "data/function pointers, char/wchar_t/char16_t/char32_t, small structs/unions/arrays, and unsized items; contents = random "
        "bytes biased to boundary patterns (00/FF/7F/80, _Bool bytes mostly 0/1 with some others, NaN/inf/subnormal floats, "
        "surrogates and out-of-range char32 units); start = 64-byte-aligned buffer + k with k = 0 half of the time else 1..15, or a "
        "fresh ffi.new array; n in 0..64; every run first covers each (item type x start class {array, aligned, offset-but-aligned, "
        "misaligned-for-item} x length class {0, 1, 2-8, 9-64}) cell once (twice for _Bool: valid / with an invalid byte, and for "
        "4-byte characters: code points / with an out-of-range unit), counts recorded as cell:* in the distribution; "
        "non-trivial when n >= 1; distinct = distinct (type, k, n, contents)")
ASSUMPTIONS = ["x86-64 SysV LP64, little endian", "sizeof(long double) = 16 (else the double fast path would apply to long double)"]
TRUSTED_EXTRA = ["translate/unpack_table.py: regex extraction of the casenum selection and reader switch of b_unpack"]


def _units32(case):
    raw = bytes.fromhex(case["mem"]) if case.get("mem") else b""
    n = case.get("n", 0)
    return list(struct.unpack("<%dI" % n, raw[:4 * n])) if len(raw) >= 4 * n else []


CLASSES = {
    "C18/char32-out-of-range":
        lambda case: case.get("kind") == "char" and case.get("size") == 4 and case.get("n", 0) >= 2
        and any(u > 0x10FFFF for u in _units32(case)),
    "C18/unsized-item":
        lambda case: case.get("kind") == "unsized",
}

FINDINGS = [
    {"property": "C18", "class": "C18/char32-out-of-range",
     "witness": {"item": "char32_t", "units": [0x110000, 0], "n": 2},
     "what": "ffi.unpack of a char32_t/wchar_t array holding a unit above 0x10FFFF returns a malformed str when n >= 2 "
             "(PyUnicode_FromKindAndData does not validate), while p[i] raises SystemError"},
    {"property": "C18", "class": "C18/unsized-item",
     "witness": {"item": "struct c18_opaque", "n": 0},
     "what": "ffi.unpack raises ValueError for items of unknown size (void, opaque struct, T[]) even for n = 0, where the "
             "element-wise read is [] (and for n > 0 indexing an opaque struct pointer does not raise)"},
]

CDEF = """
struct c18_s1 { char a; };
struct c18_s2 { char a; short b; };
struct c18_s3 { char a[3]; };
struct c18_s8 { int a; float b; };
union c18_u1 { int a; char b; };
struct c18_opaque;
enum c18_es { C18_ES_A = -5, C18_ES_B = 7 };
enum c18_eu { C18_EU_A = 1, C18_EU_B = 0x80000000 };
enum c18_el { C18_EL_A = -1, C18_EL_B = 0x100000000 };
typedef int (*c18_fn)(int);
"""

# (item type, pointer-to-item type, kind)
ITEMS = [
    ("signed char", None, "signed"), ("short", None, "signed"), ("int", None, "signed"), ("long", None, "signed"),
    ("long long", None, "signed"), ("int8_t", None, "signed"), ("int16_t", None, "signed"), ("int32_t", None, "signed"),
    ("int64_t", None, "signed"), ("ssize_t", None, "signed"), ("intptr_t", None, "signed"), ("ptrdiff_t", None, "signed"),
    ("unsigned char", None, "unsigned"), ("unsigned short", None, "unsigned"), ("unsigned int", None, "unsigned"),
    ("unsigned long", None, "unsigned"), ("unsigned long long", None, "unsigned"), ("uint8_t", None, "unsigned"),
    ("uint16_t", None, "unsigned"), ("uint32_t", None, "unsigned"), ("uint64_t", None, "unsigned"), ("size_t", None, "unsigned"),
    ("uintptr_t", None, "unsigned"),
    ("enum c18_es", None, "signed"), ("enum c18_eu", None, "unsigned"), ("enum c18_el", None, "signed"),
    ("_Bool", None, "bool"), ("_Bool", None, "bool"), ("_Bool", None, "bool"),
    ("float", None, "float"), ("float", None, "float"), ("double", None, "float"), ("double", None, "float"),
    ("long double", None, "longdouble"),
    ("float _Complex", None, "complex"), ("double _Complex", None, "complex"),
    ("void *", "void **", "pointer"), ("int *", "int **", "pointer"), ("struct c18_s2 *", "struct c18_s2 **", "pointer"),
    ("char *", "char **", "pointer"), ("c18_fn", "c18_fn *", "pointer"),
    ("char", None, "char"), ("wchar_t", None, "char"), ("char16_t", None, "char"), ("char16_t", None, "char"),
    ("char32_t", None, "char"),
    ("struct c18_s1", None, "aggregate"), ("struct c18_s2", None, "aggregate"), ("struct c18_s3", None, "aggregate"),
    ("struct c18_s8", None, "aggregate"), ("union c18_u1", None, "aggregate"),
    ("int[3]", "int(*)[3]", "aggregate"), ("char[2]", "char(*)[2]", "aggregate"),
    ("void", "void *", "unsized"), ("struct c18_opaque", "struct c18_opaque *", "unsized"), ("int[]", "int(*)[]", "unsized"),
]


def _register_findings(ctx):
    have = set(f["class"] for f in ctx.findings)
    for f in FINDINGS:
        if f["class"] not in have:
            ctx.findings.append(f)
            ctx.open_findings.append(f)


def translators(ctx):
    import unpack_table
    return [unpack_table.translator]


# ---------------------------------------------------------------- contents

F32 = [0x00000000, 0x80000000, 0x3F800000, 0x7F800000, 0xFF800000, 0x7F800001, 0x7FC00000, 0xFFC12345, 0x7FBFFFFF,
       0x00000001, 0x007FFFFF, 0x00800000, 0x7F7FFFFF, 0x00400000, 0x80000003]
F64 = [0, 1 << 63, 0x3FF0000000000000, 0x7FF0000000000000, 0xFFF0000000000000, 0x7FF0000000000001, 0x7FF8000000000000,
       0x0000000000000001, 0x000FFFFFFFFFFFFF, 0x7FEFFFFFFFFFFFFF]


def gen_elem(rng, kind, size, decl):
    r = rng.random()
    if kind == "bool":
        return bytes([rng.choice([0, 1]) if r < 0.9 else rng.choice([2, 3, 0x80, 0xFF, rng.randint(2, 255)])])
    if kind == "float" and r < 0.5:
        return struct.pack("<I", rng.choice(F32)) if size == 4 else struct.pack("<Q", rng.choice(F64))
    if kind == "complex" and r < 0.5:
        half = size // 2
        return b"".join(struct.pack("<I", rng.choice(F32)) if half == 4 else struct.pack("<Q", rng.choice(F64))
                        for _ in range(2))
    if kind == "char" and size == 2 and r < 0.7:
        return struct.pack("<H", rng.choice([rng.randint(0xD800, 0xDBFF), rng.randint(0xDC00, 0xDFFF), rng.randint(0, 0x7F),
                                             rng.randint(0, 0xFFFF), 0]))
    if kind == "char" and size == 4 and r < 0.9:
        return struct.pack("<I", rng.choice([rng.randint(0, 0x10FFFF), rng.randint(0xD800, 0xDFFF), rng.randint(0, 0x7F),
                                             0x10FFFF, 0, rng.randint(0, 0x10FFFF), rng.randint(0x10000, 0x10FFFF)]))
    if r < 0.25:
        return bytes([rng.choice([0x00, 0xFF, 0x7F, 0x80])]) * size
    if r < 0.35:
        return bytes([0xFF] * (size - 1) + [0x7F])
    if r < 0.45:
        return bytes([0x00] * (size - 1) + [0x80])
    return bytes(rng.getrandbits(8) for _ in range(size))


def gen_case(rng, items):
    decl, ptr, kind, size, align = rng.choice(items)
    n = rng.choice([0, 1, 2, 3, rng.randint(0, 64), rng.randint(0, 64), 64])
    case = {"item": decl, "ptr": ptr, "kind": kind, "size": size, "align": align}
    if kind == "unsized":
        case.update(n=rng.choice([0, 0, 1, 2]), k=0, mem="00" * 16, container="cast")
        return case
    if kind == "char" and size == 4 and rng.random() < 0.5:
        # keep half of the char32 cases inside the domain where the str is well formed
        content = b"".join(struct.pack("<I", rng.choice([rng.randint(0, 0x10FFFF), rng.randint(0xD800, 0xDFFF), 0x41]))
                           for _ in range(n))
    else:
        content = b"".join(gen_elem(rng, kind, size, decl) for _ in range(n))
    if kind == "char" and size == 4 and n >= 1 and rng.random() < 0.04:
        content = struct.pack("<I", rng.choice([0x110000, 0xFFFFFFFF])) + content[4:]
        if rng.random() < 0.5:
            n, content = 1, content[:4]
    container = "array" if rng.random() < 0.2 else "cast"
    k = 0 if container == "array" or rng.random() < 0.5 else rng.randint(1, 15)
    case.update(n=n, k=k, mem=content.hex(), container=container)
    return case



LEN_CLASSES = {"n0": (0, 0), "n1": (1, 1), "n2-8": (2, 8), "n9-64": (9, 64)}
START_CLASSES = ["array", "aligned", "offset-but-aligned", "misaligned-for-item"]


def gen_grid(rng, items):
    """Every (item type x start class x length class) cell once per run -- twice (valid / invalid contents) for
    _Bool and the 4-byte character types; contents random within the class.  -> [(cell name, case)]"""
    out, seen = [], set()
    for decl, ptr, kind, size, align in items:
        if (decl, kind) in seen:
            continue
        seen.add((decl, kind))
        base = {"item": decl, "ptr": ptr, "kind": kind, "size": size, "align": align}
        if kind == "unsized":
            for n in (0, 1, 2):
                out.append(("%s|cast|n%d" % (decl, n), dict(base, n=n, k=0, mem="00" * 16, container="cast")))
            continue
        for start in START_CLASSES:
            if start == "misaligned-for-item" and align <= 1:
                continue
            for lname, (lo, hi) in LEN_CLASSES.items():
                contents = ["random"]
                if kind == "bool" and hi >= 1:
                    contents = ["valid", "invalid-byte"]
                if kind == "char" and size == 4 and hi >= 1:
                    contents = ["code-points", "out-of-range-unit"]
                for cc in contents:
                    n = rng.randint(lo, hi)
                    if cc == "valid":
                        content = bytes(rng.choice([0, 1]) for _ in range(n))
                    elif cc == "invalid-byte":
                        b = [rng.choice([0, 1]) for _ in range(n)]
                        b[rng.randrange(n)] = rng.choice([2, 3, 0x80, 0xFF, rng.randint(2, 255)])
                        content = bytes(b)
                    elif cc == "code-points":
                        content = b"".join(struct.pack("<I", rng.choice([rng.randint(0, 0x10FFFF), rng.randint(0xD800, 0xDFFF),
                                                                        0x41, 0, 0x10FFFF])) for _ in range(n))
                    elif cc == "out-of-range-unit":
                        u = [rng.randint(0, 0x10FFFF) for _ in range(n)]
                        u[rng.randrange(n)] = rng.choice([0x110000, 0xFFFFFFFF, 0x80000000, rng.randint(0x110000, 0xFFFFFFFF)])
                        content = struct.pack("<%dI" % n, *u)
                    else:
                        elems = [gen_elem(rng, kind, size, decl) for _ in range(n)]
                        if kind in ("signed", "unsigned", "pointer"):
                            # every integer cell sees the all-ones and the sign-bit-only patterns
                            if n >= 1:
                                elems[rng.randrange(n)] = b"\xff" * size
                            if n >= 2:
                                elems[0 if elems[0] != b"\xff" * size else 1] = b"\x00" * (size - 1) + b"\x80"
                        content = b"".join(elems)
                    if start == "array":
                        container, k = "array", 0
                    elif start == "aligned":
                        container, k = "cast", 0
                    elif start == "offset-but-aligned":
                        container, k = "cast", align * rng.randint(1, max(1, 15 // align))
                    else:
                        container, k = "cast", rng.choice([x for x in range(1, 16) if x % align])
                    out.append(("%s|%s|%s%s" % (decl, start, lname, "" if cc == "random" else "|" + cc),
                                dict(base, n=n, k=k, mem=content.hex(), container=container)))
    return out

# ---------------------------------------------------------------- running one case

class Runner:
    def __init__(self):
        import cffi
        self.ffi = ffi = cffi.FFI()
        ffi.cdef(CDEF)
        self.items = []
        for decl, ptr, kind in ITEMS:
            ptr = ptr or decl + " *"
            if kind == "unsized":
                size, align = 0, 1
            else:
                size, align = ffi.sizeof(decl), ffi.alignof(decl)
            self.items.append((decl, ptr, kind, size, align))
        self.uintptr = ffi.typeof("uintptr_t")

    def canon_elem(self, x, case, base_addr, ptr_t):
        ffi = self.ffi
        if type(x) is bool:
            return "T" if x else "F"
        if type(x) is int:
            return "i%d" % x
        if type(x) is float:
            return "f%d" % struct.unpack("<Q", struct.pack("<d", x))[0]
        if type(x) is complex:
            return "c%d:%d" % (struct.unpack("<Q", struct.pack("<d", x.real))[0],
                               struct.unpack("<Q", struct.pack("<d", x.imag))[0])
        if type(x) is bytes:
            return "b" + ".".join(str(b) for b in x)
        if type(x) is str:
            return "s" + ".".join(str(ord(c)) for c in x)
        if isinstance(x, ffi.CData):
            t = ffi.typeof(x)
            if case["kind"] == "longdouble":
                if t is not ffi.typeof("long double"):
                    return "?type:" + t.cname
                return "L" + bytes(ffi.buffer(ffi.new("long double *", x)))[:10].hex()
            if case["kind"] == "pointer":
                if t is not ffi.typeof(case["item"]):
                    return "?type:" + t.cname
                return "p%d" % int(ffi.cast(self.uintptr, x))
            if case["kind"] == "aggregate":
                if t is not ffi.typeof(case["item"]):
                    return "?type:" + t.cname
                return "r%d" % (int(ffi.cast(self.uintptr, ffi.addressof(x) if t.kind in ("struct", "union")
                                             else ffi.cast("char *", x))) - base_addr)
            return "?cdata:" + t.cname
        return "?" + type(x).__name__

    def run(self, case):
        """-> (observations, problems) like corr_C15."""
        ffi = self.ffi
        kind, size, n, k = case["kind"], case["size"], case["n"], case["k"]
        content = bytes.fromhex(case["mem"])
        obs, problems = [], []
        if case["container"] == "array" and kind != "unsized":
            arr = ffi.new("%s[%d]" % (case["item"], n)) if "[" not in case["item"] else \
                ffi.new(case["item"].replace("[", "[%d][" % n, 1))
            if n:
                ffi.buffer(arr)[:] = content
            p = arr
            base_addr = int(ffi.cast(self.uintptr, ffi.cast("char *", arr)))
            if case["align"] and base_addr % case["align"]:
                raise InfraError("ffi.new returned memory not aligned for %s" % case["item"])
            base = 0
            keep = arr
        else:
            buf = ffi.new("char[]", len(content) + 160)
            a = int(ffi.cast(self.uintptr, buf))
            start = (-a) % 64 + k
            ffi.buffer(buf)[start:start + len(content)] = content
            p = ffi.cast(case["ptr"], buf + start)
            base_addr = a + start
            base = k
            keep = buf

        def attempt(fn):
            try:
                return "ok", fn()
            except (ValueError, TypeError, SystemError, OverflowError, IndexError, RuntimeError) as e:
                return "err", type(e).__name__

        st1, r1 = attempt(lambda: ffi.unpack(p, n))
        st2, r2 = attempt(lambda: [p[i] for i in range(n)])
        ptr_t = None
        ischar = kind == "char"
        units = None
        bogus = False
        if ischar and size == 4:
            units = list(struct.unpack("<%dI" % n, content))
            bogus = any(u > 0x10FFFF for u in units)

        # canonical forms
        if st2 == "ok":
            c2 = [self.canon_elem(x, case, base_addr, ptr_t) for x in r2]
            s2 = "ok " + (",".join(c2) if c2 else "-")
        else:
            c2, s2 = None, "err " + r2
        if st1 == "err":
            c1, s1 = None, "err " + r1
        elif ischar:
            if not isinstance(r1, bytes if size == 1 else str):
                c1, s1 = None, "?" + type(r1).__name__
            elif size == 1:
                c1 = list(r1)
                s1 = "ok bytes " + (",".join(map(str, c1)) or "-")
            elif bogus and n >= 2:
                c1 = None                       # a malformed str: do not look inside
                s1 = "ok str " + ",".join(map(str, units))
            else:
                c1 = [ord(ch) for ch in r1]
                s1 = "ok str " + (",".join(map(str, c1)) or "-")
        else:
            if not isinstance(r1, list):
                c1, s1 = None, "?" + type(r1).__name__
            else:
                c1 = [self.canon_elem(x, case, base_addr, ptr_t) for x in r1]
                s1 = "ok list " + (",".join(c1) if c1 else "-")

        # the property: unpack == element-wise read
        same = None
        if st1 != st2:
            same = False
        elif st1 == "err":
            same = r1 == r2
        elif any(isinstance(c, str) and c.startswith("?") for c in (c1 or []) + (c2 or [])) or s1.startswith("?"):
            same = False
        elif ischar and size == 1:
            same = all(isinstance(x, bytes) and len(x) == 1 for x in r2) and b"".join(r2) == r1
        elif ischar and size == 2:
            same = all(isinstance(x, str) for x in r2) and \
                r1.encode("utf-16-le", "surrogatepass") == "".join(r2).encode("utf-16-le", "surrogatepass")
        elif ischar:
            same = (not (bogus and n >= 2)) and all(isinstance(x, str) and len(x) == 1 for x in r2) and "".join(r2) == r1
        else:
            same = c1 == c2
        if not same:
            problems.append(("unpack-vs-index", "ffi.unpack(<%s> +%d, %d) = %s but [p[i] ...] = %s (contents %s)"
                             % (case["ptr"], k, n, s1[:300], s2[:300], case["mem"][:200])))
        # the raw contents are what was written (nothing was modified by reading)
        hexmem = case["mem"] or "-"
        obs.append(("unpack %s %d %d %d %s %d" % (kind, size, case["align"], base, hexmem, n), s1))
        if kind != "unsized":
            obs.append(("indexall %s %d %d %s %d" % (kind, size, case["align"], hexmem, n), s2))
        del keep
        return obs, problems


def nontrivial_key(case):
    if case["n"] == 0:
        return None
    return (case["item"], case["k"], case["n"], case["container"], case["mem"])


def run_guarded(cases):
    """Execute the cases in a forked child (a broken reader may walk out of the buffer and crash);
    -> (results, crashed) as in corr_C15."""
    r, w = os.pipe()
    pid = os.fork()
    if pid == 0:
        code = 0
        try:
            os.close(r)
            runner = Runner()
            with os.fdopen(w, "w") as out:
                for i, case in enumerate(cases):
                    out.write("S %d\n" % i)
                    out.flush()
                    obs, problems = runner.run(case)
                    out.write("R " + json.dumps([obs, problems]) + "\n")
                    out.flush()
        except BaseException:
            traceback.print_exc()
            code = 3
        finally:
            os._exit(code)
    os.close(w)
    results, started = [], -1
    with os.fdopen(r) as inp:
        for line in inp:
            if line.startswith("S "):
                started = int(line[2:])
            elif line.startswith("R "):
                obs, problems = json.loads(line[2:])
                results.append(([tuple(o) for o in obs], [tuple(p) for p in problems]))
    _, status = os.waitpid(pid, 0)
    if os.WIFSIGNALED(status):
        sig = os.WTERMSIG(status)
        try:
            name = signal.Signals(sig).name
        except ValueError:
            name = str(sig)
        return results, (started, "the interpreter was killed by %s while executing this case" % name)
    if os.WEXITSTATUS(status) != 0 or len(results) != len(cases):
        raise InfraError("case runner failed (exit %d) after %d of %d cases" % (os.WEXITSTATUS(status), len(results), len(cases)))
    return results, None


def run_cases(ctx, n, with_driver, fixed=()):
    items = Runner().items
    todo = [(None, c) for c in fixed] + gen_grid(ctx.rng, items)
    ngrid = len(todo)
    todo += [(None, gen_case(ctx.rng, items)) for _ in range(n)]
    results, crashed = run_guarded([c for _, c in todo])
    lines, expect = [], []
    for idx, ((cell, case), (obs, problems)) in enumerate(zip(todo, results)):
        ctx.case(nontrivial_key(case), sample=case if idx >= ngrid and len(case["mem"]) <= 64 else None)
        if cell:
            ctx.count("cell:" + cell)
        else:
            ctx.count("kind:" + case["kind"] + (":%d" % case["size"] if case["kind"] in ("signed", "unsigned", "float", "char") else ""))
            ctx.count("start:" + ("array" if case["container"] == "array" else "aligned" if case["k"] == 0
                                  else "misaligned-for-item" if case["k"] % max(1, case["align"]) else "offset-but-aligned"))
        if obs and obs[0][1].startswith("err"):
            ctx.count("outcome:" + obs[0][1])
        for tag, text in problems:
            ctx.fail(case, text)
        for line, impl in obs:
            lines.append(line)
            expect.append((case, impl))
    if crashed:
        idx, text = crashed
        ctx.fail(todo[idx][1], text)
        ctx.count("crashed")
    ctx.count("driver-lines", len(lines))
    if not with_driver:
        return
    out = ctx.driver(lines)
    for line, o, (case, impl) in zip(lines, out, expect):
        if o != impl:
            ctx.disagree(case, impl, o, line[:200])


def fixed_cases(runner_items):
    by = {(d, k): (d, p, k, s, a) for d, p, k, s, a in runner_items}

    def mk(decl, kind, n, mem, k=0, container="cast"):
        d, p, kd, s, a = by[(decl, kind)]
        return {"item": d, "ptr": p, "kind": kd, "size": s, "align": a, "n": n, "k": k, "mem": mem, "container": container}
    return [
        mk("_Bool", "bool", 3, "010002"),                      # the _Bool byte outside {0,1}
        mk("_Bool", "bool", 3, "010002", k=0, container="array"),
        mk("char32_t", "char", 2, "0000110000000000"),          # witness of C18/char32-out-of-range
        mk("char32_t", "char", 1, "00001100"),
        mk("char16_t", "char", 2, "3dd800de"),                  # a surrogate pair
        mk("unsigned int", "unsigned", 2, "ffffffff00000080"),  # case 6: must not go negative
        mk("unsigned long", "unsigned", 1, "ffffffffffffffff"),
        mk("short", "signed", 2, "0080ff7f", k=1),
        mk("struct c18_opaque", "unsized", 0, "00" * 16),
    ]


# ---------------------------------------------------------------- entry points

def correspond(ctx):
    _register_findings(ctx)
    run_cases(ctx, ctx.n(3000, 120000), with_driver=True, fixed=fixed_cases(Runner().items))


def search(ctx):
    _register_findings(ctx)
    run_cases(ctx, ctx.n(20000, 300000), with_driver=False, fixed=fixed_cases(Runner().items))


def check_witness(ctx, finding):
    import cffi
    ffi = cffi.FFI()
    w = finding["witness"]
    if finding["class"] == "C18/char32-out-of-range":
        p = ffi.new("%s[]" % w["item"], len(w["units"]))
        ffi.buffer(p)[:] = struct.pack("<%dI" % len(w["units"]), *w["units"])
        try:
            ffi.unpack(p, w["n"])
        except SystemError:
            return False
        try:
            [p[i] for i in range(w["n"])]
        except SystemError:
            return True
        return False
    if finding["class"] == "C18/unsized-item":
        ffi.cdef("struct c18_opaque;")
        buf = ffi.new("char[]", 16)
        p = ffi.cast("struct c18_opaque *", buf)
        try:
            return ffi.unpack(p, w["n"]) != [p[i] for i in range(w["n"])]
        except ValueError:
            return True
    return None


def replay(ctx, obj):
    case = obj["case"]
    obs, problems = Runner().run(case)
    for line, impl in obs:
        print("%s -> %s" % (line[:300], impl[:300]))
    for tag, text in problems:
        print("FAILS [%s]: %s" % (tag, text))
    return 1 if problems else 0
