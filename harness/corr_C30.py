"""C30 -- declaration and type-string errors are reported as cffi errors; typeof on a
compiled FFI never crashes or reads outside the string.

Theorems (lean/CffiVerif/Props/C30.lean): tokenizer_reads_in_bounds, token_stream_in_bounds,
search_standard_typename_reads_inside_token, error_location_in_string, bad_type_buffer_exact,
dfa_is_the_regex, define_literal_ok_iff, define_errors_are_cdef_errors,
const_errors_are_cffi_errors_partial (+ hex_float_is_cdef_error and the counterexample of the full statement),
division_by_zero_is_cdef_error, negative_shift_is_cdef_error.

Tie to the code:
  T. the tokenizer of /repo/src/c/parse_c_type.c (compiled unmodified inside csrc/c30_tok_wrap.c) is
     run in a child process on strings placed at the END of an mmap'ed region that is followed by a
     PROT_NONE page: a read beyond the terminator kills the child (= failure); parse_c_type's opcode
     buffer is placed between two PROT_NONE pages the same way (index < 0 or >= output_size).  Its token stream,
     get_following_char, number_of_commas, search_standard_typename are compared with the Lean model;
     parse_c_type's error_location must be a token start of the model.
  B. `_cffi_backend.FFI().typeof(s)` (child process; thorough: also an ASan+UBSan build): result must
     be a ctype, ffi.error, or TypeError/ValueError for a string the C parser accepts (UnicodeEncodeError
     only for a str that has no UTF-8 encoding); the text of a parse error must be the message + the
     excerpt the model of _ffi_bad_type writes.  Same stream through an out-of-line module's ffi.
  D. `#define NAME value` through FFI().cdef against the model of _r_int_literal / _add_integer_constant.
  C. constant expressions (enum values) through FFI().cdef against the model of _parse_constant.
  X. grammar-based and byte-level mutated cdef texts and type strings through the in-line FFI:
     only CDefError / FFIError / NotImplementedError / VerificationError / VerificationMissing may escape.
"""
import ctypes
import json
import os
import re
import subprocess
import sys
import traceback

import common
from common import InfraError

MANIFEST = {
    "text": "Kernel-checked theorems over a Lean model of the type-string tokenizer (next_token, get_following_char, "
            "number_of_commas, search_standard_typename over comparison tables regenerated from the C source): on the buffer "
            "'string + terminator and nothing else' no read is outside and every token stays inside the string; "
            "_ffi_bad_type stores exactly the bytes it allocates; a #define value accepted by _r_int_literal (DFA proved "
            "equal to the regular expression) becomes an integer exactly when it is a C literal and CDefError otherwise; "
            "every error of the constant evaluator is CDefError/FFIError (except one known class, huge left shifts, "
            "proved as a counterexample).  Tied to the code by running the repo's tokenizer/parser against guard pages (string and opcode "
            "buffer) and against the "
            "model, the compiled FFI's typeof (also under ASan/UBSan in the thorough tier), and thousands of generated and "
            "mutated cdef texts / type strings whose escaping exception types are checked.",
    "note": "Trusted: Lean kernel; the hand-written models of the loops (tied by correspondence, tables regenerated); "
            "pycparser, CPython int()/re (modelled, validated by running); the parser proper (parse_complete/parse_sequel) is "
            "not modelled, only the functions through which it reads the string; inputs are bounded (cdef texts <= ~600 "
            "bytes, no deep nesting, no shift counts that would exhaust memory).",
    "technique": "Lean 4 proof (induction over the scanning loops; DFA = regex; case analysis of int()) + guard-page / "
                 "sanitizer runs of the real tokenizer + differential correspondence + exception-type fuzzing",
}

RULE = ("type strings: grammar-generated C types (specifier combinations, pointers, arrays with decimal/hex/octal/"
        "identifier lengths, function pointers with ..., __stdcall, standard typedef names and near misses) plus byte-level "
        "mutations (delete/insert/replace/duplicate/swap/truncate, all 256 byte values); cdef texts: typedefs, structs with "
        "bit-fields and partial '...', enums with constant expressions, functions, globals, #define lines, extern "
        "\"Python\", comments, pragmas, then byte-level mutations; #define values over the alphabet of _r_int_literal and "
        "near misses; constant-expression trees over all operators, literal forms (incl. hex floats, suffixes, chars) and "
        "zero/negative/huge operands; deterministic families in every run: ~27 valid cdef texts (extern \"Python\" in all "
        "spellings, #define/continuations, line directives, '...' forms, calling conventions, bit-fields, static const, "
        "comments, packed/pack/embedding_api options) and ~28 type strings, each cut at every token boundary x 7 tails "
        "(nothing, blanks, comments, backslash-newline) and with each token deleted.  non-trivial = the case reaches an error or a non-default branch; distinct = "
        "(kind, input)")
ASSUMPTIONS = ["strings shorter than 2^31 bytes (int counters of number_of_commas not modelled)",
               "glibc memcmp/strtoull read no more than their contract allows (the guard page and ASan check the build used)",
               "cdef texts <= ~600 bytes and type strings <= ~3000 bytes: no RecursionError / MemoryError regime",
               "CPython 3.12 int(): 4300-digit limit, '_' separators, base prefixes as modelled in DefineLiteral.pyInt"]
TRUSTED_EXTRA = ["translate/c30_tables.py (regex extraction of the keyword / standard-typename comparison tables and the "
                 "_ffi_bad_type constants)", "csrc/c30_tok_wrap.c (exposes the static tokenizer functions; includes parse_c_type.c unmodified)"]

ALLOWED_INLINE = ("CDefError", "FFIError", "NotImplementedError", "VerificationError", "VerificationMissing")


def _is(case, exc, site, api=None):
    return case.get("exc") == exc and case.get("site") == site and (api is None or case.get("api") == api)


# Known-finding classes on the unchanged tree, keyed by (exception type, innermost cffi call site[, api]).
# Repaired in /repo and therefore NOT classes any more (their witnesses stay in X_FIXED_*, so a regression is a
# VIOLATION): typeof('') / typeof('#define X 1') (7761d12), typeof('...') (ce0979e), hexadecimal floating
# constants (153798b), the reserved name __dotdotdot__ (ed2cb2a), lone surrogates / output[-1] (ff60788, 302c223).
CLASSES = {
    # pycparser 3.00: 'Struct' object has no attribute 'names' (`float struct zz` in a parameter list)
    "C30/pycparser-attributeerror": lambda c: _is(c, "AttributeError", "_parse"),
    # pycparser 3.00: `#line 3u` / `# 3u "f.h"`: int('3u') in the lexer's line-directive handling
    "C30/pycparser-line-directive-valueerror": lambda c: _is(c, "ValueError", "_parse"),
    # '} s' and other texts that close the wrapper declaration: an assert inside pycparser, called from _parse
    "C30/pycparser-assertionerror": lambda c: _is(c, "AssertionError", "_parse"),
    # in-line typeof: backend errors for well-formed but invalid types are not wrapped
    "C30/inline-typeof-backend-valueerror": lambda c: _is(c, "ValueError", "global_cache", "typeof"),
    "C30/inline-typeof-backend-typeerror": lambda c: _is(c, "TypeError", "global_cache", "typeof"),
    "C30/inline-typeof-backend-overflowerror": lambda c: _is(c, "OverflowError", "global_cache", "typeof"),
    # 1 << 99999999999999999999
    "C30/huge-shift-overflowerror": lambda c: _is(c, "OverflowError", "_parse_constant"),
    # UBSan: `&ctx->typenames->name` etc. with a NULL table (an FFI without declarations): address of a member
    # of a null pointer, never dereferenced (the table length is 0)
    "C30/ubsan-null-table-member-address": lambda c: c.get("exc") == "UBSAN" and c.get("api") == "ctypeof" and c.get("site") in (
        "search_in_typenames", "search_in_struct_unions", "search_in_enums", "search_in_globals"),
    # compiled FFI: array length * item size overflows Py_ssize_t
    "C30/compiled-typeof-overflowerror": lambda c: _is(c, "OverflowError", "backend", "ctypeof"),
}


def translators(ctx):
    sys.path.insert(0, os.path.join(common.VERIF, "translate"))
    import c30_tables
    return [c30_tables.translate]


# ======================================================================== generators

BASE_TYPES = ["int", "char", "short", "long", "long long", "unsigned", "unsigned int", "unsigned char", "signed char",
              "unsigned short", "unsigned long", "unsigned long long", "float", "double", "long double", "void",
              "_Bool", "size_t", "ssize_t", "int8_t", "uint8_t", "int16_t", "uint16_t", "int32_t", "uint32_t",
              "int64_t", "uint64_t", "intptr_t", "uintptr_t", "ptrdiff_t", "wchar_t", "char16_t", "char32_t",
              "intmax_t", "uintmax_t", "int_least8_t", "uint_least16_t", "int_fast32_t", "uint_fast64_t",
              "uint_fast8_t", "int_fast16_t", "uint_least64_t", "float _Complex", "double _Complex",
              "_cffi_float_complex_t", "_cffi_double_complex_t", "FILE", "struct _IO_FILE", "bool",
              "long int", "short int", "long unsigned int", "int long", "char signed", "const int", "volatile char",
              "int const", "long double _Complex", "unsigned float", "short long", "long long long", "signed unsigned",
              "_Bool _Complex", "struct", "enum", "union", "struct 5", "__int128", "uint_t", "int_t", "xint8_t",
              "uint_least8_t", "uint_least32_t", "uint_fast16_t", "uint_fast32_t", "int_least16_t", "int_least32_t",
              "int_least64_t", "int_fast8_t", "int_fast64_t", "_t", "____t", "size_t_t", "ize_t", "uint16_", "$", "$x_t"]
DECL_NAMES = ["foo_t", "bar_t", "S", "U", "E", "node", "K", "N8", "NEG", "BIG", "f", "g", "x", "y"]
LENS = ["", "0", "1", "2", "3", "5", "07", "08", "0x10", "0X1f", "0x", "0xg", "42", "1000", "4294967296",
        "9223372036854775807", "9223372036854775808", "18446744073709551615", "18446744073709551616",
        "99999999999999999999", "-1", "1.5", "1e3", "0x1p3", "1u", "N8", "NEG", "BIG", "K", "zz", "...", "1+1",
        "2305843009213693952", "4611686018427387904", "00", "0b11", "'a'", "0x7fffffffffffffff", "int", "*"]
SPACES = [" ", " ", " ", "  ", "\t", "\n", "\r", "\f", "\v", ""]


SANE_TYPES = BASE_TYPES[:BASE_TYPES.index("long double _Complex")]
SANE_LENS = ["", "1", "2", "3", "5", "07", "0x10", "42", "N8", "K", "1+1", "'a'", "0b11", "K*2", "(N8)"]


def gen_type(rng, depth=0, names=True, name="", sane=False):
    """A C type; with `name`, a declaration of `name` with that type.  `sane`: only combinations that are
    (mostly) valid C, so that declarations get past the parser."""
    r = rng.random()
    if names and r < 0.12:
        base = rng.choice(["foo_t", "bar_t", "struct S", "union U", "enum E", "struct node"] if sane else
                          ["foo_t", "bar_t", "struct S", "union U", "enum E", "struct node", "union S", "struct U",
                           "enum S", "struct zz", "enum zz", "zz", "struct  S", "struct\tnode"])
    else:
        base = rng.choice(SANE_TYPES if sane else BASE_TYPES)
    if rng.random() < 0.15:
        base = rng.choice(["const ", "volatile ", "const volatile "]) + base
    d = name
    n = rng.choice([0, 0, 1, 1, 2, 3]) if depth < 3 else 0
    for _ in range(n):
        k = rng.random()
        if k < 0.35:
            d = "*" + rng.choice(["", "", " const ", " volatile "]) + d
        elif k < 0.6:
            d = (("(" + d + ")") if d.startswith("*") else d) + "[" + rng.choice(SANE_LENS if sane else LENS) + "]"
        elif k < 0.85:
            nargs = rng.choice([0, 1, 1, 2, 3])
            args = [gen_type(rng, depth + 2, names, rng.choice(["", "", "a%d" % i, "b%d" % i]), sane)
                    for i in range(nargs)]
            if rng.random() < 0.2 and (args or not sane):
                args.append("...")
            if not args and rng.random() < 0.5:
                args = ["void"]
            conv = rng.choice(["", "", "", "__stdcall ", "__cdecl "] + ([] if sane else ["__stdcall"]))
            d = "(" + conv + "*" + d + ")(" + ", ".join(args) + ")"
        elif not sane or d:
            d = "(" + d + ")"
    s = base + (" " if (name or rng.random() < 0.5) else "") + d
    if not name and not sane and rng.random() < 0.1:
        s = s + rng.choice([" x", " _", " $y", " x y"])
    return s


MUT_ALPHABET = list(" \t\n()[]*,.;{}:#-+/%<>=&|^~!?'\"\\$_0123456789abcdefxXlLuUpe") + \
    ["...", "int", "struct", "const", "long", "0x", "void", "unsigned", "_t", "__", "[]", "()", "(*)", "*/", "/*", "//"]


def mutate(rng, s, nbytes=False, k=None):
    """Byte-level mutation of a text (str).  With nbytes: may insert any code point < 256,
    a NUL, a non-ASCII letter, or a lone surrogate."""
    for _ in range(k or rng.choice([1, 1, 1, 2, 2, 3, 5])):
        op = rng.random()
        n = len(s)
        i = rng.randint(0, n)
        if op < 0.22 and n:
            j = min(n, i + rng.choice([1, 1, 1, 2, 4]))
            s = s[:i] + s[j:]
        elif op < 0.5:
            if nbytes and rng.random() < 0.25:
                c = rng.choice([chr(rng.randint(0, 255)), "\x00", "é", "€", "\U0001f600", "\ud800", "\udfff",
                                chr(rng.randint(0x80, 0xff)), chr(rng.randint(1, 31)), "\x7f"])
            else:
                c = rng.choice(MUT_ALPHABET)
            s = s[:i] + c + s[i:]
        elif op < 0.65 and n:
            c = rng.choice(MUT_ALPHABET)
            s = s[:i] + c + s[i + 1:]
        elif op < 0.78 and n:
            j = min(n, i + rng.randint(1, 8))
            s = s[:j] + s[i:j] + s[j:]
        elif op < 0.88 and n > 2:
            a, b = sorted(rng.sample(range(n), 2))
            s = s[:a] + s[b] + s[a + 1:b] + s[a] + s[b + 1:]
        elif op < 0.94 and n:
            s = s[:i]
        else:
            j = rng.randint(0, n)
            a, b = min(i, j), max(i, j)
            s = s[:a] + s[b:] + s[a:b]
    return s


# ---- constant expressions (trees) -----------------------------------------------------------

CONST_TOKENS = ["0", "1", "2", "3", "5", "7", "8", "10", "42", "255", "0x10", "0XfF", "017", "010", "00", "0b101",
                "1u", "2UL", "3ll", "0x7fffffff", "4294967296", "18446744073709551616", "'a'", "'0'", "'\\n'", "'\\0'",
                "'\\\\'", "'\\''", "64", "63", "31", "99"]
BAD_TOKENS = ["1.5", "1e3", "0x1p3", "0x1.8p1", "0X2P1", "1.0f", ".5", "'ab'", "'\\x41'", "'\\101'", "L'a'", "\"s\"",
              "0x1p3L", "1.5L", "0.0", "1e-2"]     # not "08"/"09": refused by pycparser's lexer, no tree is built
BINOPS = ["+", "-", "*", "/", "%", "<<", ">>", "&", "|", "^"]
OTHER_BINOPS = ["<", ">", "<=", ">=", "==", "!=", "&&", "||"]
HUGE = "99999999999999999999"


def gen_expr(rng, depth, env):
    """Tree: ('c', tok) | ('u', op, e) | ('i', name) | ('b', op, l, r) | ('o', text)"""
    r = rng.random()
    if depth <= 0 or r < 0.3:
        k = rng.random()
        if k < 0.7:
            return ("c", rng.choice(CONST_TOKENS))
        if k < 0.82:
            return ("c", rng.choice(BAD_TOKENS))
        if k < 0.95:
            return ("i", rng.choice(sorted(env) + ["undefined_name"]))
        return ("o", rng.choice(["sizeof(int)", "(int)3", "(1 ? 2 : 3)", "f(1)", "sizeof 1"]))
    if r < 0.45:
        op = rng.choice(["-", "-", "+", "~", "!"])
        return ("u", op, gen_expr(rng, depth - 1, env))
    op = rng.choice(BINOPS * 3 + OTHER_BINOPS)
    left = gen_expr(rng, depth - 1, env)
    if op in ("<<", ">>"):
        # shift counts: small, zero, negative, or (rarely) beyond what Python can materialise
        k = rng.random()
        if k < 0.7:
            right = ("c", str(rng.choice([0, 1, 2, 3, 8, 31, 32, 63, 64, 65, 99])))
        elif k < 0.85:
            right = ("u", "-", ("c", str(rng.choice([1, 2, 64]))))
        elif k < 0.93:
            right = ("b", "-", ("c", "3"), ("c", str(rng.choice([3, 4, 5]))))
        else:
            right = ("c", HUGE)
    elif op in ("/", "%") and rng.random() < 0.3:
        right = rng.choice([("c", "0"), ("b", "-", ("c", "5"), ("c", "5")), ("c", "00"), ("c", "0x0")])
    else:
        right = gen_expr(rng, depth - 1, env)
    return ("b", op, left, right)


def render_expr(e):
    if e[0] == "c" or e[0] == "o":
        return e[1]
    if e[0] == "i":
        return e[1]
    if e[0] == "u":
        return "%s(%s)" % (e[1], render_expr(e[2]))
    return "(%s) %s (%s)" % (render_expr(e[2]), e[1], render_expr(e[3]))


def expr_words(e):
    if e[0] == "c":
        return ["c:" + ",".join(str(ord(ch)) for ch in e[1])]
    if e[0] == "o":
        return ["o"]
    if e[0] == "i":
        return ["i:" + e[1]]
    if e[0] == "u":
        return ["u:" + e[1]] + expr_words(e[2])
    return ["b:" + e[1]] + expr_words(e[2]) + expr_words(e[3])


def shifts_safe(text):
    """True unless the text contains a `<<` whose count could be large enough to exhaust memory instead of
    raising at once: the right operand must be a number of at most two digits that is not continued by an
    operator binding tighter than `<<`, or a parenthesised sum of such numbers.  HUGE itself is allowed
    (Python refuses it immediately)."""
    for m in re.finditer(r"<<", text):
        rest = text[m.end():].replace(HUGE, "7").lstrip(" \t\n")
        if rest.startswith("("):
            depth, j = 0, 0
            for j, ch in enumerate(rest):
                if ch == "(":
                    depth += 1
                elif ch == ")":
                    depth -= 1
                    if depth == 0:
                        break
            else:
                return False
            inner = rest[:j + 1]
            if not re.fullmatch(r"(?:[()+\-~!\s]|(?<![\w.])\d{1,2}[uUlL]{0,3}(?![\w.]))*", inner):
                return False
            if not re.match(r"\s*(?=[;,\]}):?<>=!&|^]|$)", rest[j + 1:]):
                return False
        elif not re.match(r"[-+]?\s*\d{1,2}[uUlL]{0,3}\s*(?=[;,\]}):?<>=!&|^]|$)", rest):
            return False
    return True


# ---- cdef texts ------------------------------------------------------------------------------

def gen_const_text(rng, env):
    e = gen_expr(rng, rng.choice([0, 1, 1, 2, 3]), env)
    return render_expr(e)


def gen_decl(rng, env):
    k = rng.random()
    sane = rng.random() < 0.8
    T = lambda: gen_type(rng, 1, sane=sane)
    name = rng.choice(DECL_NAMES) + rng.choice(["", "", "1", "2", "_"])
    D = lambda nm: gen_type(rng, 1, name=nm, sane=sane)
    if k < 0.12:
        return "typedef %s;" % D(name)
    if k < 0.17:
        return rng.choice(["typedef ... %s;", "typedef int... %s;", "typedef struct { ...; } %s;",
                           "typedef long double... %s;", "typedef ... *%s;", "typedef int __dotdotdot__;",
                           "typedef __dotdotdot__ %s;", "typedef int %s[...];", "typedef ... %s[3];",
                           "typedef unsigned... %s;", "typedef float... %s;", "typedef struct S... %s;"]).replace("%s", name)
    if k < 0.35:
        fields = []
        for _ in range(rng.randint(0, 4)):
            f = rng.random()
            if f < 0.5:
                fields.append("%s;" % D(rng.choice("abcd")))
            elif f < 0.7:
                fields.append("%s %s:%s;" % (rng.choice(["int", "unsigned", "char", "long long", "float", "_Bool"]),
                                               rng.choice(["a", "b", ""]), gen_const_text(rng, env)))
            elif f < 0.85:
                fields.append("%s %s[%s];" % (rng.choice(["int", "char", "short"]), rng.choice("abcd"),
                                                rng.choice(["...", gen_const_text(rng, env), ""])))
            else:
                fields.append(rng.choice(["...;", "struct { int q; };", "union { int q; char r; } u;", "struct S *next;",
                                          "int (*cb)(int, ...);", "int;", ";"]))
        return "%s %s { %s }%s;" % (rng.choice(["struct", "struct", "union", "typedef struct", "typedef union"]),
                                    rng.choice(["S", "U", "node", "", ""]), " ".join(fields),
                                    rng.choice(["", "", " " + name, " *" + name]))
    if k < 0.5:
        items = []
        for _ in range(rng.randint(0, 4)):
            n = rng.choice(["A", "B", "C", "D", "K"]) + str(rng.randint(0, 9))
            items.append(n if rng.random() < 0.4 else "%s = %s" % (n, gen_const_text(rng, env)))
        if rng.random() < 0.2:
            items.append("...")
        return "%senum %s { %s }%s;" % (rng.choice(["", "", "typedef "]), rng.choice(["E", "", "F"]),
                                        ", ".join(items), rng.choice(["", " " + name]))
    if k < 0.66:
        args = ", ".join(gen_type(rng, 1, name=rng.choice(["", "a%d" % i]), sane=sane) for i in range(rng.randint(0, 3)))
        if rng.random() < 0.2:
            args = (args + ", ..." if args else "...")
        pre = rng.choice(["", "", "extern ", "static ", "extern \"Python\" ", "extern \"Python+C\" ", "extern \"C\" ",
                          "__stdcall ", "inline ", "static inline "])
        fn = "%s%s(%s)" % (rng.choice(["", "", "", "__stdcall ", "WINAPI "]), name, args or "void")
        return "%s%s%s;" % (pre, gen_type(rng, 2, name=fn, sane=sane), rng.choice(["", "", "", "", " { return 0; }"]))
    if k < 0.8:
        return _gen_global(rng, env, T(), name, D(name))
    if k < 0.93:
        v = rng.choice(["5", "0x10", "010", "-1", "...", "08", "abc", "0x", "1u", "1ULL", "(5)", "1 + 1", "x1", "0b1",
                        "'a'", "\"s\"", "1.5", "", "5 /* c */", "5 // c", "-0x1Ful", HUGE, "-", "0x1p3", "5;", "\\\n5"])
        return "\n#%sdefine %s %s\n" % (rng.choice(["", "", " ", "\t"]), rng.choice(["K", "N8", "NEG", "BIG", "M_" + name]), v)
    return rng.choice(["\n#pragma pack(1)\n", "\n#include <stdio.h>\n", "\n#if 1\n", "\n#ifdef X\n#endif\n", "/* c */",
                       "// c\n", "\n# 3 \"f.h\"\n", "\n#line 5\n", ";", "int;", "__attribute__((x)) int q;",
                       "__declspec(dllimport) int q;", "extern \"Python\" { int cb1(int); }", "extern \"Python\" int;",
                       "_Static_assert(1, \"x\");", "asm(\"nop\");", "int q = sizeof(int);", "struct;", "enum E;",
                       "struct S;", "typedef int (*fn_t)(int, ...);", "\n#define\n", "\n#undef K\n", "\\\n",
                       "int a['\\n'];", "char *s = \"a\\\"b\";", "int (*(*pp)(void))[3];", "void (*signal(int, void (*)(int)))(int);"])


def _gen_global(rng, env, t, name, decl):
    k = rng.randint(0, 8)
    c = gen_const_text(rng, env)
    t = rng.choice(SANE_TYPES[:40])
    return ["extern %s;" % decl, "%s;" % decl, "static const %s;" % decl,
            "extern %s %s[];" % (t, name), "%s %s[%s];" % (t, name, c), "static const int %s = %s;" % (name, c),
            "const %s = 5;" % decl, "extern %s %s[...];" % (t, name), "static %s *const %s;" % (t, name)][k]


def gen_cdef(rng):
    env = {"K": 7, "N8": 8, "NEG": -3, "BIG": 2 ** 70}
    parts = []
    if rng.random() < 0.5:
        parts.append("#define K 7\n#define N8 8\n#define NEG -3\n#define BIG 1180591620717411303424\n")
    else:
        env = {}
    if rng.random() < 0.6:
        parts.append("typedef int foo_t; typedef struct S { int a; } bar_t; union U { int x; }; enum E { E0 }; struct node;")
    for _ in range(rng.choice([1, 1, 2, 2, 3, 4, 6])):
        parts.append(gen_decl(rng, env))
    return rng.choice(["\n", " ", "\n", ""]).join(parts)


# ======================================================================== observing the in-line FFI

_CFFI_DIR = None


def site_of(tb):
    """Function name of the innermost frame that belongs to the cffi package."""
    global _CFFI_DIR
    if _CFFI_DIR is None:
        import cffi
        _CFFI_DIR = os.path.dirname(os.path.abspath(cffi.__file__)) + os.sep
    s = None
    for f in traceback.extract_tb(tb):
        if os.path.abspath(f.filename).startswith(_CFFI_DIR):
            s = f.name
    return s or "backend"


def run_inline(api, text, options=None):
    """-> (exception type name or None, site).  api: 'cdef' | 'typeof'; options (cdef only):
    {'packed': True} | {'pack': n} | {'embedding': True} (ffi.embedding_api, i.e. dllexport)."""
    import cffi
    ffi = cffi.FFI()
    try:
        if api == "cdef":
            opts = dict(options or {})
            if opts.pop("embedding", False):
                ffi.embedding_api(text, **opts)
            else:
                ffi.cdef(text, **opts)
        else:
            ffi.typeof(text)
        return None, None
    except RecursionError:
        raise
    except MemoryError:
        raise
    except Exception as e:
        return type(e).__name__, site_of(e.__traceback__)


def check_inline(ctx, api, text, origin, options=None, family=None):
    exc, site = run_inline(api, text, options)
    case = {"part": "X", "api": api, "text": text, "exc": exc, "site": site, "origin": origin}
    if options:
        case["options"] = options
    key = None
    if exc is not None:
        key = (api, exc, site, text)
    ctx.case(key, sample=case if exc else None)
    ctx.count("X:%s:%s" % (api, exc or "ok"))
    if family:
        ctx.count("XF:%s:%s:%s" % (api, family, exc or "ok"))
    if exc is not None and exc not in ALLOWED_INLINE:
        r = ctx.fail(case, "%s(%r%s) raised %s (innermost cffi frame: %s); only %s may escape"
                     % (api, text[:200], (", %r" % (options,)) if options else "", exc, site, "/".join(ALLOWED_INLINE)))
        ctx.count("X:%s:escape:%s@%s:%s" % (api, exc, site, r))
    return exc, site


# ======================================================================== child processes

KIND_NAMES = ["start", "end", "error", "ident", "integer", "dotdotdot", "TOK__BOOL", "TOK_CHAR", "TOK__COMPLEX",
              "TOK_CONST", "TOK_DOUBLE", "TOK_ENUM", "TOK_FLOAT", "TOK_INT", "TOK_LONG", "TOK_SHORT", "TOK_SIGNED",
              "TOK_STRUCT", "TOK_UNION", "TOK_UNSIGNED", "TOK_VOID", "TOK_VOLATILE", "TOK_CDECL", "TOK_STDCALL"]
MAXTOK = 8192
GUARD_PAGES = 4


def _guard_region(lower_guard=False):
    """A read/write region followed (and, with lower_guard, also preceded) by a PROT_NONE page."""
    import mmap
    libc = ctypes.CDLL(None, use_errno=True)
    page = mmap.PAGESIZE
    libc.mmap.restype = ctypes.c_void_p
    libc.mmap.argtypes = [ctypes.c_void_p, ctypes.c_size_t, ctypes.c_int, ctypes.c_int, ctypes.c_int, ctypes.c_long]
    libc.mprotect.argtypes = [ctypes.c_void_p, ctypes.c_size_t, ctypes.c_int]
    lo = 1 if lower_guard else 0
    base = libc.mmap(None, (lo + GUARD_PAGES + 1) * page, mmap.PROT_READ | mmap.PROT_WRITE,
                     mmap.MAP_PRIVATE | mmap.MAP_ANONYMOUS, -1, 0)
    if base in (None, ctypes.c_void_p(-1).value):
        raise OSError("mmap failed")
    start = base + lo * page
    end = start + GUARD_PAGES * page
    if libc.mprotect(end, page, 0) != 0 or (lo and libc.mprotect(base, page, 0) != 0):
        raise OSError("mprotect failed")
    ctypes.memset(start, 0x5a, GUARD_PAGES * page)
    return start, end, GUARD_PAGES * page


OUTPUT_SIZE = 1200          # FFI_COMPLEXITY_OUTPUT of ffi_obj.c
OPCODE_BYTES = 8            # sizeof(_cffi_opcode_t) = sizeof(void *)


def guard_worker(so, infile):
    """Child: runs the repo's tokenizer on strings that end right before a PROT_NONE page."""
    lib = ctypes.CDLL(so)
    base, end, room = _guard_region()
    if infile == "--selftest":
        ctypes.string_at(end, 1)          # must die with SIGSEGV
        print("guard page is readable", flush=True)
        return 3
    IntArr, LongArr = ctypes.c_int * MAXTOK, ctypes.c_long * MAXTOK
    kinds, offs, sizes, fol, com = IntArr(), LongArr(), LongArr(), IntArr(), IntArr()
    lib.c30_tokenize.argtypes = [ctypes.c_void_p, ctypes.c_int, IntArr, LongArr, LongArr, IntArr, IntArr]
    lib.c30_tokenize.restype = ctypes.c_int
    lib.c30_search_standard_typename.argtypes = [ctypes.c_void_p, ctypes.c_size_t]
    lib.c30_search_standard_typename.restype = ctypes.c_int
    lib.c30_parse.argtypes = [ctypes.c_void_p, ctypes.c_void_p, ctypes.c_int, ctypes.POINTER(ctypes.c_long),
                              ctypes.POINTER(ctypes.c_char_p)]
    lib.c30_parse.restype = ctypes.c_int
    # the parser's opcode buffer, once right after a PROT_NONE page (an index < 0 dies) and once right
    # before one (an index >= output_size dies)
    ostart, oend, _ = _guard_region(lower_guard=True)
    out_lo, out_hi = ostart, oend - OUTPUT_SIZE * OPCODE_BYTES
    items = json.load(open(infile))
    out = sys.stdout
    for i, h in enumerate(items):
        if h.startswith("S:"):            # search_standard_typename on exactly these bytes, no terminator
            s = bytes.fromhex(h[2:])
            a = end - len(s)
            ctypes.memmove(a, s, len(s))
            r = lib.c30_search_standard_typename(a, len(s))
            out.write(json.dumps({"i": i, "std": r}) + "\n")
            out.flush()
            continue
        s = bytes.fromhex(h)
        assert 0 not in s and len(s) + 1 <= room
        a = end - (len(s) + 1)
        ctypes.memmove(a, s + b"\0", len(s) + 1)
        n = lib.c30_tokenize(a, MAXTOK, kinds, offs, sizes, fol, com)
        toks = [[kinds[k], offs[k], sizes[k], fol[k], com[k]] for k in range(max(n, 0))]
        loc, msg = ctypes.c_long(0), ctypes.c_char_p()
        loc2, msg2 = ctypes.c_long(0), ctypes.c_char_p()
        res2 = lib.c30_parse(a, out_hi, OUTPUT_SIZE, ctypes.byref(loc2), ctypes.byref(msg2))
        res = lib.c30_parse(a, out_lo, OUTPUT_SIZE, ctypes.byref(loc), ctypes.byref(msg))
        if (res2 < 0) != (res < 0) or loc2.value != loc.value or msg2.value != msg.value:
            res, msg = -2, ctypes.c_char_p(b"parse_c_type is not deterministic")
        stds = []
        for k, o, z, _, _ in toks:
            if k == 1003:
                a2 = end - z
                ctypes.memmove(a2, s[o:o + z], z)
                stds.append([o, z, lib.c30_search_standard_typename(a2, z)])
        out.write(json.dumps({"i": i, "n": n, "toks": toks, "res": res, "loc": loc.value,
                              "msg": msg.value.decode("latin-1") if msg.value is not None else None,
                              "stds": stds}) + "\n")
        out.flush()
    return 0


def ctypeof_worker(infile):
    """Child: typeof() of the compiled FFI (bare `_cffi_backend.FFI()` and an out-of-line module)."""
    import _cffi_backend
    spec = json.load(open(infile))
    ffis = [("bare", _cffi_backend.FFI())]
    if spec.get("module"):
        sys.path.insert(0, spec["module_dir"])
        mod = __import__(spec["module"])
        ffis.append(("module", mod.ffi))
    sys.stdout.write(json.dumps({"backend": _cffi_backend.__file__}) + "\n")
    sys.stdout.flush()
    sys.stderr.write("\n@@C30 -1 startup\n")     # reports up to here: interpreter start, module import
    sys.stderr.flush()
    for i, s in enumerate(spec["strings"]):
        row = {"i": i}
        for name, ffi in ffis:
            sys.stdout.write(json.dumps({"begin": i, "ffi": name}) + "\n")
            sys.stdout.flush()
            sys.stderr.write("\n@@C30 %d %s\n" % (i, name))       # sanitizer reports go to stderr: mark the case
            sys.stderr.flush()
            try:
                ct = ffi.typeof(s)
                row[name] = ["ok", ct.cname]
            except Exception as e:
                row[name] = ["exc", type(e).__name__, isinstance(e, ffi.error),
                             isinstance(e, (TypeError, ValueError)), str(e)]
        sys.stdout.write(json.dumps(row) + "\n")
        sys.stdout.flush()
    return 0


def _child(ctx, args, env=None, timeout=900):
    e = dict(os.environ)
    if env:
        e.update(env)
    try:
        r = subprocess.run([sys.executable, os.path.abspath(__file__)] + args, stdout=subprocess.PIPE,
                           stderr=subprocess.PIPE, universal_newlines=True, env=e, timeout=timeout)
    except subprocess.TimeoutExpired:
        raise InfraError("child %r timed out" % (args[:1],))
    return r


def load_wrapper_so(ctx):
    so = os.path.join(ctx.scratch, "c30_tok_wrap.so")
    if not os.path.exists(so):
        common.compile_shared(os.path.join(common.VERIF, "csrc/c30_tok_wrap.c"), so,
                              extra=["-I" + os.path.join(common.REPO, "src/c")])
    return so


def guard_selftest(ctx):
    r = _child(ctx, ["--guard", load_wrapper_so(ctx), "--selftest"])
    if r.returncode != -11:
        raise InfraError("the PROT_NONE guard page does not work here (child returned %r: %s)"
                         % (r.returncode, (r.stdout + r.stderr)[-300:]))


def run_guard(ctx, items):
    """items: hex strings (or 'S:'+hex).  -> (list of result dicts, index of the crashing item or None, how)"""
    path = os.path.join(ctx.scratch, "c30_guard_in_%d.json" % len(os.listdir(ctx.scratch)))
    with open(path, "w") as f:
        json.dump(items, f)
    r = _child(ctx, ["--guard", load_wrapper_so(ctx), path])
    rows = []
    for line in r.stdout.split("\n"):
        if line.startswith("{"):
            try:
                rows.append(json.loads(line))
            except ValueError:
                break
    if r.returncode == 0:
        if len(rows) != len(items):
            raise InfraError("guard worker printed %d rows for %d items" % (len(rows), len(items)))
        return rows, None, None
    if r.returncode < 0 or "AddressSanitizer" in r.stderr:
        return rows, len(rows), "signal %d" % -r.returncode
    raise InfraError("guard worker failed (%d): %s" % (r.returncode, r.stderr[-2000:]))


# ======================================================================== the model driver, run once per stage

def model_queue(ctx, lines, compare):
    """Defer `lines` to the single driver run of this stage; `compare(out)` gets their answers."""
    if not hasattr(ctx, "_c30_queue"):
        ctx._c30_queue = []
    ctx._c30_queue.append((lines, compare))


def model_flush(ctx):
    queue = getattr(ctx, "_c30_queue", [])
    ctx._c30_queue = []
    lines = [l for ls, _ in queue for l in ls]
    if not lines:
        return
    out = ctx.driver(lines)
    k = 0
    for ls, compare in queue:
        compare(out[k:k + len(ls)])
        k += len(ls)


# ======================================================================== part T: tokenizer vs guard page vs model

def type_string_stream(rng, n):
    """Type strings as Python str (what a user passes to typeof)."""
    out = []
    fixed = ["", " ", "int", "int[", "int[0x", "int[0x]", "int[0", "int[1", "int 0x", "0x", "0", "9", "0X", "0xg", "int[08]",
             ".", "..", "...", "....", "int(..", "int(...", "int(.", "int(int,.", "int(int, ..)", "int(", "int(,", "int((",
             "int(*)(", "(", ")", "[", "]", ",", "*", "int)", "int))", "int(*)(int,int))", "void(", "void(void", "void(void ",
             "int(void )", "int( void\t)", "int(void,", "x", "_", "$", "a$b", "$$", "_Bool", "_Boo", "_Booll", "__cdecl",
             "__stdcall", "__stdcal", "_Complex", "char", "chars", "cha", "const", "double", "enum", "float", "int", "long",
             "short", "signed", "struct", "union", "unsigned", "void", "volatile", "volatil", "unsigne", "struct ", "enum",
             "struct x", "union  x", "enum x", "struct 5", "struct _IO_FILE", "struct _IO_FILE*", "struct _IO_FILEx",
             "int[N", "int[N]", "int[-", "int[-1]", "int[+1]", "int[1", "int[1]", "int[1][", "int*", "int**", "int* *",
             "int *const", "int * volatile *", "int __stdcall", "int(__stdcall*)(int)", "int(__stdcall", "int(__cdecl",
             "size_t", "size_", "ize_t", "xsize_t", "sizex_t", "uint_least16_t", "uint_least16_", "uint_least17_t",
             "uint_fast8_t", "uint_fast8_x", "_cffi_float_complex_t", "_cffi_double_complex_t", "_cffi_floax_complex_t",
             "ptrdiff_t", "ptrdifx_t", "intmax_t", "uintmax_t", "uintptr_t", "intptr_t", "wchar_t", "ssize_t", "int8_t",
             "char16_t", "char32_t", "uint16_t", "______", "_____t", "____1_t", "aaaa1__t", "aaaa__t", "aaaa_aaaaa_t",
             "aaaa_aaaaa1_t", "int_fast8_t", "int_fast16_t", "int_least8_t", "int_least64_t", "uint_least8_t",
             "long long long", "short short", "unsigned unsigned", "long double _Complex", "float _Complex x",
             "a" * 499, "a" * 500, "a" * 501, "(" * 499, "(" * 501, "int" + "*" * 600, "int" + "[1]" * 300,
             "int(" + "int," * 700 + "int)", "int(*)(" + "int," * 1190 + "int)", "int(*)(" + "int," * 1210 + "int)",
             "int" + "(" * 300, "int(*)" + "(" * 200, "," * 600, ")" * 600, "int(" + ")" * 10, "int((,),(,,))", "int(a,(b,c),d)",
             "int\x00garbage(", "\x00", "int \x00", "é", "int é", "\udc80", "int\ud800", "€[", "int[١]", "i̇nt",
             "\x7f", "int\x7f", "\x01", "int\x1f*", "int\xa0*"]
    for t in FAMILY_TYPEOF:
        fixed += [v for _, v in family_variants(t)]
    for b in range(1, 256):
        ch = chr(b)
        fixed += ["int" + ch, ch + "x", "0" + ch, ".." + ch, "int[1" + ch, "(" + ch]
    out += fixed
    while len(out) < n:
        s = gen_type(rng)
        r = rng.random()
        if r < 0.55:
            s = mutate(rng, s, nbytes=True)
        elif r < 0.65:
            s = s[:rng.randint(0, len(s))]
        out.append(s)
    return out


def as_c_string(s):
    """bytes of the C string the backend parses (UTF-8, cut at the first NUL); None if not encodable."""
    try:
        b = s.encode("utf-8")
    except UnicodeEncodeError:
        return None
    return b.split(b"\0")[0]


def kind_name(code):
    return KIND_NAMES[code - 1000] if code >= 1000 else "p%d" % code


def part_t(ctx, strings, with_model=True):
    """-> {c-string bytes: guard row}"""
    cs = []
    seen = set()
    for s in strings:
        b = as_c_string(s)
        if b is not None and b not in seen and len(b) < 12000:
            seen.add(b)
            cs.append(b)
    items = [b.hex() for b in cs]
    # search_standard_typename on raw (unterminated) byte strings as well: every standard name and near misses
    # first, then identifiers of the stream
    std_names = [t.encode() for t in BASE_TYPES if re.fullmatch(r"[A-Za-z_$][A-Za-z_$0-9]*", t)]
    raw = []
    for t in std_names:
        raw += [t, t[:-1], t + b"_t", t[:4] + b"_" + t[5:], t[:10] + b"1" + t[11:], t[:-2] + b"_x", t[:-2] + b"xt",
                b"x" + t[1:], t[:-3] + b"9_t", t[:5] + b"\xff" + t[6:]]
    idents = set()
    for b in cs:
        for m in re.finditer(rb"[A-Za-z_$][A-Za-z_$0-9]*", b):
            idents.add(m.group(0))
    idents = sorted(idents)
    ctx.rng.shuffle(idents)
    raw += idents
    seen_raw = set()
    raw = [t for t in raw if t and not (t in seen_raw or seen_raw.add(t))][:ctx.n(1500, 20000)]
    items += ["S:" + t.hex() for t in raw]
    rows, crashed, how = run_guard(ctx, items)
    if crashed is not None:
        h = items[crashed]
        case = {"part": "T", "api": "tokenizer", "input_hex": h, "exc": "CRASH", "site": "parse_c_type.c"}
        ctx.fail(case, "the parser read beyond the string's terminator or accessed its opcode buffer outside "
                       "[0, output_size) (guard page hit, child died with %s)" % how)
        ctx.case(("T", "crash", h), sample=case)
        return {}
    lines, expect = [], []
    result = {}
    for h, row in zip(items, rows):
        if h.startswith("S:"):
            ctx.case(("T-std", h) if row["std"] >= 0 else None)
            ctx.count("T:std:%s" % ("hit" if row["std"] >= 0 else "miss"))
            lines.append("std " + (h[2:] or "-"))
            expect.append(({"part": "T", "std_hex": h[2:]}, "ok %d" % row["std"]))
            continue
        b = bytes.fromhex(h)
        result[b] = row
        n = len(b)
        case = {"part": "T", "api": "tokenizer", "input_hex": h}
        nontrivial = row["res"] < 0 or any(t[0] in (1004, 1005) for t in row["toks"])
        ctx.case(("T", h) if nontrivial else None, sample=dict(case, tokens=len(row["toks"]), res=row["res"], msg=row["msg"]))
        ctx.count("T:parse:%s" % ("ok" if row["res"] >= 0 else (row["msg"] or "null")))
        # oracle independent of the model: every token lies inside the string, END is reached at the terminator
        bad = row["n"] < 0 or any(o < 0 or z < 0 or o + z > n for _, o, z, _, _ in row["toks"]) \
            or not row["toks"] or row["toks"][-1][:3] != [1001, n, 0] \
            or (row["res"] < 0 and (row["msg"] is None or not (0 <= row["loc"] <= n)))
        if bad:
            ctx.fail(dict(case, exc="BOUNDS", site="parse_c_type.c"),
                     "token or error location outside the string: %r loc=%r" % (row["toks"][-3:], row["loc"]))
        light = n > 160          # long strings: the model line carries only kind:offset:size (the per-token
        if light:                # get_following_char / number_of_commas of the interpreted model are quadratic)
            got = " ".join("%s:%d:%d" % (kind_name(k), o, z) for k, o, z, f, c in row["toks"])
        else:
            got = " ".join("%s:%d:%d:%d:%d" % (kind_name(k), o, z, f, c) for k, o, z, f, c in row["toks"])
        lines.append(("tokl " if light else "tok ") + (h or "-"))
        expect.append((dict(case, what="tokens", loc=row["loc"], res=row["res"]), "ok " + got))
        for o, z, r in row["stds"]:
            lines.append("std " + b[o:o + z].hex())
            expect.append((dict(case, what="std", token=b[o:o + z].decode("latin-1")), "ok %d" % r))

    def compare(out):
        for (case, want), got in zip(expect, out):
            if got != want:
                ctx.disagree(case, want[:400], got[:400], "tokenizer vs model")
            elif case.get("what") == "tokens" and case["res"] < 0:
                # parse_error reports tok->p of the current token: must be a token start of the model's stream
                offs = set(int(t.split(":")[1]) for t in got[3:].split(" "))
                if case["loc"] not in offs:
                    ctx.disagree(case, case["loc"], sorted(offs)[:50], "error_location is not a token start")
    if with_model and lines:
        model_queue(ctx, lines, compare)
    return result


# ======================================================================== part B: typeof of the compiled FFI

MODULE_CDEF = """
#define N8 8
#define NEG -3
#define BIG 1180591620717411303424
#define K 7
typedef int foo_t;
typedef struct S { int a; char b[N8]; } bar_t;
union U { int x; float y; };
enum E { E_A, E_B = 5, E_NEG = -2 };
struct node { struct node *next; foo_t v; };
struct opaque;
typedef struct opaque *handle_t;
"""


def build_module(ctx):
    import cffi
    name = "_c30_mod_%d" % len(os.listdir(ctx.scratch))
    ffi = cffi.FFI()
    ffi.cdef(MODULE_CDEF)
    ffi.set_source(name, None)
    _quiet(lambda: ffi.emit_python_code(os.path.join(ctx.scratch, name + ".py")))
    return name


def _quiet(fn):
    so = os.dup(1)
    devnull = os.open(os.devnull, os.O_WRONLY)
    sys.stdout.flush()
    os.dup2(devnull, 1)
    try:
        return fn()
    finally:
        sys.stdout.flush()
        os.dup2(so, 1)
        os.close(devnull)
        os.close(so)


def run_ctypeof(ctx, strings, module, env=None, label=""):
    """-> (rows, crash) ; crash = (string index, ffi name, how) or None"""
    path = os.path.join(ctx.scratch, "c30_ctypeof_in_%d.json" % len(os.listdir(ctx.scratch)))
    with open(path, "w") as f:
        json.dump({"strings": strings, "module": module, "module_dir": ctx.scratch}, f)
    r = _child(ctx, ["--ctypeof", path], env=env)
    rows, last = [], None
    backend = None
    for line in r.stdout.split("\n"):
        if not line.startswith("{"):
            continue
        try:
            d = json.loads(line)
        except ValueError:
            break
        if "backend" in d:
            backend = d["backend"]
        elif "begin" in d:
            last = (d["begin"], d["ffi"])
        else:
            rows.append(d)
    if backend is None:
        raise InfraError("compiled-typeof worker%s did not start: %s" % (label, (r.stderr or r.stdout)[-2000:]))
    reports = sanitizer_reports(r.stderr)
    if r.returncode == 0:
        if len(rows) != len(strings):
            raise InfraError("compiled-typeof worker printed %d rows for %d strings" % (len(rows), len(strings)))
        return rows, None, backend, reports
    how = "signal %d" % -r.returncode if r.returncode < 0 else "exit %d" % r.returncode
    if r.returncode < 0:
        return rows, (last[0] if last else 0, last[1] if last else "bare", how), backend, reports
    raise InfraError("compiled-typeof worker%s failed (%s): %s" % (label, how, r.stderr[-2000:]))


def sanitizer_reports(stderr):
    """[(string index, ffi name, 'ASAN:<kind>' | 'UBSAN', innermost function, first line)] from the child's
    stderr (the worker prints `@@C30 <i> <ffi>` before every call; sanitizers run in recover mode)."""
    out = []
    cur = (-2, "startup")
    lines = stderr.split("\n")
    k = 0
    while k < len(lines):
        line = lines[k]
        m = re.match(r"@@C30 (-?\d+) (\w+)$", line)
        if m:
            cur = (int(m.group(1)), m.group(2))
        m = re.search(r"ERROR: AddressSanitizer: (\S+)", line)
        if m:
            fn = "?"
            for l2 in lines[k + 1:k + 12]:
                m2 = re.match(r"\s*#0 0x[0-9a-f]+ in (\S+)", l2)
                if m2:
                    fn = m2.group(1)
                    break
            out.append((cur[0], cur[1], "ASAN:" + m.group(1), fn, line.strip()[:300]))
        m = re.search(r"([^\s:]+):(\d+):(\d+): runtime error: (.*)", line)
        if m:
            fn = os.path.basename(m.group(1)) + ":" + m.group(2)
            for l2 in lines[k + 1:k + 4]:
                m2 = re.match(r"\s*#0 0x[0-9a-f]+ in (\S+)", l2)
                if m2:
                    fn = m2.group(1)
                    break
            out.append((cur[0], cur[1], "UBSAN", fn, line.strip()[:300]))
        k += 1
    return out


def sanitize_excerpt(b, loc):
    """Independent re-statement of what _ffi_bad_type appends (only used to cross-check the model line)."""
    if len(b) > 500:
        return ""
    t = "".join(chr(c) if 32 <= c < 127 else (" " if c in (9, 10) else "?") for c in b)
    return "\n" + t + "\n" + " " * loc + "^"


def part_b(ctx, strings, guard_rows, module, env=None, label="", with_model=True):
    rows, crash, backend, reports = run_ctypeof(ctx, strings, module, env=env, label=label)
    for i, which, exc, fn, line in reports:
        if i < 0:
            # before the first typeof(): import of _cffi_backend / of the out-of-line module -- not this property
            ctx.coverage.setdefault("sanitizer_reports_outside_typeof", [])
            if line not in ctx.coverage["sanitizer_reports_outside_typeof"]:
                ctx.coverage["sanitizer_reports_outside_typeof"].append(line)
            continue
        case = {"part": "B", "api": "ctypeof", "ffi": which, "text": strings[i], "exc": exc, "site": fn, "sanitizer": True}
        r = ctx.fail(case, "sanitizer report during typeof(%r) on the compiled FFI: %s" % (strings[i][:200], line))
        ctx.count("B%s:report:%s@%s:%s" % (label, exc, fn, r))
        ctx.case(("B", "report", exc, fn, strings[i]), sample=case)
    ctx.coverage.setdefault("backends_driven", [])
    if backend not in ctx.coverage["backends_driven"]:
        ctx.coverage["backends_driven"].append(backend)
    if crash is not None:
        i, which, how = crash
        case = {"part": "B", "api": "ctypeof", "ffi": which, "text": strings[i], "exc": "CRASH", "site": "backend",
                "sanitizer": bool(env)}
        ctx.fail(case, "typeof(%r) on the compiled FFI%s killed the process (%s)" % (strings[i][:200], label, how))
        ctx.case(("B", "crash", strings[i]), sample=case)
    lines, expect = [], []
    for row in rows:
        s = strings[row["i"]]
        b = as_c_string(s)
        g = guard_rows.get(b) if b is not None else None
        for which in ("bare", "module"):
            if which not in row:
                continue
            o = row[which]
            case = {"part": "B", "api": "ctypeof", "ffi": which, "text": s, "sanitizer": bool(env)}
            if o[0] == "ok":
                ctx.case(None)
                ctx.count("B%s:%s:ok" % (label, which))
                if b is None:
                    ctx.fail(dict(case, exc="ok", site="backend"), "a str without UTF-8 encoding was accepted: %r" % (o,))
                continue
            _, exc, is_ffi_error, is_te_ve, text = o
            case.update(exc=exc, site="backend")
            ctx.case(("B", which, exc, s), sample=case)
            ctx.count("B%s:%s:%s" % (label, which, "ffi.error" if is_ffi_error else exc))
            if b is None:
                if exc != "UnicodeEncodeError":
                    ctx.fail(case, "str without UTF-8 encoding: expected UnicodeEncodeError, got %s" % exc)
                continue
            if is_ffi_error:
                # the text of a parse error: message + the excerpt written by _ffi_bad_type
                if which == "bare" and g is not None and g["res"] < 0 and g["msg"] != "undefined type name" and with_model:
                    lines.append("bad %s %d" % (b.hex() or "-", g["loc"]))
                    expect.append((dict(case, loc=g["loc"], msg=g["msg"]), text, g["msg"], b, g["loc"]))
                continue
            if is_te_ve and exc in ("TypeError", "ValueError"):
                # tolerated for well-formed but invalid types only: the C parser must have accepted the string
                if which == "bare" and g is not None and g["res"] < 0 and g["msg"] != "undefined type name":
                    ctx.fail(case, "%s for a string the C parser rejects (%s at %d)" % (exc, g["msg"], g["loc"]))
                continue
            ctx.fail(case, "typeof(%r) on the compiled FFI raised %s: only ffi.error or TypeError/ValueError "
                           "(well-formed but invalid type) are allowed" % (s[:200], exc))
    def compare(out):
        for (case, text, msg, b, loc), got in zip(expect, out):
            want = None
            m = re.match(r"ok (\d+) (\S+)$", got)
            if m:
                data = bytes.fromhex(m.group(2)) if m.group(2) != "-" else b""
                want = msg + (data[:-1].decode("latin-1") if data else "")
                if data and (int(m.group(1)) != len(data) or data[-1] != 0):
                    want = None
            if want != text or want != msg + sanitize_excerpt(b, loc):
                ctx.disagree(case, text[:300], got[:300], "_ffi_bad_type text vs model")
    if lines:
        model_queue(ctx, lines, compare)
    return rows


# ======================================================================== part D: #define values

DEF_ALPHA = "-0xX0123789aAbBcCdDeEfFlLuU"
DEF_OTHER = ["g", "o", "O", "b", "_", "+", ".", " ", "\t", "8", "9", "١", "ａ", "K", "ſ", "ı", " ", "h", "p", "0x", "00",
             "ul", "LL", "--", "x", "X"]
DEF_FIXED = ["0", "00", "08", "09", "010", "0x10", "0X1F", "0x", "x1", "X1", "0xg", "abc", "ABC", "1a", "a1", "0b1", "0B1", "0o7",
             "1l", "1L", "1ul", "1UL", "1lu", "1LLU", "1uu", "l", "u", "ul", "al", "fu", "-", "--1", "-0", "-00", "-08",
             "-0x", "-x1", "-0x1F", "-0X1ful", "...", "..", "....", "", "5", "-5", "+5", "1_0", "1 0", "1\t", "0x1p3",
             "1.5", "1e3", "e3", "1e", "9" * 4300, "9" * 4301, "1" + "0" * 4299, "1" + "0" * 4300, "0" * 5000, "0x" + "f" * 5000,
             "0" + "7" * 5000, "-" + "9" * 4301, "9" * 4300 + "ul", "0x0", "0x00ul", "0xx1", "00x1", "0x-1", "1-", "1x", "0x1x",
             "٣", "1٣", "0xａ", "1K", "1ſ", "١l", "K", "0K"]


def gen_define_value(rng):
    n = rng.choice([1, 1, 2, 2, 3, 3, 4, 5, 6, 8])
    s = "".join(rng.choice(DEF_ALPHA) for _ in range(n))
    r = rng.random()
    if r < 0.25:
        i = rng.randint(0, len(s))
        s = s[:i] + rng.choice(DEF_OTHER) + s[i:]
    elif r < 0.5:
        # bias towards well-formed literals
        body = rng.choice(["0x" + "".join(rng.choice("0123456789abcdefABCDEF") for _ in range(rng.randint(1, 6))),
                           "0" + "".join(rng.choice("01234567") for _ in range(rng.randint(0, 5))),
                           "0" + "".join(rng.choice("0123456789") for _ in range(rng.randint(1, 4))),
                           str(rng.randint(0, 10 ** rng.randint(1, 22)))])
        s = rng.choice(["", "", "-"]) + body + rng.choice(["", "", "u", "l", "UL", "ull", "LLU", "lul"])
    return s


def dec(n):
    """Decimal text of an int of any size (the interpreter's 4300-digit limit is lifted only while formatting, so
    that the code under test runs with the default)."""
    old = sys.get_int_max_str_digits()
    sys.set_int_max_str_digits(0)
    try:
        return str(n)
    finally:
        sys.set_int_max_str_digits(old)


def observe_define(value):
    import cffi
    ffi = cffi.FFI()
    try:
        ffi.cdef("#define C30_FOO %s\n" % value)
    except Exception as e:
        return "err " + type(e).__name__, type(e).__name__, site_of(e.__traceback__)
    if "C30_FOO" in ffi._parser._int_constants:
        return "ok " + dec(ffi._parser._int_constants["C30_FOO"]), None, None
    d = ffi._parser._declarations.get("macro C30_FOO")
    if d is not None and d[0] == "...":
        return "ok dotdotdot", None, None
    return "ok ?", None, None


def part_d(ctx, n, with_model=True):
    vals = list(DEF_FIXED)
    while len(vals) < n:
        vals.append(gen_define_value(ctx.rng))
    lines, expect = [], []
    seen = set()
    for v in vals:
        if v in seen or any(c in v for c in "\n\\/\"'"):
            continue
        seen.add(v)
        obs, exc, site = observe_define(v)
        stripped = v.strip()
        case = {"part": "D", "api": "cdef", "text": "#define C30_FOO %s\n" % v, "value": v, "exc": exc, "site": site}
        ctx.case(("D", v) if stripped else None, sample=dict(case, observed=obs[:60]))
        ctx.count("D:" + (obs.split(" ")[0] + (" " + obs.split(" ")[1] if obs.startswith("err") else "")))
        if exc is not None and exc not in ALLOWED_INLINE:
            ctx.fail(case, "#define with value %r raised %s (at %s)" % (v[:80], exc, site))
        lines.append("define " + (",".join(str(ord(c)) for c in stripped) or "-"))
        expect.append((case, obs))
    def compare(out):
        for (case, obs), got in zip(expect, out):
            if got != obs:
                ctx.disagree(case, obs[:200], got[:200], "_process_macros vs model")
    if with_model:
        model_queue(ctx, lines, compare)


# ======================================================================== part C: constant expressions

C_ENV = {"K": 7, "N8": 8, "NEG": -3, "BIG": 2 ** 70, "Z": 0}
C_PRELUDE = "".join("#define %s %d\n" % kv for kv in sorted(C_ENV.items()))
C_FIXED = [("b", "/", ("c", "5"), ("c", "0")), ("b", "%", ("c", "5"), ("c", "0")), ("b", "/", ("c", "5"), ("i", "Z")),
           ("b", "<<", ("c", "1"), ("u", "-", ("c", "1"))), ("b", ">>", ("c", "1"), ("u", "-", ("c", "1"))),
           ("b", "<<", ("c", "1"), ("c", HUGE)), ("b", "<<", ("c", "0"), ("c", HUGE)), ("b", ">>", ("c", "1"), ("c", HUGE)),
           ("b", ">>", ("u", "-", ("c", "1")), ("c", HUGE)), ("c", "0x1p3"), ("c", "0x1.8p1"), ("c", "0X2P1L"),
           ("b", "+", ("i", "undefined_name"), ("c", "0x1p3")), ("b", "+", ("c", "0x1p3"), ("i", "undefined_name")),
           ("b", "/", ("u", "-", ("c", "7")), ("c", "2")), ("b", "%", ("u", "-", ("c", "7")), ("c", "2")),
           ("b", "/", ("c", "7"), ("u", "-", ("c", "2"))), ("b", "%", ("c", "7"), ("u", "-", ("c", "2"))),
           ("b", ">>", ("u", "-", ("c", "9")), ("c", "1")), ("b", "&", ("u", "-", ("c", "6")), ("c", "11")),
           ("b", "|", ("u", "-", ("c", "6")), ("c", "11")), ("b", "^", ("u", "-", ("c", "6")), ("u", "-", ("c", "11"))),
           ("b", "<", ("c", "1"), ("c", "2")), ("b", "&&", ("c", "1.5"), ("c", "2")), ("u", "~", ("c", "1.5")),
           ("u", "!", ("i", "undefined_name")), ("c", "'a'"), ("c", "'\\n'"), ("c", "'\\q'"), ("c", "'ab'"), ("c", "L'a'"),
           ("c", "\"s\""), ("c", "1.5"), ("c", ".5"), ("c", "1e3"), ("c", "0b101"), ("c", "0B11u"), ("c", "017"), ("c", "0x1FuLL"),
           ("c", "18446744073709551616"), ("b", "*", ("i", "BIG"), ("i", "BIG")), ("o", "sizeof(int)"), ("o", "(int)3"),
           ("b", "+", ("o", "sizeof(int)"), ("b", "/", ("c", "1"), ("c", "0"))),
           ("b", "+", ("b", "/", ("c", "1"), ("c", "0")), ("o", "sizeof(int)"))]


def observe_const(text):
    import cffi
    ffi = cffi.FFI()
    try:
        ffi.cdef(text)
    except Exception as e:
        return "err " + type(e).__name__, type(e).__name__, site_of(e.__traceback__)
    v = ffi._parser._int_constants.get("C30_A")
    return ("ok " + dec(v)) if isinstance(v, int) else "ok ?", None, None


def part_c(ctx, n, with_model=True):
    trees = list(C_FIXED)
    while len(trees) < n:
        trees.append(gen_expr(ctx.rng, ctx.rng.choice([1, 2, 2, 3, 4]), C_ENV))
    envs = ",".join("%s=%d" % kv for kv in sorted(C_ENV.items()))
    lines, expect = [], []
    seen = set()
    for t in trees:
        src = render_expr(t)
        if src in seen:
            continue
        seen.add(src)
        text = C_PRELUDE + "enum c30_e { C30_A = %s };\n" % src
        if not shifts_safe(text):
            raise InfraError("generator produced an unsafe shift: %r" % src)
        obs, exc, site = observe_const(text)
        case = {"part": "C", "api": "cdef", "text": text, "expr": src, "exc": exc, "site": site}
        ctx.case(("C", src) if (exc or t[0] == "b") else None, sample=dict(case, observed=obs[:60]))
        ctx.count("C:" + (obs if obs.startswith("err") else "ok"))
        if exc is not None and exc not in ALLOWED_INLINE:
            ctx.fail(case, "constant expression %r raised %s (at %s)" % (src[:120], exc, site))
        lines.append("const 0 %s %s" % (envs, " ".join(expr_words(t))))
        expect.append((case, obs))
    def compare(out):
        for (case, obs), got in zip(expect, out):
            if got != obs:
                ctx.disagree(case, obs[:200], got[:200], "_parse_constant vs model")
    if with_model:
        model_queue(ctx, lines, compare)


# ======================================================================== part X: exception types of the in-line FFI

X_FIXED_CDEF = ["typedef int __dotdotdot__;", "#line 3u\nint x;", "# 3u \"f.h\"\n", "enum } K;", "#define FOO abc", "#define FOO 08", "int a[5/0];", "int a[1<<-1];", "int a[5%0];",
                "enum e { A = 1/0 };", "int a[0x1p3];", "struct s { int x:0x1p3; };", "int a[1<<%s];" % HUGE, "", ";", "}",
                "{", "int", "typedef", "struct s { int x:5/0; };", "enum e { A = 1 << -1 };", "#define X 1\n#define X 2",
                "#define", "#define A", "#define A ...", "typedef ... t; typedef ... t;", "int f(int, ...); int f(int);",
                "struct s {...;}; struct s {int x;};", "typedef int t; typedef char t;", "extern \"Python\" int f(int); int f(int);",
                "int a[...];", "int a[-...];", "int a[...+1];", "int f(int a[...]);", "struct s { int a[...]; int b:3; };",
                "typedef int... t[3];", "typedef struct { int x; ...; } *t;", "union u { ...; };", "enum e { A, ... , B };",
                "enum e { ... };", "enum { A = ... };", "static const int X = 0x1p3;", "static const int X = 08;",
                "static const int X = -08;", "static const char X = 'a';", "typedef struct __dotdotdot__ t;",
                "struct __dotdotdot__ { int x; };", "enum __dotdotdot__ { A };", "int __dotdotdot__;", "int __dotdotdotint__;",
                "typedef __dotdotdotint__ t;", "typedef __dotdotdotfloat__ t;", "__dotdotdotarray__ x;", "int a[__dotdotdotarray__];",
                "void f(int a[__dotdotdotarray__]);", "typedef int t[__dotdotdotarray__ + 1];"]
X_FIXED_TYPEOF = ["", " ", "\n", "int[-1]", "FILE[]", "int[%s]" % HUGE, "char(*)()[]", "} s", "int[0x1p3]", "int[1<<%s]" % HUGE,
                  "int(*)(struct foo)", "struct foo(*)(void)", "void[]", "int[5/0]", "int[", "...", "int x; int", "int){",
                  "int); int f(int", "void(*)(void)[3]", "int()()", "int()[3]", "#define X 1", "int x, ...", "...,", "float  struct zz",
                  "int(int struct zz)", "union ...U[3]", "struct ...", "enum ...", "__dotdotdot__", "int __dotdotdot__",
                  "struct __dotdotdot__", "int[...]", "int(*)[...]", "struct { int x; }", "struct { ...; }", "enum { A }",
                  "union { int x; } *", "int(*)(int[...])", "int[1?2:3]", "int[sizeof(int)]", "typedef int", "extern int",
                  "static int", "inline int", "int f(void) { return 0; }", "int = 5", "int x = 5", "int :3", "int x:3"]


# Deterministic families (every run, every seed): valid texts covering every construct the preprocessor and the
# parser special-case; each is cut at every token boundary (followed by each of TRUNC_TAILS) and has each of its
# tokens deleted in turn.  (text, cdef options)
FAMILY_CDEF = [
    ('extern "Python" int cb1(int, char *);', None),
    ('extern "Python+C" int cb2(int);', None),
    ('extern "C+Python" void cb3(void);', None),
    ('extern "Python" { int cb4(int); void cb5(void); }', None),
    ('extern "Python+C" { int cb6(int); }\nint after(void);', None),
    ('extern "C+Python" {\n  long cb7(long);\n}', None),
    ('int before(void); extern  "Python"   int cb8(void);', None),
    ('#define A 5\n#define B 0x10\n#define C \\\n  7\n#define D ...\n#define E -010u\nint arr[A];', None),
    ('# 1 "file.h"\nint x1;\n# 7 "other.h"\nint x2;\n#line 9\nint x3;', None),
    ('struct s1 { int a; ...; };', None),
    ('struct s2 { int a[...]; char b; };', None),
    ('enum e1 { E1A, E1B = 3, ... };', None),
    ('enum e2 { E2A = ..., E2B };', None),
    ('typedef int... myint_t; typedef float... myflt_t; typedef ... opaque_t;', None),
    ('typedef struct { ...; } anon_t; typedef ... *ptr_t;', None),
    ('int __stdcall f1(int); int (__stdcall *fp1)(int); int WINAPI f2(void); int __cdecl f3(void); '
     'void (WINAPI *fp2)(int);', None),
    ('struct bf { int a:3; unsigned b:1; int :0; signed char c:7; };', None),
    ('static const int SC1 = 42; static const int SC2 = -0x10; static const char SC3; static const int SC4;', None),
    ('/* c1 */ int x; // c2\nint y; /* multi\nline */ int z;', None),
    ('int g1[...]; extern int g2[]; extern int g3[4];', None),
    ('typedef int (*fn_t)(int, ...); int vf(int, ...); void (*signal2(int, void (*)(int)))(int);', None),
    ('struct p1 { char a; int b; }; union u1 { int x; float y; };', {"packed": True}),
    ('struct p2 { char a; long long b; short c; };', {"pack": 2}),
    ('int api1(int); extern int api_var; typedef struct { int v; } api_t; api_t *api2(void);', {"embedding": True}),
    ('typedef _Bool b_t; typedef long double ld_t; typedef float _Complex fc_t; typedef wchar_t w_t; '
     'typedef uint64_t u64; FILE *fopen2(const char *, const char *);', None),
    ("enum e3 { X1 = 1 << 3, X2 = (5 + 2) * 3, X3 = 'a', X4 = -1, X5 = 7 / 2, X6 = 7 % 3, X7 = 9 >> 1 }; int aa[X1];", None),
    ('#pragma pack(1)\nint q;\nchar * const * cpp; int * volatile vp; const char *const names[3];', None),
]
FAMILY_TYPEOF = ["int", "unsigned long long", "const char *", "int[5]", "int[]", "int[0x10]", "int(*)(int, char *)",
                 "int(*)(void)", "void(*)(int, ...)", "int (__stdcall *)(int)", "struct _IO_FILE *", "FILE *",
                 "int(*(*)(void))[3]", "int *[4]", "int (*)[4]", "char **const *", "long double", "float _Complex",
                 "uint32_t[2][3]", "wchar_t *", "void *(*)(void *, size_t)", "unsigned char[8]", "const volatile int *",
                 "_Bool", "int(*)(int(*)(int))", "ssize_t", "int[1 << 3]", "char[(2 + 3) * 2]"]
TRUNC_TAILS = ["", " ", "\n", "\t\n ", "/* c */", "// c", "\\\n"]
_R_TOKEN = re.compile(r'"[^"\n]*"|\'(?:\\.|[^\'\\\n])*\'|/\*.*?\*/|//[^\n]*|\.\.\.|<<|>>|\\\n|\w+|\S', re.S)


def family_variants(text):
    """-> [(family, variant text)]: every prefix ending at a token boundary x TRUNC_TAILS; one token deleted."""
    spans = [m.span() for m in _R_TOKEN.finditer(text)]
    out = []
    cuts = [0] + [e for _, e in spans]
    for c in cuts:
        for t in TRUNC_TAILS:
            out.append(("trunc", text[:c] + t))
    for a, b in spans:
        out.append(("delete", text[:a] + text[b:]))
    return out


def part_families(ctx):
    for text, options in FAMILY_CDEF:
        exc, _ = check_inline(ctx, "cdef", text, "family-base", options, family="base")
        if exc is not None:
            raise InfraError("family base text is not accepted by cdef (%s): %r" % (exc, text))
        for fam, v in family_variants(text):
            if not shifts_safe(v):
                ctx.count("XF:cdef:%s:skipped(unsafe-shift)" % fam)
                continue
            check_inline(ctx, "cdef", v, "family-" + fam, options, family=fam)
    for text in FAMILY_TYPEOF:
        exc, _ = check_inline(ctx, "typeof", text, "family-base", family="base")
        if exc is not None:
            raise InfraError("family base type string is not accepted by typeof (%s): %r" % (exc, text))
        for fam, v in family_variants(text):
            if not shifts_safe(v):
                ctx.count("XF:typeof:%s:skipped(unsafe-shift)" % fam)
                continue
            check_inline(ctx, "typeof", v, "family-" + fam, family=fam)


def part_x(ctx, n_cdef, n_typeof):
    rng = ctx.rng
    part_families(ctx)
    for t in X_FIXED_CDEF:
        check_inline(ctx, "cdef", t, "fixed")
    for t in X_FIXED_TYPEOF:
        check_inline(ctx, "typeof", t, "fixed")
    done = 0
    while done < n_cdef:
        text = gen_cdef(rng)
        origin = "grammar"
        if rng.random() < 0.45:
            text = mutate(rng, text)
            origin = "mutated"
        if len(text) > 600 or not shifts_safe(text):
            ctx.count("X:cdef:skipped(unsafe-shift-or-long)")
            done += 1
            continue
        check_inline(ctx, "cdef", text, origin)
        done += 1
    done = 0
    while done < n_typeof:
        text = gen_type(rng)
        origin = "grammar"
        if rng.random() < 0.5:
            text = mutate(rng, text, nbytes=True)
            origin = "mutated"
        if len(text) > 600 or not shifts_safe(text):
            ctx.count("X:typeof:skipped(unsafe-shift-or-long)")
            done += 1
            continue
        check_inline(ctx, "typeof", text, origin)
        done += 1


# ======================================================================== sanitizer tier

def sanitizer_env(ctx):
    """Builds an ASan+UBSan backend; returns the environment for the child, or None (with a note) when the
    sanitizer build cannot be made to work here."""
    d = os.path.join(ctx.scratch, "asan")
    os.makedirs(d, exist_ok=True)
    try:
        common.build_backend(d, extra_flags=["-fsanitize=address,undefined", "-fsanitize-recover=address,undefined",
                                             "-fno-omit-frame-pointer", "-g1"], name="_cffi_backend")
    except InfraError as e:
        ctx.coverage["sanitizer"] = "skipped: sanitizer build failed: %s" % str(e)[-300:]
        return None
    r = common.run(["gcc", "-print-file-name=libasan.so"])
    libasan = r.stdout.strip()
    if not os.path.isabs(libasan) or not os.path.exists(libasan):
        ctx.coverage["sanitizer"] = "skipped: libasan.so not found"
        return None
    # recover mode: a report does not stop the replay; every report is attributed to its string through the
    # worker's stderr markers.  PYTHONMALLOC=malloc: the parser's output buffer comes from PyMem_Malloc.
    env = {"LD_PRELOAD": libasan, "ASAN_OPTIONS": "detect_leaks=0:halt_on_error=0:allocator_may_return_null=1",
           "UBSAN_OPTIONS": "halt_on_error=0:print_stacktrace=1",
           "PYTHONPATH": d + os.pathsep + os.environ.get("PYTHONPATH", ""), "PYTHONMALLOC": "malloc"}
    return env


# ======================================================================== entry points

def correspond(ctx):
    import warnings
    warnings.simplefilter("ignore")
    sys.path.insert(0, ctx.scratch)
    guard_selftest(ctx)
    strings = type_string_stream(ctx.rng, ctx.n(5000, 30000))
    guard_rows = part_t(ctx, strings)
    module = build_module(ctx)
    part_b(ctx, strings, guard_rows, module)
    part_d(ctx, ctx.n(1500, 10000))
    part_c(ctx, ctx.n(1500, 10000))
    model_flush(ctx)
    part_x(ctx, ctx.n(4000, 60000), ctx.n(4000, 60000))
    if not ctx.quick:
        env = sanitizer_env(ctx)
        if env is not None:
            rows = part_b(ctx, strings, guard_rows, module, env=env, label=":asan", with_model=False)
            ctx.coverage["sanitizer"] = "ASan+UBSan backend replayed %d type strings x 2 FFIs" % len(rows)


def search(ctx):
    """Directed search of the real implementation only (no model): more of every oracle."""
    import warnings
    warnings.simplefilter("ignore")
    strings = type_string_stream(ctx.rng, ctx.n(15000, 100000))
    guard_rows = part_t(ctx, strings, with_model=False)
    module = build_module(ctx)
    part_b(ctx, strings, guard_rows, module, with_model=False)
    part_d(ctx, ctx.n(4000, 50000), with_model=False)
    part_c(ctx, ctx.n(4000, 50000), with_model=False)
    part_x(ctx, ctx.n(8000, 100000), ctx.n(8000, 100000))


def _rerun(ctx, case):
    """Re-executes one case against the real implementation; -> (still fails, description)"""
    import warnings
    warnings.simplefilter("ignore")
    part = case.get("part")
    if part == "T":
        rows, crashed, how = run_guard(ctx, [case["input_hex"]])
        if crashed is not None:
            return True, "tokenizer crashed on the guard page (%s)" % how
        b = bytes.fromhex(case["input_hex"])
        row = rows[0]
        bad = any(o + z > len(b) for _, o, z, _, _ in row["toks"]) or (row["res"] < 0 and row["loc"] > len(b))
        return bad, "tokens %r res=%r loc=%r" % (row["toks"][-3:], row["res"], row["loc"])
    if part == "B":
        env = sanitizer_env(ctx) if case.get("sanitizer") else None
        module = build_module(ctx) if case.get("ffi") == "module" else None
        rows, crash, _, reports = run_ctypeof(ctx, [case["text"]], module, env=env)
        if crash is not None:
            return True, "crash: %s" % (crash,)
        if str(case.get("exc", "")).startswith(("ASAN", "UBSAN")):
            hit = [r for r in reports if r[0] >= 0 and r[2] == case["exc"] and r[3] == case["site"]]
            return bool(hit), "sanitizer reports: %r" % ([r[2:] for r in reports],)
        if [r for r in reports if r[0] >= 0]:
            return True, "sanitizer reports: %r" % ([r[2:] for r in reports],)
        o = rows[0][case.get("ffi", "bare")]
        if o[0] == "ok":
            return as_c_string(case["text"]) is None, "typeof -> %r" % (o,)
        exc = o[1]
        if as_c_string(case["text"]) is None:
            return exc != "UnicodeEncodeError", "raised %s" % exc
        ok = o[2] or exc in ("TypeError", "ValueError")
        if ok and not o[2]:
            g, crashed, how = run_guard(ctx, [as_c_string(case["text"]).hex()])
            ok = crashed is None and (g[0]["res"] >= 0 or g[0]["msg"] == "undefined type name")
        return not ok, "raised %s" % exc
    exc, site = run_inline(case["api"], case["text"], case.get("options"))
    return exc is not None and exc not in ALLOWED_INLINE, "%s raised %s at %s" % (case["api"], exc, site)


def replay(ctx, obj):
    case = obj["case"]
    fails, what = _rerun(ctx, case)
    print("%s: %s -> %s" % (case.get("part"), ascii(case.get("text", case.get("input_hex", "")))[:300], what))
    return 1 if fails else 0


def check_witness(ctx, finding):
    w = finding["witness"]
    if w.get("sanitizer") and ctx.quick:
        return None          # needs the ASan/UBSan build, which only the thorough tier makes
    fails, _ = _rerun(ctx, w)
    return fails


if __name__ == "__main__":
    if sys.argv[1] == "--guard":
        sys.exit(guard_worker(sys.argv[2], sys.argv[3]))
    if sys.argv[1] == "--ctypeof":
        sys.exit(ctypeof_worker(sys.argv[2]))
    sys.exit(2)
