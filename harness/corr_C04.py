"""C04 -- ffi.cast to integer and character types follows C conversion rules.

Theorems (lean/CffiVerif/Props/C04.lean) over the model of
cast_to_integer_or_char (Model/IntCast.lean): generated_shape,
generated_write_is_truncation, generated_read_is_readInt, cast_eq_wrap,
cast_in_range, cast_congr, wrap_unique, cast_preserves_representable, cast_bool,
floatTrunc_toward_zero, cast_nonfinite, cast_object_protocol,
cast_rejects_non_single, toptr_of_int, ptr_int_ptr.

The arithmetic of the model is regenerated from the C source (translate/castexprs.py ->
Generated/CastExprs.lean): a change of one of those expressions breaks the proof stage.

Tie to the code, per (type, source):
  * oracle independent of the model: Python arithmetic (`int(x)` of a float is
    exact; reduction modulo 2**(8*size) into the signed/unsigned range; non-zero
    test for _Bool) and, for sources representable in 64 bits / in the target
    type, `(T)x` evaluated by gcc (a shared library called through ctypes);
  * correspondence: the same (type, source) through Drivers/C04.lean.
"""
import ctypes
import math
import warnings
import os
import sys

import struct

import common
from common import InfraError

sys.path.insert(0, os.path.join(common.VERIF, "translate"))
import castexprs  # noqa: E402

MANIFEST = {
    "text": "Kernel-checked theorems, for every integer or character primitive (1/2/4/8 bytes; signed, unsigned, _Bool, "
            "char kinds incl. signed wchar_t) and every source (Python int of any magnitude, bool, finite float m*2^e, "
            "one byte, one code point, any 64-bit address): the model of cast_to_integer_or_char never fails and "
            "int(ffi.cast(T, x)) is the unique value of T's range congruent to x truncated toward zero modulo "
            "2^(8*sizeof T) (hence x itself whenever representable); for _Bool it is 0/1 by non-zeroness of x itself; "
            "pointer -> intptr_t/uintptr_t -> pointer is the identity on addresses (through a Python int or directly "
            "through the cdata); non-single bytes/str are a TypeError; the same closed form covers integer / character "
            "/ float cdata sources and objects with __int__; non-finite floats raise OverflowError / ValueError (1 to "
            "_Bool); __index__ is never consulted, __float__ only counts for _Bool.  All arithmetic of the model is "
            "regenerated from the C source on every run.  The model is tied to the code by casting on the real "
            "implementation against a Python arithmetic oracle, a gcc-evaluated (T)x table, and the Lean driver.",
    "note": "Trusted: Lean kernel; CPython's PyLong_AsUnsignedLongLongMask / float.__int__ (modelled as exact); "
            "LP64 little endian; the C-expression translator (translate/castexprs.py).  The expressions of the cast "
            "(value assignments, !!value, write/read truncation and widening, character reads of cdata_int, guards "
            "and CPython calls of _my_PyLong_AsUnsignedLongLong / _my_PyObject_AsBool, branch order) are regenerated "
            "from the source; the control flow between them is hand-written.  Sources outside the statement (integer "
            "/ char / float cdata, objects with __int__ / __float__ / __index__, inf/nan, non-numbers) are modelled "
            "and compared with the implementation through the driver only (no oracle of their own).",
    "technique": "Lean 4 proof (case analysis over widths/kinds, omega, BitVec lemmas over regenerated expressions) + "
                 "translator + differential correspondence with a Python-arithmetic and gcc oracle",
}

RULE = ("per type: ints {+-2^k + d : k = 0..70, d = -3..3} and random 1..300-bit ints; floats +-2^k, +-(2^k +- 0.5), "
        "the neighbours of 2^k, fractions, denormals, huge and random-exponent floats; both bools; bytes 00..ff; "
        "code points around 2^7, 2^8, 2^15, 2^16, 2^20 and random ones (incl. lone surrogates); addresses around "
        "2^31, 2^32, 2^47, 2^63, 2^64 and of real cdata (pointer, array, function pointer).  Oracle on all of them, "
        "Lean driver on a per-type sample.  Non-trivial: the truncated source is outside the type's range, or the "
        "float has a fractional part, or the type is _Bool; distinct = distinct (type, source).")
ASSUMPTIONS = ["x86-64 SysV, LP64, little endian; wchar_t is a signed 32-bit type",
               "Python int(float) is exact truncation toward zero (used as the oracle for float sources)"]
CLASSES = {}

INT_TYPES = [
    "short", "int", "long", "long long", "signed char", "unsigned char", "unsigned short", "unsigned int",
    "unsigned long", "unsigned long long", "_Bool",
    "int8_t", "uint8_t", "int16_t", "uint16_t", "int32_t", "uint32_t", "int64_t", "uint64_t",
    "int_least8_t", "uint_least8_t", "int_least16_t", "uint_least16_t", "int_least32_t", "uint_least32_t",
    "int_least64_t", "uint_least64_t", "int_fast8_t", "uint_fast8_t", "int_fast16_t", "uint_fast16_t",
    "int_fast32_t", "uint_fast32_t", "int_fast64_t", "uint_fast64_t", "intptr_t", "uintptr_t",
    "intmax_t", "uintmax_t", "ptrdiff_t", "size_t", "ssize_t"]
CHAR_TYPES = ["char", "char16_t", "char32_t", "wchar_t"]
ENUM_DECLS = """
enum c04_eu32 { C04_EU32_A, C04_EU32_B = 4294967295 };
enum c04_es32 { C04_ES32_A = -1, C04_ES32_B = 2147483647 };
enum c04_eu64 { C04_EU64_A, C04_EU64_B = 18446744073709551615 };
enum c04_es64 { C04_ES64_A = -1, C04_ES64_B = 9223372036854775807 };
"""
ENUM_TYPES = ["enum c04_eu32", "enum c04_es32", "enum c04_eu64", "enum c04_es64"]
# how gcc names the types the oracle library converts to
C_NAMES = {"char": "unsigned char",      # int(<cdata 'char'>) is the unsigned byte
           "char16_t": "uint16_t", "char32_t": "uint32_t", "ssize_t": "ssize_t"}


def ident(t):
    return t.replace(" ", "_")


class TypeEnv:
    def __init__(self, ffi, name, size, signed):
        """size / signedness come from gcc (the oracle library), not from cffi; `char` reads as the
        unsigned byte by cffi's convention whatever the platform's char is."""
        self.name = name
        self.ct = ffi.typeof(name)
        self.size = size
        self.is_bool = name == "_Bool"
        self.is_char = name in CHAR_TYPES
        self.signed = signed
        self.bits = 8 * self.size
        if self.is_bool:
            self.kind = "b"
        elif self.is_char:
            self.kind = "w" if self.signed else "c"
        else:
            self.kind = "s" if self.signed else "u"
        if self.is_bool:
            self.lo, self.hi = 0, 1
        elif self.signed:
            self.lo, self.hi = -(1 << (self.bits - 1)), (1 << (self.bits - 1)) - 1
        else:
            self.lo, self.hi = 0, (1 << self.bits) - 1

    def wrap(self, x):
        m = x % (1 << self.bits)
        if self.signed and m >= (1 << (self.bits - 1)):
            m -= 1 << self.bits
        return m


class World:
    pass


def build(ctx):
    if getattr(ctx, "_c04_world", None) is not None:
        return ctx._c04_world
    import cffi
    w = World()
    ffi = cffi.FFI()
    ffi.cdef(ENUM_DECLS + "int getpid(void);\n")
    w.ffi = ffi
    names = INT_TYPES + CHAR_TYPES + ENUM_TYPES
    # gcc oracle: sizeof(T), signedness of T, (T)x for x a long long / unsigned long long / double
    L = ["#include <stdint.h>", "#include <stddef.h>", "#include <sys/types.h>", "#include <wchar.h>",
         ENUM_DECLS.replace("18446744073709551615", "18446744073709551615ULL").replace(
             "9223372036854775807", "9223372036854775807LL")]
    for t in names:
        c = C_NAMES.get(t, t)
        i = ident(t)
        L.append("int c04_size_%s(void) { return (int)sizeof(%s); }" % (i, c))
        L.append("int c04_sgn_%s(void) { return ((%s)-1) < 0; }" % (i, c))
        # results widened to 64 bits according to T's own signedness
        L.append("unsigned long long c04_s_%s(long long x) { %s r = (%s)x; return ((%s)-1) < 0 ? "
                 "(unsigned long long)(long long)r : (unsigned long long)r; }" % (i, c, c, c))
        L.append("unsigned long long c04_u_%s(unsigned long long x) { %s r = (%s)x; return ((%s)-1) < 0 ? "
                 "(unsigned long long)(long long)r : (unsigned long long)r; }" % (i, c, c, c))
        L.append("unsigned long long c04_d_%s(double x) { %s r = (%s)x; return ((%s)-1) < 0 ? "
                 "(unsigned long long)(long long)r : (unsigned long long)r; }" % (i, c, c, c))
    cfile = os.path.join(ctx.scratch, "c04_oracle.c")
    with open(cfile, "w") as f:
        f.write("\n".join(L) + "\n")
    so = common.compile_shared(cfile, os.path.join(ctx.scratch, "libc04_oracle.so"))
    lib = ctypes.CDLL(so)
    w.types = []
    for t in names:
        i = ident(t)
        size, sgn = getattr(lib, "c04_size_" + i)(), bool(getattr(lib, "c04_sgn_" + i)())
        te = TypeEnv(ffi, t, size, sgn)
        w.types.append(te)
        if ffi.sizeof(t) != size:
            ctx.disagree({"type": t}, ffi.sizeof(t), size, "ffi.sizeof vs gcc")
        res = ctypes.c_longlong if te.signed else ctypes.c_ulonglong
        te.gcc_s = getattr(lib, "c04_s_" + i)
        te.gcc_s.argtypes, te.gcc_s.restype = [ctypes.c_longlong], res
        te.gcc_u = getattr(lib, "c04_u_" + i)
        te.gcc_u.argtypes, te.gcc_u.restype = [ctypes.c_ulonglong], res
        te.gcc_d = getattr(lib, "c04_d_" + i)
        te.gcc_d.argtypes, te.gcc_d.restype = [ctypes.c_double], res
    w.keep = []
    ctx._c04_world = w
    return w


# ---------------------------------------------------------------- sources

def int_sweep():
    s = set()
    for k in range(71):
        for sg in (1, -1):
            for d in range(-3, 4):
                s.add(sg * (1 << k) + d)
    return sorted(s)


def float_values(rng, nrand):
    s = {0.0, -0.0, 0.5, -0.5, 0.999999999999, -0.999999999999, 1.5, -1.5, 2.5, 1e-300, -1e-300, 5e-324,
         1e300, -1e300, 1.7976931348623157e308, -1.7976931348623157e308, 1e22, 123456789.987654321}
    for k in range(71):
        p = float(1 << k)
        for x in (p, p - 0.5, p + 0.5, p - 1.0, p + 1.0, math.nextafter(p, math.inf), math.nextafter(p, 0.0)):
            s.add(x)
            s.add(-x)
    for _ in range(nrand):
        x = math.ldexp(rng.random() + 0.5, rng.randint(-70, 1023))
        s.add(-x if rng.random() < 0.5 else x)
    return sorted(s)


CODEPOINTS = [0, 1, 0x41, 0x7f, 0x80, 0xff, 0x100, 0x1234, 0x7fff, 0x8000, 0xd800, 0xdfff, 0xffff, 0x10000,
              0x1f600, 0xfffff, 0x100000, 0x10ffff]
ADDRS = [0, 1, 2, (1 << 31) - 1, 1 << 31, (1 << 32) - 1, 1 << 32, 1 << 47, (1 << 63) - 1, 1 << 63, (1 << 63) + 1,
         (1 << 64) - 2, (1 << 64) - 1]


def float_me(x):
    """the finite float x as m * 2**e (exactly)"""
    num, den = x.as_integer_ratio()
    return num, -(den.bit_length() - 1)


def sources(w, rng, n_int_rand, n_float_rand):
    """[(kind, python object to cast, truncated integer value, non-zero?, driver words)]"""
    ffi = w.ffi
    out = []
    for v in int_sweep():
        out.append(("int", v, v, v != 0, "int %d" % v))
    for _ in range(n_int_rand):
        bits = rng.randint(1, 300)
        v = rng.getrandbits(bits) | (1 << (bits - 1))
        v = -v if rng.random() < 0.5 else v
        out.append(("int", v, v, True, "int %d" % v))
    for x in float_values(rng, n_float_rand):
        m, e = float_me(x)
        out.append(("float", x, int(x), x != 0.0, "float fin %d %d" % (m, e)))
    out.append(("bool", True, 1, True, "bool 1"))
    out.append(("bool", False, 0, False, "bool 0"))
    for b in range(256):
        out.append(("bytes", bytes([b]), b, b != 0, "bytes %02x" % b))
    cps = list(CODEPOINTS) + [rng.randint(0, 0x10ffff) for _ in range(12)]
    for cp in cps:
        out.append(("str", chr(cp), cp, cp != 0, "str %d" % cp))
    addrs = list(ADDRS) + [rng.getrandbits(64) for _ in range(8)] + [rng.getrandbits(47) for _ in range(4)]
    for a in addrs:
        out.append(("ptr", ffi.cast("void *", a), a, a != 0, "ptr %d" % a))
        out.append(("ptr", ffi.cast("void(*)(int)", a), a, a != 0, "ptr %d" % a))
    # real cdata: owning pointer and array; the address is obtained without cffi's cast
    for decl in ("char[16]", "long *", "struct { int a; } *"):
        p = ffi.new(decl)
        w.keep.append(p)
        a = ctypes.addressof(ctypes.c_char.from_buffer(ffi.buffer(p)))
        out.append(("ptr", p, a, True, "ptr %d" % a))
    # a real function-pointer cdata: libc's getpid through dlopen(None); address through ctypes
    f = ffi.dlopen(None).getpid
    a = ctypes.cast(ctypes.CDLL(None).getpid, ctypes.c_void_p).value
    w.keep.append(f)
    out.append(("ptr", f, a, True, "ptr %d" % a))
    return out


def fwords(x):
    if x != x:
        return "nan"
    if x in (math.inf, -math.inf):
        return "inf" if x > 0 else "-inf"
    return "fin %d %d" % float_me(x)


def extra_sources(w, rng):
    """Sources outside the property's statement: [(python object, driver words, label)].  Compared with the
    model only (what cffi accepts here is part of the model, not of the property)."""
    ffi = w.ffi
    out = []
    for x in (math.inf, -math.inf, math.nan):
        out.append((x, "float " + fwords(x), "float-nonfinite"))
    # integer / character cdata
    by_name = {te.name: te for te in w.types}
    for sname in ("signed char", "unsigned char", "short", "unsigned int", "long", "unsigned long long", "_Bool",
                  "int32_t", "size_t", "char", "char16_t", "char32_t", "wchar_t", "enum c04_es32", "enum c04_eu64"):
        S = by_name[sname]
        vals = [0, 1, -1, S.lo, S.hi, rng.getrandbits(70), -rng.getrandbits(40)]
        for v in vals:
            cd = ffi.cast(sname, v)
            sv = (1 if v != 0 else 0) if S.is_bool else S.wrap(v)
            rep = sv.to_bytes(S.size, "little", signed=S.signed)
            out.append((cd, "cdint %d %s %s" % (S.size, S.kind, rep.hex()), "cdata-int"))
    # float cdata (a `float` holds the value rounded to binary32)
    for x in (0.0, -0.0, 0.5, -2.7, 1e10, -1e19, 3.9e9, 1e300, 5e-324, math.inf, -math.inf, math.nan,
              math.ldexp(rng.random() + 0.5, rng.randint(-20, 80))):
        for tn in ("double", "long double", "float"):
            held = x
            if tn == "float":
                try:
                    held = struct.unpack("f", struct.pack("f", x))[0]
                except OverflowError:
                    continue
            out.append((ffi.cast(tn, x), "cdfloat " + fwords(held), "cdata-float"))
    st = ffi.new("struct { int a; } *")
    w.keep.append(st)
    out.append((st[0], "cdother", "cdata-struct"))
    # instances of Python classes
    results = {"none": None, "i:0": 0, "i:300": 300, "i:-1": -1, "i:1": True, "i:%d" % (1 << 70): 1 << 70,
               "f:%d:%d" % float_me(0.5): 0.5, "f:%d:%d" % float_me(0.0): 0.0, "f:%d:%d" % float_me(-7.25): -7.25,
               "f:inf": math.inf, "f:nan": math.nan, "other": "text"}
    keys = sorted(results)
    combos = [(h, i, f) for h in (0, 1) for i in keys for f in ("none", "f:%d:%d" % float_me(0.5),
                                                                "f:%d:%d" % float_me(0.0), "i:0", "i:300", "other", "f:nan")]
    for h, i, f in combos:
        ns = {}
        if h:
            ns["__index__"] = lambda self: 5
        if i != "none":
            ns["__int__"] = (lambda r: (lambda self: r))(results[i])
        if f != "none":
            ns["__float__"] = (lambda r: (lambda self: r))(results[f])
        out.append((type("C04Obj", (), ns)(), "obj %d %s %s" % (h, i, f), "object"))
    for o in (None, object(), 1j, [], {}):
        out.append((o, "nonum", "non-number"))
    return out


def nontrivial(te, kind, obj, trunc):
    return te.is_bool or not (te.lo <= trunc <= te.hi) or (kind == "float" and obj != trunc)


def expected(te, trunc, nonzero):
    return (1 if nonzero else 0) if te.is_bool else te.wrap(trunc)


def gcc_value(te, kind, obj, trunc):
    """(T)x by gcc where C defines it and the source fits the transport type; else None."""
    if kind == "float":
        if te.is_bool:
            return int(te.gcc_d(obj))
        return int(te.gcc_d(obj)) if te.lo <= trunc <= te.hi else None      # out of range is undefined in C
    if -(1 << 63) <= trunc < (1 << 63):
        return int(te.gcc_s(trunc))
    if 0 <= trunc < (1 << 64):
        return int(te.gcc_u(trunc))
    return None


def run_cast(ffi, te, obj):
    try:
        return int(ffi.cast(te.ct, obj))
    except Exception as e:      # noqa: BLE001 - the exception type is the observation
        return type(e).__name__


def explore(ctx, with_model, model_sample, n_int_rand, n_float_rand):
    w = build(ctx)
    ffi, rng = w.ffi, ctx.rng
    srcs = sources(w, rng, n_int_rand, n_float_rand)
    lines, pending = [], []
    for te in w.types:
        focus, rest = [], []
        for idx, (kind, obj, trunc, nz, words) in enumerate(srcs):
            got = run_cast(ffi, te, obj)
            want = expected(te, trunc, nz)
            case = {"type": te.name, "size": te.size, "kind": te.kind, "source": kind,
                    "value": obj if kind == "int" else (obj.hex() if kind == "float" else
                                                        words.split(" ", 1)[1]), "words": words}
            nt = nontrivial(te, kind, obj, trunc)
            ctx.case((te.name, words) if nt else None, sample=case if nt and kind != "int" else None)
            ctx.count("%s:%s" % (kind, "bool" if te.is_bool else
                                 "representable" if te.lo <= trunc <= te.hi else "wraps"))
            if got != want:
                ctx.fail(case, "int(ffi.cast(%r, x)) = %r, C conversion rules give %r" % (te.name, got, want))
            g = gcc_value(te, kind, obj, trunc)
            if g is not None:
                ctx.count("gcc-oracle")
                if g != want:
                    # the two oracles disagree: the harness' idea of C is wrong, not cffi
                    raise InfraError("oracle mismatch for (%s)%r: python %r, gcc %r" % (te.name, obj, want, g))
            near = any(abs(trunc - b) <= 3 for b in (te.lo, te.hi, 1 << 63, -(1 << 63), 1 << 64, 0))
            (focus if (near or kind in ("bool",) or trunc.bit_length() > 64) else rest).append((idx, got, case))
        if with_model:
            chosen = focus + rng.sample(rest, min(model_sample, len(rest)))
            for idx, got, case in chosen:
                lines.append("cast %d %s %s" % (te.size, te.kind, srcs[idx][4]))
                pending.append((case, got))

    # pointer -> intptr_t / uintptr_t -> pointer
    rt = []
    for kind, obj, trunc, nz, words in srcs:
        if kind != "ptr":
            continue
        for tn in ("intptr_t", "uintptr_t"):
            case = {"type": tn, "source": "ptr-roundtrip", "address": trunc}
            ctx.case(("roundtrip", tn, trunc), sample=case)
            ctx.count("ptr-roundtrip")
            i = ffi.cast(tn, obj)
            back = ffi.cast("void *", i)
            back2 = ffi.cast("void *", int(i))
            a1 = int(ffi.cast("uintptr_t", back))
            a2 = int(ffi.cast("uintptr_t", back2))
            same = back == ffi.cast("void *", obj)
            if a1 != trunc or a2 != trunc or not same:
                ctx.fail(case, "pointer -> %s -> pointer gives address %r / %r (equal cdata: %r)" % (tn, a1, a2, same))
            if with_model:
                lines.append("cast 8 %s ptr %d" % ("s" if tn == "intptr_t" else "u", trunc))
                pending.append((dict(case, step="to-int"), int(i)))
                lines.append("toptr int %d" % int(i))
                rt.append((len(lines) - 1, case, a2))

    # sources outside the property's statement: correspondence only
    if with_model:
        extras = extra_sources(w, rng)
        for te in w.types:
            for obj, words, label in extras:
                with warnings.catch_warnings():
                    warnings.simplefilter("ignore")
                    got = run_cast(ffi, te, obj)
                ctx.count("%s:%s" % (label, "ok" if isinstance(got, int) else got))
                lines.append("cast %d %s %s" % (te.size, te.kind, words))
                pending.append(({"type": te.name, "source": label, "words": words}, got))
        # integer cdata -> pointer, directly
        for kind, obj, trunc, nz, words in srcs:
            if kind != "ptr":
                continue
            for tn, k in (("intptr_t", "s"), ("uintptr_t", "u")):
                i = ffi.cast(tn, obj)
                a = ctypes.cast(ctypes.c_void_p(trunc), ctypes.c_void_p).value or 0
                back = ffi.cast("void *", i)
                got = int(ffi.cast("uintptr_t", back))
                rep = (int(i)).to_bytes(8, "little", signed=(k == "s"))
                lines.append("toptr cdint 8 %s %s" % (k, rep.hex()))
                rt.append((len(lines) - 1, {"type": tn, "source": "cdata-int -> pointer", "address": trunc}, got))
    if with_model:
        for te in w.types[::7]:
            for obj, words in ((b"", "bytes -"), (b"ab", "bytes 6162"), ("", "str"), ("ab", "str 97 98")):
                got = run_cast(ffi, te, obj)
                ctx.count("non-single:" + str(got))
                lines.append("cast %d %s %s" % (te.size, te.kind, words))
                pending.append(({"type": te.name, "source": "non-single", "words": words}, got))

    if with_model and lines:
        out = ctx.driver(lines)
        ctx.count("model-lines", len(lines))
        k = 0
        rt_idx = {i: (case, a) for i, case, a in rt}
        for i, o in enumerate(out):
            if i in rt_idx:
                case, a = rt_idx[i]
                if o != "ok %d" % a:
                    ctx.disagree(case, a, o, "integer -> pointer")
                continue
            case, got = pending[k]
            k += 1
            if isinstance(got, int):
                parts = o.split(" ")
                if len(parts) != 3 or parts[0] != "ok" or parts[2] != str(got):
                    ctx.disagree(case, got, o, "int(ffi.cast(T, x))")
            elif o != "err " + got:
                ctx.disagree(case, got, o, "exception type of the cast")


def translators(ctx):
    return [castexprs.translator(ctx)]


def correspond(ctx):
    explore(ctx, True, ctx.n(150, 1500), ctx.n(60, 600), ctx.n(60, 600))


def search(ctx):
    explore(ctx, False, 0, ctx.n(600, 6000), ctx.n(600, 6000))


def replay(ctx, obj):
    case = obj["case"]
    w = build(ctx)
    ffi = w.ffi
    if case.get("source") == "ptr-roundtrip":
        p = ffi.cast("void *", int(case["address"]))
        i = ffi.cast(case["type"], p)
        back = int(ffi.cast("uintptr_t", ffi.cast("void *", i)))
        print("address %r -> %s %r -> address %r" % (int(case["address"]), case["type"], int(i), back))
        return 0 if back == int(case["address"]) else 1
    te = [t for t in w.types if t.name == case["type"]][0]
    words = case["words"].split(" ")
    kind = words[0]
    if kind == "int":
        x = int(words[1]); trunc, nz = x, x != 0
    elif kind == "float":
        x = math.ldexp(float(int(words[2])), int(words[3])); trunc, nz = int(x), x != 0.0
    elif kind == "bool":
        x = words[1] == "1"; trunc, nz = int(x), x
    elif kind == "bytes":
        x = bytes.fromhex(words[1]); trunc, nz = x[0], x[0] != 0
    elif kind == "str":
        x = chr(int(words[1])); trunc, nz = int(words[1]), int(words[1]) != 0
    else:
        x = ffi.cast("void *", int(words[1])); trunc, nz = int(words[1]), int(words[1]) != 0
    got = run_cast(ffi, te, x)
    want = expected(te, trunc, nz)
    print("int(ffi.cast(%r, %r)) = %r, expected %r" % (te.name, x, got, want))
    return 0 if got == want else 1
