"""C35 -- pkg-config output is translated to build keywords without loss.

Theorems (lean/CffiVerif/Props/C35.lean): every_token_exactly_once,
macro_split_first_eq, merge_is_concat_in_call_order, error_iff_fail,
result_is_concat_over_libs, model_is_the_translated_source over the model of src/cffi/pkgconfig.py
(lean/CffiVerif/Model/PkgConfig.lean).

Tie to the code: translate/c35_py.py re-translates the getters, `_macro`, the
`kwargs` dict and the loop body of `merge_flags` from pkgconfig.py into
Generated/PkgConfigPy.lean on every run (it raises when a function changes
shape); `model_is_the_translated_source` proves the model equal to it.  A stub `pkg-config` (csrc/pkgconfig_stub_C35.c compiled into
ctx.scratch, first on PATH) replays, per library name and flag, a recorded byte string and exit
status; `cffi.pkgconfig.flags_from_pkgconfig` runs in-process against it and its
result (or the PkgConfigError) is compared
  * with a direct one-pass oracle written from the property's statement, and
  * with the Lean model fed the same stub behaviour;
`merge_flags` is also driven directly on random dicts; `str.isspace` of CPython
is compared with the model's whitespace set over all of Unicode.
"""
import os
import sys

import common
from common import InfraError

MANIFEST = {
    "text": "Kernel-checked theorems on a model of cffi/pkgconfig.py: the token list of each pkg-config output is "
            "rebuilt exactly from the three keyword lists and the sequence of prefix classes (every token lands in "
            "exactly one list, in order, with -I/-L/-l/-D stripped; the lengths add up), -Dname=value splits at the "
            "first '=', merge_flags concatenates per key in call order and the final dict is the concatenation over "
            "the requested libraries, and PkgConfigError is raised exactly when a call cannot be started, exits "
            "non-zero, prints non-UTF-8 bytes or a backslash.  Tied to the code by running flags_from_pkgconfig "
            "in-process against a stub pkg-config replaying random token sequences, exit statuses and undecodable "
            "bytes, compared with a direct oracle and with the model.",
    "note": "Trusted: Lean kernel; harness, stub program and driver parsing; CPython's str.split/isspace and UTF-8 codec "
            "are parameters validated by running (isspace over all code points every run); POSIX (os.altsep is None, "
            "file system encoding UTF-8); error messages are not compared.",
    "technique": "Lean 4 proof (induction over token lists and over the merge fold) + differential correspondence with "
                 "cffi.pkgconfig run against a replaying stub pkg-config",
}

RULE = ("per case 0-3 library names (plain, versioned 'libbar >= 1.8.3', non-ASCII, repeated); per (name, flag) an "
        "output of 0-8 tokens drawn from -I/-D/-L/-l/-W/-pthread/bare words with empty, '='-rich and non-ASCII "
        "suffixes, ~20% immediately repeated tokens, separated by runs of ASCII and Unicode white space, with "
        "leading/trailing space; ~20% of cases contain a failure (non-zero status, bytes that are not UTF-8, a "
        "backslash, pkg-config missing or not executable); non-trivial = at least two tokens of different prefix "
        "classes or a failure; distinct = distinct (library list, stub behaviour)")
ASSUMPTIONS = ["sys.getfilesystemencoding() == 'utf-8' and os.altsep is None (POSIX)",
               "the stub pkg-config writes exactly the recorded bytes and exits with the recorded status"]
CLASSES = {}

WS = [" ", " ", " ", "  ", "\t", "\n", " \n", "\r\n", "\x0b", "\x0c", "\x1c", "\x1d", "\x1e", "\x1f", "\x85", "\xa0",
      "\u1680", "\u2000", "\u2003", "\u200a", "\u2028", "\u2029", "\u202f", "\u205f", "\u3000"]
NOT_WS = ["\u200b", "\u180e", "\u2060", "\ufeff", "\x00", "\x08", "\x1b", "\x7f"]
STUB_SRC = os.path.join(common.VERIF, "csrc", "pkgconfig_stub_C35.c")


def cps(s):
    return ",".join(str(ord(c)) for c in s) or "-"


def hx(b):
    return b.hex() or "-"


def translators(ctx):
    sys.path.insert(0, os.path.join(common.VERIF, "translate"))
    import c35_py
    return [c35_py.run]


# ------------------------------------------------------------------ generators

def gen_suffix(rng):
    r = rng.random()
    if r < 0.15:
        return ""
    pool = ["/usr/include", "/opt/é/lib", "foo", "m", "X", "X=1", "X=", "=", "=y", "A=b=c", "N=\"q\"", "€", "a-b",
            "I", "D", "-I", "..", "glib-2.0", "x" * rng.randint(1, 5), rng.choice(NOT_WS) + "z"]
    return rng.choice(pool)


def gen_token(rng):
    r = rng.random()
    if r < 0.6:
        return rng.choice(["-I", "-D", "-L", "-l"]) + gen_suffix(rng)
    if r < 0.8:
        return rng.choice(["-pthread", "-O2", "-Wl,-rpath,/x", "-framework", "Cocoa", "-i", "-d", "--libs", "I-I",
                           "-", "-isystem", "-lm", "-Lq", "-Wl,--as-needed", "é", "-fPIC", "-U_FORTIFY"])
    return rng.choice(["-", "", "x"]) + gen_suffix(rng) or "w"


def gen_output(rng):
    toks = []
    for _ in range(rng.choice([0, 1, 2, 3, 4, 5, 6, 8])):
        t = gen_token(rng)
        if not t or any(c.isspace() for c in t):
            t = "tok"
        toks.append(t)
        if rng.random() < 0.2:
            toks.append(t)                 # the same token twice in a row
    s = rng.choice(["", "", " ", "\n", "\t "])
    for i, t in enumerate(toks):
        s += t
        if i + 1 < len(toks):
            s += "".join(rng.choice(WS) for _ in range(rng.choice([1, 1, 1, 2])))
    s += rng.choice(["", "\n", "\n", " \n", "\r\n", "\u3000"])
    return s


STATUSES = [1, 2, 3, 127, 255, 64]
_cycle = [0]


def gen_run(rng, fail):
    """One (status, stdout bytes, stderr bytes) of the stub."""
    out = gen_output(rng).encode("utf-8")
    status, err = 0, b""
    if fail:
        k = rng.random()
        if k < 0.45:
            status = STATUSES[_cycle[0] % len(STATUSES)]      # every status value in turn
            _cycle[0] += 1
            err = rng.choice([b"Package foo was not found\n", b"\xff\xfe bad\n", b""])
        elif k < 0.7:
            bad = rng.choice([b"\xff", b"\xc3", b"\xed\xa0\x80", b"\xc0\xaf", b"\xf5\x80\x80\x80", b"-I\xe9t\xe9"])
            pos = rng.randint(0, len(out))
            out = out[:pos] + bad + out[pos:]
        else:
            pos = rng.randint(0, len(out))
            out = out[:pos] + rng.choice([b"\\", b"-IC:\\x", b"a\\ b"]) + out[pos:]
    return {"status": status, "out": out.hex(), "err": err.hex()}


def gen_case(rng):
    names = ["libfoo", "libbar >= 1.8.3", "glib-2.0", "é-lib", "x", "a b", "Q"]
    libs = [rng.choice(names) for _ in range(rng.choice([0, 1, 1, 2, 2, 3]))]
    failing = rng.random() < 0.22 and libs
    spec = {}
    for nm in sorted(set(libs)):
        spec[nm] = {"--cflags": gen_run(rng, False), "--libs": gen_run(rng, False)}
    mode = "stub"
    if failing:
        k = rng.random()
        if k < 0.8:
            nm = rng.choice(libs)
            fl = rng.choice(["--cflags", "--libs"])
            spec[nm][fl] = gen_run(rng, True)
        elif k < 0.9:
            mode = "missing"
        else:
            mode = "not-executable"
    return {"libs": libs, "spec": spec, "mode": mode}


# ------------------------------------------------------------------ the oracle (the property's statement, one pass)

def run_fails(run):
    if run["status"] != 0:
        return True
    try:
        s = bytes.fromhex(run["out"]).decode("utf-8")
    except UnicodeDecodeError:
        return True
    return "\\" in s


def oracle(case):
    if case["mode"] != "stub":
        return ("err", "PkgConfigError") if case["libs"] else ("ok", {})
    res = {}
    for lib in case["libs"]:
        runs = case["spec"][lib]
        if run_fails(runs["--cflags"]) or run_fails(runs["--libs"]):
            return ("err", "PkgConfigError")
        per = {"include_dirs": [], "library_dirs": [], "libraries": [], "define_macros": [],
               "extra_compile_args": [], "extra_link_args": []}
        for tok in bytes.fromhex(runs["--cflags"]["out"]).decode("utf-8").split():
            if tok[:2] == "-I":
                per["include_dirs"].append(tok[2:])
            elif tok[:2] == "-D":
                name, eq, value = tok[2:].partition("=")
                per["define_macros"].append((name, value if eq else None))
            else:
                per["extra_compile_args"].append(tok)
        for tok in bytes.fromhex(runs["--libs"]["out"]).decode("utf-8").split():
            if tok[:2] == "-L":
                per["library_dirs"].append(tok[2:])
            elif tok[:2] == "-l":
                per["libraries"].append(tok[2:])
            else:
                per["extra_link_args"].append(tok)
        for k, v in per.items():
            res.setdefault(k, []).extend(v)
    return ("ok", res)


def canon_result(d):
    """Canonical text of a result dict (keys sorted: dict order is not part of the property)."""
    out = []
    for k in sorted(d):
        items = []
        for it in d[k]:
            if isinstance(it, tuple):
                items.append("M %s %s" % (cps(it[0]), "N" if it[1] is None else "V " + cps(it[1])))
            else:
                items.append("T " + cps(it))
        out.append("%s %d %s" % (k, len(items), " ".join(items)))
    return "D %d " % len(d) + " ".join(out)


def canon_model(ans):
    """Reorder the model's `ok D n key cnt items…` answer by key."""
    w = ans.split()
    if w[:2] != ["ok", "D"]:
        return ans
    n = int(w[2])
    i = 3
    ents = []
    for _ in range(n):
        key, cnt = w[i], int(w[i + 1])
        i += 2
        items = []
        for _ in range(cnt):
            if w[i] == "T":
                items.append(" ".join(w[i:i + 2]))
                i += 2
            elif w[i + 2] == "N":
                items.append(" ".join(w[i:i + 3]))
                i += 3
            else:
                items.append(" ".join(w[i:i + 4]))
                i += 4
        ents.append((key, "%s %d %s" % (key, cnt, " ".join(items))))
    ents.sort()
    return "ok D %d " % n + " ".join(e for _, e in ents)


# ------------------------------------------------------------------ running the real code

class Stub:
    def __init__(self, ctx):
        self.root = os.path.join(ctx.scratch, "c35")
        self.bin = os.path.join(self.root, "bin")
        self.nobin = os.path.join(self.root, "nobin")
        self.noexec = os.path.join(self.root, "noexec")
        self.spec = os.path.join(self.root, "spec")
        for d in (self.bin, self.nobin, self.noexec, self.spec):
            os.makedirs(d, exist_ok=True)
        p = os.path.join(self.bin, "pkg-config")
        if not os.path.exists(p):
            common.compile_prog(STUB_SRC, p)
        q = os.path.join(self.noexec, "pkg-config")
        with open(q, "w") as f:
            f.write("#!/bin/sh\nexit 0\n")
        os.chmod(q, 0o644)
        self.n = 0

    def install(self, case):
        self.n += 1
        d = os.path.join(self.spec, "s%d" % self.n)
        os.makedirs(d)
        for nm, runs in case["spec"].items():
            for fl, run in runs.items():
                base = os.path.join(d, nm.encode("utf-8").hex() + "." + fl)
                with open(base + ".out", "wb") as f:
                    f.write(bytes.fromhex(run["out"]))
                with open(base + ".err", "wb") as f:
                    f.write(bytes.fromhex(run["err"]))
                with open(base + ".status", "w") as f:
                    f.write(str(run["status"]))
        return d

    def run(self, case):
        from cffi import pkgconfig
        from cffi.error import PkgConfigError
        d = self.install(case)
        old = {k: os.environ.get(k) for k in ("PATH", "C35_SPEC")}
        first = {"stub": self.bin, "missing": self.nobin, "not-executable": self.noexec}[case["mode"]]
        rest = [p for p in (old["PATH"] or "/usr/bin:/bin").split(os.pathsep) if p]
        if case["mode"] != "stub":
            # no other pkg-config may be found further down the PATH
            rest = [p for p in rest if not os.path.exists(os.path.join(p, "pkg-config"))]
        os.environ["PATH"] = os.pathsep.join([first] + rest)
        os.environ["C35_SPEC"] = d
        try:
            try:
                return ("ok", pkgconfig.flags_from_pkgconfig(list(case["libs"])))
            except PkgConfigError:
                return ("err", "PkgConfigError")
            except Exception as e:
                return ("err", type(e).__name__)
        finally:
            for k, v in old.items():
                if v is None:
                    os.environ.pop(k, None)
                else:
                    os.environ[k] = v


def flags_line(case):
    w = ["flags", str(len(case["spec"]))]
    for nm in sorted(case["spec"]):
        w.append(cps(nm))
        for fl in ("--cflags", "--libs"):
            run = case["spec"][nm][fl]
            spawn = "1" if case["mode"] == "stub" else "0"
            w += [spawn, str(run["status"]), run["out"] or "-"]
    w.append(str(len(case["libs"])))
    w += [cps(l) for l in case["libs"]]
    return " ".join(w)


def nontrivial(case, want):
    if want[0] == "err":
        return True
    kinds = sum(1 for v in want[1].values() if v)
    return kinds >= 2


def part_flags(ctx, n, model=True):
    stub = Stub(ctx)
    _cycle[0] = 0
    lines, expect = [], []
    for _ in range(n):
        case = gen_case(ctx.rng)
        got = stub.run(case)
        want = oracle(case)
        ctx.case(repr(case) if nontrivial(case, want) else None, sample=case)
        ctx.count("flags:" + (want[1] if want[0] == "err" else "ok") + ("" if case["mode"] == "stub" else ":" + case["mode"]))
        ctx.count("libs=%d" % len(case["libs"]))
        if got[0] != want[0] or (got[0] == "err" and got[1] != want[1]) or \
                (got[0] == "ok" and canon_result(got[1]) != canon_result(want[1])):
            ctx.fail(case, "flags_from_pkgconfig returned %s, the tokens of the outputs give %s"
                     % (_short(got), _short(want)))
        if model:
            lines.append(flags_line(case))
            expect.append((case, "ok " + canon_result(got[1]) if got[0] == "ok" else "err " + got[1], "flags"))
    return lines, expect


def _short(r):
    return (r[1] if r[0] == "err" else repr(r[1]))[:400]


def part_merge(ctx, n, lines, expect):
    from cffi import pkgconfig
    rng = ctx.rng
    for _ in range(n):
        def cfg():
            d = {}
            for _ in range(rng.randint(0, 4)):
                d[rng.randint(0, 5)] = [rng.randint(-9, 99) for _ in range(rng.randint(0, 3))]
            return d
        c1, c2 = cfg(), cfg()
        w1 = " ".join("%d %d %s" % (k, len(v), " ".join(map(str, v))) for k, v in c1.items())
        w2 = " ".join("%d %d %s" % (k, len(v), " ".join(map(str, v))) for k, v in c2.items())
        line = " ".join(("merge %d %s %d %s" % (len(c1), w1, len(c2), w2)).split())
        want = {k: list(v) for k, v in c1.items()}
        for k, v in c2.items():
            want.setdefault(k, [])
            want[k] = want[k] + list(v)
        a = {k: list(v) for k, v in c1.items()}
        b = {k: list(v) for k, v in c2.items()}
        r = pkgconfig.merge_flags(a, b)
        case = {"merge": [c1, c2]}
        ctx.case(None)
        ctx.count("merge")
        if r is not a or r != want or list(r) != list(want):
            ctx.fail(case, "merge_flags gave %r, per-key concatenation in call order is %r" % (r, want))
        got = " ".join(("ok %d %s" % (len(r), " ".join("%d %d %s" % (k, len(v), " ".join(map(str, v)))
                                                        for k, v in r.items()))).split())
        lines.append(line)
        expect.append((case, got, "merge_flags"))
    # the TypeError branch (values that are not lists), oracle only
    for bad1, bad2 in (({"a": "x"}, {"a": ["y"]}), ({"a": ["x"]}, {"a": ("y",)})):
        try:
            pkgconfig.merge_flags(dict(bad1), dict(bad2))
            ctx.fail({"merge": [bad1, bad2]}, "merge_flags accepted a non-list value for a shared key")
        except TypeError:
            ctx.count("merge:TypeError")
        ctx.case(None)


def part_space(ctx, lines, expect):
    real = [c for c in range(0x110000) if chr(c).isspace()]
    lines.append("spaces 0 %d" % 0x3200)
    expect.append(({"isspace": "all code points"}, " ".join(["ok"] + [str(c) for c in real]), "str.isspace"))
    if any(c >= 0x3200 for c in real):
        ctx.disagree({"isspace": "beyond U+3200"}, [c for c in real if c >= 0x3200], "none", "str.isspace")
    ctx.case(None)
    # str.split() itself on white-space-rich text
    rng = ctx.rng
    for _ in range(ctx.n(150, 3000)):
        s = "".join(rng.choice(WS + NOT_WS + ["a", "-I", "b=c", "é"]) for _ in range(rng.randint(0, 9)))
        toks = s.split()
        lines.append("split " + cps(s))
        expect.append(({"split": [ord(c) for c in s]}, " ".join(["ok %d" % len(toks)] + [cps(t) for t in toks]), "str.split"))
        ctx.case(None)
        ctx.count("split")


def correspond(ctx):
    if sys.getfilesystemencoding() != "utf-8" or os.altsep is not None:
        raise InfraError("the model assumes a POSIX system with UTF-8 file system encoding")
    lines, expect = part_flags(ctx, ctx.n(160, 2500))
    part_merge(ctx, ctx.n(100, 3000), lines, expect)
    part_space(ctx, lines, expect)
    out = ctx.driver(lines)
    for o, (case, want, what) in zip(out, expect):
        if what == "flags":
            o = canon_model(o)
        if o != want:
            ctx.disagree(case, want[:300], o[:300], what)


def search(ctx):
    part_flags(ctx, ctx.n(800, 5000), model=False)


def replay(ctx, obj):
    case = obj["case"]
    if "merge" in case or "libs" not in case:
        print("not a pkg-config case:", case)
        return 1
    got = Stub(ctx).run(case)
    want = oracle(case)
    print("flags_from_pkgconfig:", _short(got))
    print("tokens by prefix:    ", _short(want))
    same = got[0] == want[0] and (got[1] == want[1] if got[0] == "err" else canon_result(got[1]) == canon_result(want[1]))
    return 0 if same else 1
