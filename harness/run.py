"""Entry point of one check run (called by /verif/check with the rebuilt
backend first on PYTHONPATH)."""
import importlib
import json
import os
import sys
import traceback

sys.path.insert(0, os.path.dirname(os.path.abspath(__file__)))
import common
from common import Ctx, InfraError, finish, log


def main():
    prop, tier, seed, scratch = sys.argv[1], sys.argv[2], int(sys.argv[3]), sys.argv[4]
    replay = sys.argv[5] if len(sys.argv) > 5 else None
    try:
        mod = importlib.import_module("corr_" + prop)
    except ImportError:
        traceback.print_exc()
        return 2
    ctx = Ctx(prop, tier, seed, scratch)
    ctx.classes = dict(getattr(mod, "CLASSES", {}))
    try:
        import _cffi_backend
        if not _cffi_backend.__file__.startswith(scratch):
            raise InfraError("wrong backend on path: " + _cffi_backend.__file__)
        if replay:
            obj = json.load(open(replay))
            return mod.replay(ctx, obj)
        ctx.prove(mod.translators(ctx) if hasattr(mod, "translators") else ())
        if not ctx.proof["ok"]:
            log("proof stage broken:", json.dumps(ctx.proof["broken"])[:2000])
        mod.correspond(ctx)
        if (not ctx.proof["ok"] or ctx.disagreements) and not ctx.failures and hasattr(mod, "search"):
            log("searching the implementation for a failing input ...")
            mod.search(ctx)
        return finish(ctx, mod)
    except InfraError as e:
        log("INFRASTRUCTURE ERROR:", e)
        return 2
    except Exception:
        traceback.print_exc()
        return 2


if __name__ == "__main__":
    sys.exit(main())
