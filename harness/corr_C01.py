"""C01 -- ABI-mode struct and union layout equals the C compiler's layout.

Theorems (lean/CffiVerif/Props/C01.lean) over `Model/Layout.lean` (transcription of the
field loop of b_complete_struct_or_union_lock_held for the x86-64 gcc flags) and
`Spec/GccLayout.lean` (psABI/GCC rules on one bit cursor).

Every random declaration is built three times:
  * in the real backend through ffi.cdef text (sizeof / alignof / offsetof / typeof().fields and
    the storage bits that change when all-ones is written through cffi into a zeroed struct),
  * by the REAL gcc: one C program per batch prints sizeof / _Alignof / offsetof and the bits
    changed when all-ones is stored in each bit-field               -> property oracle (ctx.fail),
  * by the Lean driver: `layout` = model of cffi (vs. cffi's cf_offset/cf_bitshift/cf_bitsize),
    `gcc` = the specification (vs. the gcc program)                 -> correspondence (ctx.disagree).
Besides: out-of-class probes for the error branches of the model (`probes`), and the MSVC / ARM /
big-endian branches of the loop through `_cffi_backend.complete_struct_or_union(..., sflags, pack)`
against the all-flags model `Model/LayoutFlags.lean` (`direct`; correspondence only, theorem
`flags_model_specialises` ties that model to the one the layout theorems are about).
Failing declarations are re-rooted at the failing aggregate and shrunk member by member (`shrink`).
"""
import os
import sys

import common
from common import InfraError

sys.path.insert(0, os.path.join(common.VERIF, "translate"))

MANIFEST = {
    "text": "Kernel-checked theorems that the transcription of cffi's struct/union field loop (x86-64 gcc flags) "
            "gives, for every well-formed declaration with any number of fields and any nesting, the same "
            "alignment, member offsets and bit-field bit intervals as a specification of the SysV/GCC layout on a "
            "single bit cursor, and the same size whenever no aggregate involved is empty "
            "(layout_eq_gcc_partial, layout_eq_gcc_up_to_empty; the zero-size case is the known finding, "
            "layout_eq_gcc_fails_on_empty_struct), that no such declaration is rejected (never_rejected), that every "
            "member's storage lies inside the object and every bit-field inside its unit (unit_inside), and that "
            "the all-flags model agrees with it for the x86-64 flags (flags_model_specialises); "
            "model and specification are tied to the code and to the compiler by laying out random declarations "
            "in the real backend via ffi.cdef, in the Lean driver, and in C programs compiled by the real gcc.",
    "note": "Trusted: Lean kernel; gcc as the layout oracle (the Lean spec is compared with it, not proved against "
            "it); the harness' generators and C emitter. Modelled only for the flags chosen on x86-64 Linux "
            "(SF_GCC_X86_BITFIELDS, little endian); the MSVC/ARM/big-endian branches are modelled and compared with the "
            "backend through complete_struct_or_union(sflags) but have no theorem and no compiler oracle; forced "
            "offsets ('...' structs) and C integer overflow of sizes are not modelled; x & ~(a-1) is modelled as "
            "x - x % a (justified for powers of two by andnot_eq_alignDown). Alignments are assumed to be 1,2,4,8,16. "
            "The arithmetic and the conditions of the x86-64/gcc path are regenerated from the C source each run "
            "(translate/layout_exprs.py, 25 ordered extraction points); the control structure of the loop, the list "
            "handling and the rejection tests on ct_flags are hand-modelled; C subtraction is truncated subtraction on Nat. "
            "The Lean model takes the packing as part of each aggregate's declaration; WHICH cdef() option (packed=/pack=) "
            "applies to which aggregate (the one of the cdef() that contains its field list, not the one that first "
            "mentions its tag) is Python-side and covered only by the deterministic 'mention' correspondence family "
            "against gcc.",
    "technique": "translator (C expressions of the field loop -> Generated/LayoutExprs.lean) + Lean 4 proof (simulation relation between cffi's (byte,bit) state and a bit cursor, induction over "
                 "the field list and over nesting) + differential correspondence with the real backend and real gcc",
}

RULE = ("random struct/union declarations, nesting <= 4, <= 12 fields per aggregate: primitives, pointers, arrays "
        "(incl. length 0 and multi-dimensional), nested (tagged, inline, pre-declared with another packing) and "
        "anonymous aggregates, bit-fields of signed/unsigned integer types and _Bool (named, unnamed, zero width; "
        "widths biased to 1, unit-1, unit and to crossing a unit boundary), a trailing flexible array, "
        "packed=True / pack=N (no bit-fields); plus a few out-of-class probes (packing with bit-fields, bad widths) "
        "for the error branches of the model; plus, in every run, the deterministic family where a tag is only mentioned "
        "(forward declaration, typedef, pointer member, pointer argument, ffi.typeof) under packing P1 and defined in a later "
        "cdef() under P2 != P1 (all pairs of none/packed/pack=1,2,4, structs and unions, and the reverse dependency order). "
        "One evaluation = one aggregate type; non-trivial = it has a "
        "bit-field, a nested aggregate, packing, or >= 3 members; distinct = distinct canonical declaration")
ASSUMPTIONS = ["gcc 12 x86-64 SysV is the platform C compiler (the oracle program is compiled by it)",
               "declarations reach the backend through ffi.cdef without '...' (no forced offsets, totalsize = -1)"]
TRUSTED_EXTRA = ["the C emitter of harness/corr_C01.py (the same declaration text is given to cffi and gcc, "
                 "modulo #pragma pack for packed=/pack=)"]

ZERO_CLASS = "C01/zero-size-aggregate"
CLASSES = {ZERO_CLASS: lambda case: bool(case.get("zero_size_agg"))}
BUILTIN_FINDINGS = [
    {"property": "C01", "class": ZERO_CLASS,
     "witness": {"chunks": [["struct s0 { };", 0]], "type": "struct s0"},
     "what": "aggregates whose members have total size 0 (struct{}, struct{int :0;}, struct{int a[0];}) get "
             "sizeof 1 in cffi where gcc gives 0 (and shift the members that follow them when nested)"},
]

# (C name, can carry a bit-field, bit width usable in C)
INT_TYPES = [("signed char", 8), ("unsigned char", 8), ("short", 16), ("unsigned short", 16),
             ("int", 32), ("unsigned int", 32), ("long", 64), ("unsigned long", 64),
             ("long long", 64), ("unsigned long long", 64), ("_Bool", 1)]
PRIMS = ["char", "signed char", "unsigned char", "short", "unsigned short", "int", "unsigned int",
         "long", "unsigned long", "long long", "unsigned long long", "float", "double", "long double",
         "_Bool", "wchar_t", "int8_t", "uint16_t", "int32_t", "uint64_t", "size_t", "intptr_t",
         "float _Complex", "double _Complex", "char16_t", "char32_t"]
INTLIKE = set(PRIMS) - {"float", "double", "long double", "float _Complex", "double _Complex"}
# pointer declarators: (text before the name, text after the name and its array suffix)
POINTERS = [("void *", ""), ("char **", ""), ("const int *", ""), ("int (*", ")(int, char)"), ("long double *", "")]


# ----------------------------------------------------------------------------- declarations

class Agg(object):
    def __init__(self, kind, tag, pack, packed_kw, style, fields):
        self.kind, self.tag, self.pack, self.packed_kw, self.style, self.fields = \
            kind, tag, pack, packed_kw, style, fields

    def to_json(self):
        return {"kind": self.kind, "tag": self.tag, "pack": self.pack, "packed_kw": self.packed_kw,
                "style": self.style, "fields": [f.to_json() for f in self.fields]}

    @staticmethod
    def from_json(d):
        return Agg(d["kind"], d["tag"], d["pack"], d["packed_kw"], d["style"],
                   [Field.from_json(f) for f in d["fields"]])


class Field(object):
    """base: ("prim", cname) | ("ptr", index into POINTERS, or "self") | ("ptrtag", "struct X") | ("agg", Agg)"""
    def __init__(self, name, base, dims=(), flex=False, bits=None):
        self.name, self.base, self.dims, self.flex, self.bits = name, base, list(dims), flex, bits

    def to_json(self):
        b = self.base
        if b[0] == "agg":
            b = ["agg", b[1].to_json()]
        return {"name": self.name, "base": list(b), "dims": self.dims, "flex": self.flex, "bits": self.bits}

    @staticmethod
    def from_json(d):
        b = d["base"]
        b = ("agg", Agg.from_json(b[1])) if b[0] == "agg" else tuple(b)
        return Field(d["name"], b, d["dims"], d["flex"], d["bits"])


class Gen(object):
    def __init__(self, rng, prefix):
        self.rng, self.prefix = rng, prefix
        self.ntag = self.nfld = 0
        self.allow_zero = False
        self.bits_any_pack = False       # out-of-class: bit-fields together with packing

    def tag(self):
        self.ntag += 1
        return "%st%d" % (self.prefix, self.ntag)

    def fname(self):
        self.nfld += 1
        return "f%d" % self.nfld

    def pick_pack(self):
        r = self.rng.random()
        if r < 0.72:
            return 0, False
        if r < 0.80:
            return 1, True               # packed=True
        return self.rng.choice([1, 2, 2, 4, 4, 8, 16]), False

    def width(self, bits_of_type, used):
        r = self.rng.random()
        unit = bits_of_type
        if unit == 1:
            return 1
        if r < 0.15:
            return 1
        if r < 0.27:
            return unit - 1
        if r < 0.40:
            return unit
        if r < 0.60 and used % unit:
            # cross (or exactly reach) the boundary of the unit the cursor is in
            left = unit - used % unit
            return min(unit, max(1, left + self.rng.choice([-1, 0, 1, 1, 2])))
        return self.rng.randint(1, unit)

    def zero_fields(self, depth, pack):
        """members that all have size 0"""
        rng = self.rng
        out = []
        for _ in range(rng.choice([0, 0, 1, 1, 2])):
            k = rng.random()
            if k < 0.4 and (pack == 0 or self.bits_any_pack):
                out.append(Field("", ("prim", rng.choice(INT_TYPES[:10])[0]), bits=0))
            elif k < 0.8 or depth >= 3:
                out.append(Field(self.fname(), ("prim", rng.choice(PRIMS)), dims=[0]))
            else:
                sub = Agg(rng.choice(["struct", "union"]), None, pack, False, "inline",
                          self.zero_fields(depth + 1, pack))
                out.append(Field(self.fname(), ("agg", sub)))
        return out

    def agg(self, depth, pack, packed_kw, style, top=False, anonymous=False):
        rng = self.rng
        kind = "struct" if rng.random() < 0.8 else "union"
        tag = None if anonymous or (style == "inline" and rng.random() < 0.4) else self.tag()
        if self.allow_zero and rng.random() < (0.4 if top else 0.25):
            return Agg(kind, tag, pack, packed_kw, style, self.zero_fields(depth, pack))
        nmax = 12 if top else max(1, 7 - depth)
        n = rng.randint(1, nmax)
        bits_ok = pack == 0 or self.bits_any_pack
        bitty = bits_ok and rng.random() < 0.6     # this aggregate likes bit-fields
        fields = []
        used = 0                                     # rough bit cursor, only to bias widths
        for i in range(n):
            r = rng.random()
            if bits_ok and r < (0.55 if bitty else 0.12):
                tname, tbits = rng.choice(INT_TYPES)
                k = rng.random()
                if k < 0.08:
                    fields.append(Field("", ("prim", tname), bits=0))
                    used = 0
                    continue
                w = self.width(tbits, used)
                named = k > 0.22
                fields.append(Field(self.fname() if named else "", ("prim", tname), bits=w))
                used += w
                continue
            used = 0
            r = rng.random()
            dims = []
            if rng.random() < 0.22:
                dims = [rng.choice([0, 1, 1, 2, 3, 5]) for _ in range(rng.choice([1, 1, 1, 2, 3]))]
            if r < 0.50 or depth >= 4:
                base = ("prim", rng.choice(PRIMS))
            elif r < 0.60:
                base = ("ptr", "self" if (tag and rng.random() < 0.3) else rng.randrange(len(POINTERS)))
            elif r < 0.72:
                # anonymous struct/union member
                sub = self.agg(depth + 1, pack, packed_kw, "inline", anonymous=True)
                fields.append(Field("", ("agg", sub)))
                continue
            else:
                if rng.random() < 0.45:
                    p, kw = self.pick_pack()
                    sub = self.agg(depth + 1, p, kw, "pre")
                else:
                    sub = self.agg(depth + 1, pack, packed_kw, "inline")
                base = ("agg", sub)
            fields.append(Field(self.fname(), base, dims=dims))
        if top and kind == "struct" and rng.random() < 0.15 and any(f.name for f in fields):
            el = rng.choice(PRIMS + ["int", "char"])
            fields.append(Field(self.fname(), ("prim", el), dims=[rng.randint(1, 3)] if rng.random() < 0.2 else [],
                                flex=True))
        return Agg(kind, tag, pack, packed_kw, style, fields)

    def declaration(self):
        pack, kw = self.pick_pack()
        self.allow_zero = self.rng.random() < 0.06
        a = self.agg(0, pack, kw, "pre", top=True)
        if a.tag is None:
            a.tag = self.tag()
        return a


# ----------------------------------------------------------------------------- text

def field_text(f, owner_tag):
    suffix = ("[]" if f.flex else "") + "".join("[%d]" % d for d in f.dims)
    if f.bits is not None:
        return "%s %s : %d;" % (f.base[1], f.name, f.bits)
    if f.base[0] == "prim":
        return "%s %s%s;" % (f.base[1], f.name, suffix)
    if f.base[0] == "ptrtag":
        return "%s *%s%s;" % (f.base[1], f.name, suffix)
    if f.base[0] == "ptr":
        if f.base[1] == "self":
            return "struct %s *%s%s;" % (owner_tag, f.name, suffix) if owner_tag else "void *%s%s;" % (f.name, suffix)
        pre, post = POINTERS[f.base[1]]
        return "%s%s%s%s;" % (pre, f.name, suffix, post)
    sub = f.base[1]
    if sub.style == "pre":
        return "%s %s %s%s;" % (sub.kind, sub.tag, f.name, suffix)
    return "%s %s%s;" % (agg_text(sub), f.name, suffix)


def agg_text(a):
    # a "self" pointer inside a union/struct always says `struct <tag> *`; for a union tag use void*
    owner = a.tag if a.kind == "struct" else None
    body = " ".join(field_text(f, owner) for f in a.fields)
    return "%s %s{ %s }" % (a.kind, (a.tag + " ") if a.tag else "", body)


def chunks_of(top):
    """[(cdef text, pack, packed_kw)] in dependency order: every pre-declared aggregate is its own chunk."""
    out = []

    def visit(a):
        for f in a.fields:
            if f.base[0] == "agg":
                visit(f.base[1])
        if a.style == "pre":
            out.append((agg_text(a) + ";", a.pack, a.packed_kw))
    visit(top)
    return out


def is_zero_size(a):
    def fz(f):
        if f.bits is not None:
            return f.bits == 0
        if f.flex or any(d == 0 for d in f.dims):
            return True
        return f.base[0] == "agg" and is_zero_size(f.base[1])
    return all(fz(f) for f in a.fields)


def all_aggs(a, acc=None):
    acc = [] if acc is None else acc
    acc.append(a)
    for f in a.fields:
        if f.base[0] == "agg":
            all_aggs(f.base[1], acc)
    return acc


def flat_fields(a):
    """the named members after flattening anonymous aggregates, in order"""
    out = []
    for f in a.fields:
        if f.bits is not None:
            if f.name:
                out.append(f)
        elif not f.name and f.base[0] == "agg":
            out.extend(flat_fields(f.base[1]))
        else:
            out.append(f)
    return out


def tokens(a, prim_info, ptr_info):
    """prefix notation of Drivers/C01.lean; prim_info: cname -> (size, align)"""
    def ty(f):
        if f.base[0] == "prim":
            s, al = prim_info[f.base[1]]
            t = ["p", str(s), str(al), "1" if f.base[1] in INTLIKE else "0"]
        elif f.base[0] in ("ptr", "ptrtag"):
            t = ["p", str(ptr_info[0]), str(ptr_info[1]), "0"]
        else:
            t = tokens(f.base[1], prim_info, ptr_info)
        for d in reversed(f.dims):
            t = ["a", str(d)] + t
        return t
    out = ["u" if a.kind == "union" else "s", str(a.pack), str(len(a.fields))]
    for f in a.fields:
        out += ["1" if f.name else "0", "-" if f.bits is None else str(f.bits), "1" if f.flex else "0"] + ty(f)
    return out


# ----------------------------------------------------------------------------- targets inside a declaration

def targets(top):
    """Every aggregate type that can be named from outside: [(agg, path)], path = how to reach its type from a
    tagged type: ("tag", kind, tag) or ("member", parent_path, field name, number of array dims)."""
    out = []

    def visit(a, path):
        out.append((a, path))
        walk(a, path)

    def walk(a, path):
        # path names the closest enclosing aggregate that is addressable (anonymous ones are looked through)
        for f in a.fields:
            if f.base[0] != "agg":
                continue
            sub = f.base[1]
            if not f.name:
                walk(sub, path)          # flattened: members reachable from `path`, type itself not nameable
            elif sub.tag:
                visit(sub, ("tag", sub.kind, sub.tag))
            else:
                visit(sub, ("member", path, f.name, len(f.dims)))
    visit(top, ("tag", top.kind, top.tag))
    return out


def c_type_expr(path):
    if path[0] == "tag":
        return "%s %s" % (path[1], path[2])
    return "__typeof__(((%s *)0)->%s%s)" % (c_type_expr(path[1]), path[2], "[0]" * path[3])


def cffi_type(ffi, path):
    if path[0] == "tag":
        return ffi.typeof("%s %s" % (path[1], path[2]))
    ct = dict(cffi_type(ffi, path[1]).fields)[path[2]].type
    for _ in range(path[3]):
        ct = ct.item
    return ct


# ----------------------------------------------------------------------------- the real backend

def build_ffi(chunks):
    """chunks: (text, pack, packed_kw) -> ffi.cdef(text, ...); ("typeof", type string, _) -> ffi.typeof(...)"""
    import cffi
    ffi = cffi.FFI()
    for text, pack, kw in chunks:
        if text == "typeof":
            ffi.typeof(pack)
        elif pack == 0:
            ffi.cdef(text)
        elif kw:
            ffi.cdef(text, packed=True)
        else:
            ffi.cdef(text, pack=pack)
    return ffi


def all_ones(f):
    if f.base[1] == "_Bool":
        return 1
    if f.base[1].startswith("unsigned"):
        return (1 << f.bits) - 1
    return -1


def bits_of(raw):
    return [8 * i + j for i, b in enumerate(raw) for j in range(8) if (b >> j) & 1]


def observe_cffi(ffi, a, path):
    """What cffi says about one aggregate type.  Exceptions are returned as ("err", type name)."""
    import _cffi_backend
    try:
        ct = cffi_type(ffi, path)
        size, align = ffi.sizeof(ct), ffi.alignof(ct)
        raw = [(n, cf.offset, cf.bitshift, cf.bitsize) for n, cf in ct.fields]
    except Exception as e:
        return ("err", type(e).__name__, str(e)[:200])
    obs = {"size": size, "align": align, "raw": raw, "members": {}}
    try:
        pt = _cffi_backend.new_pointer_type(ct)
        for f in flat_fields(a):
            if f.bits is None:
                obs["members"][f.name] = ("off", ffi.offsetof(ct, f.name))
            else:
                p = ffi.new(pt)
                setattr(p, f.name, all_ones(f))
                obs["members"][f.name] = ("bits", bits_of(bytes(ffi.buffer(p))))
    except Exception as e:
        return ("err", type(e).__name__, str(e)[:200])
    return obs


# ----------------------------------------------------------------------------- the real compiler

C_PROLOGUE = r"""
#include <stdio.h>
#include <stddef.h>
#include <stdint.h>
#include <string.h>
#include <wchar.h>
#include <uchar.h>
#include <sys/types.h>
static void dump(const char *id, const char *name, const void *p, size_t n) {
    const unsigned char *b = p; size_t i;
    printf("B %s %s x", id, name);
    for (i = 0; i < n; i++) printf("%02x", b[i]);
    printf("\n");
}
"""


def c_program(items):
    """items: [(case id, chunks, [(target id, agg, path)])]"""
    src = [C_PROLOGUE]
    body = []
    for cname in PRIMS:
        body.append('printf("P %s|%%zu %%zu\\n", sizeof(%s), _Alignof(%s));' % (cname, cname, cname))
    body.append('printf("P *|%zu %zu\\n", sizeof(void *), _Alignof(void *));')
    for cid, chunks, tgts in items:
        for text, pack, kw in chunks:
            if pack:
                src.append("#pragma pack(push, %d)" % pack)
            src.append(text)
            if pack:
                src.append("#pragma pack(pop)")
        fn = ["static void case_%s(void) {" % cid]
        for tid, a, path in tgts:
            cx = c_type_expr(path)
            fn.append('  printf("T %s %%zu %%zu\\n", sizeof(%s), _Alignof(%s));' % (tid, cx, cx))
            for f in flat_fields(a):
                if f.bits is None:
                    fn.append('  printf("O %s %s %%zu\\n", offsetof(%s, %s));' % (tid, f.name, cx, f.name))
                else:
                    fn.append('  { %s v; memset(&v, 0, sizeof v); v.%s = -1; dump("%s", "%s", &v, sizeof v); }'
                              % (cx, f.name, tid, f.name))
        fn.append("}")
        src.append("\n".join(fn))
        body.append("case_%s();" % cid)
    src.append("int main(void) {\n" + "\n".join(body) + "\nreturn 0; }\n")
    return "\n".join(src)


def run_gcc(ctx, items, name):
    cfile = os.path.join(ctx.scratch, name + ".c")
    with open(cfile, "w") as f:
        f.write(c_program(items))
    exe = os.path.join(ctx.scratch, name)
    common.compile_prog(cfile, exe, extra=["-O0"])
    out = common.run_prog(exe)
    prims, res = {}, {}
    for line in out.splitlines():
        if line.startswith("P "):
            nm, rest = line[2:].split("|")
            prims[nm] = tuple(int(x) for x in rest.split())
            continue
        w = line.split()
        if w[0] == "T":
            res.setdefault(w[1], {"members": {}}).update(size=int(w[2]), align=int(w[3]))
        elif w[0] == "O":
            res.setdefault(w[1], {"members": {}})["members"][w[2]] = ("off", int(w[3]))
        elif w[0] == "B":
            res.setdefault(w[1], {"members": {}})["members"][w[2]] = ("bits", bits_of(bytes.fromhex(w[3][1:])))
        else:
            raise InfraError("unexpected line from the gcc oracle program: %r" % line)
    return prims, res


# ----------------------------------------------------------------------------- one batch

def cffi_prim_info(ffi):
    return {c: (ffi.sizeof(c), ffi.alignof(c)) for c in PRIMS}, (ffi.sizeof("void *"), ffi.alignof("void *"))


def reroot(a, prefix=""):
    """The aggregate `a` as a declaration of its own (its layout depends on nothing outside it)."""
    def retag(d):
        if d["tag"]:
            d["tag"] = prefix + d["tag"]
        for f in d["fields"]:
            if f["base"][0] == "agg":
                retag(f["base"][1])
        return d
    d = retag(a.to_json())
    d["style"] = "pre"
    if not d["tag"]:
        d["tag"] = prefix + "anon_root"
    return Agg.from_json(d)


def case_of(top, a, path, tid):
    root = reroot(a)
    return {"decl": root.to_json(), "type": "%s %s" % (root.kind, root.tag),
            "chunks": [[t, p] for t, p, _ in chunks_of(root)],
            "zero_size_agg": any(is_zero_size(x) for x in all_aggs(a))}


def nontrivial_key(a, toks):
    nt = (a.pack != 0 or len(a.fields) >= 3 or
          any(f.bits is not None or f.base[0] == "agg" for f in a.fields))
    return " ".join(toks) if nt else None


def spec_members(line):
    """`ok size align bitpos/width ...` -> (size, align, [("off", byte) | ("bits", [..])])"""
    w = line.split()
    mem = []
    for m in w[3:]:
        pos, wd = m.split("/")
        pos = int(pos)
        mem.append(("off", pos // 8 if pos % 8 == 0 else -1) if wd == "-"
                   else ("bits", list(range(pos, pos + int(wd)))))
    return int(w[1]), int(w[2]), mem


def run_batch(ctx, tops, name, oracle_only=False, only_top=False):
    """Lay out every addressable aggregate of every declaration in `tops` with cffi, gcc (and Lean)."""
    import cffi
    cprims, cptr = cffi_prim_info(cffi.FFI())
    items, work = [], []
    for ci, top in enumerate(tops):
        scen = top if isinstance(top, Scenario) else None
        if scen:
            chunks = scen.steps
            tgts = [("%d.%d" % (ci, k), a, ("tag", a.kind, a.tag)) for k, a in enumerate(scen.aggs)]
            items.append((str(ci), scen.c_chunks, tgts))
        else:
            chunks = chunks_of(top)
            tgts = [("%d.%d" % (ci, k), a, path) for k, (a, path) in enumerate(targets(top)[:1 if only_top else None])]
            items.append((str(ci), chunks, tgts))
        try:
            ffi = build_ffi(chunks)
        except Exception as e:
            ffi = e
        for tid, a, path in tgts:
            case = scen.case(a) if scen else case_of(top, a, path, tid)
            if isinstance(ffi, Exception):
                obs = ("err", type(ffi).__name__, str(ffi)[:200])
            else:
                obs = observe_cffi(ffi, a, path)
            work.append((tid, a, path, case, obs))
    gprims, gres = run_gcc(ctx, items, name)
    gptr = gprims.pop("*")

    lines = []
    for tid, a, path, case, obs in work:
        g = gres.get(tid)
        if g is None or "size" not in g:
            raise InfraError("the gcc oracle program printed nothing for %s" % tid)
        toks_c = tokens(a, cprims, cptr)
        ctx.case(nontrivial_key(a, toks_c), sample={"type": case["type"], "chunks": case["chunks"]})
        ctx.count("aggregates")
        if case.get("cell"):
            ctx.count(case["cell"])
        ctx.count("union" if a.kind == "union" else "struct")
        if a.pack:
            ctx.count("packed")
        if case["zero_size_agg"]:
            ctx.count("has-zero-size-aggregate")
        for f in a.fields:
            if f.bits is not None:
                ctx.count("bitfield:" + ("zero-width" if f.bits == 0 else "named" if f.name else "unnamed"))
            elif f.flex:
                ctx.count("flexible-array")
            elif f.base[0] == "agg":
                ctx.count("nested:" + ("anonymous" if not f.name else f.base[1].style))
            elif f.dims:
                ctx.count("array")
            else:
                ctx.count(f.base[0])
        # ---- the property: cffi == gcc
        if isinstance(obs, tuple):
            ctx.fail(case, "declaration rejected by cffi: %s: %s (gcc: size %d)" % (obs[1], obs[2], g["size"]))
        else:
            diffs = []
            if obs["size"] != g["size"]:
                diffs.append("sizeof: cffi %d, gcc %d" % (obs["size"], g["size"]))
            if obs["align"] != g["align"]:
                diffs.append("alignof: cffi %d, gcc %d" % (obs["align"], g["align"]))
            for f in flat_fields(a):
                cm, gm = obs["members"].get(f.name), g["members"].get(f.name)
                if gm is None:
                    raise InfraError("the gcc oracle program printed nothing for %s.%s" % (tid, f.name))
                if cm != gm:
                    diffs.append("%s %s: cffi %r, gcc %r" % ("offsetof" if gm[0] == "off" else "storage bits of",
                                                             f.name, cm[1], gm[1]))
            if diffs:
                ctx.fail(case, "; ".join(diffs[:6]))
        if oracle_only:
            continue
        lines.append("layout " + " ".join(toks_c))
        lines.append("gcc " + " ".join(tokens(a, gprims, gptr)))
    if oracle_only:
        return
    out = ctx.driver(lines)
    for k, (tid, a, path, case, obs) in enumerate(work):
        ml, sl = out[2 * k], out[2 * k + 1]
        # model of cffi vs cffi
        if isinstance(obs, tuple):
            impl = "err " + obs[1]
        else:
            impl = " ".join(["ok", str(obs["size"]), str(obs["align"])] +
                            ["%d/%s/%s" % (o, sh if bs >= 0 else "-", bs if bs >= 0 else "-")
                             for _, o, sh, bs in obs["raw"]])
        if impl != ml:
            ctx.disagree(case, impl, ml, "cffi backend vs Model/Layout.lean")
        # spec vs the gcc program
        g = gres[tid]
        ssize, salign, smem = spec_members(sl)
        want = [g["members"][f.name] for f in flat_fields(a)]
        if (ssize, salign, smem) != (g["size"], g["align"], want):
            ctx.disagree(case, "gcc: %r" % ((g["size"], g["align"], want),), sl, "gcc program vs Spec/GccLayout.lean")


# ----------------------------------------------------------------------------- which cdef() option applies to which aggregate

class Scenario(object):
    """A declaration spread over several cdef() calls / ffi.typeof() calls: `steps` is what cffi is given (in order),
    `c_chunks` what gcc is given (`#pragma pack` around the definitions only), `aggs` the aggregates to compare."""
    def __init__(self, steps, c_chunks, aggs, cell):
        self.steps, self.c_chunks, self.aggs, self.cell = steps, c_chunks, aggs, cell

    def case(self, a):
        return {"steps": [list(x) for x in self.steps], "c_chunks": [list(x) for x in self.c_chunks],
                "aggs": [x.to_json() for x in self.aggs], "cell": self.cell,
                "decl": reroot(a).to_json(), "type": "%s %s" % (a.kind, a.tag),
                "chunks": [[t, p] for t, p, _ in self.steps], "zero_size_agg": False}

    @staticmethod
    def from_case(c):
        return Scenario([tuple(x) for x in c["steps"]], [tuple(x) for x in c["c_chunks"]],
                        [Agg.from_json(x) for x in c["aggs"]], c["cell"])


PACKINGS = [("none", 0, False), ("packed", 1, True), ("pack1", 1, False), ("pack2", 2, False), ("pack4", 4, False)]
MENTION_KINDS = ["fwd", "typedef", "ptrfield", "funcarg", "typeof"]
# every body has a member whose natural alignment exceeds every pack value used
STRUCT_BODIES = [
    [("a", "char", []), ("b", "long long", []), ("c", "short", []), ("d", "int", [])],
    [("a", "char", []), ("b", "long double", []), ("c", "char", [])],
    [("a", "short", []), ("b", "double", [2]), ("c", "char", [3]), ("d", "int", [])],
]
UNION_BODIES = [
    [("a", "char", [9]), ("b", "long long", []), ("c", "int", [])],
    [("a", "char", [17]), ("b", "long double", []), ("c", "short", [3])],
]


def mention_family():
    """Deterministic (no randomness): the tag `T` is only MENTIONED in a first cdef()/typeof with packing P1 (forward
    declaration, typedef, pointer member of another struct, pointer argument of a function, ffi.typeof("... T *")) and
    DEFINED in a later cdef() with packing P2 != P1: the layout must be the one of P2, as gcc gives the same
    definition under `#pragma pack(P2)`.  Also the reverse order of dependencies: A (under P1) holds a pointer to B,
    which is defined later under P2 and points back to A."""
    out = []
    n = 0
    for kind in ("struct", "union"):
        bodies = STRUCT_BODIES if kind == "struct" else UNION_BODIES
        for mk in MENTION_KINDS:
            for n1, p1, kw1 in PACKINGS:
                for n2, p2, kw2 in PACKINGS:
                    if n1 == n2:
                        continue
                    n += 1
                    tag = "m%d" % n
                    body = bodies[n % len(bodies)]
                    a = Agg(kind, tag, p2, kw2, "pre", [Field(nm, ("prim", ty), dims=dims) for nm, ty, dims in body])
                    kt = "%s %s" % (kind, tag)
                    mention = {"fwd": "%s;" % kt, "typedef": "typedef %s %s_t;" % (kt, tag),
                               "ptrfield": "struct h%d { char c; %s *p; };" % (n, kt),
                               "funcarg": "int fn%d(%s *, int);" % (n, kt)}.get(mk)
                    if mk == "typeof":
                        steps = [("struct h%d { char c; };" % n, p1, kw1), ("typeof", kt + " *", False)]
                    else:
                        steps = [(mention, p1, kw1)]
                    defn = (agg_text(a) + ";", p2, kw2)
                    steps.append(defn)
                    c_chunks = [(mention or "struct h%d { char c; };" % n, 0, False), defn]
                    out.append(Scenario(steps, c_chunks, [a], "mention:%s:%s->%s:%s" % (mk, n1, n2, kind)))
    for kind in ("struct", "union"):
        for n1, p1, kw1 in PACKINGS:
            for n2, p2, kw2 in PACKINGS:
                if n1 == n2:
                    continue
                n += 1
                ka, kb = "struct ra%d" % n, "%s rb%d" % (kind, n)
                A = Agg("struct", "ra%d" % n, p1, kw1, "pre",
                        [Field("c", ("prim", "char")), Field("p", ("ptrtag", kb)), Field("x", ("prim", "long double"))])
                B = Agg(kind, "rb%d" % n, p2, kw2, "pre",
                        [Field("c", ("prim", "char"), dims=[9]), Field("d", ("prim", "double")),
                         Field("back", ("ptrtag", ka))])
                ch = [(agg_text(A) + ";", p1, kw1), (agg_text(B) + ";", p2, kw2)]
                out.append(Scenario(ch, ch, [A, B], "mention:reverse-dependency:%s->%s:%s" % (n1, n2, kind)))
    return out


# ----------------------------------------------------------------------------- out-of-class probes (model only)

def probes(ctx, n):
    """Declarations outside the property (packing with bit-fields, bad bit-field declarations, an open array
    that is not last): only the model is compared (same exception type / same layout)."""
    import cffi
    rng = ctx.rng
    cprims, cptr = cffi_prim_info(cffi.FFI())
    lines, expect = [], []
    for i in range(n):
        g = Gen(rng, "q%d_" % i)
        k = rng.random()
        fields = []
        pack, kw = 0, False
        if k < 0.6:
            pack, kw = rng.choice([(1, True), (1, False), (2, False), (4, False), (8, False)])
            used = 0
            for _ in range(rng.randint(1, 8)):
                if rng.random() < 0.7:
                    tname, tbits = rng.choice(INT_TYPES[:10])
                    w = g.width(tbits, used)
                    used += w
                    fields.append(Field(g.fname() if rng.random() < 0.8 else "", ("prim", tname), bits=w))
                else:
                    used = 0
                    fields.append(Field(g.fname(), ("prim", rng.choice(PRIMS))))
        else:
            fields.append(Field(g.fname(), ("prim", rng.choice(PRIMS))))
            bad = rng.choice(["named0", "wide", "float", "flexmid"])
            if bad == "named0":
                fields.append(Field(g.fname(), ("prim", "int"), bits=0))
            elif bad == "wide":
                tname, tbits = rng.choice(INT_TYPES[:10])
                fields.append(Field(g.fname() if rng.random() < 0.5 else "", ("prim", tname),
                                    bits=tbits + rng.randint(1, 3)))
            elif bad == "float":
                fields.append(Field(g.fname(), ("prim", rng.choice(["float", "double"])), bits=rng.randint(1, 8)))
            else:
                fields.append(Field(g.fname(), ("prim", "int"), flex=True))
                fields.append(Field(g.fname(), ("prim", "char")))
            rng.shuffle(fields)
        a = Agg(rng.choice(["struct", "struct", "union"]), g.tag(), pack, kw, "pre", fields)
        case = {"probe": True, "chunks": [[t, p] for t, p, _ in chunks_of(a)], "type": "%s %s" % (a.kind, a.tag)}
        try:
            ffi = build_ffi(chunks_of(a))
            ct = ffi.typeof("%s %s" % (a.kind, a.tag))
            impl = " ".join(["ok", str(ffi.sizeof(ct)), str(ffi.alignof(ct))] +
                            ["%d/%s/%s" % (cf.offset, cf.bitshift if cf.bitsize >= 0 else "-",
                                           cf.bitsize if cf.bitsize >= 0 else "-") for _, cf in ct.fields])
        except (TypeError, NotImplementedError) as e:
            impl = "err " + type(e).__name__
        ctx.case(None)
        ctx.count("probe:" + impl.split()[0] + (":" + impl.split()[1] if impl.startswith("err") else ""))
        lines.append("layout " + " ".join(tokens(a, cprims, cptr)))
        expect.append((case, impl))
    out = ctx.driver(lines)
    for o, (case, impl) in zip(out, expect):
        if o != impl:
            ctx.disagree(case, impl, o, "out-of-class probe: cffi backend vs Model/Layout.lean")


# ----------------------------------------------------------------------------- all sflags, through the backend API

SF_STYLE = {"x86": 0x10, "msvc": 0x01, "arm": 0x02}


def direct(ctx, n):
    """The MSVC / ARM / big-endian branches of the loop cannot be reached through ffi.cdef on this platform;
    `_cffi_backend.complete_struct_or_union(ct, fields, None, -1, -1, sflags, pack)` reaches them.  Random
    declarations (bit-fields also together with packing) are built with every flag combination and compared with
    the all-flags model (`layoutf`); there is no compiler oracle for these, so this is correspondence only."""
    import _cffi_backend as B
    rng = ctx.rng
    bname = lambda c: {"float _Complex": "_cffi_float_complex_t", "double _Complex": "_cffi_double_complex_t"}.get(c, c)
    cprims = {c: (B.sizeof(B.new_primitive_type(bname(c))), B.alignof(B.new_primitive_type(bname(c)))) for c in PRIMS}
    vp = B.new_pointer_type(B.new_void_type())
    cptr = (B.sizeof(vp), B.alignof(vp))
    lines, expect = [], []
    for i in range(n):
        g = Gen(rng, "x%d_" % i)
        g.bits_any_pack = True
        g.allow_zero = rng.random() < 0.05
        top = g.declaration()
        style = rng.choice(["x86", "msvc", "msvc", "arm"])
        be = rng.random() < 0.4
        sflags = SF_STYLE[style] | (0x04 if be else 0x40)
        built = []              # (agg, "ok ..." | "err ...")

        def btype(f):
            if f.base[0] == "prim":
                bt = B.new_primitive_type(bname(f.base[1]))
            elif f.base[0] == "ptr":
                bt = vp
            else:
                bt = build(f.base[1])
            for d in reversed(f.dims):
                bt = B.new_array_type(B.new_pointer_type(bt), d)
            if f.flex:
                bt = B.new_array_type(B.new_pointer_type(bt), None)
            return bt

        def build(a):
            fl = [(f.name, btype(f), -1 if f.bits is None else f.bits) for f in a.fields]
            bt = (B.new_union_type if a.kind == "union" else B.new_struct_type)("%s %s" % (a.kind, a.tag or "anon"))
            try:
                if a.pack == 1:
                    B.complete_struct_or_union(bt, fl, None, -1, -1, sflags | 0x08)
                else:
                    B.complete_struct_or_union(bt, fl, None, -1, -1, sflags, a.pack)
                obs = " ".join(["ok", str(B.sizeof(bt)), str(B.alignof(bt))] +
                               ["%d/%s/%s" % (cf.offset, cf.bitshift if cf.bitsize >= 0 else "-",
                                              cf.bitsize if cf.bitsize >= 0 else "-") for _, cf in bt.fields])
            except (TypeError, NotImplementedError) as e:
                built.append((a, "err " + type(e).__name__))
                raise
            built.append((a, obs))
            return bt
        try:
            build(top)
        except (TypeError, NotImplementedError):
            pass
        for a, obs in built:
            toks = tokens(a, cprims, cptr)
            case = {"direct": True, "sflags": sflags, "decl": reroot(a).to_json(),
                    "chunks": [[t, p] for t, p, _ in chunks_of(reroot(a))]}
            ctx.case(("direct", sflags, " ".join(toks)), sample=None)
            ctx.count("direct:%s:%s:%s" % (style, "be" if be else "le", obs.split()[0] +
                                          (":" + obs.split()[1] if obs.startswith("err") else "")))
            lines.append("layoutf %d %d %d %s" % (style == "msvc", style == "arm", be, " ".join(toks)))
            expect.append((case, obs))
    out = ctx.driver(lines)
    for o, (case, obs) in zip(out, expect):
        if o != obs:
            ctx.disagree(case, obs, o, "complete_struct_or_union with sflags vs Model/LayoutFlags.lean")


# ----------------------------------------------------------------------------- entry points

def translators(ctx):
    """Generated/LayoutExprs.lean: every arithmetic expression and condition of the x86-64/gcc path of
    b_complete_struct_or_union_lock_held, re-extracted from the working tree (raises when the function was reshaped)."""
    import layout_exprs
    return [layout_exprs.translator]


def _ensure_finding(ctx):
    """Until the lead adds the C01 line to KNOWN_FINDINGS.jsonl, use the built-in copy of it."""
    have = set(f["class"] for f in ctx.open_findings)
    for f in BUILTIN_FINDINGS:
        if f["class"] not in have:
            ctx.findings.append(f)
            ctx.open_findings.append(f)


def directed():
    """Hand-written declarations run first in every batch (regressions and corner cases)."""
    def S(fields, kind="struct", pack=0, tag="d"):
        return Agg(kind, tag, pack, False, "pre", fields)
    P = lambda n, t, **k: Field(n, ("prim", t), **k)
    out = [
        S([P("a", "char"), P("b", "int", bits=3), P("c", "char"), P("d", "int", bits=31), P("e", "long double")]),
        S([P("a", "signed char", bits=7), P("b", "int", bits=25), P("c", "int", bits=1)]),
        S([P("a", "char"), P("", "int", bits=0), P("b", "char"), P("", "long long", bits=0), P("c", "short", bits=16)]),
        S([P("a", "long long", bits=64), P("b", "unsigned long long", bits=64), P("c", "_Bool", bits=1)]),
        S([P("", "int", bits=3)]),
        S([P("", "int", bits=3)], kind="union"),
        S([P("a", "int", bits=17), P("", "short", bits=15), P("b", "unsigned char", bits=8), P("c", "long", bits=33)]),
        S([P("a", "char"), P("b", "double"), P("c", "short"), P("d", "long double")], pack=2),
        S([P("a", "char"), P("b", "double"), P("c", "int", flex=True)], pack=1),
        S([P("a", "short", bits=9), P("b", "char"), P("c", "int", bits=20)], kind="union"),
        S([]), S([P("", "int", bits=0)]), S([P("a", "int", dims=[0])]),
    ]
    for i, a in enumerate(out):
        a.tag = "d%d" % i
    return out


class _Collector(object):
    """just enough of Ctx for run_batch(oracle_only=True)"""
    def __init__(self, ctx):
        self.scratch, self.failures = ctx.scratch, []

    def case(self, *a, **k):
        pass

    def count(self, *a, **k):
        pass

    def fail(self, case, detail):
        self.failures.append({"case": case, "detail": detail})


def _valid(a):
    for i, f in enumerate(a.fields):
        if f.flex and (i != len(a.fields) - 1 or not any(g.name for g in a.fields[:i])):
            return False
        if f.base[0] == "agg" and not _valid(f.base[1]):
            return False
    return True


def _deletions(d):
    """every declaration obtained from the JSON form `d` by deleting one member at any depth, or by
    replacing the whole declaration by one of its nested aggregates"""
    import copy
    out = []

    def paths(node, here):
        for i, f in enumerate(node["fields"]):
            out.append(here + [i])
            if f["base"][0] == "agg":
                paths(f["base"][1], here + [i])
    paths(d, [])
    res = []
    for pth in out:
        c = copy.deepcopy(d)
        node = c
        for i in pth[:-1]:
            node = node["fields"][i]["base"][1]
        victim = node["fields"][pth[-1]]
        if victim["base"][0] == "agg":
            res.append(copy.deepcopy(victim["base"][1]))     # the nested aggregate alone
        del node["fields"][pth[-1]]
        res.append(c)
    return res


def shrink(ctx, failure, rounds=12):
    """Greedy one-member-at-a-time shrinking of a failing declaration; every round compiles one C program that
    contains all candidates.  Returns a (possibly smaller) failure of the same kind (known class or not)."""
    cur = failure
    if failure["case"].get("steps"):
        return cur            # a multi-cdef scenario: already minimal by construction
    known = CLASSES[ZERO_CLASS](failure["case"])
    try:
        for r in range(rounds):
            cands = []
            for k, d in enumerate(_deletions(cur["case"]["decl"])):
                a = reroot(Agg.from_json(d), "k%d_" % k)
                if _valid(a) and CLASSES[ZERO_CLASS]({"zero_size_agg": any(is_zero_size(x) for x in all_aggs(a))}) == known:
                    cands.append(a)
            if not cands:
                break
            col = _Collector(ctx)
            run_batch(col, cands[:150], "c01_shrink_%d" % r, oracle_only=True, only_top=True)
            if not col.failures:
                break
            cur = min(col.failures, key=lambda f: len(str(f["case"]["chunks"])))
    except InfraError as e:
        common.log("shrinking stopped: %s" % (str(e)[:200],))
    return cur


def _order_failures(ctx):
    """smallest failing declaration first (it becomes the replay file), shrunk further"""
    if ctx.failures:
        ctx.failures.sort(key=lambda f: len(str(f["case"]["chunks"])))
        ctx.failures[0] = shrink(ctx, ctx.failures[0])


def correspond(ctx):
    _ensure_finding(ctx)
    nbatches, per = ctx.n(3, 25), ctx.n(100, 200)
    for b in range(nbatches):
        tops = directed() if b == 0 else []
        for i in range(per):
            tops.append(Gen(ctx.rng, "c%d_" % i).declaration())
        run_batch(ctx, tops, "c01_batch_%d" % b)
    run_batch(ctx, mention_family(), "c01_mention")
    probes(ctx, ctx.n(40, 400))
    direct(ctx, ctx.n(120, 2000))
    _order_failures(ctx)


def search(ctx):
    _ensure_finding(ctx)
    run_batch(ctx, mention_family(), "c01_search_mention", oracle_only=True)
    for b in range(ctx.n(6, 40)):
        if ctx.failures:
            break
        tops = [Gen(ctx.rng, "c%d_" % i).declaration() for i in range(200)]
        run_batch(ctx, tops, "c01_search_%d" % b, oracle_only=True)
        if ctx.failures:
            break
    _order_failures(ctx)


def replay(ctx, obj):
    case = obj["case"]
    if case.get("probe") or case.get("direct"):
        print("out-of-class probe (model correspondence only): %r" % (case,))
        return 0
    top = Scenario.from_case(case) if case.get("steps") else Agg.from_json(case["decl"])
    before = len(ctx.failures)
    ctx.open_findings = []            # report everything
    run_batch(ctx, [top], "c01_replay", oracle_only=True, only_top=True)
    for f in ctx.failures[before:]:
        print("%s: %s" % (f["case"]["type"], f["detail"]))
        for t, p in f["case"]["chunks"]:
            print("   cdef(%r, pack=%d)" % (t, p))
    return 1 if len(ctx.failures) > before else 0


def check_witness(ctx, finding):
    """True if cffi still gives the witness aggregate a size different from gcc's."""
    w = finding["witness"]
    top = Agg("struct", "s0", 0, False, "pre", [])
    if w.get("type") != "struct s0" or w.get("chunks") != [["struct s0 { };", 0]]:
        return None
    ffi = build_ffi(chunks_of(top))
    _, gres = run_gcc(ctx, [("w", chunks_of(top), [("w.0", top, ("tag", "struct", "s0"))])], "c01_witness")
    return ffi.sizeof("struct s0") != gres["w.0"]["size"]
