"""C20 -- ffi.new zero-fills and initialises exactly like assignment.

Theorems (lean/CffiVerif/Props/C20.lean) over the model in Model/Init.lean:
convert_is_exec_of_plan, assignment_preserves_size, new_eq_zero_then_assign,
new_eq_new_then_assign_fixed, new_array_eq_new_then_assign, array_seq_eq_itemwise,
untouched_bytes_zero, new_without_init_is_zero, varsize_stores_fit_partial, varsize_fits_partial,
add_varsize_sound, add_varsize_overflow_exact, sizeof_reports_allocated,
sizeof_array_reports_allocated, union_seq_sets_first_member, seq_fills_leading_fields,
dict_sets_named_fields, too_many_initialisers_rejected (+ assignment / array / bytes variants), and the
positive statements for two defects repaired in /repo (varsize_toplevel_cdata_like_assignment,
zero_size_open_array_items_take_no_space) and the two statements about the code as it is (finding
classes): varsize_struct_as_array_item_overflows, packed_bitfield_unit_overruns.

Tie to the code: (1) translate/init_exprs.py regenerates Generated/InitExprs.lean -- the size expression,
overflow test and update of add_varsize_length, the bytes length and negative-length test of
get_new_array_length, direct_newp's unknown-size test, char doubling, pre-pass guard, open-array size and
overflow test, convert_array_from_object's too-many and add-NUL tests, direct_sizeof_cdata's rules --
from which Model/Init.lean is built; Proofs/Init.lean shows these equal the reference forms the theorems
are about, so a changed C expression is re-checked by the kernel.  (2) random aggregate types are declared through the real cdef parser; their
layout (offsets, sizes, bit positions, BF_IGNORE_IN_CTOR flags) is read back from
`ffi.typeof(T).fields` and sent, with a random nested initialiser, to the Lean driver.  The
real implementation is observed on five routes that must agree (in this order, so that a wrong
size computation is reported before it can corrupt the heap of the checking process):
  big     q = ffi.cast(T*, zeroed block bigger than needed); q[0] = init
  probe   ffi.new(T, the same lengths without data): the size ffi.new reserves
  new     bytes(ffi.buffer(ffi.new(T, init))), ffi.sizeof(p[0]) / ffi.sizeof(a)
  assign  p = ffi.new(T); p[0] = init                    (types without a var-sized part)
  itemwise p = ffi.new(T); p.f = v ... / a[i] = v ...      (valid list/dict initialisers)
and against a plain-Python oracle that computes the expected image from ffi's own offsets
with int.to_bytes / struct.pack (an independent re-implementation; it also decides, before
anything runs, whether an input belongs to one of the two memory-unsafe finding classes -- arrays
of var-sized structs given array data, packed bit-fields whose storage unit passes the end of the
struct -- which are then never executed in-process).
"""
import json
import os
import struct
import subprocess
import sys
import time
import warnings

import common
from common import InfraError

MANIFEST = {
    "text": "Kernel-checked theorems over a Lean model of direct_newp / convert_from_object / the var-size pre-pass: "
            "the bytes of ffi.new(T, init) are those of assigning init into any zero-filled block at least as large "
            "(nothing is written past the allocation, nothing depends on more than its being zero), every byte not "
            "covered by a store of the initialiser is zero, every store of a var-sized struct lies inside the size the "
            "pre-pass computed (also through nested var-sized structs; add_varsize_length's overflow test is exact), "
            "sizeof reports the allocated size, union sequences set the first member, too many initialisers are "
            "rejected -- for all types and initialisers.  The model is tied to the code by driving the real ffi.new, "
            "item/field assignment and a struct.pack oracle on random aggregate types and nested initialisers.",
    "note": "Trusted: Lean kernel; the harness (type generator, oracle, protocol); layouts are inputs taken from the real "
            "ffi.typeof(T).fields (C01 is about their correctness). Not modelled: float/complex/wide-char leaves, str "
            "initialisers beyond their TypeError, custom allocators, calloc failure other than an abstract limit. Two "
            "memory-unsafe inputs of the real code (arrays of var-sized structs given array data; packed bit-fields "
            "whose storage unit passes the end of the struct) are finding classes, proved to fail in the model and "
            "excluded from the memory-safety theorem by hypothesis.",
    "technique": "Lean 4 proof (mutual structural induction over initialisers; conversion = execution of a store list; size "
                 "expressions and tests regenerated from _cffi_backend.c on every run) + "
                 "differential correspondence of four real code paths, a Python byte oracle and the model driver",
}

RULE = ("per batch a fresh FFI with 3-7 random struct/union declarations (ints of all sizes, _Bool, char, bit-fields, "
        "char/int/2-D arrays, nested aggregates, arrays of aggregates, data pointers, trailing open arrays of "
        "ints/chars/structs, nested var-sized structs as last or inner field, unions with ignored members; sometimes "
        "packed) plus primitive pointer/array types; per type several random nested initialisers (lists, tuples, dicts "
        "in random key order, bytes, explicit lengths, cdata copies, fake non-NULL pointers) and, for ~40% of the cases, "
        "one or two injected defects (too many items, unknown key, out-of-range int, wrong Python type, bytes too long, "
        "negative / overflowing length, non-0/1 byte in a _Bool array, wrong pointer type). non-trivial = the "
        "initialiser reaches a nested aggregate, an open array, a bit-field or a union; distinct = distinct "
        "(layout, initialiser) pairs")
ASSUMPTIONS = ["layouts (offsets, sizes, bit positions) are inputs read from the real ffi.typeof(T).fields",
               "type identity of cdata initialisers is decided by the real `ffi.typeof(cd) is field_ctype`",
               "calloc fails above 2^47 bytes (never exercised between 2^20 and the Py_ssize_t overflow boundary)"]
TRUSTED_EXTRA = ["harness/corr_C20.py: the Python byte oracle (second, independent implementation of the conversion rules)"]

CLS_B = "C20/varsize-struct-as-array-item"
CLS_D = "C20/packed-bitfield-unit-past-struct-end"
CLASSES = {
    CLS_D: lambda case: bool(case.get("flags", {}).get("bitfield_overrun")),
    CLS_B: lambda case: bool(case.get("flags", {}).get("oracle_oob")) and not case.get("flags", {}).get("bitfield_overrun"),
}

def translators(ctx):
    """Re-extract the size expressions of add_varsize_length, get_new_array_length, direct_newp,
    convert_array_from_object and direct_sizeof_cdata into Generated/InitExprs.lean (raises when an
    extraction point is missing or reshaped)."""
    sys.path.insert(0, os.path.join(common.VERIF, "translate"))
    import init_exprs
    return [init_exprs.translator]


LIMIT = 1 << 47
SLACK = 64

INT_TYPES = ["signed char", "unsigned char", "short", "unsigned short", "int", "unsigned int",
             "long", "unsigned long", "long long", "unsigned long long"]
PTR_TYPES = ["void *", "int *", "long long *", "void **", "short *"]


# ------------------------------------------------------------------ type generation (C text)

def gen_batch(rng):
    """C declarations of a few aggregates; returns (cdef text, packed flag, [(kind, T expr)])."""
    decls = []
    aggs = []            # dicts: name ('struct s3'), var (has an open array somewhere), zero (zero-size open items)

    def field_decl(j, last, is_union):
        nm = "f%d" % j
        r = rng.random()
        fixed = [a for a in aggs if not a["var"]]
        var = [a for a in aggs if a["var"]]
        if last and r < 0.30:
            # trailing open array
            k = rng.random()
            if k < 0.35:
                return "%s %s[];" % (rng.choice(INT_TYPES), nm), True, False
            if k < 0.55:
                return "char %s[];" % nm, True, False
            if k < 0.65:
                return "_Bool %s[];" % nm, True, False
            if k < 0.80 and fixed:
                return "%s %s[];" % (rng.choice(fixed)["name"], nm), True, False
            if k < 0.88:
                return "%s %s[][%d];" % (rng.choice(INT_TYPES), nm, rng.randint(1, 3)), True, False
            if k < 0.91:
                return "int %s[][0];" % nm, True, False       # items of size zero (SIGFPE before commit 5e115e5)
            if k < 0.95 and var:
                return "%s %s[];" % (rng.choice(var)["name"], nm), True, False   # open array of var-sized structs
            return "%s %s[];" % (rng.choice(INT_TYPES), nm), True, False
        if (last and r < 0.55 and var) or (r < 0.04 and var):
            return "%s %s;" % (rng.choice(var)["name"], nm), True, False          # nested var-sized struct
        r = rng.random()
        if r < 0.25:
            return "%s %s;" % (rng.choice(INT_TYPES + ["_Bool", "char"]), nm), False, False
        if r < 0.40:
            t = rng.choice(INT_TYPES + ["_Bool"])
            if t == "_Bool":
                w = 1
            else:
                bits = 8 * {"signed char": 1, "unsigned char": 1, "short": 2, "unsigned short": 2, "int": 4,
                            "unsigned int": 4}.get(t, 8)
                w = rng.choice([1, 1, 2, 3, 5, 7, bits - 1, bits, rng.randint(1, bits)])
            return "%s %s:%d;" % (t, nm, w), False, False
        if r < 0.50:
            return "char %s[%d];" % (nm, rng.randint(1, 6)), False, False
        if r < 0.60:
            return "%s %s[%d];" % (rng.choice(INT_TYPES + ["_Bool"]), nm, rng.randint(1, 4)), False, False
        if r < 0.65:
            return "%s %s[%d][%d];" % (rng.choice(INT_TYPES), nm, rng.randint(1, 3), rng.randint(1, 3)), False, False
        if r < 0.78 and fixed:
            return "%s %s;" % (rng.choice(fixed)["name"], nm), False, False
        if r < 0.88 and fixed:
            return "%s %s[%d];" % (rng.choice(fixed)["name"], nm, rng.randint(1, 3)), False, False
        if r < 0.90 and var:
            return "%s %s[%d];" % (rng.choice(var)["name"], nm, rng.randint(1, 2)), False, False  # class B material
        if r < 0.97:
            return "%s %s;" % (rng.choice(PTR_TYPES + [a["name"] + " *" for a in aggs[:2]]), nm), False, False
        return "int :%d; short %s;" % (rng.choice([0, 3]), nm), False, False

    for k in range(rng.randint(3, 7)):
        is_union = rng.random() < 0.2
        name = ("union u%d" if is_union else "struct s%d") % k
        nf = rng.randint(1, 5)
        body, var, zero = [], False, False
        for j in range(nf):
            d, v, z = field_decl(j, j == nf - 1, is_union)
            body.append(d)
            var, zero = var or v, zero or z
        decls.append("%s { %s };" % (name, " ".join(body)))
        aggs.append({"name": name, "var": var, "zero": zero})
    tops = []
    for a in aggs:
        tops.append(("ptr", a["name"]))
        if rng.random() < 0.35:
            if a["var"] and rng.random() < 0.7:
                continue
            tops.append(("arr", "%s[%s]" % (a["name"], rng.choice(["1", "2", "3", ""]))))
    for _ in range(rng.randint(2, 4)):
        k = rng.random()
        if k < 0.25:
            tops.append(("arr", "%s[%s]" % (rng.choice(INT_TYPES + ["_Bool"]), rng.choice(["", "", "1", "3", "5"]))))
        elif k < 0.45:
            tops.append(("arr", "char[%s]" % rng.choice(["", "", "1", "4", "6"])))
        elif k < 0.55:
            tops.append(("arr", "%s[%s][%d]" % (rng.choice(INT_TYPES), rng.choice(["", "2"]), rng.randint(1, 3))))
        elif k < 0.85:
            tops.append(("ptr", rng.choice(INT_TYPES + ["_Bool", "char", "char", "void *", "int *"])))
        else:
            tops.append(("ptr", "%s[%d]" % (rng.choice(INT_TYPES + ["char"]), rng.randint(1, 4))))
    packed = rng.random() < 0.15
    return "\n".join(decls) + "\n", packed, tops


# ------------------------------------------------------------------ layout read back from the real ffi

class Names:
    def __init__(self):
        self.ids = {}

    def id(self, name):
        if name not in self.ids:
            self.ids[name] = len(self.ids) + 1
        return self.ids[name]


NAMES = Names()


def ctype_tree(ffi, ct, cache):
    """Description of a real ctype: everything the model and the oracle need, as reported by ffi."""
    key = id(ct)
    if key in cache:
        return cache[key]
    k = ct.kind
    if k == "primitive":
        size = ffi.sizeof(ct)
        if ct.cname == "_Bool":
            t = {"k": "bool", "size": 1}
        elif ct.cname == "char":
            t = {"k": "char", "size": 1}
        else:
            t = {"k": "int", "size": size, "signed": int(ffi.cast(ct, -1)) < 0}
    elif k in ("pointer", "function"):
        t = {"k": "ptr", "size": ffi.sizeof(ct)}
    elif k == "array":
        t = {"k": "arr", "item": ctype_tree(ffi, ct.item, cache), "isz": ffi.sizeof(ct.item), "len": ct.length}
    elif k in ("struct", "union"):
        fields = []
        for name, f in ct.fields:
            bits = None if f.bitsize < 0 else (f.bitshift, f.bitsize)
            fields.append({"name": name, "off": f.offset, "bits": bits, "ignore": bool(f.flags & 1),
                           "t": ctype_tree(ffi, f.type, cache)})
        t = {"k": "agg", "size": ffi.sizeof(ct), "union": k == "union", "fields": fields}
    else:
        raise InfraError("unexpected ctype kind %r" % k)
    t["cname"] = ct.cname
    t["ct"] = ct
    cache[key] = t
    return t


def ty_proto(t):
    k = t["k"]
    if k == "int":
        return "%s%d" % ("i" if t["signed"] else "u", t["size"])
    if k == "bool":
        return "b"
    if k == "char":
        return "c"
    if k == "ptr":
        return "p"
    if k == "arr":
        return "A %d %s %s" % (t["isz"], "-" if t["len"] is None else t["len"], ty_proto(t["item"]))
    out = ["S", str(t["size"]), str(len(t["fields"]))]
    for f in t["fields"]:
        out += [str(NAMES.id(f["name"])), str(f["off"]),
                "-" if f["bits"] is None else "%d:%d" % f["bits"], "1" if f["ignore"] else "0", ty_proto(f["t"])]
    return " ".join(out)


def with_var(t):
    return t["k"] == "agg" and any((f["t"]["k"] == "arr" and f["t"]["len"] is None) or with_var(f["t"])
                                   for f in t["fields"])


def is_open(t):
    return t["k"] == "arr" and t["len"] is None


def byte_like(t):
    return t["k"] in ("char", "bool") or (t["k"] == "int" and t["size"] == 1)


def py_wf(t):
    """Every field (and the storage unit of every bit-field) lies inside its aggregate."""
    if t["k"] == "arr":
        return py_wf(t["item"])
    if t["k"] != "agg":
        return True
    for f in t["fields"]:
        ft = f["t"]
        end = f["off"] + (0 if is_open(ft) else type_size(ft))
        if end > t["size"] or not py_wf(ft):
            return False
    return True


def zero_open_reached(t, node):
    """Does the initialiser name (or reach positionally) an open array whose items have size 0?"""
    if t["k"] != "agg" or node[0] not in ("seq", "dict"):
        return False
    if node[0] == "seq":
        pairs = list(zip(ctor_fields(t), node[1]))
    else:
        by = {f["name"]: f for f in t["fields"]}
        pairs = [(by[k], c) for k, c in node[1] if isinstance(k, str) and k in by]
    for f, c in pairs:
        if is_open(f["t"]) and f["t"]["isz"] == 0:
            return True
        if f["t"]["k"] == "agg" and zero_open_reached(f["t"], c):
            return True
    return False


def ctor_fields(t):
    return [f for f in t["fields"] if not f["ignore"]]


# ------------------------------------------------------------------ initialisers (JSON-able trees)
#   ["int", v] ["bytes", hex] ["seq", [..], tuple?] ["dict", [[key, node]..]] ["ptr", cname|None, addr]
#   ["cdata", cname, node] ["other", "none"|"float"] ["str", text]

class Inject:
    def __init__(self, n):
        self.left = n
        self.kinds = []

    def take(self, rng, p, kind):
        if self.left > 0 and rng.random() < p:
            self.left -= 1
            self.kinds.append(kind)
            return True
        return False


def int_range(t, bits=None):
    if t["k"] == "bool":
        return 0, 1
    if bits is not None and bits[1] != 64:
        b = bits[1]
        if t["signed"]:
            hi = (1 << (b - 1)) - 1
            return -(1 << (b - 1)), (1 if hi == 0 else hi)
        return 0, (1 << b) - 1
    n = 8 * t["size"]
    return (-(1 << (n - 1)), (1 << (n - 1)) - 1) if t["signed"] else (0, (1 << n) - 1)


def gen_int(rng, lo, hi):
    r = rng.random()
    if r < 0.2:
        return hi
    if r < 0.35:
        return lo if lo != 0 else hi
    if r < 0.45 and lo < 0:
        return -1
    if r < 0.55:
        return 1 if hi >= 1 else hi
    return rng.randint(lo, hi) or (hi if rng.random() < 0.8 else 0)


def safe_cdata(ffi, t, sub):
    """A cdata-copy initialiser whose source object can be built without touching a finding class."""
    r = Oracle(Real(ffi)).new("arr" if t["k"] == "arr" else "ptr", t, sub)
    return ["cdata", t["cname"], sub] if r[0] == "ok" else None


def gen_init(ffi, rng, t, inj, depth=0, field=None, spine=True, bits=None):
    """A random initialiser for type `t`.  `field`: reached through a struct field (open arrays
    accept a length); `spine`: data for open arrays may be supplied (it is accounted for by the
    pre-pass); `inj`: defects still to inject."""
    k = t["k"]
    if k in ("int", "bool"):
        lo, hi = int_range(t, bits)
        if inj.take(rng, 0.06, "int-overflow"):
            return ["int", rng.choice([hi + 1, lo - 1, 1 << 64, -(1 << 63) - 1, (1 << 63) if hi < (1 << 63) else hi + 7])]
        if inj.take(rng, 0.04, "int-wrong-type"):
            return rng.choice([["other", "none"], ["other", "float"], ["bytes", "41"], ["seq", [], False], ["str", "x"],
                               ["dict", []]])
        return ["int", gen_int(rng, lo, hi)]
    if k == "char":
        if inj.take(rng, 0.05, "char-wrong"):
            return rng.choice([["bytes", "4142"], ["bytes", ""], ["int", 65], ["other", "none"], ["str", "a"]])
        return ["bytes", "%02x" % rng.randint(1, 255)]
    if k == "ptr":
        if inj.take(rng, 0.05, "ptr-wrong"):
            bad = "short *" if t["cname"] in ("int *", "long long *") else None
            if bad and rng.random() < 0.5:
                return ["ptr", bad, 0x2000]
            return rng.choice([["int", 0], ["other", "none"], ["bytes", "00"], ["seq", [], False]])
        r = rng.random()
        if r < 0.3:
            return ["ptr", None, 0]
        if r < 0.4 and t["cname"] != "void *":
            return ["ptr", "void *", rng.choice([0, 0x7f0011223340])]
        return ["ptr", t["cname"], rng.choice([0x1000, 0x7ffd12345678, 8, (1 << 64) - 8])]
    if k == "arr":
        item, L = t["item"], t["len"]
        if L is None:
            if field is not None or depth == 0:
                # explicit length instead of data
                if inj.take(rng, 0.05, "len-negative"):
                    return ["int", -rng.randint(1, 5)]
                if inj.take(rng, 0.05, "len-overflow") and t["isz"] > 0:
                    return ["int", rng.choice([1 << 63, (1 << 64) + 3, ((1 << 63) // t["isz"]) + 1, (1 << 63) - 1
                                               if t["isz"] > 1 else (1 << 63)])]
                if inj.take(rng, 0.04, "len-wrong-type"):
                    return rng.choice([["other", "none"], ["other", "float"], ["dict", []]])
                if rng.random() < (0.3 if spine else 1.0):
                    return ["int", rng.choice([0, 1, 2, 3, 5])]
            n = rng.choice([0, 1, 2, 2, 3, 4])
        else:
            if inj.take(rng, 0.04, "arr-length-int"):
                return ["int", rng.randint(0, 3)]
            n = rng.choice([L, L, L, rng.randint(0, L), 0])
            if rng.random() < 0.08 and depth > 0 and not with_var(item) and item["k"] != "ptr":
                cd = safe_cdata(ffi, t, gen_init(ffi, rng, t, Inject(0), depth + 1, None, False))
                if cd:
                    return cd
        if byte_like(item) and rng.random() < 0.5:
            if item["k"] == "bool":
                bs = bytes(rng.choice([0, 1, 1]) for _ in range(n))
                if (n > 0 or L is None) and inj.take(rng, 0.08, "bool-bytes"):
                    bs = (bs[:-1] if n > 0 else b"") + bytes([rng.choice([2, 3, 255])])
            else:
                bs = bytes(rng.randint(1, 255) for _ in range(n))
            if L is not None and inj.take(rng, 0.08, "bytes-too-long"):
                bs = bs + bytes(rng.randint(1, 1) for _ in range(L - len(bs) + rng.randint(1, 2)))
            return ["bytes", bs.hex()]
        if not byte_like(item) and inj.take(rng, 0.03, "bytes-for-non-char"):
            return ["bytes", "4142"]
        if inj.take(rng, 0.03, "arr-wrong-type"):
            return rng.choice([["other", "none"], ["dict", []], ["other", "float"]] + ([["str", "ab"]] if L is not None else []))
        if L is not None and inj.take(rng, 0.07, "arr-too-many"):
            n = L + rng.randint(1, 2)
        # items that are var-sized structs: data for their open arrays is never accounted for (finding class B)
        leak = with_var(item) and rng.random() < 0.3
        items = [gen_init(ffi, rng, item, inj, depth + 1, None, leak) for _ in range(n)]
        return ["seq", items, rng.random() < 0.4]
    # aggregate
    if inj.take(rng, 0.04, "agg-wrong-type"):
        return rng.choice([["int", 5], ["bytes", "4142"], ["other", "none"], ["other", "float"], ["str", "q"]])
    if rng.random() < 0.07 and depth > 0:
        cd = safe_cdata(ffi, t, gen_init(ffi, rng, t, Inject(0), depth + 1, None, spine=True))
        if cd:
            return cd
    cf = ctor_fields(t)

    def child(f):
        return gen_init(ffi, rng, f["t"], inj, depth + 1, f, spine, f["bits"])
    if rng.random() < 0.55:
        n = rng.choice([len(cf), len(cf), rng.randint(0, len(cf))])
        items = [child(f) for f in cf[:n]]
        if inj.take(rng, 0.06, "agg-too-many"):
            items += [gen_init(ffi, rng, f["t"], Inject(0), depth + 1, f, spine, f["bits"]) for f in cf[n:]]
            items += [["int", rng.randint(1, 9)] for _ in range(rng.randint(1, 2))]
        return ["seq", items, rng.random() < 0.4]
    fs = list(t["fields"])
    rng.shuffle(fs)
    fs = fs[:rng.choice([len(fs), len(fs), rng.randint(0, len(fs))])]
    kvs = [[f["name"], child(f)] for f in fs]
    if inj.take(rng, 0.06, "unknown-key"):
        kvs.insert(rng.randint(0, len(kvs)), [rng.choice(["zz", "f", 5, "F0"]), ["int", 1]])
    return ["dict", kvs]


def nontrivial(t, init, depth=0):
    """Does the initialiser reach a nested aggregate, an open array, a bit-field or a union?"""
    if init[0] == "seq" and t["k"] == "agg":
        for f, c in zip(ctor_fields(t), init[1]):
            if f["bits"] or f["t"]["k"] == "agg" or is_open(f["t"]) or t["union"] or nontrivial(f["t"], c, depth + 1):
                return True
    if init[0] == "dict" and t["k"] == "agg":
        by = {f["name"]: f for f in t["fields"]}
        for key, c in init[1]:
            f = by.get(key)
            if f and (f["bits"] or f["t"]["k"] == "agg" or is_open(f["t"]) or t["union"]):
                return True
    if init[0] == "seq" and t["k"] == "arr":
        return t["item"]["k"] in ("agg", "arr") and len(init[1]) > 0
    return False


# ------------------------------------------------------------------ realisation of an initialiser

class Real:
    """Builds the Python object of an initialiser tree; keeps cdata sources alive."""
    def __init__(self, ffi):
        self.ffi = ffi
        self.keep = []

    def obj(self, node):
        k = node[0]
        if k == "int":
            return node[1]
        if k == "bytes":
            return bytes.fromhex(node[1])
        if k == "seq":
            items = [self.obj(c) for c in node[1]]
            return tuple(items) if node[2] else items
        if k == "dict":
            return {key: self.obj(c) for key, c in node[1]}
        if k == "ptr":
            if node[1] is None:
                return self.ffi.NULL
            return self.ffi.cast(node[1], node[2])
        if k == "cdata":
            return self.cdata(node)[0]
        if k == "other":
            return None if node[1] == "none" else 1.5
        if k == "str":
            return node[1]
        raise InfraError("bad init node %r" % (node,))

    def cdata(self, node):
        """(cdata object, bytes a memcpy of sizeof(type) would read).  The source object lives in a zeroed
        char block that is larger than anything its initialiser stores (so building it never depends on the
        size computation under test): q = (T *)block; q[0] = init; the object is q[0]."""
        ffi = self.ffi
        ct = ffi.typeof(node[1])
        t = ctype_tree(ffi, ct, {})
        ext = Oracle(self).assign(t, node[2])
        if ext[0] != "ok":
            raise InfraError("cdata source with a rejected initialiser: %r" % (node,))
        block = ffi.new("char[]", max(ext[2], ffi.sizeof(ct)) + SLACK)
        q = ffi.cast(ffi.getctype(ct, "*"), block)
        try:
            q[0] = self.obj(node[2])
        except Exception as e:
            raise SourceFailed(type(e).__name__, node)
        self.keep.append(block)
        return q[0], bytes(ffi.buffer(block))[:ffi.sizeof(ct)]


class SourceFailed(Exception):
    """Building the source object of a cdata initialiser raised: the implementation rejected an
    initialiser the rules accept."""
    def __init__(self, exc, node):
        Exception.__init__(self, exc)
        self.exc, self.node = exc, node


def init_proto(real, t, node):
    """Protocol form of an initialiser converted into type `t` (type identity of cdata is decided here
    with the real ctype objects)."""
    k = node[0]
    if k == "int":
        return "I %d" % node[1]
    if k == "bytes":
        return "B %s" % (node[1] or "-")
    if k in ("other", "str"):
        return "O"
    if k == "ptr":
        same = False
        if t is not None and t["k"] == "ptr":
            src = "void *" if node[1] is None else node[1]
            same = src == t["cname"] or src == "void *" or t["cname"] == "void *"
        return "C %d %s" % (1 if same else 0, struct.pack("<Q", node[2]).hex())
    if k == "cdata":
        cd, data = real.cdata(node)
        same = t is not None and real.ffi.typeof(cd) is t["ct"]
        return "C %d %s" % (1 if same else 0, data.hex() or "-")
    if k == "seq":
        out = ["L", str(len(node[1]))]
        if t is not None and t["k"] == "arr":
            subs = [t["item"]] * len(node[1])
        elif t is not None and t["k"] == "agg":
            cf = ctor_fields(t)
            subs = [cf[i]["t"] if i < len(cf) else None for i in range(len(node[1]))]
        else:
            subs = [None] * len(node[1])
        return " ".join(out + [init_proto(real, s, c) for s, c in zip(subs, node[1])])
    if k == "dict":
        out = ["D", str(len(node[1]))]
        by = {f["name"]: f for f in t["fields"]} if t is not None and t["k"] == "agg" else {}
        for key, c in node[1]:
            f = by.get(key) if isinstance(key, str) else None
            kid = NAMES.id(key) if isinstance(key, str) else NAMES.id("#int%r" % (key,))
            out += [str(kid), init_proto(real, f["t"] if f else None, c)]
        return " ".join(out)
    raise InfraError("bad init node %r" % (node,))


# ------------------------------------------------------------------ the Python oracle

class Rej(Exception):
    def __init__(self, kind):
        Exception.__init__(self, kind)
        self.kind = kind


class OMem:
    """Expected memory image; `grow`: measure the extent instead of checking the bound."""
    def __init__(self, n, grow=False):
        self.b = bytearray(n)
        self.grow = grow
        self.extent = 0

    def write(self, off, data):
        end = off + len(data)
        self.extent = max(self.extent, end)
        if end > len(self.b):
            if not self.grow:
                raise Rej("OOB")
            self.b.extend(bytes(end - len(self.b)))
        self.b[off:end] = data

    def read(self, off, n):
        if off + n > len(self.b):
            if not self.grow:
                raise Rej("OOB")
            self.b.extend(bytes(off + n - len(self.b)))
        return bytes(self.b[off:off + n])


class Oracle:
    def __init__(self, real):
        self.real = real

    # --- get_new_array_length
    def new_len(self, v):
        k = v[0]
        if k == "seq":
            return len(v[1]), False
        if k == "bytes":
            return len(v[1]) // 2 + 1, False
        if k == "str":
            return len(v[1]) + 1, False
        if k == "int":
            if not -(1 << 63) <= v[1] < (1 << 63):
                raise Rej("OverflowError")
            if v[1] < 0:
                raise Rej("ValueError")
            return v[1], True
        raise Rej("TypeError")

    @staticmethod
    def add_var(off, isz, n, cur):
        size = off + isz * n                  # itemsize 0: no division, the array adds nothing
        if size >= (1 << 63):
            raise Rej("OverflowError")
        return max(cur, size)

    # --- the size pre-pass
    def pre_struct(self, t, v, cur, top):
        k = v[0]
        if k == "seq":
            cf = ctor_fields(t)
            for i, c in enumerate(v[1]):
                if i >= len(cf):
                    raise Rej("ValueError")
                cur = self.pre_field(cf[i], c, cur)
            return cur
        if k == "dict":
            by = {f["name"]: f for f in t["fields"]}
            for key, c in v[1]:
                f = by.get(key) if isinstance(key, str) else None
                if f is None:
                    raise Rej("KeyError")
                cur = self.pre_field(f, c, cur)
            return cur
        if k == "cdata" and top and self.real.ffi.typeof(v[1]) is t["ct"]:
            raise Rej("SystemError")
        raise Rej("TypeError")

    def pre_field(self, f, v, cur):
        ft = f["t"]
        if is_open(ft):
            n, _ = self.new_len(v)
            return self.add_var(f["off"], ft["isz"], n, cur)
        if with_var(ft) and v[0] != "cdata":
            sub = self.pre_struct(ft, v, ft["size"], False)
            return self.add_var(f["off"], 1, sub, cur)
        return cur

    # --- conversions
    def conv(self, m, off, t, v, field=None):
        k = t["k"]
        if field is not None and field["bits"] is not None:
            return self.conv_bits(m, off, t, field["bits"], v)
        if k in ("int", "bool", "char", "ptr"):
            return self.conv_prim(m, off, t, v)
        if k == "arr":
            return self.conv_arr(m, off, t, v, field)
        vk = v[0]
        if vk == "cdata":
            if self.real.ffi.typeof(v[1]) is t["ct"]:
                cd, data = self.real.cdata(v)
                m.write(off, data[:t["size"]])
                return
            raise Rej("TypeError")
        if vk == "seq":
            cf = ctor_fields(t)
            for i, c in enumerate(v[1]):
                if i >= len(cf):
                    raise Rej("ValueError")
                self.conv(m, off + cf[i]["off"], cf[i]["t"], c, cf[i])
            return
        if vk == "dict":
            by = {f["name"]: f for f in t["fields"]}
            for key, c in v[1]:
                f = by.get(key) if isinstance(key, str) else None
                if f is None:
                    raise Rej("KeyError")
                self.conv(m, off + f["off"], f["t"], c, f)
            return
        raise Rej("TypeError")

    def conv_prim(self, m, off, t, v):
        k = t["k"]
        if k in ("int", "bool"):
            if v[0] != "int":
                raise Rej("TypeError")
            lo, hi = int_range(t)
            if not lo <= v[1] <= hi:
                raise Rej("OverflowError")
            m.write(off, (v[1] & ((1 << (8 * t["size"])) - 1)).to_bytes(t["size"], "little"))
            return
        if k == "char":
            if v[0] == "bytes" and len(v[1]) == 2:
                m.write(off, bytes.fromhex(v[1]))
                return
            raise Rej("TypeError")
        # pointer
        if v[0] == "ptr":
            src = "void *" if v[1] is None else v[1]
            if src == t["cname"] or src == "void *" or t["cname"] == "void *":
                m.write(off, struct.pack("<Q", v[2]))
                return
        raise Rej("TypeError")

    def conv_bits(self, m, off, t, bits, v):
        shift, width = bits
        if width == 64:
            return self.conv_prim(m, off, t, v)
        if v[0] != "int":
            raise Rej("TypeError")
        if not -(1 << 63) <= v[1] < (1 << 63):
            raise Rej("OverflowError")
        lo, hi = int_range(t, bits)
        if not lo <= v[1] <= hi:
            raise Rej("OverflowError")
        size = t["size"]
        raw = int.from_bytes(m.read(off, size), "little")
        mask = ((1 << width) - 1) << shift
        raw = (raw & ~mask) | ((v[1] << shift) & mask)
        m.write(off, (raw & ((1 << (8 * size)) - 1)).to_bytes(size, "little"))

    def conv_arr(self, m, off, t, v, field):
        item, L, isz = t["item"], t["len"], t["isz"]
        vk = v[0]
        if field is not None and L is None:
            # convert_vfield_from_object: a var-sized field accepts a length
            n, was_int = self.new_len(v)
            if was_int:
                return
        if vk == "seq":
            if L is not None and len(v[1]) > L:
                raise Rej("IndexError")
            for i, c in enumerate(v[1]):
                self.conv(m, off + i * isz, item, c)
            return
        if vk == "bytes" and byte_like(item):
            bs = bytes.fromhex(v[1])
            if L is not None and len(bs) > L:
                raise Rej("IndexError")
            if len(bs) != L:
                bs += b"\0"
            if item["k"] == "bool" and any(c > 1 for c in bs):
                raise Rej("ValueError")
            m.write(off, bs)
            return
        if vk == "cdata" and self.real.ffi.typeof(v[1]) is t["ct"]:
            cd, data = self.real.cdata(v)
            m.write(off, data)
            return
        raise Rej("TypeError")

    # --- direct_newp
    def alloc(self, kind, t, v):
        """(bytes allocated, length slot, initialiser left) -- raises Rej"""
        length = None
        if kind == "ptr":
            if is_open(t):
                raise Rej("TypeError")
            size = t["size"] if t["k"] != "arr" else t["isz"] * t["len"]
            if t["k"] == "char":
                size *= 2
            if with_var(t):
                if v is not None and v[0] not in ("cdata", "ptr"):     # !CData_Check(init)
                    size = self.pre_struct(t, v, size, True)
                length = size
        else:
            if t["len"] is not None:
                size = t["isz"] * t["len"]
            else:
                if v is None:
                    raise Rej("TypeError")
                n, was_int = self.new_len(v)
                size = n * t["isz"]
                if size >= (1 << 63):
                    raise Rej("OverflowError")
                length = n
                if was_int:
                    v = None
        if size > LIMIT:
            raise Rej("MemoryError")
        return size, length, v

    def new(self, kind, t, v):
        """('ok', image, length slot or None) | ('err', exception name or 'OOB')"""
        try:
            size, length, v = self.alloc(kind, t, v)
            m = OMem(size)
            if v is not None:
                self.conv(m, 0, t, v)
            return ("ok", bytes(m.b), length)
        except Rej as e:
            return ("err", e.kind)

    def assign(self, t, v, n=None):
        """Conversion into a zero block: ('ok', image, extent) | ('err', kind, extent)."""
        m = OMem(0 if n is None else n, grow=n is None)
        try:
            self.conv(m, 0, t, v)
            return ("ok", bytes(m.b), m.extent)
        except Rej as e:
            return ("err", e.kind, m.extent)


# ------------------------------------------------------------------ the real implementation

def size_probe(t, node, keep_form):
    """An initialiser that makes ffi.new compute the same size as `node` without storing into any open
    array: every open-array initialiser is replaced by its length.  `keep_form`: same lists/dicts with the
    other fields kept; otherwise nested dicts naming only the open arrays."""
    if node[0] == "seq":
        pairs = list(zip(ctor_fields(t), node[1]))
    elif node[0] == "dict":
        by = {f["name"]: f for f in t["fields"]}
        pairs = [(by[k], c) for k, c in node[1] if isinstance(k, str) and k in by]
    else:
        return node if keep_form else ["dict", []]
    out = []
    for f, c in pairs:
        ft = f["t"]
        if is_open(ft):
            if c[0] == "seq":
                c = ["int", len(c[1])]
            elif c[0] == "bytes":
                c = ["int", len(c[1]) // 2 + 1]
            out.append([f["name"], c])
        elif with_var(ft) and c[0] in ("seq", "dict"):
            out.append([f["name"], size_probe(ft, c, keep_form)])
        elif keep_form:
            out.append([f["name"], c])
    if keep_form and node[0] == "seq":
        return ["seq", [c for _, c in out], node[2]]
    return ["dict", out]


def type_size(t):
    if t["k"] == "arr":
        return 0 if t["len"] is None else t["isz"] * t["len"]
    return t["size"]


def dirty_heap(ffi, n):
    """Leave freed heap blocks of about the size of the next allocation filled with 0xAA, so that an
    allocation that is not cleared shows."""
    blocks = []
    for d in (-8, 0, 8, 16):
        if n + d > 0 and n + d < (1 << 16):
            b = ffi.new("char[]", n + d)
            ffi.memmove(b, b"\xaa" * (n + d), n + d)
            blocks.append(b)
    del blocks


def survives_in_child(fn):
    """Run fn() in a forked child; 0 if the child lived (whatever fn raised), else the fatal signal."""
    sys.stdout.flush()
    sys.stderr.flush()
    pid = os.fork()
    if pid == 0:
        try:
            fn()
        except BaseException:
            pass
        os._exit(0)
    _, status = os.waitpid(pid, 0)
    return os.WTERMSIG(status) if os.WIFSIGNALED(status) else 0


def impl_new(ffi, kind, texpr, t, obj, has_init, expect_size):
    ct = ffi.getctype(ffi.typeof(texpr), "*") if kind == "ptr" else ffi.typeof(texpr)
    dirty_heap(ffi, expect_size + 8)
    try:
        with warnings.catch_warnings():
            warnings.simplefilter("ignore")
            p = ffi.new(ct, obj) if has_init else ffi.new(ct)
            if kind == "ptr" and t["k"] == "char":
                data = bytes(ffi.buffer(p, 2))          # the extra cell direct_newp adds for a char
            else:
                data = bytes(ffi.buffer(p))
            if kind == "ptr":
                sz = ffi.sizeof(p[0]) if t["k"] == "agg" else None
                ln = None
            else:
                sz = ffi.sizeof(p)
                ln = len(p)
    except Exception as e:
        return ("err", type(e).__name__)
    return ("ok", data, sz, ln)


def impl_big(ffi, texpr, obj, n):
    buf = ffi.new("char[]", n)
    q = ffi.cast(ffi.getctype(ffi.typeof(texpr), "*"), buf)
    try:
        q[0] = obj
    except Exception as e:
        return ("err", type(e).__name__, bytes(ffi.buffer(buf)))
    return ("ok", bytes(ffi.buffer(buf)))


def impl_assign(ffi, kind, texpr, t, obj):
    """p = ffi.new(T); p[0] = init   (pointer types; arrays go through a pointer to the array type)"""
    if kind == "ptr":
        p = ffi.new(ffi.getctype(ffi.typeof(texpr), "*"))
        try:
            p[0] = obj
        except Exception as e:
            return ("err", type(e).__name__)
        with warnings.catch_warnings():
            warnings.simplefilter("ignore")
            return ("ok", bytes(ffi.buffer(p, 2)) if t["k"] == "char" else bytes(ffi.buffer(p)))
    a = ffi.new(texpr)
    q = ffi.cast(ffi.getctype(ffi.typeof(texpr), "*"), a)
    try:
        q[0] = obj
    except Exception as e:
        return ("err", type(e).__name__)
    return ("ok", bytes(ffi.buffer(a)))


def impl_itemwise(ffi, kind, texpr, t, node, real):
    """Field-by-field / item-by-item assignment of a valid top-level list or dict."""
    if kind == "ptr":
        p = ffi.new(ffi.getctype(ffi.typeof(texpr), "*"))
        if node[0] == "seq":
            pairs = list(zip([f["name"] for f in ctor_fields(t)], node[1]))
        else:
            pairs = [(k, c) for k, c in node[1]]
        for name, c in pairs:
            setattr(p, name, real.obj(c))
        return bytes(ffi.buffer(p))
    a = ffi.new(texpr)
    for i, c in enumerate(node[1]):
        a[i] = real.obj(c)
    return bytes(ffi.buffer(a))


# ------------------------------------------------------------------ one case

def run_case(ctx, ffi, tree_cache, case, lines, expects, oracle_only, listed):
    kind, texpr, node = case["kind"], case["T"], case["init"]
    if node == ["other", "none"]:
        node = case["init"] = ["other", "float"]        # a top-level None is "no initialiser"
    ct = ffi.typeof(texpr)
    t = ctype_tree(ffi, ct, tree_cache)
    real = Real(ffi)
    orc = Oracle(real)
    has_init = node is not None
    exp = orc.new(kind, t, node)
    flags = {"oracle_oob": exp == ("err", "OOB"), "bitfield_overrun": exp == ("err", "OOB") and not py_wf(t)}
    # the two input shapes whose defects were repaired in /repo (ff94e40, 5e115e5) are ordinary cases now
    if has_init and kind == "ptr" and node[0] == "cdata" and with_var(t) and ffi.typeof(node[1]) is ct:
        ctx.count("shape:var-sized struct initialised with a cdata of itself")
    zero_shape = has_init and zero_open_reached(t, node)
    if zero_shape:
        ctx.count("shape:open array of zero-size items reached by the initialiser")
    case["flags"] = flags
    key = None
    if has_init and nontrivial(t, node):
        key = (ty_proto(t), json.dumps(node))
    ctx.case(key, sample=case)
    ctx.count("new:" + (exp[1] if exp[0] == "err" else "ok"))
    ctx.count("type:" + ("var-sized" if with_var(t) else ("array" if kind == "arr" else t["k"])))
    tp = ty_proto(t)
    ip = init_proto(real, t, node) if has_init else "N"

    def known(cls, detail):
        if cls in listed:
            ctx.fail(case, detail)
        else:
            ctx.count("finding-class-not-listed:" + cls)
            ctx.coverage.setdefault("unlisted_finding_classes", {}).setdefault(cls, {"case": common.jsonable(case),
                                                                                   "detail": detail})

    # ---- the two memory-unsafe classes: never executed through ffi.new in this process
    if flags["oracle_oob"]:
        if not oracle_only:
            lines.append("new %d %s %s %s" % (LIMIT, kind, tp, ip))
            expects.append((case, "err OOB", "new (unsafe class, not executed)"))
        if flags["bitfield_overrun"]:
            known(CLS_D, "packed layout: the storage unit of a bit-field extends past the end of its struct; "
                         "convert_from_object_bitfield reads and rewrites bytes outside the allocation")
        elif flags["oracle_oob"] and has_init and not (kind == "arr" and t["len"] is None):
            o = orc.assign(t, node)
            size = orc.alloc(kind, t, node)[0]
            big = impl_big(ffi, texpr, real.obj(node), max(o[2], size) + SLACK)
            need = len(big[1].rstrip(b"\0")) if big[0] == "ok" else 0
            if need > size:
                known(CLS_B, "the conversion done by ffi.new(%s, init) stores up to byte %d, the block has %d bytes"
                      % (texpr, need, size))
            else:
                ctx.count("unsafe-class-not-visible")
        else:
            ctx.count("unsafe-class-not-visible")
        return

    obj = real.obj(node) if has_init else None
    expect_size = len(exp[1]) if exp[0] == "ok" else type_size(t)
    can_big = has_init and not (kind == "arr" and t["len"] is None) and not (kind == "ptr" and is_open(t))

    # ---- route `big` first: the conversion into a zero block that is certainly large enough.  It shows what the
    #      conversion stores and where, without depending on the size ffi.new computes.
    big = None
    if can_big:
        o = orc.assign(t, node)
        n = max(o[2], expect_size, type_size(t)) + SLACK
        big = impl_big(ffi, texpr, obj, n)
        if not oracle_only:
            lines.append("assign %d %s %s" % (n, tp, ip))
            expects.append((case, "ok " + big[1].hex() if big[0] == "ok" else "err " + big[1], "assign"))
        if o[0] == "ok":
            if big[0] != "ok":
                ctx.fail(case, "assignment raised %s on an initialiser the rules accept" % big[1])
                return
            if big[1][:len(o[1])] != o[1] or any(big[1][len(o[1]):]):
                ctx.fail(case, "bytes left by p[0] = init differ from the oracle: %s vs %s"
                         % (big[1].rstrip(b"\0").hex(), o[1].hex()))
                return
        elif big[0] != "err" or big[1] != o[1]:
            ctx.fail(case, "assignment: expected %s, got %s" % (o[1], big[1] if big[0] == "err" else "success"))
            return

    # ---- size probe for var-sized structs: the same lengths, no data -- the allocation ffi.new would make
    if zero_shape and kind == "ptr":
        # this shape used to die of SIGFPE in add_varsize_length (repaired by 5e115e5): let a forked child go
        # first, so that a regression is a reported failing input instead of the death of the check
        sig = survives_in_child(lambda: ffi.new(ffi.getctype(ct, "*"), obj))
        if sig:
            ctx.fail(case, "ffi.new(%s *, init) kills the interpreter with signal %d" % (texpr, sig))
            return

    prepass_ok = True
    try:
        orc.alloc(kind, t, node)
    except Rej:
        prepass_ok = False
    if can_big and kind == "ptr" and with_var(t) and prepass_ok:
        # what the conversion stores (also when it stops with an exception half way)
        img = big[1] if big[0] == "ok" else big[2]
        need = max(len(img.rstrip(b"\0")), o[2], len(exp[1]) if exp[0] == "ok" else 0)
        for keep_form in (True, False):
            probe = size_probe(t, node, keep_form)
            try:
                pp = ffi.new(ffi.getctype(ct, "*"), Real(ffi).obj(probe))
                alloc = len(ffi.buffer(pp))
            except Exception as e:
                ctx.count("size-probe-raised:" + type(e).__name__)
                continue
            if alloc < need:
                ctx.fail(case, "ffi.new reserves %d bytes for these lengths (%s), the initialiser stores up to byte %d"
                         % (alloc, json.dumps(probe)[:300], need))
                return

    got = impl_new(ffi, kind, texpr, t, obj, has_init, expect_size)

    # ---- correspondence line
    if not oracle_only:
        lines.append("new %d %s %s %s" % (LIMIT, kind, tp, ip))
        if got[0] == "ok":
            ln = got[3] if (kind == "arr" and t["len"] is None) else (got[2] if with_var(t) else None)
            canon = "ok %s %s %s" % (got[1].hex() or "-", "-" if ln is None else ln, "-" if got[2] is None else got[2])
        else:
            canon = "err " + got[1]
        expects.append((case, canon, "new"))

    # ---- the oracle's verdict on ffi.new itself
    if exp[0] == "err":
        if got[0] != "err" or got[1] != exp[1]:
            ctx.fail(case, "ffi.new: expected %s, got %s" % (exp[1], got[1] if got[0] == "err" else "success"))
            return
    else:
        if got[0] != "ok":
            ctx.fail(case, "ffi.new raised %s on an initialiser the rules accept" % got[1])
            return
        data = got[1]
        if kind == "ptr" and t["k"] == "agg":
            if got[2] != len(data):
                ctx.fail(case, "ffi.sizeof(p[0]) = %r but ffi.buffer(p) has %d bytes" % (got[2], len(data)))
        if kind == "arr":
            if got[2] != len(data) or got[3] * t["isz"] != len(data):
                ctx.fail(case, "ffi.sizeof(a) = %r, len(a) = %r, buffer has %d bytes" % (got[2], got[3], len(data)))
        if len(data) < len(exp[1]):
            ctx.fail(case, "allocation of %d bytes, the initialiser needs %d" % (len(data), len(exp[1])))
        elif data[:len(exp[1])] != exp[1] or any(data[len(exp[1]):]):
            ctx.fail(case, "bytes of ffi.new differ from the oracle (or are not zero where nothing is stored): "
                           "%s vs %s" % (data.hex(), exp[1].hex()))
    if not can_big:
        return

    # ---- new(T, init) against (zero block; p[0] = init)
    if got[0] == "ok":
        if big[0] != "ok":
            ctx.fail(case, "ffi.new accepts the initialiser, assignment raises %s" % big[1])
        else:
            img = big[1]
            if img[:len(got[1])] != got[1]:
                ctx.fail(case, "new(T, init) and (zero block; p[0] = init) leave different bytes: %s vs %s"
                         % (got[1].hex(), img[:len(got[1])].hex()))
            elif any(img[len(got[1]):]):
                ctx.fail(case, "assignment writes past the %d bytes ffi.new allocates (last non-zero byte at %d)"
                         % (len(got[1]), len(img.rstrip(b"\0")) - 1))
    else:
        if big[0] == "ok":
            # only the size computation can reject what the conversion accepts
            if not (exp[0] == "err" and exp[1] in ("OverflowError", "MemoryError")):
                ctx.fail(case, "ffi.new raises %s, assignment of the same initialiser succeeds" % got[1])
        elif big[1] != got[1] and case.get("ninject", 0) <= 1:
            ctx.fail(case, "ffi.new raises %s, assignment raises %s" % (got[1], big[1]))

    # ---- routes `assign` and `itemwise` for types of fixed size
    fixed = not with_var(t)
    if fixed:
        a = impl_assign(ffi, kind, texpr, t, obj)
        if (a[0], a[1]) != (got[0], got[1]):
            ctx.fail(case, "p = ffi.new(T); p[0] = init gives %s, ffi.new(T, init) gives %s"
                     % (a[1].hex() if a[0] == "ok" else a[1], got[1].hex() if got[0] == "ok" else got[1]))
        if got[0] == "ok" and node[0] in ("seq", "dict") and (t["k"] == "agg" or kind == "arr") \
                and not (t["k"] == "agg" and node[0] == "seq" and t["union"] and len(node[1]) > 1):
            try:
                iw = impl_itemwise(ffi, kind, texpr, t, node, real)
            except Exception as e:
                iw = "raised " + type(e).__name__
            if iw != got[1]:
                ctx.fail(case, "item-by-item assignment gives %s, ffi.new(T, init) gives %s"
                         % (iw.hex() if isinstance(iw, bytes) else iw, got[1].hex()))


# ------------------------------------------------------------------ driving

def make_ffi(cdef, packed):
    import cffi
    ffi = cffi.FFI()
    ffi.cdef(cdef, packed=packed)
    return ffi


def run_batches(ctx, nbatches, per_type, oracle_only=False, lines=None, expects=None):
    import cffi
    listed = {f["class"] for f in ctx.open_findings}
    if lines is None:
        lines, expects = [], []
    rng = ctx.rng
    for _ in range(nbatches):
        cdef, packed, tops = gen_batch(rng)
        try:
            ffi = make_ffi(cdef, packed)
            cache = {}
            trees = []
            for kind, texpr in tops:
                trees.append((kind, texpr, ctype_tree(ffi, ffi.typeof(texpr), cache)))
        except (cffi.FFIError, cffi.CDefError, NotImplementedError, TypeError, ValueError) as e:
            ctx.count("batch-rejected-by-cdef:" + type(e).__name__)
            continue
        for kind, texpr, t in trees:
            if not oracle_only:
                lines.append("wf " + ty_proto(t))
                expects.append(({"cdef": cdef, "packed": packed, "kind": kind, "T": texpr, "init": None},
                                py_wf(t), "wf"))
                ctx.count("layout:" + ("well-formed" if py_wf(t) else "bit-field unit past the end (packed)"))
            for j in range(per_type):
                r = rng.random()
                inj = Inject(0 if r < 0.6 else (1 if r < 0.93 else 2))
                try:
                    if j == 0 and rng.random() < 0.5:
                        node = None
                    else:
                        node = gen_init(ffi, rng, t, inj, 0, None, True)
                        if kind == "ptr" and with_var(t) and rng.random() < 0.04:
                            node = safe_cdata(ffi, t, gen_init(ffi, rng, t, Inject(0), 1, None, True)) or node
                except SourceFailed as e:
                    ctx.case(None)
                    ctx.fail({"cdef": cdef, "packed": packed, "kind": "ptr", "T": e.node[1], "init": e.node[2]},
                             "assignment into a zero block raised %s on an initialiser the rules accept" % e.exc)
                    continue
                case = {"cdef": cdef, "packed": packed, "kind": kind, "T": texpr, "init": node,
                        "inject": list(inj.kinds), "ninject": len(inj.kinds)}
                for kd in inj.kinds:
                    ctx.count("inject:" + kd)
                try:
                    run_case(ctx, ffi, cache, case, lines, expects, oracle_only, listed)
                except SourceFailed as e:
                    ctx.fail(case, "building the cdata source %s raised %s on an initialiser the rules accept"
                             % (json.dumps(e.node)[:300], e.exc))
    if oracle_only or not lines:
        return
    t0 = time.time()
    out = ctx.driver(lines)
    common.log("C20: %d cases evaluated in-process, %d model lines answered in %.1f s"
               % (ctx.evaluations, len(lines), time.time() - t0))
    for o, (case, canon, what), line in zip(out, expects, lines):
        if what == "wf":
            w = o.split()
            if w[0] != "ok" or (w[1] == "1") != canon:
                ctx.disagree(case, canon, o, "well-formedness of the layout: harness vs model")
            continue
        if o != canon:
            ctx.disagree(case, canon[:400], o[:400], what + " vs model")


def correspond(ctx):
    common.log("C20: proof stage took %.1f s" % (time.time() - ctx.t0))
    lines, expects = [], []
    corpus = os.path.join(common.VERIF, "corpus", "C20")
    if os.path.isdir(corpus):
        for fn in sorted(os.listdir(corpus)):
            if fn.endswith(".json"):
                replay_case(ctx, json.load(open(os.path.join(corpus, fn)))["case"], lines, expects)
                ctx.count("corpus-case")
    run_batches(ctx, ctx.n(200, 1500), ctx.n(5, 8), lines=lines, expects=expects)


def search(ctx):
    run_batches(ctx, ctx.n(400, 6000), ctx.n(6, 8), oracle_only=True)


def replay_case(ctx, case, lines=None, expects=None):
    """Re-run one stored case; with `lines`/`expects` its model lines are queued for the driver call."""
    ffi = make_ffi(case["cdef"], case.get("packed", False))
    listed = {f["class"] for f in ctx.open_findings}
    before = len(ctx.failures) + len(ctx.known_hits)
    case = dict(case)
    if isinstance(case.get("init"), list):
        case["init"] = _unjson(case["init"])
    oracle_only = lines is None
    try:
        run_case(ctx, ffi, {}, case, [] if oracle_only else lines, [] if oracle_only else expects, oracle_only, listed)
    except SourceFailed as e:
        ctx.fail(case, "building the cdata source %s raised %s on an initialiser the rules accept"
                 % (json.dumps(e.node)[:300], e.exc))
    return len(ctx.failures) + len(ctx.known_hits) - before


def _unjson(node):
    """Replay files store big integers as strings (common.jsonable)."""
    if not isinstance(node, list) or not node:
        return node
    k = node[0]
    if k == "int":
        return ["int", int(node[1])]
    if k == "ptr":
        return ["ptr", node[1], int(node[2])]
    if k == "seq":
        return ["seq", [_unjson(c) for c in node[1]], bool(node[2])]
    if k == "dict":
        return ["dict", [[key, _unjson(c)] for key, c in node[1]]]
    if k == "cdata":
        return ["cdata", node[1], _unjson(node[2])]
    return node


def replay(ctx, obj):
    n = replay_case(ctx, obj["case"])
    for f in ctx.failures:
        print("still failing:", f["detail"])
    for k, v in ctx.known_hits.items():
        print("known finding class", k, ":", v["detail"])
    return 1 if (n or ctx.failures) else 0


# ------------------------------------------------------------------ witnesses of the finding classes

_WITNESS_CHILD = r"""
import sys, json, cffi
w = json.loads(sys.argv[1])
ffi = cffi.FFI()
ffi.cdef(w["cdef"])
def obj(n):
    if n[0] == "int": return n[1]
    if n[0] == "bytes": return bytes.fromhex(n[1])
    if n[0] == "seq": return [obj(c) for c in n[1]]
    raise SystemExit(3)
init = obj(w["init"])
T = ffi.typeof(w["T"])
buf = ffi.new("char[]", 4096)
q = ffi.cast(ffi.getctype(T, "*"), buf)
try:
    q[0] = init
    need = len(bytes(ffi.buffer(buf)).rstrip(b"\0"))
except Exception as e:
    print("assign-raises", type(e).__name__); raise SystemExit(0)
try:
    p = ffi.new(T if w["kind"] == "arr" else ffi.getctype(T, "*"), init)
except Exception as e:
    print("new-raises", type(e).__name__); raise SystemExit(0)
print("allocated", len(ffi.buffer(p)), "needs", need)
"""


_WITNESS_GUARD = r"""
import sys, json, cffi
w = json.loads(sys.argv[1])
ffi = cffi.FFI()
ffi.cdef(w["cdef"], packed=w.get("packed", False))
ffi.cdef("void *mmap(void *, size_t, int, int, int, long); int mprotect(void *, size_t, int);")
lib = ffi.dlopen(None)
base = lib.mmap(ffi.NULL, 8192, 3, 0x22, -1, 0)           # PROT_READ|PROT_WRITE, MAP_PRIVATE|MAP_ANONYMOUS
assert int(ffi.cast("long", base)) not in (-1, 0)
assert lib.mprotect(ffi.cast("char *", base) + 4096, 4096, 0) == 0
size = ffi.sizeof(w["T"])
q = ffi.cast(w["T"] + " *", ffi.cast("char *", base) + 4096 - size)     # the struct ends where the guard page starts
q[0] = [bytes.fromhex(c[1]) if c[0] == "bytes" else c[1] for c in w["init"][1]]
print("no access past the end")
"""


def check_witness(ctx, finding):
    w = finding["witness"]
    cls = finding["class"]
    if cls == CLS_D:
        try:
            r = subprocess.run([sys.executable, "-c", _WITNESS_GUARD, json.dumps(w)], stdout=subprocess.PIPE,
                               stderr=subprocess.PIPE, universal_newlines=True, timeout=120)
        except subprocess.TimeoutExpired:
            raise InfraError("witness of %s timed out" % cls)
        if r.returncode == -11:
            return True                    # SIGSEGV on the guard page
        if r.returncode == 0:
            return False
        raise InfraError("witness of %s could not be evaluated: %s" % (cls, r.stderr[-500:]))
    try:
        r = subprocess.run([sys.executable, "-c", _WITNESS_CHILD, json.dumps(w)], stdout=subprocess.PIPE,
                           stderr=subprocess.PIPE, universal_newlines=True, timeout=120)
    except subprocess.TimeoutExpired:
        raise InfraError("witness of %s timed out" % cls)
    if cls == CLS_B:
        if r.returncode < 0:
            return True                    # the heap corruption was fatal this time
        words = r.stdout.split()
        if words[:1] == ["allocated"]:
            return int(words[1]) < int(words[3])
        return False
    return None
