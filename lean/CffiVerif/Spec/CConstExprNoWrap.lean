import CffiVerif.Spec.CConstExpr

/-!
"No wrap-around" predicate on C constant expressions: at every operator node the conversion of
the operands to the common type preserves their values and the mathematical result is
representable in the result type.  Under this predicate C's typed evaluation *is* arithmetic on
unbounded integers; it is the exact boundary of the known finding C09/unsigned-typed-operand
(an expression outside it has an unsigned operation that wraps, or a negative value converted to
an unsigned type).
-/
namespace CffiVerif.CConstExpr
open CffiVerif.ConstExpr (BinOp)

def binExact (op : BinOp) (x y : CType × Int) : Bool :=
  let (t1, v1) := x
  let (t2, v2) := y
  let t := uac t1 t2
  match op with
  | .add => t.inRange v1 && t.inRange v2 && t.inRange (v1 + v2)
  | .sub => t.inRange v1 && t.inRange v2 && t.inRange (v1 - v2)
  | .mul => t.inRange v1 && t.inRange v2 && t.inRange (v1 * v2)
  | .div => t.inRange v1 && t.inRange v2 && t.inRange (v1.tdiv v2)
  | .mod => t.inRange v1 && t.inRange v2 && t.inRange (v1.tmod v2)
  | .shl => t1.inRange (v1 * 2 ^ v2.toNat)
  | .shr => t1.inRange (v1 >>> v2.toNat)
  | .band => t.inRange v1 && t.inRange v2
  | .bor => t.inRange v1 && t.inRange v2
  | .bxor => t.inRange v1 && t.inRange v2

def noWrap (env : Env) : CExpr → Bool
  | .int _ => true
  | .chr _ => true
  | .esc _ => true
  | .ref _ => true
  | .pos e => noWrap env e
  | .neg e =>
    noWrap env e &&
    (match eval env e with
     | some (t, v) => t.inRange (-v)
     | none => true)
  | .bin op l r =>
    noWrap env l && noWrap env r &&
    (match eval env l, eval env r with
     | some x, some y =>
       -- only where C defines the operation (in particular: shift counts below the width), so that
       -- `binExact` never builds 2^count for a huge count
       match binop op x y with
       | some _ => binExact op x y
       | none => true
     | _, _ => true)

end CffiVerif.CConstExpr
