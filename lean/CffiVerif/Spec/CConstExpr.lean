import CffiVerif.Model.ConstExpr

/-!
Specification of C11 integer constant expressions on the platform of the checks
(gcc, x86-64 SysV, LP64: `int` 32 bits, `long` and `long long` 64 bits, two's complement),
restricted to the grammar the property is about: integer literals (decimal / octal / hex /
binary with `u`/`l` suffixes), plain and simply-escaped character constants, names of
earlier constants, unary `+ -`, binary `+ - * / % << >> & | ^`.

* literals are typed by C11 §6.4.4.1 p5 (first type of the list in which the value fits);
* operands undergo the integer promotions (a no-op here: nothing is narrower than `int`) and
  the usual arithmetic conversions (§6.3.1.8);
* unsigned arithmetic wraps modulo 2^width; a signed result that is not representable is
  undefined behaviour (`none`), and so are division by zero, `INT_MIN / -1` (and `%`), shift
  counts that are negative or ≥ the width of the promoted left operand, and `<<` of a negative
  value (§6.5.5, §6.5.7);
* `>>` of a negative value is implementation-defined: gcc shifts arithmetically (floor);
* `&`, `|`, `^` work on the two's-complement representation (`BitVec`).

The abstract syntax has *structured* literals (`IntLit`: base, digits, suffix): that is C's
grammar.  `CExpr.toModel` renders them to the token text cffi's evaluator receives.
This file is independent of cffi's evaluator except for the shared operator names (`BinOp`)
and the digit-string reader `digitsVal`.
-/
namespace CffiVerif.CConstExpr
open CffiVerif.ConstExpr (BinOp Expr digitsVal)

inductive Rank where
  | int | long | llong
  deriving DecidableEq, Repr, Inhabited

structure CType where
  rank : Rank
  signed : Bool
  deriving DecidableEq, Repr, Inhabited

namespace CType
def int : CType := ⟨.int, true⟩
def uint : CType := ⟨.int, false⟩
def long : CType := ⟨.long, true⟩
def ulong : CType := ⟨.long, false⟩
def llong : CType := ⟨.llong, true⟩
def ullong : CType := ⟨.llong, false⟩

/-- LP64. -/
def width (t : CType) : Nat :=
  match t.rank with
  | .int => 32
  | .long => 64
  | .llong => 64

def minVal (t : CType) : Int := if t.signed then -(2 ^ (t.width - 1)) else 0
def maxVal (t : CType) : Int := if t.signed then 2 ^ (t.width - 1) - 1 else 2 ^ t.width - 1

def inRange (t : CType) (v : Int) : Bool := decide (t.minVal ≤ v ∧ v ≤ t.maxVal)

def tag (t : CType) : String :=
  match t.rank, t.signed with
  | .int, true => "int" | .int, false => "uint"
  | .long, true => "long" | .long, false => "ulong"
  | .llong, true => "llong" | .llong, false => "ullong"
end CType

def Rank.toNat : Rank → Nat
  | .int => 0 | .long => 1 | .llong => 2

/-- Usual arithmetic conversions, §6.3.1.8 (integer part), after promotion. -/
def uac (a b : CType) : CType :=
  if a.signed = b.signed then
    (if a.rank.toNat ≥ b.rank.toNat then a else b)
  else
    let u := if a.signed then b else a          -- the unsigned one
    let s := if a.signed then a else b          -- the signed one
    if u.rank.toNat ≥ s.rank.toNat then u
    else if s.width > u.width then s            -- the signed type represents every value of the unsigned one
    else ⟨s.rank, false⟩                        -- unsigned type corresponding to the signed one

/-- Conversion of a value to type `t` (§6.3.1.3): value-preserving when representable,
modulo 2^width for unsigned targets; converting an unrepresentable value to a signed type is
implementation-defined (gcc: modulo) -- it never arises from `uac`. -/
def conv (t : CType) (v : Int) : Int :=
  if t.signed then (if t.inRange v then v else (v + 2 ^ (t.width - 1)) % 2 ^ t.width - 2 ^ (t.width - 1))
  else v % 2 ^ t.width

/-- Result of an arithmetic operation whose mathematical value is `r`, in type `t`. -/
def arith (t : CType) (r : Int) : Option (CType × Int) :=
  if t.signed then (if t.inRange r then some (t, r) else none)
  else some (t, r % 2 ^ t.width)

/-! ### Literals (§6.4.4.1, §6.4.4.4) -/

inductive LitBase where
  | dec | oct | hex | bin
  deriving DecidableEq, Repr, Inhabited

structure IntLit where
  base : LitBase
  upper : Bool            -- `0X` / `0B` spelling of the prefix
  digits : List Char      -- the digits after the prefix (`0` for octal, `0x`, `0b`)
  suffix : List Char
  deriving Repr, Inhabited

/-- integer-suffix: `u`, `l`, `ll` combinations; `lL` / `Ll` are not suffixes. -/
def validSuffixes : List (List Char) :=
  [[],
   ['u'],
   ['U'],
   ['l'],
   ['L'],
   ['l', 'l'],
   ['L', 'L'],
   ['u', 'l'],
   ['u', 'L'],
   ['U', 'l'],
   ['U', 'L'],
   ['l', 'u'],
   ['l', 'U'],
   ['L', 'u'],
   ['L', 'U'],
   ['u', 'l', 'l'],
   ['u', 'L', 'L'],
   ['U', 'l', 'l'],
   ['U', 'L', 'L'],
   ['l', 'l', 'u'],
   ['l', 'l', 'U'],
   ['L', 'L', 'u'],
   ['L', 'L', 'U']]

def sufUnsigned (s : List Char) : Bool := s.any (fun c => c == 'u' || c == 'U')
def sufLongs (s : List Char) : Nat := (s.filter (fun c => c == 'l' || c == 'L')).length

def LitBase.radix : LitBase → Nat
  | .dec => 10 | .oct => 8 | .hex => 16 | .bin => 2

/-- The mathematical value; `none` when the digit string is not one of that base
(or violates "a decimal constant begins with a non-zero digit", "at least one digit"). -/
def IntLit.value? (l : IntLit) : Option Nat :=
  if ¬ validSuffixes.contains l.suffix then none else
  match l.base with
  | .dec =>
    match l.digits with
    | [] => none
    | c :: _ => if c = '0' then none else digitsVal 10 l.digits 0
  | .oct => digitsVal 8 l.digits 0                 -- the literal is "0" ++ digits
  | .hex => if l.digits = [] then none else digitsVal 16 l.digits 0
  | .bin => if l.digits = [] then none else digitsVal 2 l.digits 0    -- gcc extension / C23

/-- The candidate types of §6.4.4.1 p5, in order. -/
def candidates (decimal unsignedSuffix : Bool) (longs : Nat) : List CType :=
  match unsignedSuffix, longs, decimal with
  | false, 0, true => [.int, .long, .llong]
  | false, 0, false => [.int, .uint, .long, .ulong, .llong, .ullong]
  | true, 0, _ => [.uint, .ulong, .ullong]
  | false, 1, true => [.long, .llong]
  | false, 1, false => [.long, .ulong, .llong, .ullong]
  | true, 1, _ => [.ulong, .ullong]
  | false, _, true => [.llong]
  | false, _, false => [.llong, .ullong]
  | true, _, _ => [.ullong]

/-- Type and value of an integer literal; `none` also when no type of the list can
represent it (§6.4.4.1 p6: the constant then has no type). -/
def IntLit.typed (l : IntLit) : Option (CType × Int) :=
  match l.value? with
  | none => none
  | some v =>
    match (candidates (l.base == .dec) (sufUnsigned l.suffix) (sufLongs l.suffix)).find?
        (fun t => t.inRange v) with
    | some t => some (t, (v : Int))
    | none => none

/-- The token text. -/
def IntLit.render (l : IntLit) : List Char :=
  match l.base with
  | .dec => l.digits ++ l.suffix
  | .oct => '0' :: (l.digits ++ l.suffix)
  | .hex => '0' :: (if l.upper then 'X' else 'x') :: (l.digits ++ l.suffix)
  | .bin => '0' :: (if l.upper then 'B' else 'b') :: (l.digits ++ l.suffix)

/-- A plain character constant `'c'`: a member of the basic source character set other
than `'`, `\` and new-line; its value is the (ASCII) code, type `int`. -/
def plainChar (c : Char) : Option (CType × Int) :=
  if 32 ≤ c.toNat ∧ c.toNat < 127 ∧ c ≠ '\'' ∧ c ≠ '\\' then some (.int, (c.toNat : Int)) else none

/-- Simple escape sequences of §6.4.4.4 plus the one-digit octal escape `\0`
(the escapes cffi's grammar has). -/
def escapeChar (c : Char) : Option (CType × Int) :=
  if c = '\'' then some (.int, 39) else if c = '"' then some (.int, 34)
  else if c = '?' then some (.int, 63) else if c = '\\' then some (.int, 92)
  else if c = '0' then some (.int, 0) else if c = 'a' then some (.int, 7)
  else if c = 'b' then some (.int, 8) else if c = 'f' then some (.int, 12)
  else if c = 'n' then some (.int, 10) else if c = 'r' then some (.int, 13)
  else if c = 't' then some (.int, 9) else if c = 'v' then some (.int, 11)
  else none

/-! ### Expressions -/

inductive CExpr where
  | int (l : IntLit)
  | chr (c : Char)
  | esc (c : Char)
  | pos (e : CExpr)
  | neg (e : CExpr)
  | ref (name : String)
  | bin (op : BinOp) (l r : CExpr)
  deriving Repr, Inhabited

/-- What cffi's evaluator is handed for the same source text. -/
def CExpr.toModel : CExpr → Expr
  | .int l => .const l.render
  | .chr c => .const ['\'', c, '\'']
  | .esc c => .const ['\'', '\\', c, '\'']
  | .pos e => .pos e.toModel
  | .neg e => .neg e.toModel
  | .ref n => .ref n
  | .bin op l r => .bin op l.toModel r.toModel

/-- Names of earlier constants with their C type and value. -/
abbrev Env := String → Option (CType × Int)

def Env.empty : Env := fun _ => none

/-- `&`, `|`, `^` on the representation, read back in type `t`. -/
def bitwise (t : CType) (f : BitVec 64 → BitVec 64 → BitVec 64) (g : BitVec 32 → BitVec 32 → BitVec 32)
    (a b : Int) : Int :=
  match t.rank with
  | .int =>
    let r := g (BitVec.ofInt 32 a) (BitVec.ofInt 32 b)
    if t.signed then r.toInt else (r.toNat : Int)
  | _ =>
    let r := f (BitVec.ofInt 64 a) (BitVec.ofInt 64 b)
    if t.signed then r.toInt else (r.toNat : Int)

def binop (op : BinOp) (x y : CType × Int) : Option (CType × Int) :=
  let (t1, v1) := x
  let (t2, v2) := y
  let t := uac t1 t2
  let a := conv t v1
  let b := conv t v2
  match op with
  | .add => arith t (a + b)
  | .sub => arith t (a - b)
  | .mul => arith t (a * b)
  | .div => if b = 0 then none else arith t (a.tdiv b)
  | .mod =>
    if b = 0 then none
    else if t.signed && !t.inRange (a.tdiv b) then none      -- INT_MIN % -1
    else arith t (a.tmod b)
  | .shl =>
    -- the result has the type of the promoted left operand
    if v2 < 0 ∨ v2 ≥ t1.width then none
    else if t1.signed && decide (v1 < 0) then none
    else arith t1 (v1 * 2 ^ v2.toNat)
  | .shr =>
    if v2 < 0 ∨ v2 ≥ t1.width then none
    else arith t1 (v1 >>> v2.toNat)
  | .band => arith t (bitwise t (· &&& ·) (· &&& ·) a b)
  | .bor => arith t (bitwise t (· ||| ·) (· ||| ·) a b)
  | .bxor => arith t (bitwise t (· ^^^ ·) (· ^^^ ·) a b)

/-- Type and value of an expression; `none` = not defined by C (or not typable). -/
def eval (env : Env) : CExpr → Option (CType × Int)
  | .int l => l.typed
  | .chr c => plainChar c
  | .esc c => escapeChar c
  | .pos e => eval env e
  | .neg e =>
    match eval env e with
    | some (t, v) => arith t (-v)
    | none => none
  | .ref n => env n
  | .bin op l r =>
    match eval env l, eval env r with
    | some x, some y => binop op x y
    | _, _ => none

/-- The type of `e` is signed (or `e` has no C value). -/
def sgn (env : Env) (e : CExpr) : Bool :=
  match eval env e with
  | some (t, _) => t.signed
  | none => true

/-- Every operand and every intermediate result has a signed type. -/
def allSigned (env : Env) : CExpr → Bool
  | .int l => sgn env (.int l)
  | .chr c => sgn env (.chr c)
  | .esc c => sgn env (.esc c)
  | .ref n => sgn env (.ref n)
  | .pos e => allSigned env e && sgn env (.pos e)
  | .neg e => allSigned env e && sgn env (.neg e)
  | .bin op l r => allSigned env l && allSigned env r && sgn env (.bin op l r)

/-! ### Reading a token back into the grammar (used by the driver only; the driver checks
`render (parse tok) = tok`, so a wrong parse cannot go unnoticed) -/

def splitSuffix (s : List Char) : List Char × List Char :=
  let suf := (s.reverse.takeWhile (fun c => c == 'u' || c == 'U' || c == 'l' || c == 'L')).reverse
  (s.take (s.length - suf.length), suf)

def IntLit.parse (tok : List Char) : Option IntLit :=
  match tok with
  | '0' :: 'x' :: rest => let (d, s) := splitSuffix rest; some ⟨.hex, false, d, s⟩
  | '0' :: 'X' :: rest => let (d, s) := splitSuffix rest; some ⟨.hex, true, d, s⟩
  | '0' :: 'b' :: rest => let (d, s) := splitSuffix rest; some ⟨.bin, false, d, s⟩
  | '0' :: 'B' :: rest => let (d, s) := splitSuffix rest; some ⟨.bin, true, d, s⟩
  | '0' :: rest => let (d, s) := splitSuffix rest; some ⟨.oct, false, d, s⟩
  | _ :: _ => let (d, s) := splitSuffix tok; some ⟨.dec, false, d, s⟩
  | [] => none

end CffiVerif.CConstExpr
