import CffiVerif.Spec.CConstExpr
import CffiVerif.Spec.CConstExprNoWrap

/-!
Specification of how gcc 12 (C front end, x86-64) gives values and an underlying type to
`enum tag { A [= expr], … };` -- `build_enumerator` and `finish_enum` of `gcc/c/c-decl.cc`:

* an explicit value is an integer constant expression (`CConstExpr.eval`); an enumerator whose
  value fits `int` has type `int` inside the rest of the definition, otherwise it keeps the
  type of its expression (GNU extension);
* an implicit value is the previous value plus one, *computed in the type of the previous
  enumerator*; if that addition wraps, using the implicit value is the error
  "overflow in enumeration values";
* redeclaring a name is an error;
* the underlying type: unsigned iff no value is negative; `tree_int_cst_min_precision` of the
  smallest and largest value gives the precision; up to 32 bits -> `unsigned int` / `int`,
  up to 64 bits -> `unsigned long` / `long` (`c_common_type_for_size`), beyond: no type
  (gcc warns "enumeration values exceed range of largest integer" and truncates: treated as a
  rejection here).
-/
namespace CffiVerif.GccEnum
open CffiVerif.CConstExpr

structure CItem where
  name : String
  value : Option CExpr
  deriving Repr, Inhabited

def bind (env : Env) (k : String) (x : CType × Int) : Env := fun n => if n = k then some x else env n

/-- The type an enumerator has in the remainder of the enum definition. -/
def enumeratorType (t : CType) (v : Int) : CType := if CType.int.inRange v then .int else t

/-- `enum_next_value` / `enum_overflow`: value + 1 in the enumerator's type, `none` when it wraps. -/
def nextOf (t : CType) (v : Int) : Option (CType × Int) :=
  if t.inRange (v + 1) then some (t, v + 1) else none

/-- One enumerator.  `next = none` encodes `enum_overflow`.  Result: the enumerator's type and
value, the scope and the next implicit value afterwards. -/
def valueOf (env : Env) (next : Option (CType × Int)) (it : CItem) : Option (CType × Int) :=
  match it.value with
  | some e => CConstExpr.eval env e
  | none => next

def step (env : Env) (next : Option (CType × Int)) (it : CItem) :
    Option ((CType × Int) × Env × Option (CType × Int)) :=
  match valueOf env next it with
  | none => none
  | some (t0, v) =>
    if (env it.name).isSome then none else
    let t := enumeratorType t0 v
    some ((t, v), bind env it.name (t, v), nextOf t v)

def build (env : Env) (next : Option (CType × Int)) : List CItem → Option (List (String × CType × Int))
  | [] => some []
  | it :: rest =>
    match step env next it with
    | none => none
    | some ((t, v), env', next') =>
      match build env' next' rest with
      | none => none
      | some out => some ((it.name, t, v) :: out)

/-- The first implicit value is `0` of type `int`. -/
def start : Option (CType × Int) := some (.int, 0)

/-- `tree_int_cst_min_precision`. -/
def minPrecision (v : Int) (signed : Bool) : Nat :=
  let a : Nat := if v < 0 then (-v - 1).toNat else v.toNat       -- `~v` for negative v
  if a = 0 then 1 else Nat.log2 a + 1 + (if signed then 1 else 0)

/-- `finish_enum`, given the smallest and the largest value. -/
def baseType (lo hi : Int) : Option CType :=
  let signed := decide (lo < 0)
  let prec := max (minPrecision lo signed) (minPrecision hi signed)
  if prec ≤ 32 then some (if signed then .int else .uint)
  else if prec ≤ 64 then some (if signed then .long else .ulong)
  else none

/-! ### The C09 premise of `values_eq_c` -/

def isLeaf : CExpr → Bool
  | .int _ => true
  | .chr _ => true
  | .esc _ => true
  | _ => false

/-- The C09 premise for one explicit enumerator value: a bare literal / character constant (of
any type), an expression whose operands and intermediate results are all signed, or any
expression without unsigned wrap-around. -/
def exprOk (cenv : Env) (e : CExpr) : Bool := isLeaf e || allSigned cenv e || noWrap cenv e

/-- `exprOk` for every explicit value, each in the scope in which gcc evaluates it. -/
def itemsOk (cenv : Env) (next : Option (CType × Int)) : List CItem → Bool
  | [] => true
  | it :: rest =>
    (match it.value with
     | some e => exprOk cenv e
     | none => true) &&
    (match step cenv next it with
     | some (_, cenv', next') => itemsOk cenv' next' rest
     | none => true)

end CffiVerif.GccEnum
