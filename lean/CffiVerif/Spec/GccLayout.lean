import CffiVerif.Model.LayoutDecl
/-
Specification of the layout GCC gives a struct/union on x86-64 SysV (psABI
§3.1.2 "Aggregates and Unions" and "Bit-Fields"; GCC `stor-layout.c` with
`PCC_BITFIELD_TYPE_MATTERS`), written independently of cffi's algorithm: one
cursor counting *bits* from the start of the aggregate.

* An ordinary member goes to the cursor rounded up to its alignment (capped by
  `#pragma pack(N)`); the cursor moves past it; the aggregate's alignment is at
  least the member's (capped) alignment.
* A bit-field `T m : w` (w > 0) goes to the cursor if it then lies inside one
  aligned storage unit of type `T` (`cursor mod 8·align T + w ≤ 8·sizeof T`), else
  to the cursor rounded up to `8·align T`.  Only *named* bit-fields raise the
  aggregate's alignment (to `align T`).
* `T : 0` rounds the cursor up to `8·align T` and places nothing.
* In a union every member starts at bit 0.
* The size is the furthest bit reached, rounded up to bytes and then to the
  alignment (GCC: an aggregate without members has size 0).
* Members of an anonymous struct/union member are members of the enclosing
  aggregate at the anonymous member's position.

A member is described by the absolute bit position where it starts and, for a
bit-field, its width: the bits `[bitpos, bitpos + w)` of the little-endian object
representation.  Packing together with bit-fields is outside the property (cffi
documents it as unsupported); `pack` is then applied to the unit's alignment as
`#pragma pack` does.
-/
namespace CffiVerif.GccLayout
open CffiVerif.Layout (Ty Fields FField)

structure GField where
  bitpos : Nat
  width : Option Nat
deriving DecidableEq, Repr

structure GLayout where
  size : Nat
  align : Nat
  fields : List GField
deriving DecidableEq, Repr

/-- least multiple of `m` that is `≥ x` -/
def roundUp (x m : Nat) : Nat := (x + (m - 1)) / m * m

structure GSt where
  cursor : Nat     -- next free bit
  maxbits : Nat    -- furthest bit reached
  align : Nat
deriving DecidableEq, Repr

def GSt.init : GSt := ⟨0, 0, 1⟩

/-- `#pragma pack(N)` caps the alignment of members; `0` = no pragma -/
def capAlign (pack a : Nat) : Nat := if pack = 0 then a else min pack a

def place (s : GSt) (cursor align : Nat) : GSt :=
  { cursor := cursor, maxbits := max s.maxbits cursor, align := align }

def gStep (isUnion : Bool) (pack : Nat) (s : GSt) (f : FField GField) : GSt × List GField :=
  let cur := if isUnion then 0 else s.cursor
  let a := capAlign pack f.align
  match f.bits with
  | none =>
    let pos := roundUp cur (8 * a)
    let members :=
      if !f.named && f.isAgg then f.sub.map fun m => { m with bitpos := pos + m.bitpos }
      else [{ bitpos := pos, width := none }]
    let sz := match f.size with
      | some n => n
      | none => 0          -- flexible array member: occupies nothing
    (place s (pos + 8 * sz) (max s.align a), members)
  | some 0 => (place s (roundUp cur (8 * a)) s.align, [])
  | some w =>
    let unit := match f.size with
      | some n => 8 * n
      | none => 0
    let pos := if cur % (8 * a) + w > unit then roundUp cur (8 * a) else cur
    (place s (pos + w) (if f.named then max s.align a else s.align),
     if f.named then [{ bitpos := pos, width := some w }] else [])

def gLoop (isUnion : Bool) (pack : Nat) : List (FField GField) → GSt → GSt × List GField
  | [], s => (s, [])
  | f :: rest, s =>
    let r := gStep isUnion pack s f
    let r' := gLoop isUnion pack rest r.1
    (r'.1, r.2 ++ r'.2)

def gFinish (s : GSt) (members : List GField) : GLayout :=
  { size := roundUp ((s.maxbits + 7) / 8) s.align, align := s.align, fields := members }

def completeG (isUnion : Bool) (pack : Nat) (fields : List (FField GField)) : GLayout :=
  let r := gLoop isUnion pack fields GSt.init
  gFinish r.1 r.2

structure GInfo where
  size : Nat
  align : Nat
  intlike : Bool
  isArray : Bool
  isAgg : Bool
  sub : List GField
deriving DecidableEq, Repr

def GInfo.toField (i : GInfo) (named : Bool) (bits : Option Nat) (flex : Bool) : FField GField :=
  { named := named, size := if flex then none else some i.size, align := i.align, bits := bits,
    intlike := if flex then false else i.intlike,
    isArray := flex || i.isArray, isAgg := if flex then false else i.isAgg,
    sub := if flex then [] else i.sub }

mutual
def infoG : Ty → GInfo
  | .prim size align intlike =>
    { size := size, align := align, intlike := intlike, isArray := false, isAgg := false, sub := [] }
  | .arr elem len =>
    let i := infoG elem
    { size := len * i.size, align := i.align, intlike := false, isArray := true, isAgg := false, sub := [] }
  | .agg isUnion pack fields =>
    let l := completeG isUnion pack (fieldsG fields)
    { size := l.size, align := l.align, intlike := false, isArray := false, isAgg := true, sub := l.fields }
def fieldsG : Fields → List (FField GField)
  | .nil => []
  | .cons named bits flex ty rest => (infoG ty).toField named bits flex :: fieldsG rest
end

/-- the compiler's `sizeof`, `_Alignof` and member positions of the aggregate `d` -/
def layout : Ty → GLayout
  | .agg isUnion pack fields => completeG isUnion pack (fieldsG fields)
  | .prim size align _ => { size := size, align := align, fields := [] }
  | .arr elem len => { size := len * (infoG elem).size, align := (infoG elem).align, fields := [] }

end CffiVerif.GccLayout
