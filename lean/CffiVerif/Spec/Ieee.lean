/-!
# IEEE-754 binary64 ⇄ binary32 conversion on bit patterns  (independent spec, C05)

This is *not* a model of cffi code: it is the specification of what the C
conversions `(float)d` and `(double)f` compute on x86-64 (SSE2 `cvtsd2ss` /
`cvtss2sd`, default rounding mode round-to-nearest-even, exceptions masked).
cffi's `write_raw_float_data` / `read_raw_float_data` perform exactly these two
C conversions and `memcpy` the result (`Model/FloatStore.lean`).

The spec works on the natural numbers `0 ≤ x < 2^64` / `0 ≤ b < 2^32` that are
the little-endian bit patterns; `narrow`/`widen` wrap them for `UInt64`/`UInt32`.

binary64: sign 1 bit, biased exponent `e` 11 bits (bias 1023), fraction `m` 52 bits.
  finite value = (-1)^s · sig · 2^(e' − 1075),
  `sig = m, e' = 1` if `e = 0` (subnormal), `sig = 2^52 + m, e' = e` otherwise.
binary32: sign 1 bit, biased exponent `E` 8 bits (bias 127), fraction `f` 23 bits.
  finite value = (-1)^s · sig · 2^(E' − 150).
-/
namespace CffiVerif.Ieee

/-! ## field access -/

def sign64 (x : Nat) : Nat := x / 2 ^ 63 % 2
def exp64 (x : Nat) : Nat := x / 2 ^ 52 % 2048
def man64 (x : Nat) : Nat := x % 2 ^ 52

def sign32 (b : Nat) : Nat := b / 2 ^ 31 % 2
def exp32 (b : Nat) : Nat := b / 2 ^ 23 % 256
def man32 (b : Nat) : Nat := b % 2 ^ 23

def inf32 : Nat := 0x7f800000
def qnan32 : Nat := 0x7fc00000
def inf64 : Nat := 0x7ff0000000000000
def qnan64 : Nat := 0x7ff8000000000000

def isNaN64 (x : Nat) : Prop := exp64 x = 2047 ∧ man64 x ≠ 0
def isInf64 (x : Nat) : Prop := exp64 x = 2047 ∧ man64 x = 0
def isNaN32 (b : Nat) : Prop := exp32 b = 255 ∧ man32 b ≠ 0
def isInf32 (b : Nat) : Prop := exp32 b = 255 ∧ man32 b = 0

instance (x : Nat) : Decidable (isNaN64 x) := by unfold isNaN64; infer_instance
instance (x : Nat) : Decidable (isInf64 x) := by unfold isInf64; infer_instance
instance (b : Nat) : Decidable (isNaN32 b) := by unfold isNaN32; infer_instance
instance (b : Nat) : Decidable (isInf32 b) := by unfold isInf32; infer_instance

/-! ## rounding -/

/-- `sig / 2^shift` rounded to nearest, ties to even. -/
def rne (sig shift : Nat) : Nat :=
  let q := sig / 2 ^ shift
  let r := sig % 2 ^ shift
  if 2 * r > 2 ^ shift ∨ (2 * r = 2 ^ shift ∧ q % 2 = 1) then q + 1 else q

/-! ## binary64 → binary32 -/

/-- Magnitude (low 31 bits) of the narrowed pattern, from exponent and fraction
of the binary64 pattern. -/
def narrowMag (e m : Nat) : Nat :=
  if e = 2047 then
    -- ∞ stays ∞; a NaN keeps the top 22 payload bits and gets the quiet bit
    -- (what `cvtsd2ss` delivers with the invalid exception masked)
    if m = 0 then inf32 else qnan32 + m / 2 ^ 29 % 2 ^ 22
  else if e = 0 then
    -- binary64 zero / subnormal: |value| < 2^-1022, far below half the
    -- smallest binary32 subnormal (2^-150): rounds to zero
    0
  else if 897 ≤ e then
    -- result exponent E = e − 896 ≥ 1: drop 29 fraction bits.  The rounded
    -- 24-bit significand (hidden bit included) is *added* to (E−1)·2^23, so
    -- a carry out of the significand increments the exponent; reaching
    -- exponent 255 is overflow to ∞.
    let r := (e - 897) * 2 ^ 23 + rne (2 ^ 52 + m) 29
    if inf32 ≤ r then inf32 else r
  else
    -- gradual underflow: the result is a multiple of 2^-149,
    -- value = sig·2^(e−1075) = sig / 2^(926−e) · 2^-149
    rne (2 ^ 52 + m) (926 - e)

def narrowNat (x : Nat) : Nat := sign64 x * 2 ^ 31 + narrowMag (exp64 x) (man64 x)

/-! ## binary32 → binary64 (exact) -/

def widenMag (E f : Nat) : Nat :=
  if E = 255 then
    -- `cvtss2sd` quiets a signalling NaN and keeps the payload
    if f = 0 then inf64 else qnan64 + f % 2 ^ 22 * 2 ^ 29
  else if E = 0 then
    if f = 0 then 0
    else
      -- subnormal f·2^-149 with 2^k ≤ f < 2^(k+1) is the normal binary64
      -- (f·2^(52−k))·2^(874+k−1075); `% 2^52` drops the hidden bit
      let k := Nat.log2 f
      (874 + k) * 2 ^ 52 + f * 2 ^ (52 - k) % 2 ^ 52
  else (E + 896) * 2 ^ 52 + f * 2 ^ 29

def widenNat (b : Nat) : Nat := sign32 b * 2 ^ 63 + widenMag (exp32 b) (man32 b)

/-! ## values

Every finite binary32 and binary64 number is an integer multiple of 2^-1074;
`scaled* x` is `value · 2^1074 ∈ ℤ` and `value*` the rational value itself
(`none` for ∞ and NaN). -/

def scaledMag64 (e m : Nat) : Nat := if e = 0 then m else (2 ^ 52 + m) * 2 ^ (e - 1)
def scaledMag32 (E f : Nat) : Nat := if E = 0 then f * 2 ^ 925 else (2 ^ 23 + f) * 2 ^ (E + 924)

def scaled64 (x : Nat) : Int :=
  if sign64 x = 1 then -(scaledMag64 (exp64 x) (man64 x) : Int) else scaledMag64 (exp64 x) (man64 x)
def scaled32 (b : Nat) : Int :=
  if sign32 b = 1 then -(scaledMag32 (exp32 b) (man32 b) : Int) else scaledMag32 (exp32 b) (man32 b)

def value64 (x : Nat) : Option Rat :=
  if exp64 x = 2047 then none else some ((scaled64 x : Rat) / (2 : Rat) ^ 1074)
def value32 (b : Nat) : Option Rat :=
  if exp32 b = 255 then none else some ((scaled32 b : Rat) / (2 : Rat) ^ 1074)

/-- Order key of a binary64/binary32 pattern: sign-magnitude read as an
integer.  It orders the patterns exactly like the represented values, with
−0 = +0 (`key64_orders_like_value` in `Props/C05.lean`). -/
def key64 (x : Nat) : Int := if sign64 x = 1 then -((x % 2 ^ 63 : Nat) : Int) else ((x % 2 ^ 63 : Nat) : Int)
def key32 (b : Nat) : Int := if sign32 b = 1 then -((b % 2 ^ 31 : Nat) : Int) else ((b % 2 ^ 31 : Nat) : Int)

/-! ## `UInt` wrappers -/

def narrow (d : UInt64) : UInt32 := UInt32.ofNat (narrowNat d.toNat)
def widen (b : UInt32) : UInt64 := UInt64.ofNat (widenNat b.toNat)

def isNaN (b : UInt32) : Prop := isNaN32 b.toNat
def isNaNd (d : UInt64) : Prop := isNaN64 d.toNat
instance (b : UInt32) : Decidable (isNaN b) := by unfold isNaN; infer_instance
instance (d : UInt64) : Decidable (isNaNd d) := by unfold isNaNd; infer_instance

end CffiVerif.Ieee
