import CffiVerif.Model.Index
import CffiVerif.Proofs.Mem
/-! Helper lemmas for the C16 theorems: 64-bit wrap-around arithmetic, `Memory.store`,
the item loop of slice assignment. -/
namespace CffiVerif.Index
open CffiVerif.Mem

/-! ### meaning of the definitions regenerated from the C source (Generated/IndexExprs.lean)

Each lemma states what the model's theorems need of one extracted expression; when the C
source changes an expression, its lemma stops checking. -/

theorem gen_mulWraparound (x y : Int) : G.mulWraparound x y = wrapS (x * y) := rfl
theorem gen_ownPtrIndexRejected (i : Int) : G.ownPtrIndexRejected i ↔ i ≠ 0 := Iff.rfl
theorem gen_ptrIsNull (a : Nat) : G.ptrIsNull (a : Int) ↔ a = 0 := by
  unfold Generated.IndexExprs.ptrIsNull; omega
theorem gen_arrayIndexNegative (i : Int) : G.arrayIndexNegative i ↔ i < 0 := Iff.rfl
theorem gen_arrayIndexTooLarge (i n : Int) : G.arrayIndexTooLarge i n ↔ i ≥ n := Iff.rfl
theorem gen_itemAddr (a i s : Int) : G.itemAddr a i s = a + i * s := rfl
theorem gen_sliceStartAfterStop (s e : Int) : G.sliceStartAfterStop s e ↔ s > e := Iff.rfl
theorem gen_sliceStartNegative (s : Int) : G.sliceStartNegative s ↔ s < 0 := Iff.rfl
theorem gen_sliceStopTooLarge (e n : Int) : G.sliceStopTooLarge e n ↔ e > n := Iff.rfl
theorem gen_sliceBound0 (s e : Int) : G.sliceBound0 s e = s := rfl
theorem gen_sliceBound1 (s e : Int) : G.sliceBound1 s e = e - s := rfl
theorem gen_sliceAddr (a z s : Int) : G.sliceAddr a z s = a + z * s := rfl
theorem gen_sliceLength (l : Int) : G.sliceLength l = l := rfl
theorem gen_assSliceAddr (a z s : Int) : G.assSliceAddr a z s = a + z * s := rfl
theorem gen_assSliceLength (l : Int) : G.assSliceLength l = l := rfl
theorem gen_assSliceMoveBytes (z l : Int) : G.assSliceMoveBytes z l = z * l := rfl
theorem gen_assSliceBytesLenMismatch (a l : Int) : G.assSliceBytesLenMismatch a l ↔ a ≠ l := Iff.rfl
theorem gen_addScaled (i sign : Int) : G.addScaled i sign = i * sign := rfl
theorem gen_addItemSizeUnknown (z : Int) : G.addItemSizeUnknown z ↔ z < 0 := Iff.rfl
theorem gen_addVoidItemSize (z : Int) : G.addVoidItemSize z = 1 := rfl
theorem gen_addAddr (a i z : Int) : G.addAddr a i z = a + i * z := rfl
theorem gen_subItemSizeNotPositive (z : Int) : G.subItemSizeNotPositive z ↔ z ≤ 0 := Iff.rfl
theorem gen_subByteDiff (v w : Int) : G.subByteDiff v w = v - w := rfl
theorem gen_subNeedsDivision (z : Int) : G.subNeedsDivision z ↔ z > 1 := Iff.rfl
theorem gen_subNotMultiple (d z : Int) : G.subNotMultiple d z ↔ d.tmod z ≠ 0 := Iff.rfl
theorem gen_subItemDiff (d z : Int) : G.subItemDiff d z = d.tdiv z := rfl
theorem gen_offsetofItemSizeUnknown (z : Int) : G.offsetofItemSizeUnknown z ↔ z < 0 := Iff.rfl
theorem gen_offsetofOffset (i z : Int) : G.offsetofOffset i z = wrapS (i * z) := rfl
theorem gen_offsetofOverflow (o i z : Int) : G.offsetofOverflow o i z ↔ (z ≠ 0 ∧ o.tdiv z ≠ i) := Iff.rfl

/-- Rewrites every generated definition into its meaning. -/
syntax "gen_norm" (Lean.Parser.Tactic.location)? : tactic
macro_rules
  | `(tactic| gen_norm $[$loc]?) => `(tactic| simp only [gen_mulWraparound, gen_ownPtrIndexRejected, gen_ptrIsNull,
      gen_arrayIndexNegative, gen_arrayIndexTooLarge, gen_itemAddr, gen_sliceStartAfterStop, gen_sliceStartNegative,
      gen_sliceStopTooLarge, gen_sliceBound0, gen_sliceBound1, gen_sliceAddr, gen_sliceLength, gen_assSliceAddr,
      gen_assSliceLength, gen_assSliceMoveBytes, gen_assSliceBytesLenMismatch, gen_addScaled, gen_addItemSizeUnknown,
      gen_addVoidItemSize, gen_addAddr, gen_subItemSizeNotPositive, gen_subByteDiff, gen_subNeedsDivision,
      gen_subNotMultiple, gen_subItemDiff, gen_offsetofItemSizeUnknown, gen_offsetofOffset, gen_offsetofOverflow]
      $[$loc]?)

/-- fits + wrapS identity -/
theorem wrapS_of_fits (x : Int) (h : fitsSsize x) : wrapS x = x := by
  unfold wrapS two64 ssizeMax
  unfold fitsSsize ssizeMin ssizeMax at h
  simp only
  split <;> omega

theorem wrapS_fits (x : Int) : fitsSsize (wrapS x) := by
  unfold wrapS two64 fitsSsize ssizeMin ssizeMax
  simp only
  split <;> omega

theorem wrapS_wrapU_sub (a : Nat) (_ha : (a : Int) < two64) (x : Int) (hx : fitsSsize x) :
    wrapS ((wrapU ((a : Int) + x) : Int) - (a : Int)) = x := by
  unfold wrapS wrapU two64 ssizeMax at *
  unfold fitsSsize ssizeMin ssizeMax at hx
  simp only
  split <;> omega

theorem wrapU_add_mul_assoc (a : Nat) (s i k : Int) :
    wrapU ((wrapU ((a : Int) + s * i) : Int) + k * s) = wrapU ((a : Int) + (i + k) * s) := by
  have e : (i + k) * s = s * i + k * s := by rw [Int.add_mul, Int.mul_comm i s]
  rw [e]
  generalize s * i = X
  generalize k * s = Y
  unfold wrapU two64
  omega

/-- The overflow test of `direct_typeoffsetof` is exact. -/
theorem mulwrap_check (i s : Int) (hs : s > 0) (hs2 : fitsSsize s) :
    (wrapS (i * s)).tdiv s = i ↔ fitsSsize (i * s) := by
  constructor
  · intro h
    have e1 := Int.mul_tdiv_add_tmod (wrapS (i * s)) s
    rw [h] at e1
    have r1 := Int.tmod_lt_of_pos (wrapS (i * s)) hs
    have r2 : -s < (wrapS (i * s)).tmod s := by
      have := Int.lt_tmod_of_pos (wrapS (i * s)) hs   -- may not exist
      omega
    generalize (wrapS (i * s)).tmod s = r at *
    have e2 : s * i = i * s := Int.mul_comm s i
    rw [e2] at e1
    revert e1
    unfold wrapS two64 fitsSsize ssizeMin ssizeMax at *
    generalize i * s = P
    simp only
    intro e1
    split at e1 <;> omega
  · intro h
    rw [wrapS_of_fits _ h]
    exact Int.mul_tdiv_cancel i (by omega)

theorem index_addr (cd : CData) (key : PyArg) (a : Nat) (h : indexedPtr cd key = .ok a) :
    ∃ i, key = .int i ∧ fitsSsize i ∧ a = wrapU (cd.addr + i * cd.isize) := by
  unfold indexedPtr at h
  gen_norm at h
  split at h
  · cases h
  · cases h
  · rename_i i
    split at h
    · cases h
    · rename_i hf
      refine ⟨i, rfl, by simpa using hf, ?_⟩
      split at h
      · split at h
        · cases h
        · injection h with h; exact h.symm
      · split at h
        · cases h
        · injection h with h; exact h.symm
      · split at h
        · cases h
        · split at h
          · cases h
          · injection h with h; exact h.symm
      · cases h

theorem indexedPtr_array_ok (cd : CData) (n : Nat) (hk : cd.kind = .array n) (hn : (n : Int) ≤ ssizeMax)
    (i : Int) (h : 0 ≤ i ∧ i < n) : indexedPtr cd (.int i) = .ok (wrapU (cd.addr + i * cd.isize)) := by
  unfold indexedPtr
  gen_norm
  simp only [hk]
  unfold fitsSsize ssizeMin ssizeMax at *
  have f : ¬ ¬ (-9223372036854775808 ≤ i ∧ i ≤ 9223372036854775807) := by omega
  have g1 : ¬ i < 0 := by omega
  have g2 : ¬ i ≥ n := by omega
  simp only [f, g1, g2, if_false]

theorem slice_ok_value (cd : CData) (n : Nat) (hk : cd.kind = .array n) (hn : (n : Int) ≤ ssizeMax)
    (i j : Int) (h : 0 ≤ i ∧ i ≤ j ∧ j ≤ n) :
    sliceArg cd (.int i) (.int j) .none = .ok (i, j - i) := by
  unfold sliceArg ssizeArg
  gen_norm
  simp only [hk]
  unfold fitsSsize ssizeMin ssizeMax at *
  have f1 : (-9223372036854775808 ≤ i ∧ i ≤ 9223372036854775807) := by omega
  have f2 : (-9223372036854775808 ≤ j ∧ j ≤ 9223372036854775807) := by omega
  have g0 : ¬ i > j := by omega
  have g1 : ¬ i < 0 := by omega
  have g2 : ¬ j > n := by omega
  simp only [f1, f2, g0, g1, g2, and_self, if_true, ne_eq, not_true_eq_false, if_false]

def AllOk (isz : Nat) (vs : List Item) : Prop := ∀ v ∈ vs, ∃ bs, v = .ok bs ∧ bs.length = isz

def payload : List Item → Bytes
  | [] => []
  | .ok bs :: vs => bs ++ payload vs
  | .error _ :: vs => payload vs

theorem store_ok_iff (m : Memory) (a : Nat) (bs : Bytes) (m' : Memory) :
    m.store a bs = .ok m' ↔ (m.base ≤ a ∧ ∃ b, write m.bytes (a - m.base) bs = some b ∧ m' = { m with bytes := b }) := by
  unfold Memory.store
  constructor
  · intro h
    split at h
    · rename_i hb
      split at h
      · rename_i b hw
        injection h with h
        exact ⟨hb, b, hw, h.symm⟩
      · cases h
    · cases h
  · intro ⟨hb, b, hw, e⟩
    rw [if_pos hb, hw, e]

theorem store_base_len {m m' : Memory} {a : Nat} {bs : Bytes} (h : m.store a bs = .ok m') :
    m'.base = m.base ∧ m'.bytes.length = m.bytes.length := by
  obtain ⟨_, b, hw, e⟩ := (store_ok_iff m a bs m').mp h
  subst e
  exact ⟨rfl, write_length hw⟩

theorem store_exists (m : Memory) (a : Nat) (bs : Bytes) (h : m.base ≤ a)
    (h2 : a + bs.length ≤ m.base + m.bytes.length) : ∃ m', m.store a bs = .ok m' := by
  obtain ⟨b, hb⟩ := write_isSome (m := m.bytes) (off := a - m.base) (bs := bs) (by omega)
  exact ⟨{ m with bytes := b }, (store_ok_iff m a bs _).mpr ⟨h, b, hb, rfl⟩⟩

theorem store_nil (m : Memory) (a : Nat) (h : m.base ≤ a) (h2 : a ≤ m.base + m.bytes.length) :
    m.store a [] = .ok m := by
  rw [store_ok_iff]
  exact ⟨h, m.bytes, write_nil (by omega), rfl⟩

theorem store_append {m m1 m2 : Memory} {a : Nat} {x y : Bytes} (h1 : m.store a x = .ok m1)
    (h2 : m1.store (a + x.length) y = .ok m2) : m.store a (x ++ y) = .ok m2 := by
  obtain ⟨hb, b1, hw1, e1⟩ := (store_ok_iff _ _ _ _).mp h1
  obtain ⟨_, b2, hw2, e2⟩ := (store_ok_iff _ _ _ _).mp h2
  subst e1
  simp only at hw2 e2
  rw [store_ok_iff]
  refine ⟨hb, b2, ?_, by rw [e2]⟩
  have : a + x.length - m.base = a - m.base + x.length := by omega
  rw [this] at hw2
  exact write_append hw1 hw2

theorem assLoop_spec (isz : Nat) (n : Nat) : ∀ (vs : List Item) (m : Memory) (addr : Nat),
    AllOk isz vs → m.base ≤ addr → addr + n * isz ≤ m.base + m.bytes.length →
    ∃ m', m.store addr (payload (vs.take n)) = .ok m' ∧
      assLoop m addr isz n vs = (m', if vs.length = n then .ok () else .error .ValueError) := by
  induction n with
  | zero =>
    intro vs m addr _ hb hin
    refine ⟨m, ?_, ?_⟩
    · simp only [List.take_zero, payload]
      exact store_nil m addr hb (by omega)
    · cases vs with
      | nil => simp [assLoop]
      | cons v vs => simp [assLoop]
  | succ n ih =>
    intro vs m addr hall hb hin
    have hmul : (n + 1) * isz = n * isz + isz := Nat.succ_mul n isz
    cases vs with
    | nil =>
      refine ⟨m, ?_, ?_⟩
      · simp only [List.take_nil, payload]
        exact store_nil m addr hb (by omega)
      · simp [assLoop]
    | cons v vs =>
      obtain ⟨bs, hv, hbl⟩ := hall v (by simp)
      subst hv
      obtain ⟨m1, hm1⟩ := store_exists m addr bs hb (by omega)
      obtain ⟨hb1, hl1⟩ := store_base_len hm1
      obtain ⟨m', hst, hloop⟩ := ih vs m1 (addr + isz) (fun w hw => hall w (by simp [hw]))
        (by omega) (by omega)
      refine ⟨m', ?_, ?_⟩
      · simp only [List.take_succ_cons, payload]
        rw [← hbl] at hst
        exact store_append hm1 hst
      · simp only [assLoop, storeItem, hbl, ne_eq, not_true_eq_false, if_false, hm1, hloop,
          List.length_cons, Nat.add_right_cancel_iff]

/-- The array `cd` of `n` items lies inside the allocation `m`, which does not
wrap around the 64-bit address space. -/
def InAlloc (m : Memory) (cd : CData) (n : Nat) : Prop :=
  0 < cd.isize ∧ m.base ≤ cd.addr ∧
    cd.addr + n * cd.isize.toNat ≤ m.base + m.bytes.length ∧
    ((m.base + m.bytes.length : Nat) : Int) < two64

theorem slice_addr_exact (m : Memory) (cd : CData) (n : Nat) (hin : InAlloc m cd n) (a b : Nat)
    (hab : a ≤ b) (hbn : b ≤ n) :
    wrapU ((cd.addr : Int) + cd.isize * (a : Int)) = cd.addr + a * cd.isize.toNat ∧
    cd.addr + a * cd.isize.toNat + (b - a) * cd.isize.toNat ≤ m.base + m.bytes.length := by
  obtain ⟨hs, hb, hfit, h64⟩ := hin
  obtain ⟨s, hs'⟩ := Int.eq_ofNat_of_zero_le (Int.le_of_lt hs)
  rw [hs'] at hfit ⊢
  simp only [Int.toNat_natCast] at hfit ⊢
  have e1 : a * s + (b - a) * s = b * s := by
    rw [← Nat.add_mul]; congr 1; omega
  have e2 : b * s ≤ n * s := Nat.mul_le_mul_right s hbn
  have e3 : (s : Int) * (a : Int) = ((a * s : Nat) : Int) := by
    rw [Int.natCast_mul, Int.mul_comm]
  rw [e3]
  generalize a * s = P at *
  generalize (b - a) * s = Q at *
  generalize b * s = R at *
  generalize n * s = T at *
  unfold wrapU two64 at *
  omega

end CffiVerif.Index
