import CffiVerif.Proofs.EmbeddingA

/-!
Inductive invariant of the `Embedding` transition system, part B: the components about the
reentrant mutex (level counting), the one-time initialisation status and the shape of the
stacks; then `Inv` is shown inductive and lifted to every reachable state.
-/
namespace CffiVerif.Embedding
set_option linter.unusedSimpArgs false
set_option linter.unusedVariables false

@[simp] theorem countHold_nil (L : Lib) : countHold L [] = 0 := rfl
theorem countHold_cons (L : Lib) (f : Frame) (r : List Frame) :
    countHold L (f :: r) = countHold L r + (if f.lib = L ∧ holdsPc f.pc = true then 1 else 0) := by
  unfold countHold
  rw [List.countP_cons]
  simp

theorem initPc_holds : ∀ pc, initPc pc = true → holdsPc pc = true := by
  intro pc; cases pc <;> simp [initPc, holdsPc] <;> (rename_i k; cases k <;> simp)

theorem stackOK_cons (f : Frame) (rest : List Frame) :
    StackOK (f :: rest) = ((initPc f.pc = true → ∀ g ∈ rest, g.lib = f.lib → initPc g.pc = false ∧ gatePc g.pc = false) ∧ StackOK rest) := rfl

def Label.tid : Label → Tid
  | .call t _ | .ret t | .step t | .yield t | .callOut t | .callBack t | .finish t _ | .startupFail t => t

theorem pres_h3 {s s' : State} {l : Label} (hI : Inv s) (h : step? s l = some s') :
    ∀ t L, countHold L (s'.thr t) = if (s'.lib L).owner = some t then (s'.lib L).depth else 0 := by
  have h3 := hI.h3
  have h3' := hI.h3'
  have ho := hI.holds_owner_hd
  intro u L
  have h3u := h3 u L
  have h3t := h3 l.tid L
  by_cases hu : u = l.tid
  all_goals step_cases h
  all_goals simp only [setHead, setLib, upd, Label.tid] at *
  all_goals try simp only [‹s.thr _ = _›, countHold_cons, countHold_nil] at h3t
  all_goals try simp only [hu, if_true, if_false, countHold_cons, countHold_nil]
  all_goals grind [holdsPc]

theorem pres_h3' {s s' : State} {l : Label} (hI : Inv s) (h : step? s l = some s') :
    ∀ L, (s'.lib L).owner = none ↔ (s'.lib L).depth = 0 := by
  have h3' := hI.h3'
  have ho := hI.holds_owner_hd
  step_cases h
  all_goals simp only [setHead, setLib, upd]
  all_goals grind [holdsPc]

theorem pres_stk {s s' : State} {l : Label} (hI : Inv s) (h : step? s l = some s') :
    ∀ t, StackOK (s'.thr t) := by
  have stk := hI.stk
  have f3 := hI.f3
  have f4 := hI.f4
  have f6 := hI.f6
  have l2 := hI.l2
  intro u
  have stku := stk u
  have stkt := stk l.tid
  by_cases hu : u = l.tid
  all_goals step_cases h
  all_goals simp only [setHead, setLib, upd, Label.tid] at *
  all_goals try simp only [‹s.thr _ = _›, stackOK_cons] at stkt
  all_goals try simp only [hu, if_true, if_false, stackOK_cons]
  all_goals grind [initPc, gatePc, StackOK]

theorem pres_f4 {s s' : State} {l : Label} (hI : Inv s) (h : step? s l = some s') :
    ∀ t, ∀ f ∈ s'.thr t, initPc f.pc = true →
      (s'.lib f.lib).status = .running ∧ (s'.lib f.lib).initBy = some t := by
  have f3 := hI.f3
  have f4 := hI.f4
  have l2 := hI.l2
  have stkt := hI.stk l.tid
  step_cases h
  all_goals simp only [setHead, setLib, upd, Label.tid] at *
  all_goals try simp only [‹s.thr _ = _›, stackOK_cons] at stkt
  all_goals grind [initPc]

theorem Inv.running_owner {s : State} (hI : Inv s) (L : Lib) (u : Tid)
    (hr : (s.lib L).status = .running) (hb : (s.lib L).initBy = some u) : (s.lib L).owner = some u := by
  have := hI.l5b L u hr hb
  rw [hasInit_iff] at this
  obtain ⟨f, hf, hl, hp⟩ := this
  have := hI.holds_owner u f hf (initPc_holds _ hp)
  rwa [hl] at this

theorem Inv.l5a' {s : State} (hI : Inv s) (L : Lib)
    (hr : (s.lib L).status = .running) : ∃ u, (s.lib L).initBy = some u := by
  have := hI.l5a L hr
  cases h : (s.lib L).initBy with
  | none => exact absurd h this
  | some u => exact ⟨u, rfl⟩

theorem pres_f5 {s s' : State} {l : Label} (hI : Inv s) (h : step? s l = some s') :
    ∀ t f rest, s'.thr t = f :: rest → (f.pc = .mutexRelease ∨ f.pc = .gotFn) →
      (s'.lib f.lib).status ≠ .notStarted ∧ ((s'.lib f.lib).status = .running → (s'.lib f.lib).initBy = some t) := by
  have f3 := hI.f3
  have f4 := hI.f4
  have f5 := hI.f5
  have l2 := hI.l2
  have l5a := hI.l5a'
  have ro := hI.running_owner
  have wf2 := hI.wf2
  have ho' := hI.holds_owner_hd
  step_cases h
  all_goals simp only [setHead, setLib, upd, Label.tid] at *
  all_goals grind [initPc, holdsPc]

theorem pres_f6 {s s' : State} {l : Label} (hI : Inv s) (h : step? s l = some s') :
    ∀ t, ∀ f ∈ s'.thr t, gatePc f.pc = true →
      (s'.lib f.lib).status = .ok ∨ ((s'.lib f.lib).status = .running ∧ (s'.lib f.lib).initBy = some t) := by
  have f3 := hI.f3
  have f4 := hI.f4
  have f5 := hI.f5
  have f6 := hI.f6
  have l2 := hI.l2
  have l3 := hI.l3
  have l4 := hI.l4
  have stkt := hI.stk l.tid
  step_cases h
  all_goals simp only [setHead, setLib, upd, Label.tid] at *
  all_goals try simp only [‹s.thr _ = _›, stackOK_cons] at stkt
  all_goals grind [initPc, gatePc]

theorem pres_l5a {s s' : State} {l : Label} (hI : Inv s) (h : step? s l = some s') :
    ∀ L, (s'.lib L).status = .running → (s'.lib L).initBy ≠ none := by
  have l5a := hI.l5a
  step_cases h
  all_goals simp only [setHead, setLib, upd, Label.tid] at *
  all_goals grind

theorem pres_l5b {s s' : State} {l : Label} (hI : Inv s) (h : step? s l = some s') :
    ∀ L u, (s'.lib L).status = .running → (s'.lib L).initBy = some u → hasInit L (s'.thr u) = true := by
  have f3 := hI.f3
  have f4 := hI.f4
  have l2 := hI.l2
  have l5b := hI.l5b
  intro L u
  have l5L := l5b L u
  have l5t := l5b L l.tid
  step_cases h
  all_goals simp only [setHead, setLib, upd, Label.tid] at *
  all_goals try simp only [‹s.thr _ = _›, hasInit_cons] at l5t
  all_goals by_cases hu : u = ‹Tid›
  all_goals try simp only [hu, if_true, if_false, hasInit_cons]
  all_goals grind [initPc, hasInit_cons]

theorem inv_init : Inv init := by
  constructor <;> simp [init, countHold, StackOK]

theorem inv_step {s s' : State} {l : Label} (hI : Inv s) (h : step? s l = some s') : Inv s' where
  g1 := pres_g1 hI h
  g2 := pres_g2 hI h
  h1a := pres_h1a hI h
  h1b := pres_h1b hI h
  h2a := pres_h2a hI h
  h2b := pres_h2b hI h
  h3 := pres_h3 hI h
  h3' := pres_h3' hI h
  wf := pres_wf hI h
  stk := pres_stk hI h
  f1 := pres_f1 hI h
  f3 := pres_f3 hI h
  f4 := pres_f4 hI h
  f5 := pres_f5 hI h
  f6 := pres_f6 hI h
  f7 := pres_f7 hI h
  l1 := pres_l1 hI h
  l2 := pres_l2 hI h
  l3 := pres_l3 hI h
  l4 := pres_l4 hI h
  l5a := pres_l5a hI h
  l5b := pres_l5b hI h
  l6 := pres_l6 hI h

theorem reachable_inv {s : State} (h : Reachable s) : Inv s := by
  induction h with
  | init => exact inv_init
  | step l _ hs ih => exact inv_step ih hs

end CffiVerif.Embedding
