import CffiVerif.Model.DefineLiteral

/-! Helper lemmas for C30: `_r_int_literal` as a DFA, the text handed to `int()` by
`_add_integer_constant`, and when `int(s, 0)` accepts it. -/
namespace CffiVerif.DefineLiteral

theorem inRange_iff {c : Char} {lo hi : Nat} : inRange c lo hi = true ↔ lo ≤ c.toNat ∧ c.toNat ≤ hi := by
  simp [inRange]

theorem inRange_false_iff {c : Char} {lo hi : Nat} : inRange c lo hi = false ↔ ¬ (lo ≤ c.toNat ∧ c.toNat ≤ hi) := by
  rw [← inRange_iff]; simp

theorem toNat_ofNat_small (n : Nat) (h : n < 55296) : (Char.ofNat n).toNat = n := by
  have hv : n.isValidChar := by unfold Nat.isValidChar; omega
  simp [Char.ofNat, hv, Char.ofNatAux, Char.toNat] <;> omega

theorem lowerChar_toNat (c : Char) :
    (lowerChar c).toNat = if 65 ≤ c.toNat ∧ c.toNat ≤ 90 then c.toNat + 32 else c.toNat := by
  unfold lowerChar
  by_cases h : 65 ≤ c.toNat ∧ c.toNat ≤ 90
  · rw [if_pos (inRange_iff.mpr h), if_pos h]; exact toNat_ofNat_small _ (by omega)
  · rw [if_neg (by rw [inRange_iff]; exact h), if_neg h]

theorem eq_of_toNat_eq {c d : Char} (h : c.toNat = d.toNat) : c = d := by
  have h1 := Char.ofNat_toNat c
  have h2 := Char.ofNat_toNat d
  rw [h] at h1; rw [← h1, h2]

/-- lower-case hex digit -/
def isLowerHex (c : Char) : Bool := inRange c 48 57 || inRange c 97 102

theorem isLowerHex_iff {c : Char} : isLowerHex c = true ↔ (48 ≤ c.toNat ∧ c.toNat ≤ 57) ∨ (97 ≤ c.toNat ∧ c.toNat ≤ 102) := by
  simp [isLowerHex, inRange_iff]

theorem isHex_iff {c : Char} : isHex c = true ↔ (48 ≤ c.toNat ∧ c.toNat ≤ 57) ∨ (97 ≤ c.toNat ∧ c.toNat ≤ 102) ∨ (65 ≤ c.toNat ∧ c.toNat ≤ 70) := by
  simp [isHex, inRange_iff, or_assoc]

theorem lower_hex {c : Char} (h : isHex c = true) : isLowerHex (lowerChar c) = true := by
  rw [isLowerHex_iff, lowerChar_toNat]
  rw [isHex_iff] at h
  split <;> omega

theorem isLowerLU_iff {c : Char} : isLowerLU c = true ↔ c.toNat = 117 ∨ c.toNat = 108 := by
  unfold isLowerLU
  simp only [Bool.or_eq_true, beq_iff_eq]
  constructor
  · rintro (h | h) <;> subst h <;> simp
  · rintro (h | h)
    · left; exact eq_of_toNat_eq h
    · right; exact eq_of_toNat_eq h

theorem isLU_iff {c : Char} : isLU c = true ↔ c.toNat = 108 ∨ c.toNat = 76 ∨ c.toNat = 117 ∨ c.toNat = 85 := by
  unfold isLU
  simp only [Bool.or_eq_true, beq_iff_eq]
  constructor
  · rintro (((h | h) | h) | h) <;> subst h <;> simp
  · rintro (h | h | h | h)
    · left; left; left; exact eq_of_toNat_eq h
    · left; left; right; exact eq_of_toNat_eq h
    · left; right; exact eq_of_toNat_eq h
    · right; exact eq_of_toNat_eq h

theorem isX_iff {c : Char} : isX c = true ↔ c.toNat = 120 ∨ c.toNat = 88 := by
  unfold isX
  simp only [Bool.or_eq_true, beq_iff_eq]
  constructor
  · rintro (h | h) <;> subst h <;> simp
  · rintro (h | h)
    · left; exact eq_of_toNat_eq h
    · right; exact eq_of_toNat_eq h

theorem lower_LU {c : Char} (h : isLU c = true) : isLowerLU (lowerChar c) = true := by
  rw [isLowerLU_iff, lowerChar_toNat]
  rw [isLU_iff] at h
  split <;> omega

theorem lower_X {c : Char} (h : isX c = true) : lowerChar c = 'x' := by
  apply eq_of_toNat_eq
  rw [lowerChar_toNat]
  rw [isX_iff] at h
  have : 'x'.toNat = 120 := rfl
  split <;> omega

theorem lowerHex_not_LU {c : Char} (h : isLowerHex c = true) : isLowerLU c = false := by
  rw [Bool.eq_false_iff]; intro h2
  rw [isLowerLU_iff] at h2; rw [isLowerHex_iff] at h; omega


/-! ### DFA ⊆ regex -/

theorem run_dead (s : List Char) : run .dead s = .dead := by
  induction s with
  | nil => rfl
  | cons c s ih => simpa [run, List.foldl, step] using ih

theorem run_cons (q : St) (c : Char) (s : List Char) : run q (c :: s) = run (step q c) s := rfl

theorem suf_shape (s : List Char) (h : (run .suf s).accepting = true) : ∀ c ∈ s, isLU c = true := by
  induction s with
  | nil => simp
  | cons c s ih =>
    rw [run_cons] at h
    by_cases hc : isLU c = true
    · simp only [step, hc, if_true] at h
      intro d hd
      rcases List.mem_cons.mp hd with rfl | hd
      · exact hc
      · exact ih h d hd
    · simp only [step, hc, Bool.false_eq_true, if_false] at h
      rw [run_dead] at h; simp [St.accepting] at h

theorem hex_shape (s : List Char) (h : (run .hex s).accepting = true) :
    ∃ hh l, s = hh ++ l ∧ (∀ c ∈ hh, isHex c = true) ∧ (∀ c ∈ l, isLU c = true) := by
  induction s with
  | nil => exact ⟨[], [], rfl, by simp, by simp⟩
  | cons c s ih =>
    rw [run_cons] at h
    by_cases hc : isHex c = true
    · simp only [step, hc, if_true] at h
      obtain ⟨hh, l, rfl, h1, h2⟩ := ih h
      exact ⟨c :: hh, l, rfl, by
        intro d hd
        rcases List.mem_cons.mp hd with rfl | hd
        · exact hc
        · exact h1 d hd, h2⟩
    · simp only [step, hc, Bool.false_eq_true, if_false] at h
      by_cases hl : isLU c = true
      · simp only [hl, if_true] at h
        have := suf_shape s h
        exact ⟨[], c :: s, rfl, by simp, by
          intro d hd
          rcases List.mem_cons.mp hd with rfl | hd
          · exact hl
          · exact this d hd⟩
      · simp only [hl, Bool.false_eq_true, if_false] at h
        rw [run_dead] at h; simp [St.accepting] at h

/-- after `x`: at least one hex digit -/
theorem x_shape (s : List Char) (h : (run .x s).accepting = true) :
    ∃ hh l, s = hh ++ l ∧ hh ≠ [] ∧ (∀ c ∈ hh, isHex c = true) ∧ (∀ c ∈ l, isLU c = true) := by
  cases s with
  | nil => simp [run, St.accepting] at h
  | cons c s =>
    rw [run_cons] at h
    by_cases hc : isHex c = true
    · simp only [step, hc, if_true] at h
      obtain ⟨hh, l, rfl, h1, h2⟩ := hex_shape s h
      exact ⟨c :: hh, l, rfl, by simp, by
        intro d hd
        rcases List.mem_cons.mp hd with rfl | hd
        · exact hc
        · exact h1 d hd, h2⟩
    · simp only [step, hc, Bool.false_eq_true, if_false] at h
      rw [run_dead] at h; simp [St.accepting] at h

theorem isHex_zero : isHex '0' = true := by decide

/-- Shape of an accepted string after the optional sign: `Z ++ X ++ H ++ L`. -/
def Core (s : List Char) : Prop :=
  ∃ (zero x h l : List Char), s = zero ++ x ++ h ++ l ∧ (zero = [] ∨ zero = ['0']) ∧
    (x = [] ∨ ∃ c, x = [c] ∧ isX c = true) ∧ h ≠ [] ∧ (∀ c ∈ h, isHex c = true) ∧ (∀ c ∈ l, isLU c = true)

theorem zero_shape (s : List Char) (h : (run .zero s).accepting = true) : Core ('0' :: s) := by
  cases s with
  | nil => exact ⟨[], [], ['0'], [], rfl, Or.inl rfl, Or.inl rfl, by simp, by simp [isHex_zero], by simp⟩
  | cons c s =>
    rw [run_cons] at h
    by_cases hx : isX c = true
    · simp only [step, hx, if_true] at h
      obtain ⟨hh, l, rfl, h0, h1, h2⟩ := x_shape s h
      exact ⟨['0'], [c], hh, l, by simp, Or.inr rfl, Or.inr ⟨c, rfl, hx⟩, h0, h1, h2⟩
    · simp only [step, hx, Bool.false_eq_true, if_false] at h
      by_cases hc : isHex c = true
      · simp only [hc, if_true] at h
        obtain ⟨hh, l, rfl, h1, h2⟩ := hex_shape s h
        exact ⟨[], [], '0' :: c :: hh, l, by simp, Or.inl rfl, Or.inl rfl, by simp, by
          intro d hd
          rcases List.mem_cons.mp hd with rfl | hd
          · exact isHex_zero
          · rcases List.mem_cons.mp hd with rfl | hd
            · exact hc
            · exact h1 d hd, h2⟩
      · simp only [hc, Bool.false_eq_true, if_false] at h
        by_cases hl : isLU c = true
        · simp only [hl, if_true] at h
          have := suf_shape s h
          exact ⟨[], [], ['0'], c :: s, by simp, Or.inl rfl, Or.inl rfl, by simp, by simp [isHex_zero], by
            intro d hd
            rcases List.mem_cons.mp hd with rfl | hd
            · exact hl
            · exact this d hd⟩
        · simp only [hl, Bool.false_eq_true, if_false] at h
          rw [run_dead] at h; simp [St.accepting] at h

theorem neg_shape (s : List Char) (h : (run .neg s).accepting = true) : Core s := by
  cases s with
  | nil => simp [run, St.accepting] at h
  | cons c s =>
    rw [run_cons] at h
    by_cases hz : (c == '0') = true
    · simp only [step, hz, if_true] at h
      have : c = '0' := by simpa using hz
      subst this
      exact zero_shape s h
    · simp only [step, hz, Bool.false_eq_true, if_false] at h
      by_cases hx : isX c = true
      · simp only [hx, if_true] at h
        obtain ⟨hh, l, rfl, h0, h1, h2⟩ := x_shape s h
        exact ⟨[], [c], hh, l, by simp, Or.inl rfl, Or.inr ⟨c, rfl, hx⟩, h0, h1, h2⟩
      · simp only [hx, Bool.false_eq_true, if_false] at h
        by_cases hc : isHex c = true
        · simp only [hc, if_true] at h
          obtain ⟨hh, l, rfl, h1, h2⟩ := hex_shape s h
          exact ⟨[], [], c :: hh, l, by simp, Or.inl rfl, Or.inl rfl, by simp, by
            intro d hd
            rcases List.mem_cons.mp hd with rfl | hd
            · exact hc
            · exact h1 d hd, h2⟩
        · simp only [hc, Bool.false_eq_true, if_false] at h
          rw [run_dead] at h; simp [St.accepting] at h

theorem start_shape (s : List Char) (h : dfaAccepts s = true) :
    Core s ∨ ∃ t, s = '-' :: t ∧ Core t := by
  unfold dfaAccepts at h
  cases s with
  | nil => simp [run, St.accepting] at h
  | cons c s =>
    rw [run_cons] at h
    by_cases hm : (c == '-') = true
    · simp only [step, hm, if_true] at h
      have : c = '-' := by simpa using hm
      subst this
      exact Or.inr ⟨s, rfl, neg_shape s h⟩
    · left
      apply neg_shape
      rw [run_cons]
      simp only [step, hm, Bool.false_eq_true, if_false] at h
      simpa [step] using h


/-! ### the text handed to `int()` -/

theorem lowerStrip_append (A0 L : List Char) (cl : Char) (hL : ∀ c ∈ L, isLU c = true)
    (hcl : isHex cl = true) : lowerStrip (A0 ++ [cl] ++ L) = (A0 ++ [cl]).map lowerChar := by
  unfold lowerStrip
  simp only [List.map_append, List.reverse_append, List.map_cons, List.map_nil, List.reverse_cons,
    List.reverse_nil, List.nil_append, List.singleton_append]
  rw [List.dropWhile_append_of_pos]
  · rw [List.dropWhile_cons_of_neg]
    · simp
    · rw [lowerHex_not_LU (lower_hex hcl)]; simp
  · intro a ha
    simp only [List.mem_reverse, List.mem_map] at ha
    obtain ⟨c, hc, rfl⟩ := ha
    exact lower_LU (hL c hc)

/-- The text `s` of which `int(s, 0)` is taken (before the octal rewrite), for an accepted value. -/
inductive BodyShape : List Char → Prop where
  | hex (H : List Char) (hne : H ≠ []) (hh : ∀ c ∈ H, isLowerHex c = true) : BodyShape H
  | xhex (H : List Char) (hne : H ≠ []) (hh : ∀ c ∈ H, isLowerHex c = true) : BodyShape ('x' :: H)
  | zxhex (H : List Char) (hne : H ≠ []) (hh : ∀ c ∈ H, isLowerHex c = true) : BodyShape ('0' :: 'x' :: H)

theorem lowerHex_ne_minus {c : Char} (h : isLowerHex c = true) : c ≠ '-' := by
  intro e; subst e; revert h; decide

theorem core_lowerStrip (t : List Char) (h : Core t) :
    BodyShape (lowerStrip t) ∧ (lowerStrip t).head? ≠ some '-' ∧
    lowerStrip ('-' :: t) = '-' :: lowerStrip t := by
  obtain ⟨zero, x, hh, l, rfl, hz, hx, hne, hhex, hl⟩ := h
  obtain ⟨H0, cl, rfl⟩ : ∃ H0 cl, hh = H0 ++ [cl] := by
    rcases List.eq_nil_or_concat hh with h | ⟨H0, cl, h⟩
    · exact absurd h hne
    · exact ⟨H0, cl, by simpa using h⟩
  have hcl : isHex cl = true := hhex cl (by simp)
  have e1 : zero ++ x ++ (H0 ++ [cl]) ++ l = (zero ++ x ++ H0) ++ [cl] ++ l := by simp
  have e2 : '-' :: (zero ++ x ++ (H0 ++ [cl]) ++ l) = ('-' :: (zero ++ x ++ H0)) ++ [cl] ++ l := by simp
  rw [e2, e1, lowerStrip_append _ _ _ hl hcl, lowerStrip_append _ _ _ hl hcl]
  have hH : ∀ c ∈ (H0 ++ [cl]).map lowerChar, isLowerHex c = true := by
    intro c hc
    simp only [List.mem_map] at hc
    obtain ⟨d, hd, rfl⟩ := hc
    exact lower_hex (hhex d hd)
  have hHne : (H0 ++ [cl]).map lowerChar ≠ [] := by simp
  have hmap : (zero ++ x ++ H0 ++ [cl]).map lowerChar =
      zero.map lowerChar ++ x.map lowerChar ++ (H0 ++ [cl]).map lowerChar := by simp
  refine ⟨?_, ?_, by simp [lowerChar, inRange]⟩
  · rw [hmap]
    rcases hz with rfl | rfl <;> rcases hx with rfl | ⟨c, rfl, hc⟩
    · simpa using BodyShape.hex _ hHne hH
    · simpa [lower_X hc] using BodyShape.xhex _ hHne hH
    · have : isLowerHex '0' = true := by decide
      have h0 : lowerChar '0' = '0' := by decide
      simp only [List.map_cons, List.map_nil, h0, List.append_nil, List.singleton_append]
      exact BodyShape.hex _ (by simp) (by
        intro c hc
        rcases List.mem_cons.mp hc with rfl | hc
        · exact this
        · exact hH c hc)
    · have h0 : lowerChar '0' = '0' := by decide
      simpa [lower_X hc, h0] using BodyShape.zxhex _ hHne hH
  · rw [hmap]
    rcases hz with rfl | rfl
    · rcases hx with rfl | ⟨c, rfl, hc⟩
      · simp only [List.map_nil, List.nil_append]
        cases hm : (H0 ++ [cl]).map lowerChar with
        | nil => exact absurd hm hHne
        | cons a as =>
          have := hH a (by rw [hm]; simp)
          simp only [List.head?_cons, ne_eq, Option.some.injEq]
          exact lowerHex_ne_minus this
      · simp [lower_X hc]
    · have h0 : lowerChar '0' = '0' := by decide
      simp [h0]

theorem body_shape (v : List Char) (h : dfaAccepts v = true) : BodyShape (body v).2 := by
  unfold body
  rcases start_shape v h with hc | ⟨t, rfl, hc⟩
  · obtain ⟨h1, h2, _⟩ := core_lowerStrip v hc
    have : ((lowerStrip v).head? == some '-') = false := by
      rw [beq_eq_false_iff_ne]; exact h2
    simp only [this]
    exact h1
  · obtain ⟨h1, h2, h3⟩ := core_lowerStrip t hc
    rw [h3]
    simpa using h1


/-! ### `int(s, 0)` on the three shapes -/

/-- digit value of a lower-case hex digit -/
def hv (c : Char) : Nat := if c.toNat ≤ 57 then c.toNat - 48 else c.toNat - 87

theorem digitVal_lowerHex {c : Char} (h : isLowerHex c = true) : c ≠ '_' ∧ digitVal c = some (hv c) := by
  rw [isLowerHex_iff] at h
  constructor
  · intro e; subst e; simp at h
  · unfold digitVal hv
    by_cases h1 : 48 ≤ c.toNat ∧ c.toNat ≤ 57
    · rw [if_pos (inRange_iff.mpr h1), if_pos h1.2]
    · have h2 : 97 ≤ c.toNat ∧ c.toNat ≤ 102 := by omega
      rw [if_neg (by rw [inRange_iff]; exact h1), if_pos (inRange_iff.mpr ⟨h2.1, by omega⟩),
        if_neg (by omega)]
      congr 1; omega

theorem digits_ok (base : Nat) (cs : List Char) (prev : Bool) (acc n : Nat)
    (h : ∀ c ∈ cs, isLowerHex c = true ∧ hv c < base) (hne : cs ≠ [] ∨ (prev = true ∧ 0 < n)) :
    ∃ v, digits base cs prev acc n = some (v, n + cs.length) := by
  induction cs generalizing prev acc n with
  | nil =>
    rcases hne with h | ⟨h1, h2⟩
    · exact absurd rfl h
    · exact ⟨acc, by simp [digits, h1, h2]⟩
  | cons c cs ih =>
    obtain ⟨hc1, hc2⟩ := h c (by simp)
    obtain ⟨hu, hd⟩ := digitVal_lowerHex hc1
    simp only [digits, hu, if_false, hd, hc2, if_true]
    obtain ⟨v, hv'⟩ := ih true (acc * base + hv c) (n + 1)
      (fun d hd => h d (List.mem_cons_of_mem _ hd)) (Or.inr ⟨rfl, by omega⟩)
    exact ⟨v, by rw [hv']; simp only [List.length_cons]; congr 2; omega⟩

theorem digits_bad (base : Nat) (cs : List Char) (prev : Bool) (acc n : Nat)
    (h : ∀ c ∈ cs, isLowerHex c = true) (hb : ∃ c ∈ cs, ¬ hv c < base) :
    digits base cs prev acc n = none := by
  induction cs generalizing prev acc n with
  | nil => obtain ⟨c, hc, _⟩ := hb; simp at hc
  | cons c cs ih =>
    obtain ⟨hu, hd⟩ := digitVal_lowerHex (h c (by simp))
    simp only [digits, hu, if_false, hd]
    by_cases hlt : hv c < base
    · simp only [hlt, if_true]
      apply ih _ _ _ (fun d hd => h d (List.mem_cons_of_mem _ hd))
      obtain ⟨d, hd, hbad⟩ := hb
      rcases List.mem_cons.mp hd with rfl | hd
      · exact absurd hlt hbad
      · exact ⟨d, hd, hbad⟩
    · simp only [hlt, if_false]

theorem all_or_bad (base : Nat) (cs : List Char) :
    (∀ c ∈ cs, hv c < base) ∨ (∃ c ∈ cs, ¬ hv c < base) := by
  by_cases h : ∀ c ∈ cs, hv c < base
  · exact Or.inl h
  · right
    simpa using h

theorem lowerHex_head_facts {c : Char} (h : isLowerHex c = true) :
    c ≠ '-' ∧ c ≠ '+' ∧ c ≠ 'x' ∧ c ≠ 'o' ∧ c ≠ 'b' ∨ c = 'b' := by
  by_cases hb : c = 'b'
  · exact Or.inr hb
  · left
    rw [isLowerHex_iff] at h
    refine ⟨?_, ?_, ?_, ?_, hb⟩ <;> (intro e; subst e; simp at h)

theorem hv_lt_8_iff {c : Char} (h : isLowerHex c = true) : hv c < 8 ↔ inRange c 48 55 = true := by
  rw [isLowerHex_iff] at h; rw [inRange_iff]; unfold hv; split <;> omega

theorem hv_lt_10_iff {c : Char} (h : isLowerHex c = true) : hv c < 10 ↔ inRange c 48 57 = true := by
  rw [isLowerHex_iff] at h; rw [inRange_iff]; unfold hv; split <;> omega

theorem hv_lt_16 {c : Char} (h : isLowerHex c = true) : hv c < 16 := by
  rw [isLowerHex_iff] at h; unfold hv; split <;> omega


theorem case_zxhex (H : List Char) (hne : H ≠ []) (hh : ∀ c ∈ H, isLowerHex c = true) :
    (pyInt 0 (octalRewrite ('0' :: 'x' :: H))).isSome = true ∧ isCBody ('0' :: 'x' :: H) = true := by
  constructor
  · have e : octalRewrite ('0' :: 'x' :: H) = '0' :: 'x' :: H := by
      simp [octalRewrite]
    rw [e]
    obtain ⟨v, hv'⟩ := digits_ok 16 H true 0 0 (fun c hc => ⟨hh c hc, hv_lt_16 (hh c hc)⟩) (Or.inl hne)
    simp [pyInt, pyNat, prefixBase, isX, hv']
  · cases H with
    | nil => exact absurd rfl hne
    | cons a as =>
      simp only [isCBody]
      simp only [List.isEmpty_cons, Bool.not_false, Bool.true_and, List.all_eq_true]
      intro c hc
      have := hh c hc
      simpa [isLowerHex] using this

theorem case_xhex (H : List Char) :
    (pyInt 0 (octalRewrite ('x' :: H))).isSome = false ∧ isCBody ('x' :: H) = false := by
  constructor
  · have e : octalRewrite ('x' :: H) = 'x' :: H := by simp [octalRewrite]
    rw [e]
    have hd : digitVal 'x' = some 33 := by decide
    simp [pyInt, pyNat, prefixBase, digits, hd]
  · have : inRange 'x' 49 57 = false := by decide
    simp [isCBody, this]

theorem case_zero : (pyInt 0 (octalRewrite ['0'])).isSome = true ∧ isCBody ['0'] = true := by
  constructor <;> decide

/-- `0` followed by at least one more lower-case hex digit: rewritten into `0o…`. -/
theorem case_octal (a : Char) (t : List Char) (hh : ∀ c ∈ a :: t, isLowerHex c = true) :
    (pyInt 0 (octalRewrite ('0' :: a :: t))).isSome = isCBody ('0' :: a :: t) := by
  have ha := hh a (by simp)
  have hax : a ≠ 'x' := by
    intro e; subst e; revert ha; decide
  have e : octalRewrite ('0' :: a :: t) = '0' :: 'o' :: a :: t := by
    simp [octalRewrite, hax]
  rw [e]
  have hc : isCBody ('0' :: a :: t) = (a :: t).all (fun c => inRange c 48 55) := by
    simp [isCBody, hax]
  rw [hc]
  have hpre : prefixBase 0 ('0' :: 'o' :: a :: t) = some 8 := by
    simp [prefixBase, isX]
  rcases all_or_bad 8 (a :: t) with hall | hbad
  · obtain ⟨v, hv'⟩ := digits_ok 8 (a :: t) true 0 0 (fun c hc => ⟨hh c hc, hall c hc⟩) (Or.inl (by simp))
    have : (a :: t).all (fun c => inRange c 48 55) = true := by
      rw [List.all_eq_true]; intro c hc; exact (hv_lt_8_iff (hh c hc)).mp (hall c hc)
    rw [this]
    simp [pyInt, pyNat, hpre, hv']
  · have hd := digits_bad 8 (a :: t) true 0 0 hh hbad
    have : (a :: t).all (fun c => inRange c 48 55) = false := by
      rw [Bool.eq_false_iff]
      intro hall
      rw [List.all_eq_true] at hall
      obtain ⟨c, hc, hb⟩ := hbad
      exact hb ((hv_lt_8_iff (hh c hc)).mpr (hall c hc))
    rw [this]
    simp [pyInt, pyNat, hpre, hd]

/-- first character is a lower-case hex digit other than `0`: read as a decimal. -/
theorem case_decimal (c : Char) (d : List Char) (hc0 : c ≠ '0') (hh : ∀ x ∈ c :: d, isLowerHex x = true) :
    (pyInt 0 (octalRewrite (c :: d))).isSome = isCBody (c :: d) := by
  have hc := hh c (by simp)
  have e : octalRewrite (c :: d) = c :: d := by simp [octalRewrite, hc0]
  rw [e]
  have hcm : c ≠ '-' := lowerHex_ne_minus hc
  have hcp : c ≠ '+' := by intro e; subst e; revert hc; decide
  have hpre : prefixBase 0 (c :: d) = none := by
    unfold prefixBase
    split
    · rename_i heq; simp at heq; exact absurd heq.1 hc0
    · rfl
  have hcb : isCBody (c :: d) = (inRange c 49 57 && d.all (fun c => inRange c 48 57) && decide (d.length < maxStrDigits)) := by
    unfold isCBody
    split
    · rename_i heq; simp at heq; exact absurd heq.1 hc0
    · rename_i heq; simp at heq; exact absurd heq.1 hc0
    · rename_i heq; simp at heq; exact absurd heq.1 hc0
    · rename_i heq; simp at heq; obtain ⟨rfl, rfl⟩ := heq; rfl
    · rename_i heq; simp at heq
  rw [hcb]
  have hc49 : inRange c 49 57 = inRange c 48 57 := by
    have : c.toNat ≠ 48 := by
      intro h; apply hc0; exact eq_of_toNat_eq h
    simp only [inRange]
    by_cases h1 : c.toNat ≤ 57 <;> simp [h1] <;> omega
  rcases all_or_bad 10 (c :: d) with hall | hbad
  · obtain ⟨v, hv'⟩ := digits_ok 10 (c :: d) false 0 0 (fun x hx => ⟨hh x hx, hall x hx⟩) (Or.inl (by simp))
    have h1 : inRange c 49 57 = true := by rw [hc49]; exact (hv_lt_10_iff hc).mp (hall c (by simp))
    have h2 : d.all (fun c => inRange c 48 57) = true := by
      rw [List.all_eq_true]; intro x hx
      exact (hv_lt_10_iff (hh x (List.mem_cons_of_mem _ hx))).mp (hall x (List.mem_cons_of_mem _ hx))
    rw [h1, h2]
    simp only [List.length_cons, Nat.zero_add] at hv'
    by_cases hlen : d.length < maxStrDigits
    · have : ¬ (maxStrDigits < d.length + 1) := by omega
      simp [pyInt, pyNat, hpre, hv', hcm, hcp, hc0, hlen, this]
    · have : maxStrDigits < d.length + 1 := by omega
      simp [pyInt, pyNat, hpre, hv', hcm, hcp, hc0, hlen, this]
  · have hd := digits_bad 10 (c :: d) false 0 0 hh hbad
    have : (inRange c 49 57 && d.all (fun c => inRange c 48 57)) = false := by
      rw [Bool.eq_false_iff]
      intro hall
      simp only [Bool.and_eq_true, List.all_eq_true] at hall
      obtain ⟨x, hx, hb⟩ := hbad
      rcases List.mem_cons.mp hx with rfl | hx'
      · exact hb ((hv_lt_10_iff hc).mpr (by rw [← hc49]; exact hall.1))
      · exact hb ((hv_lt_10_iff (hh x hx)).mpr (hall.2 x hx'))
    rw [this]
    simp [pyInt, pyNat, hpre, hd, hcm, hcp]

/-- On the text handed to `int()` for an accepted value: `int()` succeeds exactly on the
C-literal shapes. -/
theorem pyInt0_isSome_eq (S : List Char) (hs : BodyShape S) :
    (pyInt 0 (octalRewrite S)).isSome = isCBody S := by
  cases hs with
  | zxhex H hne hh => obtain ⟨h1, h2⟩ := case_zxhex H hne hh; rw [h1, h2]
  | xhex H hne hh => obtain ⟨h1, h2⟩ := case_xhex H; rw [h1, h2]
  | hex H hne hh =>
    cases S with
    | nil => exact absurd rfl hne
    | cons c d =>
      by_cases hc0 : c = '0'
      · subst hc0
        cases d with
        | nil => obtain ⟨h1, h2⟩ := case_zero; rw [h1, h2]
        | cons a t => exact case_octal a t (fun x hx => hh x (List.mem_cons_of_mem _ hx))
      · exact case_decimal c d hc0 hh


/-! ### regex ⊆ DFA -/

theorem run_append (q : St) (a b : List Char) : run q (a ++ b) = run (run q a) b := by
  simp [run, List.foldl_append]

theorem hex_not_X {c : Char} (h : isHex c = true) : isX c = false := by
  rw [Bool.eq_false_iff]; intro hx; rw [isX_iff] at hx; rw [isHex_iff] at h; omega

theorem LU_not_hex {c : Char} (h : isLU c = true) : isHex c = false := by
  rw [Bool.eq_false_iff]; intro hx; rw [isLU_iff] at h; rw [isHex_iff] at hx; omega

theorem LU_not_X {c : Char} (h : isLU c = true) : isX c = false := by
  rw [Bool.eq_false_iff]; intro hx; rw [isLU_iff] at h; rw [isX_iff] at hx; omega

theorem hex_ne_minus {c : Char} (h : isHex c = true) : (c == '-') = false := by
  rw [beq_eq_false_iff_ne]; intro e; subst e; revert h; decide

theorem X_ne {c : Char} (h : isX c = true) : (c == '-') = false ∧ (c == '0') = false := by
  rw [isX_iff] at h
  constructor <;> (rw [beq_eq_false_iff_ne]; intro e; subst e; simp at h)

theorem run_suf (l : List Char) (hl : ∀ c ∈ l, isLU c = true) : run .suf l = .suf := by
  induction l with
  | nil => rfl
  | cons c l ih =>
    rw [run_cons]
    simp only [step, hl c (by simp), if_true]
    exact ih (fun d hd => hl d (List.mem_cons_of_mem _ hd))

theorem run_hex_LU (l : List Char) (hl : ∀ c ∈ l, isLU c = true) : (run .hex l).accepting = true := by
  cases l with
  | nil => rfl
  | cons c l =>
    rw [run_cons]
    simp only [step, LU_not_hex (hl c (by simp)), hl c (by simp), if_true, Bool.false_eq_true, if_false]
    rw [run_suf l (fun d hd => hl d (List.mem_cons_of_mem _ hd))]; rfl

theorem run_hex_hex (h : List Char) (hh : ∀ c ∈ h, isHex c = true) : run .hex h = .hex := by
  induction h with
  | nil => rfl
  | cons c h ih =>
    rw [run_cons]
    simp only [step, hh c (by simp), if_true]
    exact ih (fun d hd => hh d (List.mem_cons_of_mem _ hd))

theorem acc_hex (h l : List Char) (hh : ∀ c ∈ h, isHex c = true) (hl : ∀ c ∈ l, isLU c = true) :
    (run .hex (h ++ l)).accepting = true := by
  rw [run_append, run_hex_hex h hh]; exact run_hex_LU l hl

theorem acc_x (h l : List Char) (hne : h ≠ []) (hh : ∀ c ∈ h, isHex c = true) (hl : ∀ c ∈ l, isLU c = true) :
    (run .x (h ++ l)).accepting = true := by
  cases h with
  | nil => exact absurd rfl hne
  | cons c h =>
    simp only [List.cons_append, run_cons, step, hh c (by simp), if_true]
    exact acc_hex h l (fun d hd => hh d (List.mem_cons_of_mem _ hd)) hl

theorem acc_zero (h l : List Char) (hh : ∀ c ∈ h, isHex c = true) (hl : ∀ c ∈ l, isLU c = true) :
    (run .zero (h ++ l)).accepting = true := by
  cases h with
  | nil =>
    cases l with
    | nil => rfl
    | cons c l =>
      simp only [List.nil_append, run_cons, step, LU_not_X (hl c (by simp)), LU_not_hex (hl c (by simp)),
        hl c (by simp), if_true, Bool.false_eq_true, if_false]
      rw [run_suf l (fun d hd => hl d (List.mem_cons_of_mem _ hd))]; rfl
  | cons c h =>
    simp only [List.cons_append, run_cons, step, hex_not_X (hh c (by simp)), hh c (by simp), if_true,
      Bool.false_eq_true, if_false]
    exact acc_hex h l (fun d hd => hh d (List.mem_cons_of_mem _ hd)) hl

/-- from `start` or `neg`, on `0?x?[0-9a-f]+[lu]*` -/
theorem acc_core (q : St) (hq : q = .start ∨ q = .neg) (t : List Char) (h : Core t) :
    (run q t).accepting = true := by
  obtain ⟨zero, x, hh, l, rfl, hz, hx, hne, hhex, hl⟩ := h
  have step0 : step q '0' = .zero := by rcases hq with rfl | rfl <;> rfl
  have stepX : ∀ c, isX c = true → step q c = .x := by
    intro c hc
    obtain ⟨h1, h2⟩ := X_ne hc
    rcases hq with rfl | rfl <;> simp [step, h1, h2, hc]
  have stepH : ∀ c, isHex c = true → (c == '0') = false → step q c = .hex := by
    intro c hc h0
    rcases hq with rfl | rfl <;> simp [step, hex_ne_minus hc, h0, hex_not_X hc, hc]
  rcases hz with rfl | rfl
  · rcases hx with rfl | ⟨c, rfl, hc⟩
    · cases hh with
      | nil => exact absurd rfl hne
      | cons c hh =>
        simp only [List.nil_append, List.cons_append, run_cons]
        by_cases h0 : (c == '0') = true
        · have : c = '0' := by simpa using h0
          subst this
          rw [step0]
          exact acc_zero hh l (fun d hd => hhex d (List.mem_cons_of_mem _ hd)) hl
        · rw [stepH c (hhex c (by simp)) (by simpa using h0)]
          exact acc_hex hh l (fun d hd => hhex d (List.mem_cons_of_mem _ hd)) hl
    · show (run q (c :: (hh ++ l))).accepting = true
      rw [run_cons, stepX c hc]
      exact acc_x hh l hne hhex hl
  · rcases hx with rfl | ⟨c, rfl, hc⟩
    · show (run q ('0' :: (hh ++ l))).accepting = true
      rw [run_cons, step0]
      exact acc_zero hh l hhex hl
    · show (run q ('0' :: c :: (hh ++ l))).accepting = true
      rw [run_cons, step0, run_cons]
      simp only [step, hc, if_true]
      exact acc_x hh l hne hhex hl

theorem regex_iff_core (s : List Char) : RegexMatches s ↔ (Core s ∨ ∃ t, s = '-' :: t ∧ Core t) := by
  constructor
  · rintro ⟨neg, zero, x, h, l, rfl, hn, hz, hx, hne, hh, hl⟩
    rcases hn with rfl | rfl
    · exact Or.inl ⟨zero, x, h, l, by simp, hz, hx, hne, hh, hl⟩
    · exact Or.inr ⟨zero ++ x ++ h ++ l, by simp, zero, x, h, l, rfl, hz, hx, hne, hh, hl⟩
  · rintro (⟨zero, x, h, l, rfl, hz, hx, hne, hh, hl⟩ | ⟨t, rfl, zero, x, h, l, rfl, hz, hx, hne, hh, hl⟩)
    · exact ⟨[], zero, x, h, l, by simp, Or.inl rfl, hz, hx, hne, hh, hl⟩
    · exact ⟨['-'], zero, x, h, l, by simp, Or.inr rfl, hz, hx, hne, hh, hl⟩

/-- The DFA accepts exactly what `-?0?x?[0-9a-f]+[lu]*$` (IGNORECASE) matches. -/
theorem dfaAccepts_iff_regex (s : List Char) : dfaAccepts s = true ↔ RegexMatches s := by
  rw [regex_iff_core]
  constructor
  · exact start_shape s
  · rintro (h | ⟨t, rfl, h⟩)
    · exact acc_core .start (Or.inl rfl) s h
    · unfold dfaAccepts
      rw [run_cons]
      exact acc_core .neg (Or.inr rfl) t h

end CffiVerif.DefineLiteral
