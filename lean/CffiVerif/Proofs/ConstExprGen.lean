import CffiVerif.Model.ConstExpr

/-!
Meaning lemmas for the definitions of `Model/ConstExpr.lean` that are built on
`Generated/ConstExprPy.lean` (translated from cparser.py on every run): each is shown equal to a
hand-written closed form (`…Spec`), which is what the proofs of C09 reason about.  A change of
the Python source changes the generated side, and these lemmas (hence every C09 theorem) are
re-checked by the kernel.
-/
namespace CffiVerif.ConstExpr
open CffiVerif.Generated

theorem isSuffixChar_def (c : Char) :
    isSuffixChar c = (c == 'u' || c == 'U' || c == 'l' || c == 'L') := by
  unfold isSuffixChar ConstExprPy.rstripChars
  simp only [List.contains_cons, List.contains_nil, Bool.or_false, Bool.or_assoc]

/-- `_SIMPLE_ESCAPES` as a decision chain. -/
def simpleEscapeSpec (c : Char) : Option Nat :=
  if c = '\'' then some 39 else if c = '"' then some 34 else if c = '?' then some 63
  else if c = '\\' then some 92 else if c = '0' then some 0 else if c = 'a' then some 7
  else if c = 'b' then some 8 else if c = 'f' then some 12 else if c = 'n' then some 10
  else if c = 'r' then some 13 else if c = 't' then some 9 else if c = 'v' then some 11
  else none

theorem simpleEscape_def (c : Char) : simpleEscape c = simpleEscapeSpec c := by
  by_cases h0 : c = '\''
  · subst h0; decide
  by_cases h1 : c = '"'
  · subst h1; decide
  by_cases h2 : c = '?'
  · subst h2; decide
  by_cases h3 : c = '\\'
  · subst h3; decide
  by_cases h4 : c = '0'
  · subst h4; decide
  by_cases h5 : c = 'a'
  · subst h5; decide
  by_cases h6 : c = 'b'
  · subst h6; decide
  by_cases h7 : c = 'f'
  · subst h7; decide
  by_cases h8 : c = 'n'
  · subst h8; decide
  by_cases h9 : c = 'r'
  · subst h9; decide
  by_cases h10 : c = 't'
  · subst h10; decide
  by_cases h11 : c = 'v'
  · subst h11; decide
  · have e : ∀ k : Char, ¬ c = k → (k == c) = false := by
      intro k hk; simp only [beq_eq_false_iff_ne, ne_eq]; exact fun x => hk x.symm
    simp [simpleEscape, simpleEscapeSpec, ConstExprPy.simpleEscapes, List.find?, e, *]

/-- The numeric branch in closed form: leading `0` -> octal, else decimal; on failure the `0x` /
`0b` fall-backs; everything else `CDefError`. -/
def parseNumberSpec (tok : List Char) : Except Err Int :=
  let s := rstripSuffix tok
  let first := if s.head? = some '0' then pyInt 8 s else pyInt 10 s
  match first with
  | some v => .ok v
  | none =>
    match s with
    | c0 :: c1 :: rest =>
      if lowerChar c0 = '0' ∧ lowerChar c1 = 'x' then
        match pyInt 16 rest with
        | some v => .ok v
        | none => .error .cdef
      else if lowerChar c0 = '0' ∧ lowerChar c1 = 'b' then
        match pyInt 2 rest with
        | some v => .ok v
        | none => .error .cdef
      else .error .cdef
    | _ => .error .cdef

theorem parseNumber_def (tok : List Char) : parseNumber tok = parseNumberSpec tok := by
  unfold parseNumber parseNumberSpec
  generalize rstripSuffix tok = s
  have hfirst : (s.take ConstExprPy.octalPrefix.length = ConstExprPy.octalPrefix) ↔ s.head? = some '0' := by
    cases s with
    | nil => simp [ConstExprPy.octalPrefix]
    | cons c cs => simp [ConstExprPy.octalPrefix]
  simp only [hfirst, ConstExprPy.octalBase, ConstExprPy.defaultBase]
  cases (if s.head? = some '0' then pyInt 8 s else pyInt 10 s) with
  | some v => rfl
  | none =>
    simp only
    match s with
    | [] => simp [ConstExprPy.fallbacks, parseFallback, ConstExprPy.fallbackFailure]
    | [c] => simp [ConstExprPy.fallbacks, parseFallback, ConstExprPy.fallbackFailure]
    | c0 :: c1 :: rest =>
      simp only [ConstExprPy.fallbacks, parseFallback, ConstExprPy.fallbackFailure, List.length_cons,
        List.length_nil, List.take_succ_cons, List.take_zero, List.map_cons, List.map_nil, List.cons.injEq,
        and_true, List.drop_succ_cons, List.drop_zero]
      rfl

/-- `_parse_constant` on a `Constant` in closed form. -/
def parseConstSpec (tok : List Char) : Except Err Int :=
  match tok with
  | [] => .error .index
  | c0 :: _ =>
    if 48 ≤ c0.toNat ∧ c0.toNat ≤ 57 then parseNumberSpec tok
    else match tok with
      | ['\'', c, '\''] => .ok c.toNat
      | ['\'', '\\', c, '\''] =>
        match simpleEscapeSpec c with
        | some v => .ok v
        | none => .error .cdef
      | _ => .error .cdef

theorem parseConst_def (tok : List Char) : parseConst tok = parseConstSpec tok := by
  unfold parseConst parseConstSpec
  cases tok with
  | nil => rfl
  | cons c0 cs =>
    simp only [ConstExprPy.digitFirst, ConstExprPy.otherConstantFailure, parseNumber_def, simpleEscape_def]
    rfl

/-- `_c_div` in closed form. -/
def cDivSpec (a b : Int) : Except Err Int :=
  if b = 0 then .error .cdef
  else
    let result := a.fdiv b
    if (decide (a < 0) != decide (b < 0)) && (a.fmod b != 0) then .ok (result + 1)
    else .ok result

theorem cDiv_def (a b : Int) : cDiv a b = cDivSpec a b := by
  unfold cDiv ConstExprPy.c_div cDivSpec
  by_cases hb : b = 0
  · simp [hb]
  · simp only [beq_iff_eq, hb, if_false, pyFloorDiv, pyMod]

/-- The operator dispatch in closed form. -/
def applyBinSpec (op : BinOp) (l r : Int) : Except Err Int :=
  match op with
  | .add => .ok (l + r)
  | .sub => .ok (l - r)
  | .mul => .ok (l * r)
  | .div => cDivSpec l r
  | .mod => do let q ← cDivSpec l r; pure (l - q * r)
  | .shl => if r < 0 then .error .cdef else if r > shiftBound then .error .overflow else .ok (l * 2 ^ r.toNat)
  | .shr => if r < 0 then .error .cdef else .ok (l >>> r.toNat)
  | .band => .ok (pyAnd l r)
  | .bor => .ok (pyOr l r)
  | .bxor => .ok (pyXor l r)

theorem applyBin_def (op : BinOp) (l r : Int) : applyBin op l r = applyBinSpec op l r := by
  have hc : ConstExprPy.c_div l r = cDivSpec l r := cDiv_def l r
  cases op <;>
    simp (decide := true) only [applyBin, applyBinSpec, ConstExprPy.parse_constant_binop, hc,
      if_true, if_false, pyShlChecked, pyShr, decide_eq_true_eq]
  cases cDivSpec l r <;> rfl

/-- An operator string outside the ten reaches the final `raise FFIError`. -/
theorem other_operator_is_ffi (l r : Int) (op : String)
    (h : op ∉ ["+", "-", "*", "/", "%", "<<", ">>", "&", "|", "^"]) :
    ConstExprPy.parse_constant_binop l r op = .error .ffi := by
  simp only [List.mem_cons, List.not_mem_nil, or_false, not_or] at h
  obtain ⟨h1, h2, h3, h4, h5, h6, h7, h8, h9, h10⟩ := h
  simp [ConstExprPy.parse_constant_binop, h1, h2, h3, h4, h5, h6, h7, h8, h9, h10]

end CffiVerif.ConstExpr
