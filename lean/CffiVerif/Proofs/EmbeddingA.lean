import CffiVerif.Model.Embedding

/-!
Inductive invariant of the `Embedding` transition system (part A: definition and the
components whose preservation is closed by case analysis + `grind`).
-/
namespace CffiVerif.Embedding
set_option linter.unusedSimpArgs false
set_option linter.unusedVariables false

macro "step_cases " h:ident : tactic => `(tactic| (
  cases ‹Label› <;> simp only [step?] at $h:ident <;> (repeat' split at $h:ident) <;>
  (try simp only [stepPc] at $h:ident) <;> (repeat' split at $h:ident) <;>
  (try (first | cases $h:ident | skip))))

/-- below an init frame of a library there is no other init frame and no body frame of that library -/
def StackOK : List Frame → Prop
  | [] => True
  | f :: rest => (initPc f.pc = true → ∀ g ∈ rest, g.lib = f.lib → initPc g.pc = false ∧ gatePc g.pc = false) ∧ StackOK rest

/-- some frame of the stack is inside `_cffi_initialize_python` of library `L` -/
def hasInit (L : Lib) (st : List Frame) : Bool := st.any (fun f => f.lib == L && initPc f.pc)

@[simp] theorem hasInit_nil (L : Lib) : hasInit L [] = false := rfl
theorem hasInit_cons (L : Lib) (f : Frame) (r : List Frame) :
    hasInit L (f :: r) = ((f.lib == L && initPc f.pc) || hasInit L r) := by
  simp [hasInit]
theorem hasInit_iff (L : Lib) (st : List Frame) :
    hasInit L st = true ↔ ∃ f ∈ st, f.lib = L ∧ initPc f.pc = true := by
  simp [hasInit]

structure Inv (s : State) : Prop where
  g1 : s.pyInitCount = if s.pyInit then 1 else 0
  g2 : s.pyInit = false → s.gil = none
  h1a : ∀ t, s.spin = some t → ∃ f rest, s.thr t = f :: rest ∧ spinPc f.pc = true
  h1b : ∀ t f rest, s.thr t = f :: rest → spinPc f.pc = true → s.spin = some t
  h2a : ∀ t, s.gil = some t → ∃ f rest, s.thr t = f :: rest ∧ gilPc f.pc = true
  h2b : ∀ t f rest, s.thr t = f :: rest → gilPc f.pc = true → s.gil = some t
  h3 : ∀ t L, countHold L (s.thr t) = if (s.lib L).owner = some t then (s.lib L).depth else 0
  h3' : ∀ L, (s.lib L).owner = none ↔ (s.lib L).depth = 0
  wf : ∀ t f rest, s.thr t = f :: rest → ∀ g ∈ rest, ∃ k, g.pc = .pyOut k
  stk : ∀ t, StackOK (s.thr t)
  f1 : ∀ t, ∀ f ∈ s.thr t, afterSpinPc f.pc = true → s.pyInit = true
  f3 : ∀ t f rest, s.thr t = f :: rest → f.pc = .needLibInit → (s.lib f.lib).called = false
  f4 : ∀ t, ∀ f ∈ s.thr t, initPc f.pc = true → (s.lib f.lib).status = .running ∧ (s.lib f.lib).initBy = some t
  f5 : ∀ t f rest, s.thr t = f :: rest → (f.pc = .mutexRelease ∨ f.pc = .gotFn) →
        (s.lib f.lib).status ≠ .notStarted ∧ ((s.lib f.lib).status = .running → (s.lib f.lib).initBy = some t)
  f6 : ∀ t, ∀ f ∈ s.thr t, gatePc f.pc = true →
        (s.lib f.lib).status = .ok ∨ ((s.lib f.lib).status = .running ∧ (s.lib f.lib).initBy = some t)
  f7 : ∀ t f rest, s.thr t = f :: rest → f.pc = .needPyInit → s.pyInit = false
  l1 : ∀ L, (s.lib L).initRuns = if (s.lib L).called then 1 else 0
  l2 : ∀ L, (s.lib L).called = false ↔ (s.lib L).status = .notStarted
  l3 : ∀ L, (s.lib L).fast = true → (s.lib L).status = .ok
  l4 : ∀ L, (s.lib L).org = true → (s.lib L).status = .running ∨ (s.lib L).status = .ok
  l5a : ∀ L, (s.lib L).status = .running → (s.lib L).initBy ≠ none
  l5b : ∀ L u, (s.lib L).status = .running → (s.lib L).initBy = some u → hasInit L (s.thr u) = true
  l6 : ∀ L, (s.lib L).called = true → s.pyInit = true

theorem Inv.wf2 {s : State} (hI : Inv s) : ∀ t f g r, s.thr t = f :: g :: r → ∃ k, g.pc = .pyOut k :=
  fun t f g r h => hI.wf t f (g :: r) h g (by simp)

theorem Inv.holds_owner {s : State} (hI : Inv s) :
    ∀ t f, f ∈ s.thr t → holdsPc f.pc = true → (s.lib f.lib).owner = some t := by
  intro t f hf hh
  have h3 := hI.h3 t f.lib
  have : 0 < countHold f.lib (s.thr t) := by
    unfold countHold
    rw [List.countP_pos_iff]
    exact ⟨f, hf, by simp [hh]⟩
  by_cases ho : (s.lib f.lib).owner = some t
  · exact ho
  · simp [ho] at h3; omega

theorem Inv.holds_owner_hd {s : State} (hI : Inv s) :
    ∀ t f rest, s.thr t = f :: rest → holdsPc f.pc = true → (s.lib f.lib).owner = some t :=
  fun t f rest h hh => hI.holds_owner t f (by simp [h]) hh

theorem pres_g1 {s s' : State} {l : Label} (hI : Inv s) (h : step? s l = some s') :
    s'.pyInitCount = if s'.pyInit then 1 else 0 := by
  have := hI.g1
  have f7 := hI.f7
  step_cases h
  all_goals simp_all
  all_goals grind


theorem pres_f7 {s s' : State} {l : Label} (hI : Inv s) (h : step? s l = some s') :
    ∀ t f rest, s'.thr t = f :: rest → f.pc = .needPyInit → s'.pyInit = false := by
  have f7 := hI.f7
  have h1a := hI.h1a
  have h1b := hI.h1b
  have wf := hI.wf
  have wf2 := hI.wf2
  step_cases h
  all_goals simp only [setHead, setLib, upd]
  all_goals grind [spinPc]

theorem pres_g2 {s s' : State} {l : Label} (hI : Inv s) (h : step? s l = some s') :
    s'.pyInit = false → s'.gil = none := by
  have g2 := hI.g2
  have f1 := hI.f1
  step_cases h
  all_goals simp only [setHead, setLib, upd]
  all_goals grind [afterSpinPc]


theorem pres_h1a {s s' : State} {l : Label} (hI : Inv s) (h : step? s l = some s') :
    ∀ t, s'.spin = some t → ∃ f rest, s'.thr t = f :: rest ∧ spinPc f.pc = true := by
  have h1a := hI.h1a
  have h1b := hI.h1b
  have wf := hI.wf
  have wf2 := hI.wf2
  step_cases h
  all_goals simp only [setHead, setLib, upd]
  all_goals grind [spinPc]

theorem pres_h1b {s s' : State} {l : Label} (hI : Inv s) (h : step? s l = some s') :
    ∀ t f rest, s'.thr t = f :: rest → spinPc f.pc = true → s'.spin = some t := by
  have h1a := hI.h1a
  have h1b := hI.h1b
  have wf := hI.wf
  have wf2 := hI.wf2
  step_cases h
  all_goals simp only [setHead, setLib, upd]
  all_goals grind [spinPc]

macro "pres_auto " h:ident : tactic => `(tactic| (
  step_cases $h:ident
  all_goals simp only [setHead, setLib, upd]
  all_goals grind [spinPc, gilPc, afterSpinPc, initPc, gatePc, holdsPc]))

theorem pres_h2a {s s' : State} {l : Label} (hI : Inv s) (h : step? s l = some s') :
    ∀ t, s'.gil = some t → ∃ f rest, s'.thr t = f :: rest ∧ gilPc f.pc = true := by
  have h2a := hI.h2a
  have h2b := hI.h2b
  have wf := hI.wf
  have wf2 := hI.wf2
  pres_auto h

theorem pres_h2b {s s' : State} {l : Label} (hI : Inv s) (h : step? s l = some s') :
    ∀ t f rest, s'.thr t = f :: rest → gilPc f.pc = true → s'.gil = some t := by
  have h2a := hI.h2a
  have h2b := hI.h2b
  have wf := hI.wf
  have wf2 := hI.wf2
  have g2 := hI.g2
  have f7 := hI.f7
  pres_auto h

theorem pres_wf {s s' : State} {l : Label} (hI : Inv s) (h : step? s l = some s') :
    ∀ t f rest, s'.thr t = f :: rest → ∀ g ∈ rest, ∃ k, g.pc = .pyOut k := by
  have wf := hI.wf
  have wf2 := hI.wf2
  pres_auto h

theorem pres_f1 {s s' : State} {l : Label} (hI : Inv s) (h : step? s l = some s') :
    ∀ t, ∀ f ∈ s'.thr t, afterSpinPc f.pc = true → s'.pyInit = true := by
  have f1 := hI.f1
  have l2 := hI.l2
  have l3 := hI.l3
  have l6 := hI.l6
  pres_auto h

theorem pres_f3 {s s' : State} {l : Label} (hI : Inv s) (h : step? s l = some s') :
    ∀ t f rest, s'.thr t = f :: rest → f.pc = .needLibInit → (s'.lib f.lib).called = false := by
  have f3 := hI.f3
  have wf := hI.wf
  have wf2 := hI.wf2
  have ho := hI.holds_owner_hd
  pres_auto h

theorem pres_l1 {s s' : State} {l : Label} (hI : Inv s) (h : step? s l = some s') :
    ∀ L, (s'.lib L).initRuns = if (s'.lib L).called then 1 else 0 := by
  have l1 := hI.l1
  have f3 := hI.f3
  pres_auto h

theorem pres_l2 {s s' : State} {l : Label} (hI : Inv s) (h : step? s l = some s') :
    ∀ L, (s'.lib L).called = false ↔ (s'.lib L).status = .notStarted := by
  have l2 := hI.l2
  have f4 := hI.f4
  pres_auto h

theorem pres_l3 {s s' : State} {l : Label} (hI : Inv s) (h : step? s l = some s') :
    ∀ L, (s'.lib L).fast = true → (s'.lib L).status = .ok := by
  have l2 := hI.l2
  have l3 := hI.l3
  have f3 := hI.f3
  have f4 := hI.f4
  pres_auto h

theorem pres_l4 {s s' : State} {l : Label} (hI : Inv s) (h : step? s l = some s') :
    ∀ L, (s'.lib L).org = true → (s'.lib L).status = .running ∨ (s'.lib L).status = .ok := by
  have l2 := hI.l2
  have l4 := hI.l4
  have f3 := hI.f3
  have f4 := hI.f4
  pres_auto h

theorem pres_l6 {s s' : State} {l : Label} (hI : Inv s) (h : step? s l = some s') :
    ∀ L, (s'.lib L).called = true → s'.pyInit = true := by
  have l6 := hI.l6
  have f1 := hI.f1
  pres_auto h

end CffiVerif.Embedding
