/-
Helper lemmas about the model of `b_unpack` (`Model/Unpack.lean`): each reader of the
generated fast-path table against the generic `convert_to_object`.
-/
import CffiVerif.Model.Unpack
namespace CffiVerif.Unpack
open CffiVerif.Utf16 CffiVerif.UnpackTypes CffiVerif.Generated.UnpackTable

theorem leNat_lt (b : List UInt8) : leNat b < 256 ^ b.length := by
  induction b with
  | nil => simp [leNat]
  | cons a tl ih =>
    have ha : a.toNat < 256 := a.toNat_lt
    simp only [leNat, List.length_cons, Nat.pow_succ]
    omega

theorem readBytes_length {mem : List UInt8} {off n : Nat} {b : List UInt8}
    (h : readBytes mem off n = .ok b) : b.length = n := by
  unfold readBytes at h
  simp only at h
  split at h
  · next hl => injection h with h; rw [← h]; exact hl
  · cases h

theorem toLong_of_range (v : Int) (h1 : -9223372036854775808 ≤ v) (h2 : v < 9223372036854775808) : toLong v = v := by
  unfold toLong; omega

theorem toULong_of_range (v : Int) (h1 : 0 ≤ v) (h2 : v < 18446744073709551616) : toULong v = v := by
  unfold toULong; omega

theorem toSigned_range (bits v : Nat) (hb : 0 < bits) (hv : v < 2 ^ bits) :
    -(2 ^ (bits - 1) : Nat) ≤ toSigned bits v ∧ toSigned bits v < (2 ^ (bits - 1) : Nat) := by
  have hp : 2 ^ bits = 2 * 2 ^ (bits - 1) := by
    have : bits = (bits - 1) + 1 := by omega
    conv => lhs; rw [this, Nat.pow_succ]
    omega
  unfold toSigned
  split <;> omega

/-- `PyLong_FromLong(*(T *)src)` for a signed `T` of the item's size = the generic signed read. -/
theorem fromLong_signed (ty : CTy) (it : Item) (mem : List UInt8) (off : Nat)
    (hty : ty.intSigned = some true) (hk : it.kind = .signed) (hs : it.size = ty.size) :
    fastRead .fromLong ty it mem off = convertToObject it mem off := by
  obtain ⟨kind, size, align⟩ := it
  simp only at hk hs; subst hk; subst hs
  have hsz : ty.size = 1 ∨ ty.size = 2 ∨ ty.size = 4 ∨ ty.size = 8 := by cases ty <;> simp [CTy.size]
  simp only [fastRead, readCInt, hty, convertToObject, readRawSigned, hsz]
  cases hrb : readBytes mem off ty.size with
  | error e => rfl
  | ok b =>
    simp only [if_true]
    have hl := readBytes_length hrb
    have hlt := leNat_lt b
    rw [hl] at hlt
    have hr := toSigned_range (8 * ty.size) (leNat b) (by omega) (by rw [Nat.pow_mul]; exact hlt)
    congr 2
    apply toLong_of_range
    · rcases hsz with h | h | h | h <;> rw [h] at hr ⊢ <;>
        simp only [Nat.reduceMul, Nat.reduceSub, Nat.reducePow] at hr ⊢ <;> omega
    · rcases hsz with h | h | h | h <;> rw [h] at hr ⊢ <;>
        simp only [Nat.reduceMul, Nat.reduceSub, Nat.reducePow] at hr ⊢ <;> omega

/-- `PyLong_FromLong((long)*(T *)src)` for an unsigned `T` narrower than `long` = the generic unsigned read
(this is where "never case 6 if sizeof(int) == sizeof(long)" matters: the value must fit a signed long). -/
theorem fromLong_unsigned (ty : CTy) (it : Item) (mem : List UInt8) (off : Nat)
    (hty : ty.intSigned = some false) (hnarrow : ty.size < 8) (hk : it.kind = .unsigned) (hs : it.size = ty.size) :
    fastRead .fromLong ty it mem off = convertToObject it mem off := by
  obtain ⟨kind, size, align⟩ := it
  simp only at hk hs; subst hk; subst hs
  have hsz : ty.size = 1 ∨ ty.size = 2 ∨ ty.size = 4 ∨ ty.size = 8 := by cases ty <;> simp [CTy.size]
  simp only [fastRead, readCInt, hty, convertToObject, readRawUnsigned, hsz, if_true]
  cases hrb : readBytes mem off ty.size with
  | error e => rfl
  | ok b =>
    simp only [Bool.false_eq_true, if_false]
    have hl := readBytes_length hrb
    have hlt := leNat_lt b
    rw [hl] at hlt
    have hfit : (leNat b : Int) < 9223372036854775808 := by
      rcases hsz with h | h | h | h <;> rw [h] at hlt hnarrow <;>
        simp only [Nat.reducePow] at hlt <;> omega
    rw [toLong_of_range _ (by omega) hfit]

/-- `PyLong_FromUnsignedLong(*(T *)src)` for an unsigned `T` = the generic unsigned read. -/
theorem fromUnsignedLong_unsigned (ty : CTy) (it : Item) (mem : List UInt8) (off : Nat)
    (hty : ty.intSigned = some false) (hk : it.kind = .unsigned) (hs : it.size = ty.size) :
    fastRead .fromUnsignedLong ty it mem off = convertToObject it mem off := by
  obtain ⟨kind, size, align⟩ := it
  simp only at hk hs; subst hk; subst hs
  have hsz : ty.size = 1 ∨ ty.size = 2 ∨ ty.size = 4 ∨ ty.size = 8 := by cases ty <;> simp [CTy.size]
  simp only [fastRead, readCInt, hty, convertToObject, readRawUnsigned, hsz, if_true]
  cases hrb : readBytes mem off ty.size with
  | error e => rfl
  | ok b =>
    simp only [Bool.false_eq_true, if_false]
    have hl := readBytes_length hrb
    have hlt := leNat_lt b
    rw [hl] at hlt
    have hfit : (leNat b : Int) < 18446744073709551616 := by
      rcases hsz with h | h | h | h <;> rw [h] at hlt <;>
        simp only [Nat.reducePow] at hlt <;> omega
    rw [toULong_of_range _ (by omega) hfit]

theorem fromDouble_float (it : Item) (mem : List UInt8) (off : Nat)
    (hk : it.kind = .float) (hs : it.size = 4) :
    fastRead .fromDouble .float it mem off = convertToObject it mem off := by
  obtain ⟨kind, size, align⟩ := it
  simp only at hk hs; subst hk; subst hs
  simp only [fastRead, convertToObject, readRawFloat, if_true]
  cases readBytes mem off 4 <;> rfl

theorem fromDouble_double (it : Item) (mem : List UInt8) (off : Nat)
    (hk : it.kind = .float) (hs : it.size = 8) :
    fastRead .fromDouble .double it mem off = convertToObject it mem off := by
  obtain ⟨kind, size, align⟩ := it
  simp only at hk hs; subst hk; subst hs
  simp only [fastRead, convertToObject, readRawFloat]
  cases readBytes mem off 8 <;> rfl

theorem newSimpleCData_pointer (it : Item) (mem : List UInt8) (off : Nat) (hk : it.kind = .pointer) :
    fastRead .newSimpleCData .charptr it mem off = convertToObject it mem off := by
  obtain ⟨kind, size, align⟩ := it
  simp only at hk; subst hk
  simp only [fastRead, convertToObject]

/-- The `_Bool` reader: 0 and 1 directly, any other byte through the generic path — which raises
ValueError: the same exception `p[i]` raises. -/
theorem boolSwitch_bool (it : Item) (mem : List UInt8) (off : Nat) (hk : it.kind = .bool) (hs : it.size = 1) :
    fastRead .boolSwitch .uchar it mem off = convertToObject it mem off := by
  obtain ⟨kind, size, align⟩ := it
  simp only at hk hs; subst hk; subst hs
  simp only [fastRead, readCInt, CTy.intSigned, CTy.size, convertToObject, readRawUnsigned]
  cases hrb : readBytes mem off 1 with
  | error e => simp
  | ok b =>
    simp only [Bool.false_eq_true, if_false]
    by_cases h0 : leNat b = 0
    · simp [h0]
    · by_cases h1 : leNat b = 1
      · simp [h1]
      · have e0 : ¬ ((leNat b : Int) = 0) := by omega
        have e1 : ¬ ((leNat b : Int) = 1) := by omega
        simp [h0, h1, e1]

theorem pick4_cases {size a b c d x : Nat}
    (h : (if size = 8 then some a else if size = 4 then some b else if size = 2 then some c
          else if size = 1 then some d else none) = some x) :
    (size = 8 ∧ x = a) ∨ (size = 4 ∧ x = b) ∨ (size = 2 ∧ x = c) ∨ (size = 1 ∧ x = d) := by
  by_cases h8 : size = 8
  · simp [h8] at h; exact Or.inl ⟨h8, h.symm⟩
  · by_cases h4 : size = 4
    · simp [h4] at h; exact Or.inr (Or.inl ⟨h4, h.symm⟩)
    · by_cases h2 : size = 2
      · simp [h2] at h; exact Or.inr (Or.inr (Or.inl ⟨h2, h.symm⟩))
      · by_cases h1 : size = 1
        · simp [h1] at h; exact Or.inr (Or.inr (Or.inr ⟨h1, h.symm⟩))
        · simp [h8, h4, h2, h1] at h

theorem pick2_cases {size a b x : Nat}
    (h : (if size = 8 then some a else if size = 4 then some b else none) = some x) :
    (size = 8 ∧ x = a) ∨ (size = 4 ∧ x = b) := by
  by_cases h8 : size = 8
  · simp [h8] at h; exact Or.inl ⟨h8, h.symm⟩
  · by_cases h4 : size = 4
    · simp [h4] at h; exact Or.inr ⟨h4, h.symm⟩
    · simp [h8, h4] at h

/-! ### `mapExcept` -/

theorem mapExcept_congr {α β : Type} (f g : α → Except Err β) (l : List α) (h : ∀ a ∈ l, f a = g a) :
    mapExcept f l = mapExcept g l := by
  induction l with
  | nil => rfl
  | cons a as ih =>
    simp only [mapExcept, h a (by simp), ih (fun x hx => h x (by simp [hx]))]

/-- `Except.map`, written out. -/
def exMap {α β : Type} (h : α → β) : Except Err α → Except Err β
  | .ok a => .ok (h a)
  | .error e => .error e

/-- Converting each element after reading it = reading all, then converting all. -/
theorem mapExcept_fuse {α β γ : Type} (g : α → Except Err β) (h : β → γ) (l : List α) :
    mapExcept (fun a => exMap h (g a)) l = exMap (List.map h) (mapExcept g l) := by
  induction l with
  | nil => rfl
  | cons a as ih =>
    simp only [mapExcept, ih]
    cases g a with
    | error e => rfl
    | ok b =>
      simp only [exMap]
      cases mapExcept g as <;> rfl

theorem mapExcept_ok_all {α β : Type} (f : α → Except Err β) (l : List α) (r : List β)
    (h : mapExcept f l = .ok r) : ∀ b ∈ r, ∃ a ∈ l, f a = .ok b := by
  induction l generalizing r with
  | nil => simp [mapExcept] at h; subst h; simp
  | cons a as ih =>
    simp only [mapExcept] at h
    cases hfa : f a with
    | error e => simp [hfa] at h
    | ok b0 =>
      simp only [hfa] at h
      cases hr : mapExcept f as with
      | error e => simp [hr] at h
      | ok bs =>
        simp only [hr] at h; injection h with h; subst h
        intro b hb
        simp only [List.mem_cons] at hb
        rcases hb with rfl | hb
        · exact ⟨a, by simp, hfa⟩
        · obtain ⟨a', ha', e⟩ := ih bs hr b hb
          exact ⟨a', by simp [ha'], e⟩

theorem mapExcept_mem {α β : Type} (f : α → Except Err β) (l : List α) (r : List β)
    (h : mapExcept f l = .ok r) (a : α) (ha : a ∈ l) (b : β) (hb : f a = .ok b) : b ∈ r := by
  induction l generalizing r with
  | nil => simp at ha
  | cons a0 as ih =>
    simp only [mapExcept] at h
    cases hfa : f a0 with
    | error e => simp [hfa] at h
    | ok b0 =>
      simp only [hfa] at h
      cases hr : mapExcept f as with
      | error e => simp [hr] at h
      | ok bs =>
        simp only [hr] at h; injection h with h; subst h
        simp only [List.mem_cons] at ha
        rcases ha with rfl | ha
        · rw [hfa] at hb; injection hb with hb; subst hb; simp
        · simp [ih bs hr ha]

/-- Every unit read is below `256 ^ size`. -/
theorem readUnits_bound (mem : List UInt8) (size n : Nat) (u : List Nat) (h : readUnits mem size n = .ok u) :
    ∀ x ∈ u, x < 256 ^ size := by
  intro x hx
  obtain ⟨i, _, hi⟩ := mapExcept_ok_all _ _ _ h x hx
  unfold readUnit at hi
  cases hrb : readBytes mem (i * size) size with
  | error e => simp [hrb] at hi
  | ok b =>
    simp only [hrb] at hi; injection hi with hi; subst hi
    have := leNat_lt b
    rwa [readBytes_length hrb] at this

theorem leNat_singleton (b : List UInt8) (h : b.length = 1) : b.map (·.toNat) = [leNat b] := by
  match b, h with
  | [x], _ => simp [leNat]

end CffiVerif.Unpack

