import CffiVerif.Model.Callback
import CffiVerif.Proofs.Call

/-! Memory lemmas for `Props/C14.lean`. -/
namespace CffiVerif.Callback
open CffiVerif.Call

theorem write_get_lt (m : Mem) (addr : Nat) (bs : List UInt8) (a : Nat) (h : a < addr) :
    (m.write addr bs) a = m a := by
  simp [Mem.write, h]

theorem write_get_ge (m : Mem) (addr : Nat) (bs : List UInt8) (a : Nat) (h : addr + bs.length ≤ a) :
    (m.write addr bs) a = m a := by
  have h1 : ¬ a < addr := by omega
  have h2 : bs[a - addr]? = none := by
    apply List.getElem?_eq_none; omega
  simp [Mem.write, h1, h2]

theorem write_get_in (m : Mem) (addr : Nat) (bs : List UInt8) (j : Nat) (h : j < bs.length) :
    (m.write addr bs) (addr + j) = bs[j] := by
  have h1 : ¬ addr + j < addr := by omega
  have h2 : bs[j]? = some bs[j] := List.getElem?_eq_getElem h
  simp [Mem.write, h2]
  intro h'; omega

theorem read_congr (m m' : Mem) (addr len : Nat) (h : ∀ j, j < len → m' (addr + j) = m (addr + j)) :
    m'.read addr len = m.read addr len := by
  unfold Mem.read
  apply List.map_congr_left
  intro j hj
  exact h j (List.mem_range.mp hj)

theorem read_write_disjoint (m : Mem) (addr : Nat) (bs : List UInt8) (x len : Nat)
    (h : x + len ≤ addr ∨ addr + bs.length ≤ x) :
    (m.write addr bs).read x len = m.read x len := by
  apply read_congr
  intro j hj
  rcases h with h | h
  · exact write_get_lt m addr bs _ (by omega)
  · exact write_get_ge m addr bs _ (by omega)

theorem read_write_same (m : Mem) (addr : Nat) (bs : List UInt8) :
    (m.write addr bs).read addr bs.length = bs := by
  unfold Mem.read
  apply List.ext_getElem
  · simp
  · intro j h1 h2
    simp only [List.length_map, List.length_range] at h1
    simp only [List.getElem_map, List.getElem_range]
    exact write_get_in m addr bs j h2

theorem slot_length_le (a : Arg) (h : ∀ b, a = .val b → b.length ≤ 8) : a.slot.length ≤ 8 := by
  cases a with
  | val b => exact h b rfl
  | ref addr b => simp [Arg.slot, leBytes_length]

/-- Packing slots `i, i+1, …` leaves every region outside those slots alone. -/
theorem packFrom_preserves (m : Mem) (p i : Nat) (args : List Arg)
    (hv : ∀ a ∈ args, ∀ b, a = .val b → b.length ≤ 8) (x len : Nat)
    (h : x + len ≤ p + 8 * i ∨ p + 8 * (i + args.length) ≤ x) :
    (packFrom m p i args).read x len = m.read x len := by
  induction args generalizing m i with
  | nil => rfl
  | cons a rest ih =>
    have hl := slot_length_le a (hv a (by simp))
    simp only [packFrom]
    rw [ih _ (i + 1) (fun a' ha' => hv a' (by simp [ha']))
      (by simp only [List.length_cons] at h; omega)]
    apply read_write_disjoint
    simp only [List.length_cons] at h
    omega

set_option linter.unusedSimpArgs false

theorem packFrom_read (m : Mem) (p i0 n : Nat) (args : List Arg) (hn : i0 + args.length ≤ n)
    (hp : ∀ a ∈ args, Placed m p n a) (k : Nat) (hk : k < args.length) :
    readArg (packFrom m p i0 args) p (i0 + k) (Arg.byRef args[k]) args[k].bytes.length = args[k].bytes := by
  induction args generalizing m i0 k with
  | nil => simp at hk
  | cons a rest ih =>
    have hv : ∀ a' ∈ rest, ∀ b, a' = .val b → b.length ≤ 8 := by
      intro a' ha' b hb
      have := hp a' (by simp [ha'])
      rw [hb] at this; exact this
    have hlen : i0 + 1 + rest.length ≤ n := by simp only [List.length_cons] at hn; omega
    have hslot : a.slot.length ≤ 8 := by
      apply slot_length_le
      intro b hb
      have := hp a (by simp)
      rw [hb] at this; exact this
    cases k with
    | zero =>
      simp only [List.getElem_cons_zero, Nat.add_zero, packFrom]
      cases a with
      | val b =>
        have hb : b.length ≤ 8 := hp (.val b) (by simp)
        simp only [readArg, Arg.byRef, Arg.bytes, Bool.false_eq_true, if_false]
        rw [packFrom_preserves _ p (i0 + 1) rest hv _ _ (Or.inl (by omega))]
        exact read_write_same m _ b
      | ref addr b =>
        obtain ⟨h64, hobj, hdis⟩ := hp (.ref addr b) (by simp)
        simp only [readArg, Arg.byRef, Arg.bytes, if_true]
        have h8 : (leBytes 8 addr).length = 8 := leBytes_length 8 addr
        rw [packFrom_preserves _ p (i0 + 1) rest hv _ 8 (Or.inl (by omega))]
        have hs : (m.write (p + 8 * i0) (Arg.ref addr b).slot).read (p + 8 * i0) 8 = leBytes 8 addr := by
          have := read_write_same m (p + 8 * i0) (leBytes 8 addr)
          rw [h8] at this; exact this
        rw [hs, leNat_leBytes]
        have hmod : addr % 256 ^ 8 = addr := Nat.mod_eq_of_lt (by
          have : (256 : Nat) ^ 8 = 2 ^ 64 := by decide
          omega)
        rw [hmod]
        rw [packFrom_preserves _ p (i0 + 1) rest hv _ _ (by
          rcases hdis with h | h
          · left; omega
          · right; omega)]
        rw [read_write_disjoint _ _ _ _ _ (by
          simp only [Arg.slot, h8]
          rcases hdis with h | h
          · left; omega
          · right; simp only [List.length_cons] at hn; omega)]
        exact hobj
    | succ k' =>
      simp only [List.getElem_cons_succ, packFrom]
      have hk' : k' < rest.length := by simpa using hk
      have hp' : ∀ a' ∈ rest, Placed (m.write (p + 8 * i0) a.slot) p n a' := by
        intro a' ha'
        have := hp a' (by simp [ha'])
        cases a' with
        | val b => exact this
        | ref addr b =>
          obtain ⟨h64, hobj, hdis⟩ := this
          refine ⟨h64, ?_, hdis⟩
          rw [read_write_disjoint _ _ _ _ _ (by
            rcases hdis with h | h
            · left; omega
            · right; simp only [List.length_cons] at hn; omega)]
          exact hobj
      have := ih (m.write (p + 8 * i0) a.slot) (i0 + 1) hlen hp' k' hk'
      have e : i0 + (k' + 1) = i0 + 1 + k' := by omega
      rw [e]; exact this

theorem setPrefix_length (bs buf : List UInt8) (h : bs.length ≤ buf.length) :
    (setPrefix bs buf).length = buf.length := by
  simp [setPrefix]; omega

theorem setPrefix_take (bs buf : List UInt8) : (setPrefix bs buf).take bs.length = bs := by
  simp [setPrefix]

theorem argFfi_length (t : CType) (o : PyObj) (bs : List UInt8) (h : argFfi t o = .ok bs) :
    bs.length = t.size.bytes := by
  unfold argFfi at h
  cases hr : argFfiRaw t o with
  | error e => simp [hr, Except.map] at h
  | ok r =>
    simp only [hr, Except.map] at h
    cases h
    exact leBytes_length _ _

theorem convRes_length (rt : RT) (o : RetObj) (bs : List UInt8) (h : convRes rt o = .ok bs) :
    bs.length = rt.bytes := by
  cases rt with
  | void => simp [convRes] at h
  | prim t =>
    cases o with
    | none => exact argFfi_length t _ bs h
    | obj po => exact argFfi_length t _ bs h
    | image b => simp [convRes] at h
  | blob n =>
    cases o with
    | image b =>
      simp only [convRes] at h
      split at h
      · cases h; assumption
      · cases h
    | none => simp [convRes] at h
    | obj po => simp [convRes] at h

theorem leBytes_take (n k raw : Nat) (h : k ≤ n) : (leBytes n raw).take k = leBytes k raw := by
  induction k generalizing n raw with
  | zero => simp [leBytes]
  | succ k ih =>
    cases n with
    | zero => omega
    | succ n => simp [leBytes, ih n (raw / 256) (by omega)]

theorem leBytes_congr_mod (k a b : Nat) (h : a % 256 ^ k = b % 256 ^ k) : leBytes k a = leBytes k b := by
  induction k generalizing a b with
  | zero => rfl
  | succ k ih =>
    have e : (256 : Nat) ^ (k + 1) = 256 * 256 ^ k := by rw [Nat.pow_succ, Nat.mul_comm]
    rw [e] at h
    have h1 : a % 256 = b % 256 := by
      have ha := Nat.mod_mul_right_mod a 256 (256 ^ k)
      have hb := Nat.mod_mul_right_mod b 256 (256 ^ k)
      rw [← ha, ← hb, h]
    have h2 : (a / 256) % 256 ^ k = (b / 256) % 256 ^ k := by
      have ha := Nat.mod_mul_right_div_self a 256 (256 ^ k)
      have hb := Nat.mod_mul_right_div_self b 256 (256 ^ k)
      rw [← ha, ← hb, h]
    simp only [leBytes, h1, ih _ _ h2]

/-- The signed branch writes the 64-bit two's complement of the value; its low
`size` bytes are the plain conversion. -/
theorem sint_widen_take (s : Sz) (v : Int) :
    (leBytes 8 (trunc .s8 v)).take s.bytes = leBytes s.bytes (trunc s v) := by
  rw [leBytes_take 8 s.bytes _ (by cases s <;> simp [Sz.bytes])]
  apply leBytes_congr_mod
  cases s <;>
    simp only [Sz.bytes, Sz.bits, trunc, Nat.reduceMul, Nat.reducePow, Int.reducePow] <;> omega

theorem argFfi_sint_ok (s : Sz) (po : PyObj) (bs : List UInt8) (h : argFfi ⟨.sint, s⟩ po = .ok bs) :
    ∃ v, asLongLong po = .ok v ∧ bs = leBytes s.bytes (trunc s v) := by
  simp only [argFfi, argFfiRaw] at h
  cases hv : asLongLong po with
  | error e => simp [hv, bind, Except.bind, Except.map] at h
  | ok v =>
    refine ⟨v, rfl, ?_⟩
    simp only [hv, bind, Except.bind, Except.map] at h
    by_cases hne : v ≠ sval s (trunc s v)
    · simp [hne] at h
    · simp only [hne, if_false] at h
      cases h; rfl

theorem zero_extend_take (b buf : List UInt8) (hb : b.length ≤ 8) :
    (setPrefix b (setPrefix (List.replicate 8 0) buf)).take 8 = b ++ List.replicate (8 - b.length) 0 := by
  simp only [setPrefix, List.length_replicate]
  rw [List.drop_append_of_le_length (by simp; omega), List.drop_replicate, ← List.append_assoc]
  exact List.take_left' (by simp; omega)

/-- A successful plain conversion makes `convert_from_object_fficallback`
succeed, and the first `sizeof(R)` bytes of the buffer are that conversion. -/
theorem encode_ok (rt : RT) (encode : Bool) (o : RetObj) (buf bs : List UInt8)
    (hconv : convRes rt o = .ok bs) (hbuf : max rt.bytes 8 ≤ buf.length) :
    ∃ buf', encodeResult rt encode o buf = (.ok (), buf') ∧ buf'.take rt.bytes = bs
      ∧ buf'.length = buf.length := by
  have hlen := convRes_length rt o bs hconv
  have plainOK : ∃ buf', plainEncode rt o buf = (.ok (), buf') ∧ buf'.take rt.bytes = bs
      ∧ buf'.length = buf.length := by
    refine ⟨setPrefix bs buf, by simp [plainEncode, hconv], ?_, ?_⟩
    · rw [← hlen]; exact setPrefix_take bs buf
    · exact setPrefix_length bs buf (by omega)
  have zlen : (setPrefix (List.replicate ffiArg 0) buf).length = buf.length :=
    setPrefix_length _ _ (by simp [ffiArg]; omega)
  cases rt with
  | void => simp [convRes] at hconv
  | blob n => exact plainOK
  | prim t =>
    simp only [encodeResult]
    by_cases hsmall : t.size.bytes < ffiArg ∧ encode = true
    · simp only [hsmall, and_self, if_true]
      obtain ⟨k, s⟩ := t
      have hs8 : s.bytes < 8 := hsmall.1
      cases k with
      | sint =>
        cases o with
        | none => simp [convRes, argFfi, argFfiRaw, asLongLong, Except.map, bind, Except.bind] at hconv
        | image b => simp [convRes] at hconv
        | obj po =>
          obtain ⟨v, hv, hbs⟩ := argFfi_sint_ok s po bs hconv
          simp only [hconv, hv]
          refine ⟨_, rfl, ?_, ?_⟩
          · simp only [setPrefix, RT.bytes, ffiArg]
            have h8 : (leBytes 8 (trunc Sz.s8 v)).length = 8 := leBytes_length _ _
            rw [List.take_append_of_le_length (by rw [h8]; omega), hbs]
            exact sint_widen_take s v
          · exact setPrefix_length _ _ (by simp [leBytes_length, ffiArg]; omega)
      | uint =>
        simp only [hconv]
        refine ⟨_, rfl, ?_, ?_⟩
        · rw [← hlen]; exact setPrefix_take _ _
        · rw [setPrefix_length _ _ (by rw [zlen]; omega)]; exact zlen
      | bool =>
        simp only [hconv]
        refine ⟨_, rfl, ?_, ?_⟩
        · rw [← hlen]; exact setPrefix_take _ _
        · rw [setPrefix_length _ _ (by rw [zlen]; omega)]; exact zlen
      | char =>
        simp only [hconv]
        refine ⟨_, rfl, ?_, ?_⟩
        · rw [← hlen]; exact setPrefix_take _ _
        · rw [setPrefix_length _ _ (by rw [zlen]; omega)]; exact zlen
    · simp only [hsmall, if_false]
      exact plainOK

/-- A failing plain conversion makes it fail with the same exception type (for
non-void types); the buffer keeps its length. -/
theorem encode_err (rt : RT) (encode : Bool) (o : RetObj) (buf : List UInt8) (e : ErrKind)
    (hconv : convRes rt o = .error e) (hnv : rt ≠ .void) (hbuf : 8 ≤ buf.length) :
    ∃ buf', encodeResult rt encode o buf = (.error e, buf') ∧ buf'.length = buf.length := by
  have zlen : (setPrefix (List.replicate ffiArg 0) buf).length = buf.length :=
    setPrefix_length _ _ (by simp [ffiArg]; omega)
  cases rt with
  | void => exact absurd rfl hnv
  | blob n => exact ⟨buf, by simp [encodeResult, plainEncode, hconv], rfl⟩
  | prim t =>
    simp only [encodeResult]
    by_cases hsmall : t.size.bytes < ffiArg ∧ encode = true
    · simp only [hsmall, and_self, if_true]
      obtain ⟨k, s⟩ := t
      cases k with
      | sint => exact ⟨buf, by simp [hconv], rfl⟩
      | uint => exact ⟨setPrefix (List.replicate ffiArg 0) buf, by simp [hconv], zlen⟩
      | bool => exact ⟨setPrefix (List.replicate ffiArg 0) buf, by simp [hconv], zlen⟩
      | char => exact ⟨setPrefix (List.replicate ffiArg 0) buf, by simp [hconv], zlen⟩
    · simp only [hsmall, if_false]
      exact ⟨buf, by simp [plainEncode, hconv], rfl⟩

theorem foldl_rules_mono (rules : List (List String × Nat)) (name : String) (a b : Nat) (h : a ≤ b) :
    rules.foldl (fun acc rule => if rule.1.contains name then max acc rule.2 else acc) a
      ≤ rules.foldl (fun acc rule => if rule.1.contains name then max acc rule.2 else acc) b := by
  induction rules generalizing a b with
  | nil => exact h
  | cons r rs ih =>
    simp only [List.foldl_cons]
    apply ih
    split
    · simp only [Nat.max_def]; split <;> split <;> omega
    · exact h

theorem foldl_rules_ge (rules : List (List String × Nat)) (name : String) (a : Nat) :
    a ≤ rules.foldl (fun acc rule => if rule.1.contains name then max acc rule.2 else acc) a := by
  induction rules generalizing a with
  | nil => exact Nat.le_refl _
  | cons r rs ih =>
    simp only [List.foldl_cons]
    refine Nat.le_trans ?_ (ih _)
    split
    · exact Nat.le_max_left _ _
    · exact Nat.le_refl _

theorem sizeOfA_mono (nargs : Nat) (r : ResT) : sizeOfA 0 r ≤ sizeOfA nargs r := by
  have hb : bufferSize 0 ≤ bufferSize nargs := by
    simp only [bufferSize]; omega
  cases r with
  | void => exact hb
  | prim name size => exact foldl_rules_mono _ _ _ _ hb
  | aggregate sz =>
    simp only [sizeOfA]
    split
    · split <;> split <;> omega
    · exact hb

end CffiVerif.Callback
