import CffiVerif.Model.GenSrcIO

/-! UTF-8: the strict decoder inverts the encoder on every string without
surrogates; text-mode reading is the identity on strings without `\r`. -/
namespace CffiVerif.GenSrcIO

theorem encodeCp_length_pos (c : Nat) : 0 < (encodeCp c).length := by
  unfold encodeCp
  split
  · simp
  · split
    · simp
    · split <;> simp

/-- one decoder step reads back exactly the bytes of one encoded code point -/
theorem decodeStep_encodeCp (c : Nat) (hc : isScalar c = true) (rest : Bytes) :
    decodeStep (encodeCp c ++ rest) = some (c, (encodeCp c).length) := by
  simp only [isScalar, Bool.or_eq_true, Bool.and_eq_true, decide_eq_true_eq] at hc
  unfold encodeCp
  by_cases h1 : c < 0x80
  · simp [h1, decodeStep]
  · by_cases h2 : c < 0x800
    · simp only [h1, h2, if_false, if_true, List.cons_append, List.nil_append, decodeStep]
      have a1 : ¬ (0xC0 + c / 64 < 0x80) := by omega
      have a2 : ¬ (0xC0 + c / 64 < 0xC2) := by omega
      have a3 : 0xC0 + c / 64 < 0xE0 := by omega
      have a4 : isCont (0x80 + c % 64) = true := by
        simp only [isCont, Bool.and_eq_true, decide_eq_true_eq]; omega
      have e : (0xC0 + c / 64 - 0xC0) * 64 + (0x80 + c % 64 - 0x80) = c := by omega
      simp only [a1, a2, a3, a4, e, if_false, if_true, List.length_cons, List.length_nil]
    · by_cases h3 : c < 0x10000
      · simp only [h1, h2, h3, if_false, if_true, List.cons_append, List.nil_append, decodeStep]
        have a1 : ¬ (0xE0 + c / 4096 < 0x80) := by omega
        have a2 : ¬ (0xE0 + c / 4096 < 0xC2) := by omega
        have a3 : ¬ (0xE0 + c / 4096 < 0xE0) := by omega
        have a4 : 0xE0 + c / 4096 < 0xF0 := by omega
        have a5 : isCont (0x80 + c / 64 % 64) = true := by
          simp only [isCont, Bool.and_eq_true, decide_eq_true_eq]; omega
        have a6 : isCont (0x80 + c % 64) = true := by
          simp only [isCont, Bool.and_eq_true, decide_eq_true_eq]; omega
        have e : (0xE0 + c / 4096 - 0xE0) * 4096 + (0x80 + c / 64 % 64 - 0x80) * 64
            + (0x80 + c % 64 - 0x80) = c := by omega
        simp only [a1, a2, a3, a4, a5, a6, e, if_false, if_true, Bool.and_self,
          List.length_cons, List.length_nil]
        have b : (decide (c < 0x800) || decide (0xD800 ≤ c) && decide (c < 0xE000)) = false := by
          simp only [Bool.or_eq_false_iff, Bool.and_eq_false_iff, decide_eq_false_iff_not]
          omega
        simp only [b]
        rfl
      · simp only [h1, h2, h3, if_false, List.cons_append, List.nil_append, decodeStep]
        have a1 : ¬ (0xF0 + c / 262144 < 0x80) := by omega
        have a2 : ¬ (0xF0 + c / 262144 < 0xC2) := by omega
        have a3 : ¬ (0xF0 + c / 262144 < 0xE0) := by omega
        have a4 : ¬ (0xF0 + c / 262144 < 0xF0) := by omega
        have a4' : 0xF0 + c / 262144 < 0xF5 := by omega
        have a5 : isCont (0x80 + c / 4096 % 64) = true := by
          simp only [isCont, Bool.and_eq_true, decide_eq_true_eq]; omega
        have a6 : isCont (0x80 + c / 64 % 64) = true := by
          simp only [isCont, Bool.and_eq_true, decide_eq_true_eq]; omega
        have a7 : isCont (0x80 + c % 64) = true := by
          simp only [isCont, Bool.and_eq_true, decide_eq_true_eq]; omega
        have e : (0xF0 + c / 262144 - 0xF0) * 262144 + (0x80 + c / 4096 % 64 - 0x80) * 4096
            + (0x80 + c / 64 % 64 - 0x80) * 64 + (0x80 + c % 64 - 0x80) = c := by omega
        simp only [a1, a2, a3, a4, a4', a5, a6, a7, e, if_false, if_true, Bool.and_self,
          List.length_cons, List.length_nil]
        have b : (decide (c < 0x10000) || decide (0x110000 ≤ c)) = false := by
          simp only [Bool.or_eq_false_iff, decide_eq_false_iff_not]
          omega
        simp only [b]
        rfl

theorem utf8DecodeAux_encode (s : Str) (bs : Bytes) (h : utf8Encode s = some bs) :
    ∀ fuel, s.length ≤ fuel → utf8DecodeAux fuel bs = some s := by
  induction s generalizing bs with
  | nil =>
    simp only [utf8Encode, Option.some.injEq] at h
    subst h
    intro fuel _
    cases fuel <;> simp [utf8DecodeAux]
  | cons c cs ih =>
    simp only [utf8Encode] at h
    split at h
    · rename_i hc
      cases hcs : utf8Encode cs with
      | none => simp [hcs] at h
      | some bs' =>
        simp only [hcs, Option.some.injEq] at h
        subst h
        intro fuel hf
        simp only [List.length_cons] at hf
        obtain ⟨f', rfl⟩ : ∃ f', fuel = f' + 1 := ⟨fuel - 1, by omega⟩
        have hpos := encodeCp_length_pos c
        have hne : (encodeCp c ++ bs').isEmpty = false := by
          cases hb : encodeCp c ++ bs' with
          | nil =>
            have : (encodeCp c ++ bs').length = 0 := by rw [hb]; rfl
            simp only [List.length_append] at this; omega
          | cons b0 brest => rfl
        have := ih bs' hcs f' (by omega)
        simp only [utf8DecodeAux, hne, decodeStep_encodeCp c hc bs', List.drop_left', this]
        simp
    · simp at h

theorem utf8Encode_length (s : Str) (bs : Bytes) (h : utf8Encode s = some bs) :
    s.length ≤ bs.length := by
  induction s generalizing bs with
  | nil => simp
  | cons c cs ih =>
    simp only [utf8Encode] at h
    split at h
    · cases hcs : utf8Encode cs with
      | none => simp [hcs] at h
      | some bs' =>
        simp only [hcs, Option.some.injEq] at h
        subst h
        have := ih bs' hcs
        have := encodeCp_length_pos c
        simp only [List.length_cons, List.length_append]
        omega
    · simp at h

theorem utf8Encode_isSome (s : Str) (h : ∀ c ∈ s, isScalar c = true) : ∃ bs, utf8Encode s = some bs := by
  induction s with
  | nil => exact ⟨[], rfl⟩
  | cons c cs ih =>
    obtain ⟨bs, hbs⟩ := ih (fun x hx => h x (by simp [hx]))
    exact ⟨encodeCp c ++ bs, by simp [utf8Encode, h c (by simp), hbs]⟩

/-- different texts have different UTF-8 encodings -/
theorem utf8Encode_inj (s t : Str) (bs : Bytes)
    (hs : utf8Encode s = some bs) (ht : utf8Encode t = some bs) : s = t := by
  have h1 := utf8DecodeAux_encode s bs hs bs.length (utf8Encode_length s bs hs)
  have h2 := utf8DecodeAux_encode t bs ht bs.length (utf8Encode_length t bs ht)
  rw [h1] at h2
  exact Option.some.inj h2

theorem utf8Encode_append (s t : Str) :
    utf8Encode (s ++ t) =
      match utf8Encode s, utf8Encode t with
      | some a, some b => some (a ++ b)
      | _, _ => none := by
  induction s with
  | nil => cases h : utf8Encode t <;> simp [utf8Encode, h]
  | cons c cs ih =>
    simp only [List.cons_append, utf8Encode]
    by_cases hc : isScalar c = true
    · simp only [hc, if_true, ih]
      cases utf8Encode cs <;> cases utf8Encode t <;> simp
    · simp only [hc]
      cases utf8Encode t <;> simp

/-! ### newlines -/

def NoCR (s : Str) : Prop := ∀ c ∈ s, c ≠ 13

theorem unl_noCR (s : Str) (h : NoCR s) : unl false s = s := by
  induction s with
  | nil => rfl
  | cons c cs ih =>
    have hc : c ≠ 13 := h c (by simp)
    have ih' := ih (fun x hx => h x (by simp [hx]))
    by_cases h10 : c = 10
    · simp [unl, h10, ih']
    · simp [unl, hc, h10, ih']

theorem translateOut_lf (s : Str) : translateOut [10] s = s := by
  induction s with
  | nil => rfl
  | cons c cs ih =>
    by_cases h : c = 10
    · simp [translateOut, h, ih]
    · simp [translateOut, h, ih]

end CffiVerif.GenSrcIO
