import CffiVerif.Proofs.ConstExpr
import CffiVerif.Spec.CConstExprNoWrap

/-! C09: agreement of cffi's evaluator with C for every expression without wrap-around
(signed *and* unsigned operands). -/
namespace CffiVerif.CConstExpr
open CffiVerif.ConstExpr

theorem two_pow_pos_int (w : Nat) : (0 : Int) < 2 ^ w := Int.pow_pos (by decide)

theorem inRange_unsigned_iff {t : CType} (hs : t.signed = false) (v : Int) :
    t.inRange v = true ↔ (0 ≤ v ∧ v < 2 ^ t.width) := by
  simp only [CType.inRange, CType.minVal, CType.maxVal, hs, Bool.false_eq_true, if_false, decide_eq_true_eq]
  omega

theorem arith_inRange {t t' : CType} {r v : Int} (h : arith t r = some (t', v)) : t'.inRange v = true := by
  unfold arith at h
  cases hs : t.signed with
  | true =>
    simp only [hs, if_true] at h
    cases hr : t.inRange r with
    | false => simp [hr] at h
    | true =>
      simp only [hr, if_true, Option.some.injEq, Prod.mk.injEq] at h
      obtain ⟨rfl, rfl⟩ := h; exact hr
  | false =>
    simp only [hs, Bool.false_eq_true, if_false, Option.some.injEq, Prod.mk.injEq] at h
    obtain ⟨rfl, rfl⟩ := h
    rw [inRange_unsigned_iff hs]
    have hp := two_pow_pos_int t.width
    exact ⟨Int.emod_nonneg _ (by omega), Int.emod_lt_of_pos _ hp⟩

theorem arith_of_inRange {t : CType} {r : Int} (h : t.inRange r = true) : arith t r = some (t, r) := by
  unfold arith
  cases hs : t.signed with
  | true => simp [h]
  | false =>
    have := (inRange_unsigned_iff hs r).mp h
    simp [Int.emod_eq_of_lt this.1 this.2]

theorem conv_of_inRange {t : CType} {v : Int} (h : t.inRange v = true) : conv t v = v := by
  unfold conv
  cases hs : t.signed with
  | true => simp [h]
  | false =>
    have := (inRange_unsigned_iff hs v).mp h
    simp [Int.emod_eq_of_lt this.1 this.2]

theorem binop_inRange (op : BinOp) {x y : CType × Int} {t : CType} {v : Int}
    (h : binop op x y = some (t, v)) : t.inRange v = true := by
  obtain ⟨t1, v1⟩ := x
  obtain ⟨t2, v2⟩ := y
  unfold binop at h
  cases op <;> simp only at h
  case div =>
    split at h
    · cases h
    · exact arith_inRange h
  case mod =>
    split at h
    · cases h
    · split at h
      · cases h
      · exact arith_inRange h
  case shl =>
    split at h
    · cases h
    · split at h
      · cases h
      · exact arith_inRange h
  case shr =>
    split at h
    · cases h
    · exact arith_inRange h
  all_goals exact arith_inRange h

/-- Every value the specification produces is representable in its type. -/
theorem eval_inRange (cenv : Env) (hok : EnvOk cenv) (e : CExpr) :
    ∀ t v, eval cenv e = some (t, v) → t.inRange v = true := by
  induction e with
  | int l => intro t v h; simp only [eval] at h; obtain ⟨n, _, rfl, hr⟩ := typed_some h; exact hr
  | chr c =>
    intro t v h
    simp only [eval] at h; unfold plainChar at h
    split at h
    · simp only [Option.some.injEq, Prod.mk.injEq] at h
      obtain ⟨rfl, rfl⟩ := h
      simp [CType.inRange, CType.minVal, CType.maxVal, CType.int, CType.width]; omega
    · cases h
  | esc c =>
    intro t v h
    simp only [eval] at h; rw [escape_eq] at h
    cases hse : simpleEscape c with
    | none => simp [hse] at h
    | some n =>
      simp [hse] at h
      obtain ⟨rfl, rfl⟩ := h
      have := simpleEscape_le c n hse
      simp [CType.inRange, CType.minVal, CType.maxVal, CType.int, CType.width]; omega
  | pos e ih => intro t v h; simp only [eval] at h; exact ih t v h
  | neg e ih =>
    intro t v h
    simp only [eval] at h
    cases he : eval cenv e with
    | none => simp [he] at h
    | some x => obtain ⟨t1, v1⟩ := x; simp only [he] at h; exact arith_inRange h
  | ref n => intro t v h; simp only [eval] at h; exact hok n t v h
  | bin op l r _ _ =>
    intro t v h
    simp only [eval] at h
    cases hl : eval cenv l with
    | none => simp [hl] at h
    | some x =>
      cases hr : eval cenv r with
      | none => simp [hl, hr] at h
      | some y => simp only [hl, hr] at h; exact binop_inRange op h

/-! ### bitwise operators on unsigned types -/

theorem bv_toNat_and_of_lt {w m n : Nat} (hm : m < 2 ^ w) (hn : n < 2 ^ w) :
    ((BitVec.ofInt w (m : Int) &&& BitVec.ofInt w (n : Int)).toNat : Int) = pyAnd m n := by
  simp only [BitVec.ofInt_natCast, BitVec.toNat_and, BitVec.toNat_ofNat, Nat.mod_eq_of_lt hm, Nat.mod_eq_of_lt hn]
  rfl

theorem bv_toNat_or_of_lt {w m n : Nat} (hm : m < 2 ^ w) (hn : n < 2 ^ w) :
    ((BitVec.ofInt w (m : Int) ||| BitVec.ofInt w (n : Int)).toNat : Int) = pyOr m n := by
  simp only [BitVec.ofInt_natCast, BitVec.toNat_or, BitVec.toNat_ofNat, Nat.mod_eq_of_lt hm, Nat.mod_eq_of_lt hn]
  rfl

theorem bv_toNat_xor_of_lt {w m n : Nat} (hm : m < 2 ^ w) (hn : n < 2 ^ w) :
    ((BitVec.ofInt w (m : Int) ^^^ BitVec.ofInt w (n : Int)).toNat : Int) = pyXor m n := by
  simp only [BitVec.ofInt_natCast, BitVec.toNat_xor, BitVec.toNat_ofNat, Nat.mod_eq_of_lt hm, Nat.mod_eq_of_lt hn]
  rfl

theorem nat_of_unsigned {t : CType} (hs : t.signed = false) {a : Int} (ha : t.inRange a = true) :
    ∃ m : Nat, a = (m : Int) ∧ m < 2 ^ t.width := by
  have := (inRange_unsigned_iff hs a).mp ha
  refine ⟨a.toNat, by omega, ?_⟩
  have h2 : ((2 ^ t.width : Nat) : Int) = (2 : Int) ^ t.width := by simp
  have : (a.toNat : Int) < ((2 ^ t.width : Nat) : Int) := by rw [h2]; omega
  exact_mod_cast this

theorem bitwise_and_any {t : CType} {a b : Int} (ha : t.inRange a = true) (hb : t.inRange b = true) :
    bitwise t (· &&& ·) (· &&& ·) a b = pyAnd a b := by
  cases hs : t.signed with
  | true => exact bitwise_and_signed hs ha hb
  | false =>
    obtain ⟨m, rfl, hm⟩ := nat_of_unsigned hs ha
    obtain ⟨n, rfl, hn⟩ := nat_of_unsigned hs hb
    unfold bitwise
    unfold CType.width at hm hn
    cases hr : t.rank <;> simp only [hr, hs, Bool.false_eq_true, if_false] at hm hn ⊢
    · exact bv_toNat_and_of_lt hm hn
    · exact bv_toNat_and_of_lt hm hn
    · exact bv_toNat_and_of_lt hm hn

theorem bitwise_or_any {t : CType} {a b : Int} (ha : t.inRange a = true) (hb : t.inRange b = true) :
    bitwise t (· ||| ·) (· ||| ·) a b = pyOr a b := by
  cases hs : t.signed with
  | true => exact bitwise_or_signed hs ha hb
  | false =>
    obtain ⟨m, rfl, hm⟩ := nat_of_unsigned hs ha
    obtain ⟨n, rfl, hn⟩ := nat_of_unsigned hs hb
    unfold bitwise
    unfold CType.width at hm hn
    cases hr : t.rank <;> simp only [hr, hs, Bool.false_eq_true, if_false] at hm hn ⊢
    · exact bv_toNat_or_of_lt hm hn
    · exact bv_toNat_or_of_lt hm hn
    · exact bv_toNat_or_of_lt hm hn

theorem bitwise_xor_any {t : CType} {a b : Int} (ha : t.inRange a = true) (hb : t.inRange b = true) :
    bitwise t (· ^^^ ·) (· ^^^ ·) a b = pyXor a b := by
  cases hs : t.signed with
  | true => exact bitwise_xor_signed hs ha hb
  | false =>
    obtain ⟨m, rfl, hm⟩ := nat_of_unsigned hs ha
    obtain ⟨n, rfl, hn⟩ := nat_of_unsigned hs hb
    unfold bitwise
    unfold CType.width at hm hn
    cases hr : t.rank <;> simp only [hr, hs, Bool.false_eq_true, if_false] at hm hn ⊢
    · exact bv_toNat_xor_of_lt hm hn
    · exact bv_toNat_xor_of_lt hm hn
    · exact bv_toNat_xor_of_lt hm hn

/-- An `arith` result is the mathematical value as soon as that value is what `arith` returned
for an in-range input. -/
theorem arith_eq {t t' : CType} {r v : Int} (hr : t.inRange r = true) (h : arith t r = some (t', v)) : v = r := by
  rw [arith_of_inRange hr] at h
  simp only [Option.some.injEq, Prod.mk.injEq] at h
  exact h.2.symm

/-- One operator without wrap-around: cffi's unbounded evaluation gives C's value. -/
theorem binop_agrees_exact (op : BinOp) {t1 t2 t : CType} {v1 v2 v : Int}
    (hx : binExact op (t1, v1) (t2, v2) = true)
    (h : binop op (t1, v1) (t2, v2) = some (t, v)) : applyBin op v1 v2 = .ok v := by
  unfold binExact at hx
  unfold binop at h
  cases op <;> simp only [Bool.and_eq_true] at hx <;> simp only at h
  case add =>
    rw [conv_of_inRange hx.1.1, conv_of_inRange hx.1.2] at h
    rw [arith_eq hx.2 h, applyBin_def]; rfl
  case sub =>
    rw [conv_of_inRange hx.1.1, conv_of_inRange hx.1.2] at h
    rw [arith_eq hx.2 h, applyBin_def]; rfl
  case mul =>
    rw [conv_of_inRange hx.1.1, conv_of_inRange hx.1.2] at h
    rw [arith_eq hx.2 h, applyBin_def]; rfl
  case div =>
    rw [conv_of_inRange hx.1.1, conv_of_inRange hx.1.2] at h
    by_cases hb : v2 = 0
    · simp [hb] at h
    · simp only [hb, if_false] at h
      rw [arith_eq hx.2 h]
      rw [applyBin_def]; exact cDivSpec_eq_tdiv _ _ hb
  case mod =>
    rw [conv_of_inRange hx.1.1, conv_of_inRange hx.1.2] at h
    by_cases hb : v2 = 0
    · simp [hb] at h
    · simp only [hb, if_false] at h
      split at h
      · cases h
      · rw [arith_eq hx.2 h]
        exact cMod_eq_tmod _ _ hb
  case shl =>
    split at h
    · cases h
    · rename_i hc
      split at h
      · cases h
      · rw [arith_eq hx h]
        have : ¬ v2 < 0 := by omega
        have hw := width_le t1
        have hbig : ¬ v2 > shiftBound := by unfold shiftBound; omega
        simp [applyBin_def, applyBinSpec, this, hbig]
  case shr =>
    split at h
    · cases h
    · rename_i hc
      rw [arith_eq hx h]
      have : ¬ v2 < 0 := by omega
      simp [applyBin_def, applyBinSpec, this]
  case band =>
    rw [conv_of_inRange hx.1, conv_of_inRange hx.2, bitwise_and_any hx.1 hx.2] at h
    have hr := arith_inRange h
    -- the result of `arith` on an unsigned type is reduced modulo 2^w: show it was already in range
    cases hs : (uac t1 t2).signed with
    | true =>
      obtain ⟨_, rfl, _⟩ := arith_signed' hs h
      simp [applyBin_def, applyBinSpec]
    | false =>
      obtain ⟨m, hm, hmlt⟩ := nat_of_unsigned hs hx.1
      obtain ⟨n, hn, hnlt⟩ := nat_of_unsigned hs hx.2
      subst hm hn
      have hin : (uac t1 t2).inRange (pyAnd (m : Int) (n : Int)) = true := by
        rw [inRange_unsigned_iff hs]
        show (0 : Int) ≤ ((m &&& n : Nat) : Int) ∧ ((m &&& n : Nat) : Int) < 2 ^ (uac t1 t2).width
        have h2 : ((2 ^ (uac t1 t2).width : Nat) : Int) = (2 : Int) ^ (uac t1 t2).width := by simp
        have := Nat.and_lt_two_pow m hnlt
        rw [← h2]; omega
      rw [arith_eq hin h]; simp [applyBin_def, applyBinSpec]
  case bor =>
    rw [conv_of_inRange hx.1, conv_of_inRange hx.2, bitwise_or_any hx.1 hx.2] at h
    cases hs : (uac t1 t2).signed with
    | true =>
      obtain ⟨_, rfl, _⟩ := arith_signed' hs h
      simp [applyBin_def, applyBinSpec]
    | false =>
      obtain ⟨m, hm, hmlt⟩ := nat_of_unsigned hs hx.1
      obtain ⟨n, hn, hnlt⟩ := nat_of_unsigned hs hx.2
      subst hm hn
      have hin : (uac t1 t2).inRange (pyOr (m : Int) (n : Int)) = true := by
        rw [inRange_unsigned_iff hs]
        show (0 : Int) ≤ ((m ||| n : Nat) : Int) ∧ ((m ||| n : Nat) : Int) < 2 ^ (uac t1 t2).width
        have h2 : ((2 ^ (uac t1 t2).width : Nat) : Int) = (2 : Int) ^ (uac t1 t2).width := by simp
        have := Nat.or_lt_two_pow hmlt hnlt
        rw [← h2]; omega
      rw [arith_eq hin h]; simp [applyBin_def, applyBinSpec]
  case bxor =>
    rw [conv_of_inRange hx.1, conv_of_inRange hx.2, bitwise_xor_any hx.1 hx.2] at h
    cases hs : (uac t1 t2).signed with
    | true =>
      obtain ⟨_, rfl, _⟩ := arith_signed' hs h
      simp [applyBin_def, applyBinSpec]
    | false =>
      obtain ⟨m, hm, hmlt⟩ := nat_of_unsigned hs hx.1
      obtain ⟨n, hn, hnlt⟩ := nat_of_unsigned hs hx.2
      subst hm hn
      have hin : (uac t1 t2).inRange (pyXor (m : Int) (n : Int)) = true := by
        rw [inRange_unsigned_iff hs]
        show (0 : Int) ≤ ((m ^^^ n : Nat) : Int) ∧ ((m ^^^ n : Nat) : Int) < 2 ^ (uac t1 t2).width
        have h2 : ((2 ^ (uac t1 t2).width : Nat) : Int) = (2 : Int) ^ (uac t1 t2).width := by simp
        have := Nat.xor_lt_two_pow hmlt hnlt
        rw [← h2]; omega
      rw [arith_eq hin h]; simp [applyBin_def, applyBinSpec]

theorem eval_agrees_nowrap_aux (cenv : Env) (penv : ConstExpr.Env)
    (hag : EnvAgree cenv penv) (e : CExpr) :
    noWrap cenv e = true → ∀ t v, eval cenv e = some (t, v) → ConstExpr.eval penv e.toModel = .ok v := by
  induction e with
  | int l =>
    intro _ t v h
    simp only [eval] at h
    obtain ⟨n, hv, rfl, _⟩ := typed_some h
    simpa [CExpr.toModel, ConstExpr.eval] using parseConst_render l n hv
  | chr c => intro _ t v h; simp only [eval] at h; exact (char_agrees_aux c t v).1 h
  | esc c => intro _ t v h; simp only [eval] at h; exact (char_agrees_aux c t v).2 h
  | pos e ih =>
    intro hn t v h
    simp only [noWrap] at hn
    simp only [eval] at h
    exact ih hn t v h
  | neg e ih =>
    intro hn t v h
    simp only [noWrap, Bool.and_eq_true] at hn
    simp only [eval] at h
    cases he : eval cenv e with
    | none => simp [he] at h
    | some x =>
      obtain ⟨t1, v1⟩ := x
      simp only [he] at h hn
      have hm := ih hn.1 t1 v1 he
      rw [arith_eq hn.2 h]
      simp [CExpr.toModel, ConstExpr.eval, hm, bind, Except.bind, pure, Except.pure]
  | ref n =>
    intro _ t v h
    simp only [eval] at h
    simp [CExpr.toModel, ConstExpr.eval, hag n t v h]
  | bin op l r ihl ihr =>
    intro hn t v h
    simp only [noWrap, Bool.and_eq_true] at hn
    simp only [eval] at h
    cases hl : eval cenv l with
    | none => simp [hl] at h
    | some x =>
      cases hr : eval cenv r with
      | none => simp [hl, hr] at h
      | some y =>
        obtain ⟨t1, v1⟩ := x
        obtain ⟨t2, v2⟩ := y
        simp only [hl, hr] at h hn
        have m1 := ihl hn.1.1 t1 v1 hl
        have m2 := ihr hn.1.2 t2 v2 hr
        have hx := hn.2
        simp only [h] at hx
        have hb := binop_agrees_exact op hx h
        simp [CExpr.toModel, ConstExpr.eval, m1, m2, bind, Except.bind, hb]

end CffiVerif.CConstExpr
