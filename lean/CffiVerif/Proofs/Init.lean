import CffiVerif.Model.Init

/-!
Helper lemmas for C20 (`ffi.new` zero-fills and initialises like assignment).
-/
namespace CffiVerif.Init

/-! ### stores -/

theorem zeros_length (n : Nat) : (zeros n).length = n := by simp [zeros]

theorem zeros_append (a b : Nat) : zeros a ++ zeros b = zeros (a + b) := by
  simp [zeros, List.replicate_append_replicate]

theorem zeros_get (n i : Nat) (h : i < n) : (zeros n)[i]? = some 0 := by
  simp [zeros, h]

theorem write_length {m : Mem} {off : Nat} {bs m' : List UInt8} (h : write m off bs = .ok m') :
    m'.length = m.length := by
  unfold write at h
  split at h
  · cases h
    simp only [List.length_append, List.length_take, List.length_drop]
    omega
  · cases h

theorem write_append {m : Mem} {off : Nat} {bs m' : List UInt8} (e : Mem)
    (h : write m off bs = .ok m') : write (m ++ e) off bs = .ok (m' ++ e) := by
  unfold write at h ⊢
  split at h
  · cases h
    have : off + bs.length ≤ (m ++ e).length := by simp only [List.length_append]; omega
    simp only [this, if_true]
    congr 1
    rw [List.take_append_of_le_length (by omega), List.drop_append_of_le_length (by omega)]
    simp only [List.append_assoc]
  · cases h

theorem write_error {m : Mem} {off : Nat} {bs : List UInt8} {e : Err}
    (h : write m off bs = .error e) : e = .oob ∧ m.length < off + bs.length := by
  unfold write at h
  split at h
  · cases h
  · cases h; exact ⟨rfl, by omega⟩

theorem write_ok_of_le {m : Mem} {off : Nat} {bs : List UInt8} (h : off + bs.length ≤ m.length) :
    ∃ m', write m off bs = .ok m' := by
  unfold write; simp only [h, if_true]; exact ⟨_, rfl⟩

theorem write_outside {m : Mem} {off : Nat} {bs m' : List UInt8} (h : write m off bs = .ok m')
    (i : Nat) (hi : i < off ∨ off + bs.length ≤ i) : m'[i]? = m[i]? := by
  unfold write at h
  split at h
  · rename_i hle
    cases h
    rcases hi with hi | hi
    · rw [List.append_assoc, List.getElem?_append_left (by simp only [List.length_take]; omega)]
      rw [List.getElem?_take_of_lt hi]
    · rw [List.getElem?_append_right (by simp only [List.length_append, List.length_take]; omega)]
      simp only [List.length_append, List.length_take, List.getElem?_drop]
      congr 1
      omega
  · cases h

theorem leBytes_length (s v : Nat) : (leBytes s v).length = s := by
  induction s generalizing v with
  | zero => rfl
  | succ n ih => simp [leBytes, ih]

/-! ### operations -/

theorem Op.exec_length {op : Op} {m m' : Mem} (h : op.exec m = .ok m') : m'.length = m.length := by
  cases op with
  | store off bs => exact write_length h
  | rmw off s shift bsz v =>
    simp only [Op.exec] at h
    split at h
    · exact write_length h
    · cases h
  | fail e => cases h

theorem Op.exec_append {op : Op} {m m' : Mem} (e : Mem) (h : op.exec m = .ok m') :
    op.exec (m ++ e) = .ok (m' ++ e) := by
  cases op with
  | store off bs => exact write_append e h
  | rmw off s shift bsz v =>
    simp only [Op.exec] at h ⊢
    split at h
    · rename_i hle
      have h2 : off + s ≤ (m ++ e).length := by simp only [List.length_append]; omega
      simp only [h2, if_true]
      have : List.take s (List.drop off (m ++ e)) = List.take s (List.drop off m) := by
        rw [List.drop_append_of_le_length (by omega), List.take_append_of_le_length]
        simp only [List.length_drop]; omega
      rw [this]
      exact write_append e h
    · cases h
  | fail e => cases h

theorem Op.exec_outside {op : Op} {m m' : Mem} (h : op.exec m = .ok m') (i : Nat)
    (hc : op.covers i = false) : m'[i]? = m[i]? := by
  cases op with
  | store off bs =>
    simp only [Op.covers, decide_eq_false_iff_not] at hc
    exact write_outside h i (by omega)
  | rmw off s shift bsz v =>
    simp only [Op.covers, decide_eq_false_iff_not] at hc
    simp only [Op.exec] at h
    split at h
    · exact write_outside h i (by simp only [leBytes_length]; omega)
    · cases h
  | fail e => cases h

theorem Op.exec_fits {op : Op} {m : Mem} (h : op.fitsIn m.length = true) : op.exec m ≠ .error .oob := by
  cases op with
  | store off bs =>
    simp only [Op.fitsIn, decide_eq_true_eq] at h
    obtain ⟨m', hm⟩ := write_ok_of_le h
    simp [Op.exec, hm]
  | rmw off s shift bsz v =>
    simp only [Op.fitsIn, decide_eq_true_eq] at h
    simp only [Op.exec, h, if_true]
    obtain ⟨m', hm⟩ := write_ok_of_le (m := m) (off := off)
      (bs := leBytes s (rmwValue (leValue ((m.drop off).take s)) shift bsz v))
      (by simp only [leBytes_length]; exact h)
    simp [hm]
  | fail e =>
    simp only [Op.fitsIn, bne_iff_ne, ne_eq] at h
    simp only [Op.exec, ne_eq, Except.error.injEq]
    exact h

theorem Op.fitsIn_mono {op : Op} {a b : Nat} (hab : a ≤ b) (h : op.fitsIn a = true) : op.fitsIn b = true := by
  cases op with
  | store off bs => simp only [Op.fitsIn, decide_eq_true_eq] at h ⊢; omega
  | rmw off s shift bsz v => simp only [Op.fitsIn, decide_eq_true_eq] at h ⊢; omega
  | fail e => exact h

/-! ### lists of operations -/

theorem execOps_append_ops (m : Mem) (a b : List Op) :
    execOps m (a ++ b) = (match execOps m a with
      | .ok m' => execOps m' b
      | .error e => .error e) := by
  induction a generalizing m with
  | nil => rfl
  | cons op rest ih =>
    simp only [List.cons_append, execOps]
    cases op.exec m with
    | ok m' => exact ih m'
    | error e => rfl

theorem execOps_length {ops : List Op} {m m' : Mem} (h : execOps m ops = .ok m') :
    m'.length = m.length := by
  induction ops generalizing m with
  | nil => cases h; rfl
  | cons op rest ih =>
    simp only [execOps] at h
    cases hop : op.exec m with
    | ok m1 => rw [hop] at h; rw [ih h, Op.exec_length hop]
    | error e => rw [hop] at h; cases h

theorem execOps_append {ops : List Op} {m m' : Mem} (e : Mem) (h : execOps m ops = .ok m') :
    execOps (m ++ e) ops = .ok (m' ++ e) := by
  induction ops generalizing m with
  | nil => cases h; rfl
  | cons op rest ih =>
    simp only [execOps] at h ⊢
    cases hop : op.exec m with
    | ok m1 => rw [hop] at h; rw [Op.exec_append e hop]; exact ih h
    | error e => rw [hop] at h; cases h

theorem execOps_outside {ops : List Op} {m m' : Mem} (h : execOps m ops = .ok m') (i : Nat)
    (hc : ∀ op ∈ ops, op.covers i = false) : m'[i]? = m[i]? := by
  induction ops generalizing m with
  | nil => cases h; rfl
  | cons op rest ih =>
    simp only [execOps] at h
    cases hop : op.exec m with
    | ok m1 =>
      rw [hop] at h
      rw [ih h (fun o ho => hc o (List.mem_cons_of_mem _ ho)),
          Op.exec_outside hop i (hc op List.mem_cons_self)]
    | error e => rw [hop] at h; cases h

theorem execOps_fits {ops : List Op} {m : Mem} (h : ∀ op ∈ ops, op.fitsIn m.length = true) :
    execOps m ops ≠ .error .oob := by
  induction ops generalizing m with
  | nil => simp [execOps]
  | cons op rest ih =>
    simp only [execOps]
    cases hop : op.exec m with
    | ok m1 =>
      simp only
      apply ih
      intro o ho
      rw [Op.exec_length hop]
      exact h o (List.mem_cons_of_mem _ ho)
    | error e =>
      simp only [ne_eq, Except.error.injEq]
      intro he
      subst he
      exact Op.exec_fits (h op List.mem_cons_self) hop

/-! ### `convert` is the execution of its plan -/

theorem execOps_single (m : Mem) (op : Op) : execOps m [op] = op.exec m := by
  simp only [execOps]
  cases op.exec m <;> rfl

theorem execOps_nil (m : Mem) : execOps m [] = .ok m := rfl

macro "conv_cases" ty:ident fc:ident : tactic =>
  `(tactic| (cases $ty:ident <;> rcases $fc:ident with _ | _ | ⟨sh, bs⟩ <;>
      simp only [convert, plan, execOps_single, execOps_nil, Op.exec, convertPrim, convertBitfield]))
macro "fc_cases" fc:ident : tactic =>
  `(tactic| (rcases $fc:ident with _ | _ | ⟨sh, bs⟩ <;>
      simp only [convert, plan, execOps_single, execOps_nil, Op.exec, convertPrim, convertBitfield]))
macro "conv_fin" : tactic =>
  `(tactic| all_goals ((repeat' split) <;> (first | rfl | simp only [execOps_single, execOps_nil, Op.exec])))

mutual
theorem convert_eq_exec (m : Mem) (off : Nat) (ty : Ty) (fc : FieldCtx) :
    ∀ init : Init, convert m off ty fc init = execOps m (plan off ty fc init)
  | .int v => by
    conv_cases ty fc
    conv_fin
  | .bytes b => by
    conv_cases ty fc
    conv_fin
  | .seq items => by
    cases ty with
    | prim p => fc_cases fc
    | agg size fs =>
      rcases fc with _ | _ | ⟨sh, bs⟩ <;>
        simp only [convert, plan, execOps_single, Op.exec] <;>
        exact convertSeq_eq_exec m off fs items
    | arr item isz len =>
      rcases fc with _ | _ | ⟨sh, bs⟩ <;>
        simp only [convert, plan, execOps_single, Op.exec] <;>
        (split
         · simp only [execOps_single, Op.exec]
         · exact convertItems_eq_exec m off item isz items)
  | .dict kvs => by
    cases ty with
    | prim p => fc_cases fc
    | agg size fs =>
      rcases fc with _ | _ | ⟨sh, bs⟩ <;>
        simp only [convert, plan, execOps_single, Op.exec] <;>
        exact convertDict_eq_exec m off fs kvs
    | arr item isz len => fc_cases fc
  | .cdata same data => by
    cases same <;> conv_cases ty fc
    conv_fin
  | .other => by
    conv_cases ty fc
theorem convertItems_eq_exec (m : Mem) (off : Nat) (item : Ty) (isz : Nat) :
    ∀ items : Inits, convertItems m off item isz items = execOps m (planItems off item isz items)
  | .nil => by simp only [convertItems, planItems, execOps]
  | .cons x xs => by
    simp only [convertItems, planItems, execOps_append_ops]
    rw [convert_eq_exec m off item .plain x]
    cases execOps m (plan off item .plain x) with
    | ok m' => exact convertItems_eq_exec m' (off + isz) item isz xs
    | error e => rfl
theorem convertSeq_eq_exec (m : Mem) (off : Nat) (cf : Fields) :
    ∀ items : Inits, convertSeq m off cf items = execOps m (planSeq off cf items)
  | .nil => by simp only [convertSeq, planSeq, execOps]
  | .cons x xs => by
    simp only [convertSeq, planSeq]
    cases cf.skipIgnored with
    | nil => simp only [execOps_single, Op.exec]
    | cons info ty rest =>
      simp only [execOps_append_ops]
      rw [convert_eq_exec m (off + info.off) ty (.field info.bits) x]
      cases execOps m (plan (off + info.off) ty (.field info.bits) x) with
      | ok m' => exact convertSeq_eq_exec m' off rest xs
      | error e => rfl
theorem convertDict_eq_exec (m : Mem) (off : Nat) (fs : Fields) :
    ∀ kvs : KVs, convertDict m off fs kvs = execOps m (planDict off fs kvs)
  | .nil => by simp only [convertDict, planDict, execOps]
  | .cons k v rest => by
    simp only [convertDict, planDict]
    cases fs.find k with
    | none => simp only [execOps_single, Op.exec]
    | some p =>
      obtain ⟨info, ty⟩ := p
      simp only [execOps_append_ops]
      rw [convert_eq_exec m (off + info.off) ty (.field info.bits) v]
      cases execOps m (plan (off + info.off) ty (.field info.bits) v) with
      | ok m' => exact convertDict_eq_exec m' off fs rest
      | error e => rfl
end

/-! ### `add_varsize_length` -/

theorem tdiv_nonpos_of_nonpos {a b : Int} (ha : a ≤ 0) (hb : 0 < b) : a.tdiv b ≤ 0 := by
  have h1 : 0 ≤ (-a).tdiv b := Int.tdiv_nonneg (by omega) (by omega)
  rw [Int.neg_tdiv] at h1
  omega

theorem addVarsize_sound {o isz n cur r : Nat} (ho : o < 2^63)
    (h : addVarsize o isz n cur = .ok r) : cur ≤ r ∧ o + isz * n ≤ r := by
  unfold addVarsize at h
  simp only at h
  split at h
  · cases h
  · rename_i hneg
    split at h
    · cases h
    · rename_i hz
      split at h
      · cases h
      · rename_i hdiv
        simp only [ne_eq, Decidable.not_not] at hdiv
        generalize hsz : wrap64 ((o : Int) + wrap64 ((isz : Int) * (n : Int))) = size at *
        have hr : r = if size.toNat > cur then size.toNat else cur := by cases h; rfl
        have key : (o : Int) + (isz : Int) * (n : Int) ≤ size := by
          rcases Nat.eq_zero_or_pos n with hn | hn
          · subst hn
            simp only [Int.natCast_zero, Int.mul_zero] at hsz ⊢
            unfold wrap64 at hsz
            omega
          · have hd : 0 < size - (o : Int) := by
              by_cases h1 : 0 < size - (o:Int)
              · exact h1
              · have := tdiv_nonpos_of_nonpos (a := size - (o:Int)) (b := (isz : Int)) (by omega) (by omega)
                omega
            have := Int.mul_tdiv_self_le (x := size - (o : Int)) (k := (isz : Int)) (by omega)
            rw [hdiv] at this
            omega
        have key2 : o + isz * n ≤ size.toNat := by
          have : ((o + isz * n : Nat) : Int) ≤ size := by push_cast; exact key
          omega
        subst hr
        split <;> omega

end CffiVerif.Init
