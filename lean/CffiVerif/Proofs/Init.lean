import CffiVerif.Model.Init

/-!
Helper lemmas for C20 (`ffi.new` zero-fills and initialises like assignment).
-/
namespace CffiVerif.Init
open CffiVerif.Generated

/-! ### reference forms

The definitions of Model/Init.lean are built from expressions regenerated from the C source
(`Generated/InitExprs.lean`).  The lemmas of this section show that, for the expressions as
extracted, they equal the hand-written reference forms below, about which everything else is
proved.  When the C source changes one of the expressions, the regenerated file changes and these
lemmas are re-checked (and fail if the meaning changed). -/

def newArrayLengthRef : Init → R (Nat × Bool)
  | .seq items => .ok (items.length, false)
  | .bytes b => .ok (b.length + 1, false)
  | .int v =>
      if v < -(2:Int)^63 ∨ v ≥ (2:Int)^63 then .error .overflow
      else if v < 0 then .error .value
      else .ok (v.toNat, true)
  | _ => .error .type

def addVarsizeRef (offset itemsize n cur : Nat) : R Nat :=
  let size := wrap64 ((offset : Int) + wrap64 ((itemsize : Int) * (n : Int)))
  if size < 0 then .error .overflow
  else if itemsize ≠ 0 ∧ (size - (offset : Int)).tdiv (itemsize : Int) ≠ (n : Int) then .error .overflow
  else .ok (if size.toNat > cur then size.toNat else cur)

def tooManyRef (len : Option Nat) (n : Nat) : Bool :=
  match len with
  | some l => decide (n > l)
  | none => false

def bytesPayloadRef (len : Option Nat) (b : List UInt8) : List UInt8 :=
  if len = some b.length then b else b ++ [0]

def allocPtrRef (ty : Ty) (init : Option Init) : R (Nat × Option Nat) :=
  match ty.size? with
  | none => .error .type
  | some sz0 =>
    let sz1 := if ty.isCharPrim then 2 * sz0 else sz0
    match ty with
    | .agg _ fs =>
        if fs.anyVar then
          match init with
          | none => .ok (sz1, some sz1)
          | some i =>
              if i.isCData then .ok (sz1, some sz1)
              else
                match prepassStruct fs i sz1 with
                | .ok d => .ok (d, some d)
                | .error e => .error e
        else .ok (sz1, none)
    | _ => .ok (sz1, none)

def allocArrRef (isz : Nat) (len : Option Nat) (init : Option Init) : R (Nat × Option Nat × Option Init) :=
  match len with
  | some l => .ok (isz * l, none, init)
  | none =>
      match init with
      | none => .error .type
      | some i =>
          match newArrayLength i with
          | .error e => .error e
          | .ok (n, wasInt) =>
              let datasize := wrap64 ((n : Int) * (isz : Int))
              if n > 0 ∧ datasize.tdiv (n : Int) ≠ (isz : Int) then .error .overflow
              else .ok (datasize.toNat, some n, if wasInt then none else some i)

def sizeofDerefRef (ty : Ty) (o : Owned) : Option Nat :=
  match ty with
  | .agg size fs => if fs.anyVar then o.length else some size
  | _ => none

def sizeofArrRef (isz : Nat) (len : Option Nat) (o : Owned) : Option Nat :=
  match len with
  | some l => some (l * isz)
  | none => o.length.map (· * isz)

theorem newArrayLength_eq_ref (x : Init) : newArrayLength x = newArrayLengthRef x := by
  cases x with
  | bytes b =>
    simp only [newArrayLength, newArrayLengthRef, InitExprs.nalBytes]
    congr 2
  | int v =>
    simp only [newArrayLength, newArrayLengthRef, InitExprs.nalNegative, decide_eq_true_eq]
  | _ => rfl

theorem addVarsize_body_eq (size : Int) (offset itemsize n cur : Nat) :
    (if InitExprs.avOverflow size offset itemsize n = true then (.error .overflow : R Nat)
     else .ok (if InitExprs.avUpdate size cur = true then size.toNat else cur)) =
    (if size < 0 then .error .overflow
     else if itemsize ≠ 0 ∧ (size - (offset : Int)).tdiv (itemsize : Int) ≠ (n : Int) then .error .overflow
     else .ok (if size.toNat > cur then size.toNat else cur)) := by
  simp only [InitExprs.avOverflow, InitExprs.avUpdate]
  by_cases h0 : size < 0
  · simp [h0]
  · have hz : ((itemsize : Int) != 0) = decide (itemsize ≠ 0) := by
      by_cases hi : itemsize = 0 <;> simp [hi]
    simp only [h0, decide_false, Bool.false_or, if_false, hz, Bool.and_eq_true, decide_eq_true_eq,
      bne_iff_ne, ne_eq]
    split
    · rfl
    · congr 1
      by_cases h1 : size.toNat > cur
      · have : size > (cur : Int) := by omega
        simp [h1, this]
      · have : ¬ size > (cur : Int) := by omega
        simp [h1, this]

theorem addVarsize_eq_ref (offset itemsize n cur : Nat) :
    addVarsize offset itemsize n cur = addVarsizeRef offset itemsize n cur :=
  addVarsize_body_eq (wrap64 ((offset : Int) + wrap64 ((itemsize : Int) * (n : Int)))) offset itemsize n cur

theorem tooMany_eq_ref (len : Option Nat) (n : Nat) : tooMany len n = tooManyRef len n := by
  cases len with
  | none => simp [tooMany, tooManyRef, ctLength, InitExprs.caTooMany]
  | some l =>
    simp only [tooMany, tooManyRef, ctLength, InitExprs.caTooMany]
    have h0 : (l : Int) ≥ 0 := by omega
    simp only [h0, decide_true, Bool.true_and]
    by_cases h : n > l
    · have : (n : Int) > (l : Int) := by omega
      simp [h, this]
    · have : ¬ (n : Int) > (l : Int) := by omega
      simp [h, this]

theorem bytesPayload_eq_ref (len : Option Nat) (b : List UInt8) :
    bytesPayload len b = bytesPayloadRef len b := by
  cases len with
  | none =>
    have : ((b.length : Int) != -1) = true := by simp only [bne_iff_ne, ne_eq]; omega
    simp [bytesPayload, bytesPayloadRef, ctLength, InitExprs.caAddNul, this]
  | some l =>
    simp only [bytesPayload, bytesPayloadRef, ctLength, InitExprs.caAddNul, Option.some.injEq]
    by_cases h : l = b.length
    · subst h; simp
    · have : ((b.length : Int) != (l : Int)) = true := by simp only [bne_iff_ne, ne_eq]; omega
      simp [h, this]

theorem allocPtr_eq_ref (ty : Ty) (init : Option Init) : allocPtr ty init = allocPtrRef ty init := by
  unfold allocPtr allocPtrRef
  cases hs : ty.size? with
  | none => simp [Ty.ctSize, hs, InitExprs.npUnknownSize]
  | some sz0 =>
    have h1 : InitExprs.npUnknownSize ty.ctSize = false := by
      simp [Ty.ctSize, hs, InitExprs.npUnknownSize]
    have h2 : (InitExprs.npCharSize ty.ctSize).toNat = 2 * sz0 := by
      simp only [Ty.ctSize, hs, InitExprs.npCharSize]; omega
    have h3 : ty.ctSize.toNat = sz0 := by simp [Ty.ctSize, hs]
    simp only [h1, Bool.false_eq_true, if_false, h2, h3]
    cases ty with
    | prim p => rfl
    | arr _ _ _ => rfl
    | agg size fs =>
      simp only
      split
      · cases init with
        | none => simp [InitExprs.npPrepassGuard]
        | some i =>
          cases hc : i.isCData <;> simp only [InitExprs.npPrepassGuard, hc, Option.isSome_some, Bool.not_false,
            Bool.not_true, Bool.and_true, Bool.and_false, if_true, Bool.false_eq_true, if_false]
          cases prepassStruct fs i (if (Ty.agg size fs).isCharPrim = true then 2 * sz0 else sz0) <;> rfl
      · rfl

theorem allocArr_eq_ref (isz : Nat) (len : Option Nat) (init : Option Init) :
    allocArr isz len init = allocArrRef isz len init := by
  unfold allocArr allocArrRef
  cases len with
  | some l =>
    have : InitExprs.npOpenArray ((isz * l : Nat) : Int) = false := by
      simp only [InitExprs.npOpenArray, decide_eq_false_iff_not]; omega
    simp only [this, Bool.false_eq_true, if_false, Int.toNat_natCast]
  | none =>
    simp only [InitExprs.npOpenArray, show ((-1 : Int) < 0) from by omega, decide_true, if_true]
    cases init with
    | none => rfl
    | some i =>
      simp only
      cases newArrayLength i with
      | error e => rfl
      | ok q =>
        obtain ⟨n, wasInt⟩ := q
        simp only [InitExprs.npArrSize, InitExprs.npArrOverflow, Bool.and_eq_true, decide_eq_true_eq,
          bne_iff_ne, ne_eq]
        have : ((n : Int) > 0) ↔ n > 0 := by omega
        simp only [this]

theorem sizeofDeref_eq_ref (ty : Ty) (o : Owned) : sizeofDeref ty o = sizeofDerefRef ty o := by
  cases ty with
  | agg size fs =>
    simp only [sizeofDeref, sizeofDerefRef, varByteSize]
    cases fs.anyVar with
    | false => simp [InitExprs.szFallback]
    | true =>
      cases o.length with
      | none => simp
      | some n =>
        have : InitExprs.szFallback (n : Int) = false := by
          simp only [InitExprs.szFallback, decide_eq_false_iff_not]; omega
        simp [this]
  | _ => rfl

theorem szArray_nat (a b : Nat) : (InitExprs.szArray a b).toNat = a * b := by
  have : ((a : Int) * (b : Int)) = ((a * b : Nat) : Int) := by push_cast; rfl
  simp only [InitExprs.szArray, this, Int.toNat_natCast]

theorem sizeofArr_eq_ref (isz : Nat) (len : Option Nat) (o : Owned) :
    sizeofArr isz len o = sizeofArrRef isz len o := by
  cases len with
  | some l => simp only [sizeofArr, sizeofArrRef, szArray_nat]
  | none => simp only [sizeofArr, sizeofArrRef, szArray_nat]


/-! ### stores -/

theorem zeros_length (n : Nat) : (zeros n).length = n := by simp [zeros]

theorem zeros_append (a b : Nat) : zeros a ++ zeros b = zeros (a + b) := by
  simp [zeros, List.replicate_append_replicate]

theorem zeros_get (n i : Nat) (h : i < n) : (zeros n)[i]? = some 0 := by
  simp [zeros, h]

theorem write_length {m : Mem} {off : Nat} {bs m' : List UInt8} (h : write m off bs = .ok m') :
    m'.length = m.length := by
  unfold write at h
  split at h
  · cases h
    simp only [List.length_append, List.length_take, List.length_drop]
    omega
  · cases h

theorem write_append {m : Mem} {off : Nat} {bs m' : List UInt8} (e : Mem)
    (h : write m off bs = .ok m') : write (m ++ e) off bs = .ok (m' ++ e) := by
  unfold write at h ⊢
  split at h
  · cases h
    have : off + bs.length ≤ (m ++ e).length := by simp only [List.length_append]; omega
    simp only [this, if_true]
    congr 1
    rw [List.take_append_of_le_length (by omega), List.drop_append_of_le_length (by omega)]
    simp only [List.append_assoc]
  · cases h

theorem write_error {m : Mem} {off : Nat} {bs : List UInt8} {e : Err}
    (h : write m off bs = .error e) : e = .oob ∧ m.length < off + bs.length := by
  unfold write at h
  split at h
  · cases h
  · cases h; exact ⟨rfl, by omega⟩

theorem write_ok_of_le {m : Mem} {off : Nat} {bs : List UInt8} (h : off + bs.length ≤ m.length) :
    ∃ m', write m off bs = .ok m' := by
  unfold write; simp only [h, if_true]; exact ⟨_, rfl⟩

theorem write_outside {m : Mem} {off : Nat} {bs m' : List UInt8} (h : write m off bs = .ok m')
    (i : Nat) (hi : i < off ∨ off + bs.length ≤ i) : m'[i]? = m[i]? := by
  unfold write at h
  split at h
  · rename_i hle
    cases h
    rcases hi with hi | hi
    · rw [List.append_assoc, List.getElem?_append_left (by simp only [List.length_take]; omega)]
      rw [List.getElem?_take_of_lt hi]
    · rw [List.getElem?_append_right (by simp only [List.length_append, List.length_take]; omega)]
      simp only [List.length_append, List.length_take, List.getElem?_drop]
      congr 1
      omega
  · cases h

theorem leBytes_length (s v : Nat) : (leBytes s v).length = s := by
  induction s generalizing v with
  | zero => rfl
  | succ n ih => simp [leBytes, ih]

/-! ### operations -/

theorem Op.exec_length {op : Op} {m m' : Mem} (h : op.exec m = .ok m') : m'.length = m.length := by
  cases op with
  | store off bs => exact write_length h
  | rmw off s shift bsz v =>
    simp only [Op.exec] at h
    split at h
    · exact write_length h
    · cases h
  | fail e => cases h

theorem Op.exec_append {op : Op} {m m' : Mem} (e : Mem) (h : op.exec m = .ok m') :
    op.exec (m ++ e) = .ok (m' ++ e) := by
  cases op with
  | store off bs => exact write_append e h
  | rmw off s shift bsz v =>
    simp only [Op.exec] at h ⊢
    split at h
    · rename_i hle
      have h2 : off + s ≤ (m ++ e).length := by simp only [List.length_append]; omega
      simp only [h2, if_true]
      have : List.take s (List.drop off (m ++ e)) = List.take s (List.drop off m) := by
        rw [List.drop_append_of_le_length (by omega), List.take_append_of_le_length]
        simp only [List.length_drop]; omega
      rw [this]
      exact write_append e h
    · cases h
  | fail e => cases h

theorem Op.exec_outside {op : Op} {m m' : Mem} (h : op.exec m = .ok m') (i : Nat)
    (hc : op.covers i = false) : m'[i]? = m[i]? := by
  cases op with
  | store off bs =>
    simp only [Op.covers, decide_eq_false_iff_not] at hc
    exact write_outside h i (by omega)
  | rmw off s shift bsz v =>
    simp only [Op.covers, decide_eq_false_iff_not] at hc
    simp only [Op.exec] at h
    split at h
    · exact write_outside h i (by simp only [leBytes_length]; omega)
    · cases h
  | fail e => cases h

theorem Op.exec_fits {op : Op} {m : Mem} (h : op.fitsIn m.length = true) : op.exec m ≠ .error .oob := by
  cases op with
  | store off bs =>
    simp only [Op.fitsIn, decide_eq_true_eq] at h
    obtain ⟨m', hm⟩ := write_ok_of_le h
    simp [Op.exec, hm]
  | rmw off s shift bsz v =>
    simp only [Op.fitsIn, decide_eq_true_eq] at h
    simp only [Op.exec, h, if_true]
    obtain ⟨m', hm⟩ := write_ok_of_le (m := m) (off := off)
      (bs := leBytes s (rmwValue (leValue ((m.drop off).take s)) shift bsz v))
      (by simp only [leBytes_length]; exact h)
    simp [hm]
  | fail e =>
    simp only [Op.fitsIn, bne_iff_ne, ne_eq] at h
    simp only [Op.exec, ne_eq, Except.error.injEq]
    exact h

theorem Op.fitsIn_mono {op : Op} {a b : Nat} (hab : a ≤ b) (h : op.fitsIn a = true) : op.fitsIn b = true := by
  cases op with
  | store off bs => simp only [Op.fitsIn, decide_eq_true_eq] at h ⊢; omega
  | rmw off s shift bsz v => simp only [Op.fitsIn, decide_eq_true_eq] at h ⊢; omega
  | fail e => exact h

/-! ### lists of operations -/

theorem execOps_append_ops (m : Mem) (a b : List Op) :
    execOps m (a ++ b) = (match execOps m a with
      | .ok m' => execOps m' b
      | .error e => .error e) := by
  induction a generalizing m with
  | nil => rfl
  | cons op rest ih =>
    simp only [List.cons_append, execOps]
    cases op.exec m with
    | ok m' => exact ih m'
    | error e => rfl

theorem execOps_length {ops : List Op} {m m' : Mem} (h : execOps m ops = .ok m') :
    m'.length = m.length := by
  induction ops generalizing m with
  | nil => cases h; rfl
  | cons op rest ih =>
    simp only [execOps] at h
    cases hop : op.exec m with
    | ok m1 => rw [hop] at h; rw [ih h, Op.exec_length hop]
    | error e => rw [hop] at h; cases h

theorem execOps_append {ops : List Op} {m m' : Mem} (e : Mem) (h : execOps m ops = .ok m') :
    execOps (m ++ e) ops = .ok (m' ++ e) := by
  induction ops generalizing m with
  | nil => cases h; rfl
  | cons op rest ih =>
    simp only [execOps] at h ⊢
    cases hop : op.exec m with
    | ok m1 => rw [hop] at h; rw [Op.exec_append e hop]; exact ih h
    | error e => rw [hop] at h; cases h

theorem execOps_outside {ops : List Op} {m m' : Mem} (h : execOps m ops = .ok m') (i : Nat)
    (hc : ∀ op ∈ ops, op.covers i = false) : m'[i]? = m[i]? := by
  induction ops generalizing m with
  | nil => cases h; rfl
  | cons op rest ih =>
    simp only [execOps] at h
    cases hop : op.exec m with
    | ok m1 =>
      rw [hop] at h
      rw [ih h (fun o ho => hc o (List.mem_cons_of_mem _ ho)),
          Op.exec_outside hop i (hc op List.mem_cons_self)]
    | error e => rw [hop] at h; cases h

theorem execOps_fits {ops : List Op} {m : Mem} (h : ∀ op ∈ ops, op.fitsIn m.length = true) :
    execOps m ops ≠ .error .oob := by
  induction ops generalizing m with
  | nil => simp [execOps]
  | cons op rest ih =>
    simp only [execOps]
    cases hop : op.exec m with
    | ok m1 =>
      simp only
      apply ih
      intro o ho
      rw [Op.exec_length hop]
      exact h o (List.mem_cons_of_mem _ ho)
    | error e =>
      have := Op.exec_fits (h op List.mem_cons_self)
      rw [hop] at this
      exact this

/-! ### `convert` is the execution of its plan -/

theorem execOps_single (m : Mem) (op : Op) : execOps m [op] = op.exec m := by
  simp only [execOps]
  cases op.exec m <;> rfl

theorem execOps_nil (m : Mem) : execOps m [] = .ok m := rfl

macro "conv_cases" ty:ident fc:ident : tactic =>
  `(tactic| (cases $ty:ident <;> rcases $fc:ident with _ | _ | ⟨sh, bs⟩ <;>
      simp only [convert, plan, execOps_single, execOps_nil, Op.exec, convertPrim, convertBitfield]))
macro "fc_cases" fc:ident : tactic =>
  `(tactic| (rcases $fc:ident with _ | _ | ⟨sh, bs⟩ <;>
      simp only [convert, plan, execOps_single, execOps_nil, Op.exec, convertPrim, convertBitfield]))
macro "conv_fin" : tactic =>
  `(tactic| all_goals ((repeat' split) <;> (first | rfl | simp only [execOps_single, execOps_nil, Op.exec])))

mutual
theorem convert_eq_exec (m : Mem) (off : Nat) (ty : Ty) (fc : FieldCtx) :
    ∀ init : Init, convert m off ty fc init = execOps m (plan off ty fc init)
  | .int v => by
    conv_cases ty fc
    conv_fin
  | .bytes b => by
    conv_cases ty fc
    conv_fin
  | .seq items => by
    cases ty with
    | prim p => fc_cases fc
    | agg size fs =>
      rcases fc with _ | _ | ⟨sh, bs⟩ <;>
        simp only [convert, plan, execOps_single, Op.exec] <;>
        exact convertSeq_eq_exec m off fs items
    | arr item isz len =>
      rcases fc with _ | _ | ⟨sh, bs⟩ <;>
        simp only [convert, plan, execOps_single, Op.exec] <;>
        (split
         · simp only [execOps_single, Op.exec]
         · exact convertItems_eq_exec m off item isz items)
  | .dict kvs => by
    cases ty with
    | prim p => fc_cases fc
    | agg size fs =>
      rcases fc with _ | _ | ⟨sh, bs⟩ <;>
        simp only [convert, plan, execOps_single, Op.exec] <;>
        exact convertDict_eq_exec m off fs kvs
    | arr item isz len => fc_cases fc
  | .cdata same data => by
    cases same <;> conv_cases ty fc
    conv_fin
  | .other => by
    conv_cases ty fc
theorem convertItems_eq_exec (m : Mem) (off : Nat) (item : Ty) (isz : Nat) :
    ∀ items : Inits, convertItems m off item isz items = execOps m (planItems off item isz items)
  | .nil => by simp only [convertItems, planItems, execOps]
  | .cons x xs => by
    simp only [convertItems, planItems, execOps_append_ops]
    rw [convert_eq_exec m off item .plain x]
    cases execOps m (plan off item .plain x) with
    | ok m' => exact convertItems_eq_exec m' (off + isz) item isz xs
    | error e => rfl
theorem convertSeq_eq_exec (m : Mem) (off : Nat) (cf : Fields) :
    ∀ items : Inits, convertSeq m off cf items = execOps m (planSeq off cf items)
  | .nil => by simp only [convertSeq, planSeq, execOps]
  | .cons x xs => by
    simp only [convertSeq, planSeq]
    cases cf.skipIgnored with
    | nil => simp only [execOps_single, Op.exec]
    | cons info ty rest =>
      simp only [execOps_append_ops]
      rw [convert_eq_exec m (off + info.off) ty (.field info.bits) x]
      cases execOps m (plan (off + info.off) ty (.field info.bits) x) with
      | ok m' => exact convertSeq_eq_exec m' off rest xs
      | error e => rfl
theorem convertDict_eq_exec (m : Mem) (off : Nat) (fs : Fields) :
    ∀ kvs : KVs, convertDict m off fs kvs = execOps m (planDict off fs kvs)
  | .nil => by simp only [convertDict, planDict, execOps]
  | .cons k v rest => by
    simp only [convertDict, planDict]
    cases fs.find k with
    | none => simp only [execOps_single, Op.exec]
    | some p =>
      obtain ⟨info, ty⟩ := p
      simp only [execOps_append_ops]
      rw [convert_eq_exec m (off + info.off) ty (.field info.bits) v]
      cases execOps m (plan (off + info.off) ty (.field info.bits) v) with
      | ok m' => exact convertDict_eq_exec m' off fs rest
      | error e => rfl
end

/-! ### `add_varsize_length` -/

theorem tdiv_nonpos_of_nonpos {a b : Int} (ha : a ≤ 0) (hb : 0 < b) : a.tdiv b ≤ 0 := by
  have h1 : 0 ≤ (-a).tdiv b := Int.tdiv_nonneg (by omega) (by omega)
  rw [Int.neg_tdiv] at h1
  omega

theorem addVarsize_key {o isz n : Nat} {size : Int} (ho : o < 2^63)
    (hsz : wrap64 ((o : Int) + wrap64 ((isz : Int) * (n : Int))) = size)
    (hdiv : ¬ (isz ≠ 0 ∧ (size - (o : Int)).tdiv (isz : Int) ≠ (n : Int))) :
    (o : Int) + (isz : Int) * (n : Int) ≤ size := by
  rcases Nat.eq_zero_or_pos isz with hz | hz
  · subst hz
    simp only [Int.natCast_zero, Int.zero_mul] at hsz ⊢
    unfold wrap64 at hsz
    omega
  · have hdiv' : (size - (o : Int)).tdiv (isz : Int) = (n : Int) := by
      by_cases hq : (size - (o : Int)).tdiv (isz : Int) = (n : Int)
      · exact hq
      · exact absurd ⟨by omega, hq⟩ hdiv
    rcases Nat.eq_zero_or_pos n with hn | hn
    · subst hn
      simp only [Int.natCast_zero, Int.mul_zero] at hsz ⊢
      unfold wrap64 at hsz
      omega
    · have hd : 0 < size - (o : Int) := by
        by_cases h1 : 0 < size - (o:Int)
        · exact h1
        · have := tdiv_nonpos_of_nonpos (a := size - (o:Int)) (b := (isz : Int)) (by omega) (by omega)
          omega
      have := Int.mul_tdiv_self_le (x := size - (o : Int)) (k := (isz : Int)) (by omega)
      rw [hdiv'] at this
      omega

theorem addVarsize_sound {o isz n cur r : Nat} (ho : o < 2^63)
    (h : addVarsize o isz n cur = .ok r) : cur ≤ r ∧ o + isz * n ≤ r := by
  rw [addVarsize_eq_ref] at h
  unfold addVarsizeRef at h
  simp only at h
  generalize hsz : wrap64 ((o : Int) + wrap64 ((isz : Int) * (n : Int))) = size at h
  split at h
  · cases h
  · split at h
    · cases h
    · rename_i hneg hdiv
      have hr := Except.ok.inj h
      have key := addVarsize_key ho hsz hdiv
      have key2 : o + isz * n ≤ size.toNat := by
        have : ((o + isz * n : Nat) : Int) ≤ size := by push_cast; exact key
        omega
      rw [← hr]
      split <;> omega

/-! ### bounds on the stores of a plan -/

/-- Every operation of the list stays inside a block of `n` bytes. -/
def AllFit (n : Nat) (ops : List Op) : Prop := ∀ op ∈ ops, op.fitsIn n = true

@[simp] theorem allFit_nil (n : Nat) : AllFit n [] := by intro op h; cases h
@[simp] theorem allFit_single (n : Nat) (o : Op) : AllFit n [o] ↔ o.fitsIn n = true := by
  simp [AllFit]
theorem allFit_append (n : Nat) (a b : List Op) : AllFit n (a ++ b) ↔ AllFit n a ∧ AllFit n b := by
  simp only [AllFit, List.mem_append]
  constructor
  · intro h; exact ⟨fun o ho => h o (Or.inl ho), fun o ho => h o (Or.inr ho)⟩
  · rintro ⟨h1, h2⟩ o (ho | ho)
    · exact h1 o ho
    · exact h2 o ho
theorem allFit_mono {a b : Nat} (hab : a ≤ b) {ops : List Op} (h : AllFit a ops) : AllFit b ops :=
  fun o ho => Op.fitsIn_mono hab (h o ho)

@[simp] theorem fitsIn_fail (n : Nat) (e : Err) : (Op.fail e).fitsIn n = (e != .oob) := rfl

theorem primOp_fits (off : Nat) (p : Prim) (init : Init) (n : Nat) (h : off + p.size ≤ n) :
    (primOp off p init).fitsIn n = true := by
  unfold primOp
  split <;> (try split) <;> (try split) <;> (try split) <;>
    simp_all [Op.fitsIn, leBytes_length, Prim.size]

theorem bitfieldOp_fits (off : Nat) (p : Prim) (shift bsz : Nat) (init : Init) (n : Nat)
    (h : off + p.size ≤ n) : (bitfieldOp off p shift bsz init).fitsIn n = true := by
  unfold bitfieldOp
  cases p with
  | int s sg =>
    simp only
    split
    · exact primOp_fits off _ init n h
    · (repeat' split) <;> first | rfl | simpa [Op.fitsIn, Prim.size] using h
  | bool =>
    simp only
    split
    · exact primOp_fits off _ init n h
    · (repeat' split) <;> first | rfl | simpa [Op.fitsIn, Prim.size] using h
  | char => rfl
  | ptr => rfl

/-! ### facts about field lists -/

theorem skipIgnored_induct (Q : Fields → Prop) (hstep : ∀ i t r, Q (.cons i t r) → Q r) :
    ∀ cf : Fields, Q cf → Q cf.skipIgnored
  | .nil, h => h
  | .cons i t r, h => by
    unfold Fields.skipIgnored
    split
    · exact skipIgnored_induct Q hstep r (hstep i t r h)
    · exact h

theorem find_induct (Q : Fields → Prop) (hstep : ∀ i t r, Q (.cons i t r) → Q r) (k : Nat) :
    ∀ (fs : Fields) (info : FieldInfo) (ty : Ty), Q fs → fs.find k = some (info, ty) →
      ∃ rest, Q (.cons info ty rest)
  | .nil, _, _, _, h => by cases h
  | .cons i t r, info, ty, hq, h => by
    unfold Fields.find at h
    split at h
    · cases h; exact ⟨r, hq⟩
    · exact find_induct Q hstep k r info ty (hstep i t r hq) h

/-- What the proofs need of a (suffix of a) field list of an aggregate of `size` bytes. -/
def FOK (size : Nat) (cf : Fields) : Prop :=
  cf.wf size = true ∧ cf.noVarItems = true ∧ size < 2^63

theorem FOK.tail {size : Nat} {i : FieldInfo} {t : Ty} {r : Fields} (h : FOK size (.cons i t r)) :
    FOK size r := by
  obtain ⟨h1, h2, h3⟩ := h
  simp only [Fields.wf, Fields.noVarItems, Bool.and_eq_true] at h1 h2
  exact ⟨h1.1.2, h2.2, h3⟩

theorem FOK.head {size : Nat} {i : FieldInfo} {t : Ty} {r : Fields} (h : FOK size (.cons i t r)) :
    t.wf = true ∧ t.noVarItems = true := by
  obtain ⟨h1, h2, _⟩ := h
  simp only [Fields.wf, Fields.noVarItems, Bool.and_eq_true] at h1 h2
  exact ⟨h1.1.1, h2.1⟩

theorem FOK.fixed_bound {size : Nat} {i : FieldInfo} {t : Ty} {r : Fields} (h : FOK size (.cons i t r))
    (hno : t.isOpenArr = false) : ∃ sz, t.size? = some sz ∧ i.off + sz ≤ size := by
  obtain ⟨h1, _, _⟩ := h
  simp only [Fields.wf, Bool.and_eq_true] at h1
  have h3 := h1.2
  cases t with
  | prim p => simp only [decide_eq_true_eq, Bool.and_eq_true] at h3; exact ⟨_, rfl, h3.2⟩
  | arr item isz len =>
    cases len with
    | none => simp [Ty.isOpenArr] at hno
    | some l => simp only [decide_eq_true_eq, Bool.and_eq_true] at h3; exact ⟨_, rfl, h3.2⟩
  | agg sz fs => simp only [decide_eq_true_eq, Bool.and_eq_true] at h3; exact ⟨_, rfl, h3.2⟩

theorem FOK.off_le {size : Nat} {i : FieldInfo} {t : Ty} {r : Fields} (h : FOK size (.cons i t r)) :
    i.off ≤ size := by
  obtain ⟨h1, _, _⟩ := h
  simp only [Fields.wf, Bool.and_eq_true] at h1
  have h3 := h1.2
  cases t with
  | prim p => simp only [decide_eq_true_eq, Bool.and_eq_true] at h3; omega
  | arr item isz len =>
    cases len with
    | none => simp only [decide_eq_true_eq, Bool.and_eq_true] at h3; omega
    | some l => simp only [decide_eq_true_eq, Bool.and_eq_true] at h3; omega
  | agg sz fs => simp only [decide_eq_true_eq, Bool.and_eq_true] at h3; omega

theorem anyVar_cons_false {i : FieldInfo} {t : Ty} {r : Fields} (h : (Fields.cons i t r).anyVar = false) :
    t.isOpenArr = false ∧ t.withVar = false ∧ r.anyVar = false := by
  simp only [Fields.anyVar, Bool.or_eq_false_iff] at h
  exact ⟨h.1.1, h.1.2, h.2⟩

/-! ### a conversion into a fixed-size type stays inside the type -/

theorem arr_facts {item : Ty} {isz : Nat} {len : Option Nat}
    (hwf : (Ty.arr item isz len).wf = true) (hnv : (Ty.arr item isz len).noVarItems = true) :
    item.wf = true ∧ item.noVarItems = true ∧ item.withVar = false ∧ item.size? = some isz := by
  simp only [Ty.wf, Ty.noVarItems, Bool.and_eq_true, beq_iff_eq, Bool.not_eq_true'] at hwf hnv
  exact ⟨hwf.1, hnv.2, hnv.1, hwf.2⟩

theorem byteLike_size {item : Ty} {isz : Nat} (hb : item.isByteLike = true) (h : item.size? = some isz) :
    isz = 1 := by
  cases item with
  | prim p =>
    cases p with
    | int s sg =>
      simp only [Ty.isByteLike, beq_iff_eq] at hb
      simp only [Ty.size?, Prim.size, Option.some.injEq] at h; omega
    | bool => simp only [Ty.size?, Prim.size, Option.some.injEq] at h; omega
    | char => simp only [Ty.size?, Prim.size, Option.some.injEq] at h; omega
    | ptr => simp [Ty.isByteLike] at hb
  | arr _ _ _ => simp [Ty.isByteLike] at hb
  | agg _ _ => simp [Ty.isByteLike] at hb

/-- The `bytes` branch of `convert_array_from_object` for an array of fixed length `l`. -/
theorem bytes_plan_fits (n off : Nat) (item : Ty) (isz l : Nat) (b : List UInt8)
    (h4 : item.size? = some isz) (hle : off + isz * l ≤ n) :
    AllFit n (if item.isByteLike = true then
        if tooMany (some l) b.length = true then [Op.fail Err.index]
        else
          if (item.isBool && (bytesPayload (some l) b).any fun c => decide (c > 1)) = true
          then [Op.fail Err.value]
          else [Op.store off (bytesPayload (some l) b)]
      else [Op.fail Err.type]) := by
  have hp : ¬ (b.length > l) → (bytesPayload (some l) b).length ≤ l := by
    intro htm
    rw [bytesPayload_eq_ref, bytesPayloadRef]
    split
    · rename_i he; simp only [Option.some.injEq] at he; omega
    · rename_i hne
      simp only [Option.some.injEq] at hne
      simp only [List.length_append, List.length_singleton]
      omega
  generalize bytesPayload (some l) b = payload at hp ⊢
  by_cases hbl : item.isByteLike = true
  · have := byteLike_size hbl h4
    subst this
    simp only [hbl, if_true]
    by_cases htm : tooMany (some l) b.length = true
    · simp [htm]
    · have hl := hp (by simpa [tooMany_eq_ref, tooManyRef] using htm)
      have htm' : tooMany (some l) b.length = false := by simpa using htm
      rw [htm']
      simp only [Bool.false_eq_true, if_false]
      by_cases hv : (item.isBool && payload.any fun c => decide (c > 1)) = true
      · simp [hv]
      · rw [if_neg hv]
        simp only [allFit_single, Op.fitsIn, decide_eq_true_eq]
        omega
  · simp [hbl]

mutual
theorem plan_fits_fixed (n : Nat) : ∀ (init : Init) (off : Nat) (ty : Ty) (fc : FieldCtx) (sz : Nat),
    ty.wf = true → ty.noVarItems = true → ty.withVar = false → ty.size? = some sz → off + sz ≤ n →
    AllFit n (plan off ty fc init)
  | .seq items, off, ty, fc, sz, hwf, hnv, hvar, hsz, hle => by
    cases ty with
    | prim p =>
      simp only [Ty.size?, Option.some.injEq] at hsz; subst hsz
      rcases fc with _ | _ | ⟨sh, bs⟩ <;> simp only [plan, allFit_single]
      · exact primOp_fits _ _ _ _ hle
      · exact primOp_fits _ _ _ _ hle
      · exact bitfieldOp_fits _ _ _ _ _ _ hle
    | agg size fs =>
      simp only [Ty.size?, Option.some.injEq] at hsz; subst hsz
      simp only [Ty.wf, Ty.noVarItems, Ty.withVar, Bool.and_eq_true, decide_eq_true_eq] at hwf hnv hvar
      rcases fc with _ | _ | ⟨sh, bs⟩ <;> simp only [plan, allFit_single, fitsIn_fail]
      · exact planSeq_fits_fixed n items off fs size ⟨hwf.2, hnv, hwf.1⟩ hvar hle
      · exact planSeq_fits_fixed n items off fs size ⟨hwf.2, hnv, hwf.1⟩ hvar hle
      · decide
    | arr item isz len =>
      obtain ⟨h1, h2, h3, h4⟩ := arr_facts hwf hnv
      cases len with
      | none => simp [Ty.size?] at hsz
      | some l =>
        simp only [Ty.size?, Option.some.injEq] at hsz; subst hsz
        rcases fc with _ | _ | ⟨sh, bs⟩ <;> simp only [plan, allFit_single, fitsIn_fail]
        · split
          · simp
          · rename_i htm
            simp only [tooMany_eq_ref, tooManyRef, decide_eq_true_eq] at htm
            refine planItems_fits_fixed n items off item isz h1 h2 h3 h4 ?_
            have : items.length * isz ≤ isz * l := by
              rw [Nat.mul_comm]; exact Nat.mul_le_mul_left _ (by omega)
            omega
        · split
          · simp
          · rename_i htm
            simp only [tooMany_eq_ref, tooManyRef, decide_eq_true_eq] at htm
            refine planItems_fits_fixed n items off item isz h1 h2 h3 h4 ?_
            have : items.length * isz ≤ isz * l := by
              rw [Nat.mul_comm]; exact Nat.mul_le_mul_left _ (by omega)
            omega
        · decide
  | .dict kvs, off, ty, fc, sz, hwf, hnv, hvar, hsz, hle => by
    cases ty with
    | prim p =>
      simp only [Ty.size?, Option.some.injEq] at hsz; subst hsz
      rcases fc with _ | _ | ⟨sh, bs⟩ <;> simp only [plan, allFit_single]
      · exact primOp_fits _ _ _ _ hle
      · exact primOp_fits _ _ _ _ hle
      · exact bitfieldOp_fits _ _ _ _ _ _ hle
    | agg size fs =>
      simp only [Ty.size?, Option.some.injEq] at hsz; subst hsz
      simp only [Ty.wf, Ty.noVarItems, Ty.withVar, Bool.and_eq_true, decide_eq_true_eq] at hwf hnv hvar
      rcases fc with _ | _ | ⟨sh, bs⟩ <;> simp only [plan, allFit_single, fitsIn_fail]
      · exact planDict_fits_fixed n kvs off fs size ⟨hwf.2, hnv, hwf.1⟩ hvar hle
      · exact planDict_fits_fixed n kvs off fs size ⟨hwf.2, hnv, hwf.1⟩ hvar hle
      · decide
    | arr item isz len =>
      rcases fc with _ | _ | ⟨sh, bs⟩ <;> simp only [plan, allFit_single, fitsIn_fail] <;> decide
  | .int v, off, ty, fc, sz, hwf, hnv, hvar, hsz, hle => by
    cases ty with
    | prim p =>
      simp only [Ty.size?, Option.some.injEq] at hsz; subst hsz
      rcases fc with _ | _ | ⟨sh, bs⟩ <;> simp only [plan, allFit_single]
      · exact primOp_fits _ _ _ _ hle
      · exact primOp_fits _ _ _ _ hle
      · exact bitfieldOp_fits _ _ _ _ _ _ hle
    | agg size fs =>
      rcases fc with _ | _ | ⟨sh, bs⟩ <;> simp only [plan, allFit_single, fitsIn_fail] <;> decide
    | arr item isz len =>
      cases len with
      | none => simp [Ty.size?] at hsz
      | some l =>
        rcases fc with _ | _ | ⟨sh, bs⟩ <;> simp only [plan, allFit_single, fitsIn_fail] <;> decide
  | .bytes b, off, ty, fc, sz, hwf, hnv, hvar, hsz, hle => by
    cases ty with
    | prim p =>
      simp only [Ty.size?, Option.some.injEq] at hsz; subst hsz
      rcases fc with _ | _ | ⟨sh, bs⟩ <;> simp only [plan, allFit_single]
      · exact primOp_fits _ _ _ _ hle
      · exact primOp_fits _ _ _ _ hle
      · exact bitfieldOp_fits _ _ _ _ _ _ hle
    | agg size fs =>
      rcases fc with _ | _ | ⟨sh, bs⟩ <;> simp only [plan, allFit_single, fitsIn_fail] <;> decide
    | arr item isz len =>
      obtain ⟨h1, h2, h3, h4⟩ := arr_facts hwf hnv
      cases len with
      | none => simp [Ty.size?] at hsz
      | some l =>
        simp only [Ty.size?, Option.some.injEq] at hsz; subst hsz
        have hb := bytes_plan_fits n off item isz l b h4 hle
        rcases fc with _ | _ | ⟨sh, bs⟩ <;> simp only [plan, allFit_single, fitsIn_fail]
        · exact hb
        · exact hb
        · decide
  | .cdata same data, off, ty, fc, sz, hwf, hnv, hvar, hsz, hle => by
    cases ty with
    | prim p =>
      simp only [Ty.size?, Option.some.injEq] at hsz; subst hsz
      rcases fc with _ | _ | ⟨sh, bs⟩ <;> simp only [plan, allFit_single]
      · exact primOp_fits _ _ _ _ hle
      · exact primOp_fits _ _ _ _ hle
      · exact bitfieldOp_fits _ _ _ _ _ _ hle
    | agg size fs =>
      simp only [Ty.size?, Option.some.injEq] at hsz; subst hsz
      cases same <;> rcases fc with _ | _ | ⟨sh, bs⟩ <;>
        simp only [plan, allFit_single, fitsIn_fail] <;> (try decide) <;>
        ((repeat' split) <;> first | decide | (simp [Op.fitsIn] <;> omega))
    | arr item isz len =>
      cases len with
      | none => simp [Ty.size?] at hsz
      | some l =>
        simp only [Ty.size?, Option.some.injEq] at hsz; subst hsz
        cases same <;> rcases fc with _ | _ | ⟨sh, bs⟩ <;>
          simp only [plan, allFit_single, fitsIn_fail] <;> (try decide) <;>
          ((repeat' split) <;> first | decide | (simp [Op.fitsIn] <;> omega))
  | .other, off, ty, fc, sz, hwf, hnv, hvar, hsz, hle => by
    cases ty with
    | prim p =>
      simp only [Ty.size?, Option.some.injEq] at hsz; subst hsz
      rcases fc with _ | _ | ⟨sh, bs⟩ <;> simp only [plan, allFit_single]
      · exact primOp_fits _ _ _ _ hle
      · exact primOp_fits _ _ _ _ hle
      · exact bitfieldOp_fits _ _ _ _ _ _ hle
    | agg size fs =>
      rcases fc with _ | _ | ⟨sh, bs⟩ <;> simp only [plan, allFit_single, fitsIn_fail] <;> decide
    | arr item isz len =>
      rcases fc with _ | _ | ⟨sh, bs⟩ <;> simp only [plan, allFit_single, fitsIn_fail] <;> decide
theorem planItems_fits_fixed (n : Nat) : ∀ (items : Inits) (off : Nat) (item : Ty) (isz : Nat),
    item.wf = true → item.noVarItems = true → item.withVar = false → item.size? = some isz →
    off + items.length * isz ≤ n → AllFit n (planItems off item isz items)
  | .nil, off, item, isz, _, _, _, _, _ => by simp only [planItems, allFit_nil]
  | .cons x xs, off, item, isz, h1, h2, h3, h4, hle => by
    simp only [planItems, allFit_append]
    simp only [Inits.length, Nat.add_mul, Nat.one_mul] at hle
    exact ⟨plan_fits_fixed n x off item .plain isz h1 h2 h3 h4 (by omega),
           planItems_fits_fixed n xs (off + isz) item isz h1 h2 h3 h4 (by omega)⟩
theorem planSeq_fits_fixed (n : Nat) : ∀ (items : Inits) (off : Nat) (cf : Fields) (size : Nat),
    FOK size cf → cf.anyVar = false → off + size ≤ n → AllFit n (planSeq off cf items)
  | .nil, off, cf, size, _, _, _ => by simp only [planSeq, allFit_nil]
  | .cons x xs, off, cf, size, hok, hvar, hle => by
    simp only [planSeq]
    have hq := skipIgnored_induct (fun c => FOK size c ∧ c.anyVar = false)
      (fun i t r h => ⟨h.1.tail, (anyVar_cons_false h.2).2.2⟩) cf ⟨hok, hvar⟩
    cases hsk : cf.skipIgnored with
    | nil => simp
    | cons info ty rest =>
      rw [hsk] at hq
      obtain ⟨hok', hvar'⟩ := hq
      obtain ⟨hno, hwv, hrest⟩ := anyVar_cons_false hvar'
      obtain ⟨sz, hsz, hb⟩ := hok'.fixed_bound hno
      simp only [allFit_append]
      exact ⟨plan_fits_fixed n x (off + info.off) ty (.field info.bits) sz hok'.head.1 hok'.head.2 hwv hsz
               (by omega),
             planSeq_fits_fixed n xs off rest size hok'.tail hrest hle⟩
theorem planDict_fits_fixed (n : Nat) : ∀ (kvs : KVs) (off : Nat) (fs : Fields) (size : Nat),
    FOK size fs → fs.anyVar = false → off + size ≤ n → AllFit n (planDict off fs kvs)
  | .nil, off, fs, size, _, _, _ => by simp only [planDict, allFit_nil]
  | .cons k v rest, off, fs, size, hok, hvar, hle => by
    simp only [planDict]
    cases hf : fs.find k with
    | none => simp
    | some p =>
      obtain ⟨info, ty⟩ := p
      obtain ⟨r, hok', hvar'⟩ := find_induct (fun c => FOK size c ∧ c.anyVar = false)
        (fun i t r h => ⟨h.1.tail, (anyVar_cons_false h.2).2.2⟩) k fs info ty ⟨hok, hvar⟩ hf
      obtain ⟨hno, hwv, _⟩ := anyVar_cons_false hvar'
      obtain ⟨sz, hsz, hb⟩ := hok'.fixed_bound hno
      simp only [allFit_append]
      exact ⟨plan_fits_fixed n v (off + info.off) ty (.field info.bits) sz hok'.head.1 hok'.head.2 hwv hsz
               (by omega),
             planDict_fits_fixed n rest off fs size hok hvar hle⟩
end

/-! ### the var-size pre-pass bounds every store -/

theorem addVarsize_ge_cur {o isz n cur r : Nat} (h : addVarsize o isz n cur = .ok r) : cur ≤ r := by
  rw [addVarsize_eq_ref] at h
  unfold addVarsizeRef at h
  simp only at h
  split at h
  · cases h
  · split at h
    · cases h
    · have hr := Except.ok.inj h
      rw [← hr]
      split <;> omega

theorem prepassField_mono {info : FieldInfo} {ty : Ty} {v : Init} {cur r : Nat}
    (h : prepassField info ty v cur = .ok r) : cur ≤ r := by
  unfold prepassField at h
  split at h
  · split at h
    · exact addVarsize_ge_cur h
    · cases h
  · split at h
    · split at h
      · cases h; omega
      · split at h
        · exact addVarsize_ge_cur h
        · cases h
      · split at h
        · exact addVarsize_ge_cur h
        · cases h
      · cases h
    · cases h; omega
  · cases h; omega

theorem prepassSeq_mono : ∀ (items : Inits) (cf : Fields) (cur r : Nat),
    prepassSeq cf items cur = .ok r → cur ≤ r
  | .nil, cf, cur, r, h => by simp only [prepassSeq] at h; cases h; omega
  | .cons x xs, cf, cur, r, h => by
    simp only [prepassSeq] at h
    split at h
    · cases h
    · split at h
      · rename_i cur' hf
        have := prepassField_mono hf
        have := prepassSeq_mono xs _ _ _ h
        omega
      · cases h

theorem prepassDict_mono : ∀ (kvs : KVs) (fs : Fields) (cur r : Nat),
    prepassDict fs kvs cur = .ok r → cur ≤ r
  | .nil, fs, cur, r, h => by simp only [prepassDict] at h; cases h; omega
  | .cons k v rest, fs, cur, r, h => by
    simp only [prepassDict] at h
    split at h
    · cases h
    · split at h
      · rename_i cur' hf
        have := prepassField_mono hf
        have := prepassDict_mono rest _ _ _ h
        omega
      · cases h

/-- A field whose type is neither an open array nor a var-sized struct: the conversion stays
inside the enclosing aggregate. -/
theorem plan_fits_field_fixed (n : Nat) (x : Init) (off : Nat) (info : FieldInfo) (ty : Ty)
    (rest : Fields) (size : Nat) (hok : FOK size (.cons info ty rest))
    (hno : ty.isOpenArr = false) (hwv : ty.withVar = false) (hle : off + size ≤ n) :
    AllFit n (plan (off + info.off) ty (.field info.bits) x) := by
  obtain ⟨sz, hsz, hb⟩ := hok.fixed_bound hno
  exact plan_fits_fixed n x (off + info.off) ty (.field info.bits) sz hok.head.1 hok.head.2 hwv hsz
    (by omega)

theorem agg_facts {size : Nat} {fs : Fields} (hwf : (Ty.agg size fs).wf = true)
    (hnv : (Ty.agg size fs).noVarItems = true) : FOK size fs := by
  simp only [Ty.wf, Ty.noVarItems, Bool.and_eq_true, decide_eq_true_eq] at hwf hnv
  exact ⟨hwf.2, hnv, hwf.1⟩


theorem FOK.off_lt {size : Nat} {i : FieldInfo} {t : Ty} {r : Fields} (h : FOK size (.cons i t r)) :
    i.off < 2^63 := by
  have := h.off_le
  have := h.2.2
  omega

/-- An open array field initialised with `x`: the stores stay below what the pre-pass computed. -/
theorem plan_fits_open (n : Nat) (x : Init) (off : Nat) (info : FieldInfo) (item : Ty) (isz : Nat)
    (rest : Fields) (size cur cur' : Nat) (hok : FOK size (.cons info (.arr item isz none) rest))
    (hp : prepassField info (.arr item isz none) x cur = .ok cur') (hle : off + cur' ≤ n) :
    AllFit n (plan (off + info.off) (.arr item isz none) (.field info.bits) x) := by
  obtain ⟨h1, h2, h3, h4⟩ := arr_facts hok.head.1 hok.head.2
  have hoff := hok.off_lt
  simp only [prepassField] at hp
  rcases hb : info.bits with _ | ⟨sh, bs⟩
  · cases x with
    | seq items =>
      simp only [newArrayLength_eq_ref, newArrayLengthRef] at hp
      have hs := (addVarsize_sound hoff hp).2
      simp only [plan, tooMany_eq_ref, tooManyRef, Bool.false_eq_true, if_false]
      refine planItems_fits_fixed n items (off + info.off) item isz h1 h2 h3 h4 ?_
      rw [Nat.mul_comm]; omega
    | bytes b =>
      simp only [newArrayLength_eq_ref, newArrayLengthRef] at hp
      have hs := (addVarsize_sound hoff hp).2
      simp only [plan, tooMany_eq_ref, tooManyRef, Bool.false_eq_true, if_false]
      by_cases hbl : item.isByteLike = true
      · have := byteLike_size hbl h4
        subst this
        simp only [hbl, if_true]
        have hne : ¬ ((none : Option Nat) = some b.length) := by simp
        rw [bytesPayload_eq_ref, bytesPayloadRef, if_neg hne]
        split
        · simp
        · simp only [allFit_single, Op.fitsIn, decide_eq_true_eq, List.length_append,
            List.length_singleton]
          omega
      · simp [hbl]
    | int v =>
      simp only [plan]
      cases hn : newArrayLength (.int v) with
      | ok a => simp
      | error e => rw [hn] at hp; cases hp
    | dict kvs => simp [plan]
    | cdata same data => simp [plan]
    | other => simp [plan]
  · cases x <;> simp [plan]

def Init.isNode : Init → Bool
  | .seq _ => true
  | .dict _ => true
  | _ => false

/-- Initialisers without sub-initialisers (no recursion needed). -/
theorem plan_fits_leaf (n : Nat) (x : Init) (hx : x.isNode = false) (off : Nat) (info : FieldInfo) (ty : Ty)
    (rest : Fields) (size cur cur' : Nat)
    (hok : FOK size (.cons info ty rest)) (hp : prepassField info ty x cur = .ok cur')
    (hle : off + cur' ≤ n) (hsz : off + size ≤ n) :
    AllFit n (plan (off + info.off) ty (.field info.bits) x) := by
  cases ty with
  | prim p => exact plan_fits_field_fixed n _ off info _ rest size hok rfl rfl hsz
  | arr item isz len =>
    cases len with
    | some l => exact plan_fits_field_fixed n _ off info _ rest size hok rfl rfl hsz
    | none => exact plan_fits_open n _ off info item isz rest size cur cur' hok hp hle
  | agg size' fs' =>
    by_cases hv : fs'.anyVar = true
    · obtain ⟨sz, hsz', hb⟩ := hok.fixed_bound (t := .agg size' fs') rfl
      simp only [Ty.size?, Option.some.injEq] at hsz'; subst hsz'
      rcases hbits : info.bits with _ | ⟨sh, bs⟩
      · cases x with
        | seq items => simp [Init.isNode] at hx
        | dict kvs => simp [Init.isNode] at hx
        | cdata same data =>
          cases same
          · simp [plan]
          · simp only [plan]
            split
            · simp only [allFit_single, Op.fitsIn, decide_eq_true_eq, List.length_take]
              omega
            · simp
        | int v => simp [prepassField, hv] at hp
        | bytes b => simp [prepassField, hv] at hp
        | other => simp [prepassField, hv] at hp
      · cases x <;> simp [plan]
    · exact plan_fits_field_fixed n _ off info _ rest size hok rfl (by simpa [Ty.withVar] using hv) hsz

mutual
theorem plan_fits_field (n : Nat) : ∀ (x : Init) (off : Nat) (info : FieldInfo) (ty : Ty)
    (rest : Fields) (size cur cur' : Nat),
    FOK size (.cons info ty rest) → prepassField info ty x cur = .ok cur' → off + cur' ≤ n →
    off + size ≤ n → AllFit n (plan (off + info.off) ty (.field info.bits) x)
  | .seq items, off, info, ty, rest, size, cur, cur', hok, hp, hle, hsz => by
    cases ty with
    | prim p => exact plan_fits_field_fixed n _ off info _ rest size hok rfl rfl hsz
    | arr item isz len =>
      cases len with
      | some l => exact plan_fits_field_fixed n _ off info _ rest size hok rfl rfl hsz
      | none => exact plan_fits_open n _ off info item isz rest size cur cur' hok hp hle
    | agg size' fs' =>
      by_cases hv : fs'.anyVar = true
      · obtain ⟨sz, hsz', hb⟩ := hok.fixed_bound (t := .agg size' fs') rfl
        simp only [Ty.size?, Option.some.injEq] at hsz'; subst hsz'
        have hok' := agg_facts hok.head.1 hok.head.2
        simp only [prepassField, hv, if_true] at hp
        rcases hbits : info.bits with _ | ⟨sh, bs⟩
        · simp only [plan]
          cases hps : prepassSeq fs' items size' with
          | error e => rw [hps] at hp; cases hp
          | ok sub =>
            rw [hps] at hp
            have hs := (addVarsize_sound hok.off_lt hp).2
            exact planSeq_fits_var n items (off + info.off) fs' size' size' sub hok' hps
              (by omega) (by omega)
        · simp [plan]
      · exact plan_fits_field_fixed n _ off info _ rest size hok rfl (by simpa [Ty.withVar] using hv) hsz
  | .dict kvs, off, info, ty, rest, size, cur, cur', hok, hp, hle, hsz => by
    cases ty with
    | prim p => exact plan_fits_field_fixed n _ off info _ rest size hok rfl rfl hsz
    | arr item isz len =>
      cases len with
      | some l => exact plan_fits_field_fixed n _ off info _ rest size hok rfl rfl hsz
      | none => exact plan_fits_open n _ off info item isz rest size cur cur' hok hp hle
    | agg size' fs' =>
      by_cases hv : fs'.anyVar = true
      · obtain ⟨sz, hsz', hb⟩ := hok.fixed_bound (t := .agg size' fs') rfl
        simp only [Ty.size?, Option.some.injEq] at hsz'; subst hsz'
        have hok' := agg_facts hok.head.1 hok.head.2
        simp only [prepassField, hv, if_true] at hp
        rcases hbits : info.bits with _ | ⟨sh, bs⟩
        · simp only [plan]
          cases hps : prepassDict fs' kvs size' with
          | error e => rw [hps] at hp; cases hp
          | ok sub =>
            rw [hps] at hp
            have hs := (addVarsize_sound hok.off_lt hp).2
            exact planDict_fits_var n kvs (off + info.off) fs' size' size' sub hok' hps
              (by omega) (by omega)
        · simp [plan]
      · exact plan_fits_field_fixed n _ off info _ rest size hok rfl (by simpa [Ty.withVar] using hv) hsz
  | .int v, off, info, ty, rest, size, cur, cur', hok, hp, hle, hsz => by
    exact plan_fits_leaf n _ (by simp [Init.isNode]) off info ty rest size cur cur' hok hp hle hsz
  | .bytes b, off, info, ty, rest, size, cur, cur', hok, hp, hle, hsz => by
    exact plan_fits_leaf n _ (by simp [Init.isNode]) off info ty rest size cur cur' hok hp hle hsz
  | .cdata same data, off, info, ty, rest, size, cur, cur', hok, hp, hle, hsz => by
    exact plan_fits_leaf n _ (by simp [Init.isNode]) off info ty rest size cur cur' hok hp hle hsz
  | .other, off, info, ty, rest, size, cur, cur', hok, hp, hle, hsz => by
    exact plan_fits_leaf n _ (by simp [Init.isNode]) off info ty rest size cur cur' hok hp hle hsz
theorem planSeq_fits_var (n : Nat) : ∀ (items : Inits) (off : Nat) (cf : Fields) (size cur sz : Nat),
    FOK size cf → prepassSeq cf items cur = .ok sz → off + sz ≤ n → off + size ≤ n →
    AllFit n (planSeq off cf items)
  | .nil, off, cf, size, cur, sz, _, _, _, _ => by simp only [planSeq, allFit_nil]
  | .cons x xs, off, cf, size, cur, sz, hok, hp, hle, hsz => by
    simp only [planSeq]
    simp only [prepassSeq] at hp
    have hq := skipIgnored_induct (fun c => FOK size c) (fun i t r h => h.tail) cf hok
    cases hsk : cf.skipIgnored with
    | nil => simp
    | cons info ty rest =>
      rw [hsk] at hq hp
      simp only at hp
      cases hf : prepassField info ty x cur with
      | error e => rw [hf] at hp; cases hp
      | ok cur' =>
        rw [hf] at hp
        simp only at hp
        have hm := prepassSeq_mono xs rest cur' sz hp
        simp only [allFit_append]
        exact ⟨plan_fits_field n x off info ty rest size cur cur' hq hf (by omega) hsz,
               planSeq_fits_var n xs off rest size cur' sz hq.tail hp hle hsz⟩
theorem planDict_fits_var (n : Nat) : ∀ (kvs : KVs) (off : Nat) (fs : Fields) (size cur sz : Nat),
    FOK size fs → prepassDict fs kvs cur = .ok sz → off + sz ≤ n → off + size ≤ n →
    AllFit n (planDict off fs kvs)
  | .nil, off, fs, size, cur, sz, _, _, _, _ => by simp only [planDict, allFit_nil]
  | .cons k v rest, off, fs, size, cur, sz, hok, hp, hle, hsz => by
    simp only [planDict]
    simp only [prepassDict] at hp
    cases hfi : fs.find k with
    | none => simp
    | some p =>
      obtain ⟨info, ty⟩ := p
      rw [hfi] at hp
      simp only at hp
      obtain ⟨r, hq⟩ := find_induct (fun c => FOK size c) (fun i t r h => h.tail) k fs info ty hok hfi
      cases hf : prepassField info ty v cur with
      | error e => rw [hf] at hp; cases hp
      | ok cur' =>
        rw [hf] at hp
        simp only at hp
        have hm := prepassDict_mono rest fs cur' sz hp
        simp only [allFit_append]
        exact ⟨plan_fits_field n v off info ty r size cur cur' hq hf (by omega) hsz,
               planDict_fits_var n rest off fs size cur' sz hok hp hle hsz⟩
end

/-! ### errors of the pre-pass: Python exceptions only, never `oob` -/

theorem newArrayLength_err {x : Init} {e : Err} (h : newArrayLength x = .error e) :
    e = .overflow ∨ e = .value ∨ e = .type := by
  rw [newArrayLength_eq_ref] at h
  cases x <;> simp only [newArrayLengthRef] at h
  · split at h
    · cases h; simp
    · split at h
      · cases h; simp
      · cases h
  all_goals cases h
  all_goals simp

/-- Errors of the pre-pass: Python exceptions only, never the out-of-bounds outcome. -/
def PreErrOk (e : Err) : Prop := e ≠ .oob

theorem addVarsize_err {o isz n cur : Nat} {e : Err} (h : addVarsize o isz n cur = .error e) :
    e = .overflow := by
  rw [addVarsize_eq_ref] at h
  unfold addVarsizeRef at h
  simp only at h
  split at h
  · cases h; rfl
  · split at h
    · cases h; rfl
    · cases h

theorem addVarsize_errOk {o isz n cur : Nat} {e : Err}
    (h : addVarsize o isz n cur = .error e) : PreErrOk e := by
  rw [addVarsize_err h]; exact (by decide : Err.overflow ≠ Err.oob)

theorem newArrayLength_errOk {x : Init} {e : Err} (h : newArrayLength x = .error e) :
    PreErrOk e := by
  rcases newArrayLength_err h with h | h | h <;> subst h <;> (unfold PreErrOk; decide)

theorem prepassField_errOk_leaf (x : Init) (hx : x.isNode = false) (info : FieldInfo) (ty : Ty) (cur : Nat)
    (e : Err) (h : prepassField info ty x cur = .error e) : PreErrOk e := by
  cases ty with
  | prim p => simp [prepassField] at h
  | arr item isz len =>
    cases len with
    | some l => simp [prepassField] at h
    | none =>
      simp only [prepassField] at h
      cases hn : newArrayLength x with
      | ok a =>
        obtain ⟨n, b⟩ := a
        rw [hn] at h
        exact addVarsize_errOk h
      | error e' =>
        rw [hn] at h
        cases h
        exact newArrayLength_errOk hn
  | agg size fs =>
    cases x with
    | seq items => simp [Init.isNode] at hx
    | dict kvs => simp [Init.isNode] at hx
    | _ =>
      simp only [prepassField] at h
      split at h
      all_goals (first | (cases h; done) | (cases h; exact (by decide : Err.type ≠ Err.oob)))

mutual
theorem prepassField_errOk : ∀ (x : Init) (info : FieldInfo) (ty : Ty) (cur : Nat) (e : Err),
    prepassField info ty x cur = .error e → PreErrOk e
  | .seq items, info, ty, cur, e, h => by
    cases ty with
    | prim p => simp [prepassField] at h
    | arr item isz len =>
      cases len with
      | some l => simp [prepassField] at h
      | none =>
        simp only [prepassField, newArrayLength_eq_ref, newArrayLengthRef] at h
        exact addVarsize_errOk h
    | agg size fs =>
      simp only [prepassField] at h
      split at h
      · cases hps : prepassSeq fs items size with
        | ok sub =>
          rw [hps] at h
          exact addVarsize_errOk h
        | error e' =>
          rw [hps] at h
          cases h
          exact prepassSeq_errOk items fs size e hps
      · cases h
  | .dict kvs, info, ty, cur, e, h => by
    cases ty with
    | prim p => simp [prepassField] at h
    | arr item isz len =>
      cases len with
      | some l => simp [prepassField] at h
      | none =>
        simp only [prepassField, newArrayLength_eq_ref, newArrayLengthRef] at h
        cases h
        exact (by decide : Err.type ≠ Err.oob)
    | agg size fs =>
      simp only [prepassField] at h
      split at h
      · cases hps : prepassDict fs kvs size with
        | ok sub =>
          rw [hps] at h
          exact addVarsize_errOk h
        | error e' =>
          rw [hps] at h
          cases h
          exact prepassDict_errOk kvs fs size e hps
      · cases h
  | .int v, info, ty, cur, e, h => prepassField_errOk_leaf _ (by simp [Init.isNode]) info ty cur e h
  | .bytes b, info, ty, cur, e, h => prepassField_errOk_leaf _ (by simp [Init.isNode]) info ty cur e h
  | .cdata same data, info, ty, cur, e, h =>
    prepassField_errOk_leaf _ (by simp [Init.isNode]) info ty cur e h
  | .other, info, ty, cur, e, h => prepassField_errOk_leaf _ (by simp [Init.isNode]) info ty cur e h
theorem prepassSeq_errOk : ∀ (items : Inits) (cf : Fields) (cur : Nat) (e : Err),
    prepassSeq cf items cur = .error e → PreErrOk e
  | .nil, cf, cur, e, h => by simp [prepassSeq] at h
  | .cons x xs, cf, cur, e, h => by
    simp only [prepassSeq] at h
    cases hsk : cf.skipIgnored with
    | nil =>
      rw [hsk] at h
      cases h
      exact (by decide : Err.value ≠ Err.oob)
    | cons info ty rest =>
      rw [hsk] at h
      simp only at h
      cases hf : prepassField info ty x cur with
      | ok cur' =>
        rw [hf] at h
        exact prepassSeq_errOk xs rest cur' e h
      | error e' =>
        rw [hf] at h
        cases h
        exact prepassField_errOk x info ty cur e hf
theorem prepassDict_errOk : ∀ (kvs : KVs) (fs : Fields) (cur : Nat) (e : Err),
    prepassDict fs kvs cur = .error e → PreErrOk e
  | .nil, fs, cur, e, h => by simp [prepassDict] at h
  | .cons k v rest, fs, cur, e, h => by
    simp only [prepassDict] at h
    cases hfi : fs.find k with
    | none =>
      rw [hfi] at h
      cases h
      exact (by decide : Err.key ≠ Err.oob)
    | some p =>
      obtain ⟨info, ty⟩ := p
      rw [hfi] at h
      simp only at h
      cases hf : prepassField info ty v cur with
      | ok cur' =>
        rw [hf] at h
        exact prepassDict_errOk rest fs cur' e h
      | error e' =>
        rw [hf] at h
        cases h
        exact prepassField_errOk v info ty cur e hf
end

theorem skipIgnored_head_not_ignored : ∀ (cf : Fields) (info : FieldInfo) (ty : Ty) (rest : Fields),
    cf.skipIgnored = .cons info ty rest → info.ignore = false
  | .nil, info, ty, rest, h => by simp [Fields.skipIgnored] at h
  | .cons i t r, info, ty, rest, h => by
    unfold Fields.skipIgnored at h
    split at h
    · exact skipIgnored_head_not_ignored r info ty rest h
    · rename_i hi
      simp only [Fields.cons.injEq] at h
      rw [← h.1]
      simpa using hi

/-! ### the overflow test of `add_varsize_length` is exact -/

theorem wrap64_lt (x : Int) : wrap64 x < (2:Int)^63 := by unfold wrap64; omega
theorem wrap64_id {x : Int} (h0 : -(2:Int)^63 ≤ x) (h1 : x < (2:Int)^63) : wrap64 x = x := by
  unfold wrap64; omega

theorem addVarsize_exact (o isz n cur : Nat) (ho : o < 2^63) :
    addVarsize o isz n cur =
      if o + isz * n < 2^63 then .ok (if o + isz * n > cur then o + isz * n else cur)
      else .error .overflow := by
  by_cases hfit : o + isz * n < 2^63
  · rw [if_pos hfit]
    have hP : ((isz : Int) * (n : Int)) = ((isz * n : Nat) : Int) := by push_cast; rfl
    have hw : wrap64 ((isz : Int) * (n : Int)) = ((isz * n : Nat) : Int) := by
      rw [hP]; exact wrap64_id (by omega) (by omega)
    have hs : wrap64 ((o : Int) + wrap64 ((isz : Int) * (n : Int))) = ((o + isz * n : Nat) : Int) := by
      rw [hw, wrap64_id (by omega) (by omega)]; push_cast; rfl
    rw [addVarsize_eq_ref]
    unfold addVarsizeRef
    simp only [hs]
    have h1 : ¬ (((o + isz * n : Nat) : Int) < 0) := by omega
    have h3 : ¬ (isz ≠ 0 ∧ (((o + isz * n : Nat) : Int) - (o : Int)).tdiv (isz : Int) ≠ (n : Int)) := by
      rintro ⟨hz, hne⟩
      have : ((o + isz * n : Nat) : Int) - (o : Int) = (isz : Int) * (n : Int) := by push_cast; omega
      rw [this, Int.mul_tdiv_cancel_left _ (by omega)] at hne
      exact hne rfl
    rw [if_neg h1, if_neg h3]
    simp only [Int.toNat_natCast]
  · rw [if_neg hfit]
    cases h : addVarsize o isz n cur with
    | error e => rw [addVarsize_err h]
    | ok r =>
      exfalso
      rw [addVarsize_eq_ref] at h
      unfold addVarsizeRef at h
      simp only at h
      generalize hsz : wrap64 ((o : Int) + wrap64 ((isz : Int) * (n : Int))) = size at h
      have hlt : size < (2:Int)^63 := by rw [← hsz]; exact wrap64_lt _
      split at h
      · cases h
      · split at h
        · cases h
        · rename_i hneg hdiv
          have key := addVarsize_key ho hsz hdiv
          have : ((o + isz * n : Nat) : Int) ≤ size := by push_cast; exact key
          omega

/-! ### lemmas used by Props/C20 -/

theorem convert_length {m m' : Mem} {off : Nat} {ty : Ty} {fc : FieldCtx} {init : Init}
    (h : convert m off ty fc init = .ok m') : m'.length = m.length := by
  rw [convert_eq_exec] at h
  exact execOps_length h

/-- What `newp` returns when it succeeds on `T *`: a block of the computed size, produced by
converting `init` into zeros. -/
theorem newp_ptr_ok {limit : Nat} {ty : Ty} {init : Init} {o : Owned}
    (h : newp limit true ty (some init) = .ok o) :
    ∃ datasize, allocPtr ty (some init) = .ok (datasize, o.length) ∧
      convert (zeros datasize) 0 ty .plain init = .ok o.data ∧ o.data.length = datasize := by
  simp only [newp, if_true] at h
  cases ha : allocPtr ty (some init) with
  | error e => rw [ha] at h; cases h
  | ok p =>
    obtain ⟨datasize, length⟩ := p
    rw [ha] at h
    simp only at h
    split at h
    · cases h
    · cases hc : convert (zeros datasize) 0 ty .plain init with
      | error e => rw [hc] at h; cases h
      | ok m =>
        rw [hc] at h
        cases h
        exact ⟨datasize, rfl, hc, by rw [convert_length hc, zeros_length]⟩


theorem allocArr_open_size {isz : Nat} {i : Init} {datasize : Nat} {length : Option Nat} {init' : Option Init}
    (h : allocArr isz none (some i) = .ok (datasize, length, init')) :
    ∃ n, length = some n ∧ datasize = n * isz := by
  rw [allocArr_eq_ref] at h
  simp only [allocArrRef] at h
  cases hn : newArrayLength i with
  | error e => rw [hn] at h; cases h
  | ok q =>
    obtain ⟨n, wasInt⟩ := q
    rw [hn] at h
    simp only at h
    generalize hd : wrap64 ((n : Int) * (isz : Int)) = d at h
    split at h
    · cases h
    · rename_i hchk
      simp only [Except.ok.injEq, Prod.mk.injEq] at h
      refine ⟨n, h.2.1.symm, ?_⟩
      rw [← h.1]
      have hP : ((n : Int) * (isz : Int)) = ((n * isz : Nat) : Int) := by push_cast; rfl
      rw [hP] at hd
      have hle : d ≤ ((n * isz : Nat) : Int) := by rw [← hd]; unfold wrap64; omega
      rcases Nat.eq_zero_or_pos n with hn0 | hn0
      · subst hn0
        simp only [Nat.zero_mul, Int.natCast_zero] at hd ⊢
        unfold wrap64 at hd
        omega
      · have hdiv : d.tdiv (n : Int) = (isz : Int) := by
          by_cases hq : d.tdiv (n : Int) = (isz : Int)
          · exact hq
          · exact absurd ⟨hn0, hq⟩ hchk
        have hd0 : 0 ≤ d := by
          by_cases h0 : 0 ≤ d
          · exact h0
          · have h1 := tdiv_nonpos_of_nonpos (a := d) (b := (n : Int)) (by omega) (by omega)
            have hz : isz = 0 := by omega
            subst hz
            simp only [Nat.mul_zero, Int.natCast_zero] at hd
            unfold wrap64 at hd
            omega
        have := Int.mul_tdiv_self_le (x := d) (k := (n : Int)) hd0
        rw [hdiv] at this
        have h2 : ((n * isz : Nat) : Int) ≤ d := by push_cast; exact this
        omega


theorem skipIgnored_allIgnored : ∀ fs : Fields, Fields.allIgnored fs = true → fs.skipIgnored = .nil
  | .nil, _ => rfl
  | .cons info ty rest, h => by
    simp only [Fields.allIgnored, Bool.and_eq_true] at h
    simp only [Fields.skipIgnored, h.1, if_true]
    exact skipIgnored_allIgnored rest h.2


theorem ctorCount_skipIgnored : ∀ fs : Fields, Fields.ctorCount fs.skipIgnored = Fields.ctorCount fs
  | .nil => rfl
  | .cons info ty rest => by
    unfold Fields.skipIgnored
    split
    · rename_i h
      simp only [Fields.ctorCount, h, if_true, Nat.zero_add]
      exact ctorCount_skipIgnored rest
    · rfl

theorem convertSeq_too_many : ∀ (items : Inits) (m : Mem) (off : Nat) (cf : Fields),
    Fields.ctorCount cf < items.length → ∀ m', convertSeq m off cf items ≠ .ok m'
  | .nil, m, off, cf, h, m' => by simp [Inits.length] at h
  | .cons x xs, m, off, cf, h, m' => by
    simp only [convertSeq]
    have hc := ctorCount_skipIgnored cf
    cases hsk : cf.skipIgnored with
    | nil => simp
    | cons info ty rest =>
      simp only
      cases hcv : convert m (off + info.off) ty (.field info.bits) x with
      | error e => simp
      | ok m1 =>
        simp only
        refine convertSeq_too_many xs m1 off rest ?_ m'
        have hni : info.ignore = false := by
          cases cf with
          | nil => simp [Fields.skipIgnored] at hsk
          | cons i t r =>
            -- the head of `skipIgnored` is never an ignored field
            exact skipIgnored_head_not_ignored _ _ _ _ hsk
        rw [hsk] at hc
        simp only [Fields.ctorCount, hni, Bool.false_eq_true, if_false] at hc
        simp only [Inits.length] at h
        omega

theorem prepassSeq_too_many : ∀ (items : Inits) (cf : Fields) (cur : Nat),
    Fields.ctorCount cf < items.length → ∀ r, prepassSeq cf items cur ≠ .ok r
  | .nil, cf, cur, h, r => by simp [Inits.length] at h
  | .cons x xs, cf, cur, h, r => by
    simp only [prepassSeq]
    have hc := ctorCount_skipIgnored cf
    cases hsk : cf.skipIgnored with
    | nil => simp
    | cons info ty rest =>
      simp only
      cases hcv : prepassField info ty x cur with
      | error e => simp
      | ok c1 =>
        simp only
        refine prepassSeq_too_many xs rest c1 ?_ r
        have hni : info.ignore = false := skipIgnored_head_not_ignored _ _ _ _ hsk
        rw [hsk] at hc
        simp only [Fields.ctorCount, hni, Bool.false_eq_true, if_false] at hc
        simp only [Inits.length] at h
        omega


end CffiVerif.Init
