import CffiVerif.Model.Bitfield

/-! Helper lemmas for the C02 theorems (bit-field reads and writes). -/
namespace CffiVerif.Bitfield
open CffiVerif CffiVerif.CBits CffiVerif.Generated.Bitfield

theorem cnt_nat (n : Nat) (h : n < 64) : cnt (n : Int) = n := by
  unfold cnt; omega

theorem cnt_pred (n : Nat) (h1 : 1 ≤ n) (h : n ≤ 64) : cnt ((n : Int) - 1) = n - 1 := by
  unfold cnt; omega

/-- `(1 << w) - 1` for w < 64, bitwise. -/
theorem getLsbD_mask (w : Nat) (hw : w < 64) (i : Nat) :
    ((1#64 <<< w) - 1#64).getLsbD i = decide (i < w) := by
  have : (1#64 <<< w) - 1#64 = BitVec.ofNat 64 (2 ^ w - 1) := by
    apply BitVec.eq_of_toNat_eq
    have h2 : 2 ^ w < 2 ^ 64 := Nat.pow_lt_pow_right (by omega) hw
    have h3 : 0 < 2 ^ w := Nat.pow_pos (by omega)
    simp [BitVec.toNat_sub, BitVec.toNat_shiftLeft, Nat.shiftLeft_eq]
    omega
  rw [this]
  simp [BitVec.getLsbD_ofNat, Nat.testBit_two_pow_sub_one]
  omega

theorem rawSigned_getLsbD (size : Nat) (mem : BitVec 64) (j : Nat) (hs : 1 ≤ size) (hj : j < 8 * size) (h8 : 8 * size ≤ 64) :
    (rawSigned size mem).getLsbD j = mem.getLsbD j := by
  unfold rawSigned
  simp [BitVec.getLsbD_signExtend, BitVec.getLsbD_setWidth]
  have : j < 64 := by omega
  simp [this, hj]

theorem rawUnsigned_getLsbD (size : Nat) (mem : BitVec 64) (j : Nat) :
    (rawUnsigned size mem).getLsbD j = (decide (j < 8 * size) && mem.getLsbD j) := by
  unfold rawUnsigned
  simp [BitVec.getLsbD_setWidth]
  intro _ h
  exact BitVec.lt_of_getLsbD h

def WF (f : Field) : Prop :=
  (f.size = 1 ∨ f.size = 2 ∨ f.size = 4 ∨ f.size = 8) ∧ 1 ≤ f.bitsize ∧ f.bitshift + f.bitsize ≤ 8 * f.size

/-- The bits `[s, s+w)` of the storage unit, as a number. -/
def cField (f : Field) (mem : BitVec 64) : Nat := (mem.toNat / 2 ^ f.bitshift) % 2 ^ f.bitsize

def mask (w : Nat) : BitVec 64 := (1#64 <<< w) - 1#64
def fld (f : Field) (x : BitVec 64) : BitVec 64 := (x >>> f.bitshift) &&& mask f.bitsize

theorem fld_getLsbD (f : Field) (x : BitVec 64) (hw : f.bitsize < 64) (i : Nat) :
    (fld f x).getLsbD i = (decide (i < f.bitsize) && x.getLsbD (f.bitshift + i)) := by
  unfold fld mask
  rw [BitVec.getLsbD_and, getLsbD_mask _ hw, BitVec.getLsbD_ushiftRight, Bool.and_comm]

theorem fld_toNat (f : Field) (x : BitVec 64) (hw : f.bitsize < 64) :
    (fld f x).toNat = (x.toNat / 2 ^ f.bitshift) % 2 ^ f.bitsize := by
  apply Nat.eq_of_testBit_eq
  intro i
  rw [← BitVec.getLsbD, fld_getLsbD f x hw, Nat.testBit_mod_two_pow, Nat.testBit_div_two_pow]
  simp [BitVec.getLsbD, Nat.add_comm]

theorem fld_rawSigned (f : Field) (mem : BitVec 64) (h : WF f) (hw : f.bitsize < 64) :
    fld f (rawSigned f.size mem) = fld f mem := by
  apply BitVec.eq_of_getLsbD_eq
  intro i hi
  rw [fld_getLsbD _ _ hw, fld_getLsbD _ _ hw]
  by_cases hiw : i < f.bitsize
  · have h1 : f.bitshift + i < 8 * f.size := by have := h.2.2; omega
    have h2 : 1 ≤ f.size := by rcases h.1 with h|h|h|h <;> omega
    have h3 : 8 * f.size ≤ 64 := by rcases h.1 with h|h|h|h <;> omega
    rw [rawSigned_getLsbD _ _ _ h2 h1 h3]
  · simp [hiw]

theorem fld_rawUnsigned (f : Field) (mem : BitVec 64) (h : WF f) (hw : f.bitsize < 64) :
    fld f (rawUnsigned f.size mem) = fld f mem := by
  apply BitVec.eq_of_getLsbD_eq
  intro i hi
  rw [fld_getLsbD _ _ hw, fld_getLsbD _ _ hw, rawUnsigned_getLsbD]
  by_cases hiw : i < f.bitsize
  · have h1 : f.bitshift + i < 8 * f.size := by have := h.2.2; omega
    simp [h1]
  · simp [hiw]

theorem guards : readGuard = some 64 ∧ writeGuard = some 64 := by decide

theorem shl_nat (x : BitVec 64) (n : Nat) (h : n < 64) : shl x (n : Int) = x <<< n := by
  unfold shl; rw [cnt_nat n h]
theorem ushr_nat (x : BitVec 64) (n : Nat) (h : n < 64) : ushr x (n : Int) = x >>> n := by
  unfold ushr; rw [cnt_nat n h]
theorem shl_pred (x : BitVec 64) (n : Nat) (h1 : 1 ≤ n) (h : n ≤ 64) : shl x ((n : Int) - (1 : Int)) = x <<< (n - 1) := by
  unfold shl; rw [cnt_pred n h1 h]

/-- The value C reads from the field: zero- or sign-extension of bits [s, s+w). -/
def cValue (f : Field) (mem : BitVec 64) : Int :=
  let b := cField f mem
  if f.signed ∧ b ≥ 2 ^ (f.bitsize - 1) then (b : Int) - 2 ^ f.bitsize else b

theorem read_unsigned (f : Field) (mem : BitVec 64) (h : WF f) (hw : f.bitsize < 64) (hu : f.signed = false) :
    Bitfield.read f mem = cField f mem := by
  have hs : f.bitshift < 64 := by have := h.2.2; have := h.2.1; rcases h.1 with h|h|h|h <;> omega
  have hg : ¬ (some f.bitsize = readGuard) := by rw [guards.1]; simp; omega
  unfold Bitfield.read
  simp only [hg, hu, if_false, Bool.false_eq_true]
  unfold rd_u_value rd_u_valuemask
  rw [shl_nat _ _ hw, ushr_nat _ _ hs]
  have : (rawUnsigned f.size mem >>> f.bitshift) &&& ((1#64 <<< f.bitsize) - 1#64) = fld f (rawUnsigned f.size mem) := rfl
  rw [this, fld_rawUnsigned f mem h hw, fld_toNat f mem hw]
  rfl

theorem two_pow_pred (w : Nat) (h : 1 ≤ w) : 2 ^ w = 2 * 2 ^ (w - 1) := by
  have : w = (w - 1) + 1 := by omega
  rw [this, Nat.pow_succ]; simp; omega

theorem read_signed (f : Field) (mem : BitVec 64) (h : WF f) (hw : f.bitsize < 64) (hsg : f.signed = true) :
    Bitfield.read f mem = cValue f mem := by
  have hs : f.bitshift < 64 := by have := h.2.2; have := h.2.1; rcases h.1 with h|h|h|h <;> omega
  have hw1 : 1 ≤ f.bitsize := h.2.1
  have hg : ¬ (some f.bitsize = readGuard) := by rw [guards.1]; simp; omega
  unfold Bitfield.read
  simp only [hg, hsg, if_false, if_true]
  unfold rd_s_value rd_s_valuemask rd_s_shiftforsign rd_s_result
  rw [shl_nat _ _ hw, ushr_nat _ _ hs, shl_pred _ _ hw1 (by omega)]
  -- abbreviations
  have hP : (1#64 <<< (f.bitsize - 1)).toNat = 2 ^ (f.bitsize - 1) := by
    have : 2 ^ (f.bitsize - 1) < 2 ^ 64 := Nat.pow_lt_pow_right (by omega) (by omega)
    simp [BitVec.toNat_shiftLeft, Nat.shiftLeft_eq, Nat.mod_eq_of_lt this]
  have h2w := two_pow_pred f.bitsize hw1
  have hwlt : 2 ^ f.bitsize < 2 ^ 64 := Nat.pow_lt_pow_right (by omega) hw
  have hw63 : 2 ^ f.bitsize ≤ 2 ^ 63 := Nat.pow_le_pow_right (by omega) (by omega)
  have hdvd : 2 ^ f.bitsize ∣ 2 ^ 64 := Nat.pow_dvd_pow 2 (by omega)
  -- value after the mask, as a number
  have hv : (((rawSigned f.size mem >>> f.bitshift) + 1#64 <<< (f.bitsize - 1)) &&& ((1#64 <<< f.bitsize) - 1#64)).toNat
      = (cField f mem + 2 ^ (f.bitsize - 1)) % 2 ^ f.bitsize := by
    have hm : ((1#64 <<< f.bitsize) - 1#64).toNat = 2 ^ f.bitsize - 1 := by
      have h3 : 0 < 2 ^ f.bitsize := Nat.pow_pos (by omega)
      simp [BitVec.toNat_sub, BitVec.toNat_shiftLeft, Nat.shiftLeft_eq]
      omega
    rw [BitVec.toNat_and, hm, Nat.and_two_pow_sub_one_eq_mod, BitVec.toNat_add, hP,
        Nat.mod_mod_of_dvd _ hdvd, Nat.add_mod]
    have : (rawSigned f.size mem >>> f.bitshift).toNat % 2 ^ f.bitsize = cField f mem := by
      have e := fld_toNat f (rawSigned f.size mem) hw
      rw [fld_rawSigned f mem h hw, fld_toNat f mem hw] at e
      have e2 : (fld f (rawSigned f.size mem)).toNat = (rawSigned f.size mem >>> f.bitshift).toNat % 2 ^ f.bitsize := by
        unfold fld mask; rw [BitVec.toNat_and, hm, Nat.and_two_pow_sub_one_eq_mod]
      rw [← e2, fld_rawSigned f mem h hw, fld_toNat f mem hw]; rfl
    rw [this]
    have : 2 ^ (f.bitsize - 1) % 2 ^ f.bitsize = 2 ^ (f.bitsize - 1) := Nat.mod_eq_of_lt (by omega)
    rw [this]
  have hc : cField f mem < 2 ^ f.bitsize := by unfold cField; exact Nat.mod_lt _ (Nat.pow_pos (by omega))
  rw [BitVec.toInt_eq_toNat_cond, BitVec.toNat_sub, hv, hP]
  unfold cValue
  simp only [hsg, true_and]
  rw [show (2 : Int) ^ f.bitsize = ((2 ^ f.bitsize : Nat) : Int) from by simp]
  generalize cField f mem = c at *
  generalize hPdef : 2 ^ (f.bitsize - 1) = P at *
  generalize hWdef : 2 ^ f.bitsize = W at *
  by_cases hge : c ≥ P
  · have e : (c + P) % W = c - P := by
      rw [Nat.mod_eq_sub_mod (by omega), Nat.mod_eq_of_lt (by omega)]; omega
    rw [e]
    simp only [hge, if_true]
    have : (2 ^ 64 - P + (c - P)) % 2 ^ 64 = 2 ^ 64 - P + (c - P) := Nat.mod_eq_of_lt (by omega)
    rw [this]
    split <;> omega
  · have e : (c + P) % W = c + P := Nat.mod_eq_of_lt (by omega)
    rw [e]
    simp only [hge, if_false]
    have : (2 ^ 64 - P + (c + P)) % 2 ^ 64 = c := by
      have : 2 ^ 64 - P + (c + P) = c + 2 ^ 64 := by omega
      rw [this, Nat.add_mod_right, Nat.mod_eq_of_lt (by omega)]
    rw [this]
    split <;> omega

/-- The representable range of the field (with the "int x:1 accepts 1" exception). -/
def inRange (f : Field) (v : Int) : Prop :=
  if f.signed then (-(2 : Int) ^ (f.bitsize - 1) ≤ v ∧ v ≤ (2 : Int) ^ (f.bitsize - 1) - 1) ∨ (f.bitsize = 1 ∧ v = 1)
  else 0 ≤ v ∧ v ≤ (2 : Int) ^ f.bitsize - 1

theorem toInt_ofInt_of_range (v : Int) (h1 : -(2 : Int) ^ 63 ≤ v) (h2 : v < (2 : Int) ^ 63) :
    (BitVec.ofInt 64 v).toInt = v := by
  rw [BitVec.toInt_ofInt]
  simp [Int.bmod]
  omega

theorem pow_toNat (k : Nat) (hk : k < 64) : (1#64 <<< k).toNat = 2 ^ k := by
  have : 2 ^ k < 2 ^ 64 := Nat.pow_lt_pow_right (by omega) hk
  simp [BitVec.toNat_shiftLeft, Nat.shiftLeft_eq, Nat.mod_eq_of_lt this]

theorem pow_toInt (k : Nat) (hk : k < 63) : (1#64 <<< k).toInt = (2 : Int) ^ k := by
  have h1 : 2 ^ k < 2 ^ 63 := Nat.pow_lt_pow_right (by omega) hk
  rw [BitVec.toInt_eq_toNat_cond, pow_toNat k (by omega)]
  have : (2:Int)^k = ((2^k : Nat) : Int) := by simp
  rw [this]
  split <;> omega

theorem bmod_small (x : Int) (h1 : -(2:Int)^63 ≤ x) (h2 : x < (2:Int)^63) : x.bmod (2^64) = x := by
  simp [Int.bmod]; omega

theorem int_pow_bounds (k : Nat) (hk : k ≤ 62) : (1:Int) ≤ 2^k ∧ (2:Int)^k ≤ 2^62 := by
  have h1 := Nat.pow_le_pow_right (n := 2) (by omega) hk
  have h2 : 0 < 2^k := Nat.pow_pos (by omega)
  have e : (2:Int)^k = ((2^k : Nat) : Int) := by simp
  rw [e]; omega

theorem int_two_pow_pred (w : Nat) (h : 1 ≤ w) : (2:Int)^w = 2 * 2^(w-1) := by
  have e1 : (2:Int)^w = ((2^w : Nat) : Int) := by simp
  have e2 : (2:Int)^(w-1) = ((2^(w-1) : Nat) : Int) := by simp
  rw [e1, e2, two_pow_pred w h]; simp

theorem fmin_s (w s : Nat) (h1 : 1 ≤ w) (hw : w < 64) : (wr_s_fmin w s).toInt = -(2 : Int) ^ (w - 1) := by
  unfold wr_s_fmin
  rw [shl_pred _ _ h1 (by omega), BitVec.toInt_neg, pow_toInt _ (by omega)]
  have := int_pow_bounds (w-1) (by omega)
  exact bmod_small _ (by omega) (by omega)

theorem fmax_s (w s : Nat) (h1 : 1 ≤ w) (hw : w < 64) : (wr_s_fmax w s).toInt = (2 : Int) ^ (w - 1) - 1 := by
  unfold wr_s_fmax
  rw [shl_pred _ _ h1 (by omega), BitVec.toInt_sub, pow_toInt _ (by omega)]
  have := int_pow_bounds (w-1) (by omega)
  have : (1#64).toInt = 1 := by decide
  rw [this]
  exact bmod_small _ (by omega) (by omega)

theorem fmax_u (w s : Nat) (hw : w < 64) : (wr_u_fmax w s).toInt = (2 : Int) ^ w - 1 := by
  unfold wr_u_fmax
  rw [shl_nat _ _ hw, BitVec.toInt_eq_toNat_cond, BitVec.toNat_sub, pow_toNat _ hw]
  have h1 : 2 ^ w ≤ 2 ^ 63 := Nat.pow_le_pow_right (by omega) (by omega)
  have h2 : 0 < 2 ^ w := Nat.pow_pos (by omega)
  have e : (2:Int)^w = ((2^w : Nat) : Int) := by simp
  rw [e]
  have : (1#64).toNat = 1 := by decide
  rw [this]
  have : (2 ^ 64 - 1 + 2 ^ w) % 2 ^ 64 = 2 ^ w - 1 := by
    have : 2 ^ 64 - 1 + 2 ^ w = (2 ^ w - 1) + 2 ^ 64 := by omega
    rw [this, Nat.add_mod_right, Nat.mod_eq_of_lt (by omega)]
  rw [this]
  split <;> omega

theorem special_iff (w s : Nat) (h1 : 1 ≤ w) (hw : w < 64) : wr_special_cond (wr_s_fmax w s) = true ↔ w = 1 := by
  unfold wr_special_cond
  have hf := fmax_s w s h1 hw
  constructor
  · intro h
    have : wr_s_fmax w s = 0#64 := by simpa using h
    rw [this] at hf
    have : (0#64).toInt = 0 := by decide
    rw [this] at hf
    by_cases h2 : w = 1
    · exact h2
    · have := int_two_pow_pred (w-1) (by omega)
      have := int_pow_bounds (w-1-1) (by omega)
      omega
  · intro h
    subst h
    simp [wr_s_fmax, shl, cnt]

theorem rejects_iff (f : Field) (v : Int) (h : WF f) (hw : f.bitsize < 64) :
    rejects f v = false ↔ inRange f v := by
  have hw1 := h.2.1
  have hb := int_pow_bounds (f.bitsize - 1) (by omega)
  have h2 := int_two_pow_pred f.bitsize hw1
  unfold rejects inRange
  by_cases hr : v < -(2 : Int) ^ 63 ∨ (2 : Int) ^ 63 ≤ v
  · simp only [hr, if_true]
    cases hsg : f.signed <;> simp <;> omega
  · simp only [hr, if_false]
    have hv : (BitVec.ofInt 64 v).toInt = v := toInt_ofInt_of_range v (by omega) (by omega)
    unfold wr_overflow
    rw [BitVec.slt_eq_decide, BitVec.slt_eq_decide, hv]
    cases hsg : f.signed
    · -- unsigned
      simp only [Bool.false_eq_true, if_false]
      rw [fmax_u _ _ hw]
      have : wr_u_fmin.toInt = 0 := by decide
      rw [this]
      simp
    · simp only [if_true]
      rw [fmin_s _ _ hw1 hw]
      by_cases hsp : wr_special_cond (wr_s_fmax f.bitsize f.bitshift) = true
      · have hw_eq := (special_iff _ _ hw1 hw).mp hsp
        simp only [hsp, if_true]
        have : wr_special_fmax.toInt = 1 := by decide
        rw [this, hw_eq]
        simp
        omega
      · have hne : f.bitsize ≠ 1 := fun e => hsp ((special_iff _ _ hw1 hw).mpr e)
        simp only [hsp, Bool.false_eq_true, if_false]
        rw [fmax_s _ _ hw1 hw]
        simp
        omega

theorem stored_getLsbD (f : Field) (mem : BitVec 64) (v : Int) (h : WF f) (hw : f.bitsize < 64) (i : Nat) :
    (stored f mem v).getLsbD i = (decide (i < 8 * f.size) &&
      (if f.bitshift ≤ i ∧ i < f.bitshift + f.bitsize then (BitVec.ofInt 64 v).getLsbD (i - f.bitshift)
       else mem.getLsbD i)) := by
  have hs : f.bitshift < 64 := by have := h.2.2; have := h.2.1; rcases h.1 with h|h|h|h <;> omega
  have h8 : 8 * f.size ≤ 64 := by rcases h.1 with h|h|h|h <;> omega
  unfold stored wr_combine wr_rawmask wr_rawvalue
  simp only [shl_nat _ _ hw, shl_nat _ _ hs]
  rw [rawUnsigned_getLsbD]
  simp only [BitVec.getLsbD_or, BitVec.getLsbD_and, BitVec.getLsbD_not, BitVec.getLsbD_shiftLeft,
    getLsbD_mask _ hw, rawUnsigned_getLsbD]
  by_cases hi : i < 8 * f.size
  · have hi64 : i < 64 := by omega
    by_cases hlo : i < f.bitshift
    · have : ¬ (f.bitshift ≤ i ∧ i < f.bitshift + f.bitsize) := by omega
      simp [hi, hi64, hlo, this]
    · by_cases hhi : i < f.bitshift + f.bitsize
      · have h1 : f.bitshift ≤ i ∧ i < f.bitshift + f.bitsize := by omega
        have h2 : i - f.bitshift < f.bitsize := by omega
        simp [hi, hi64, hlo, h1, h2]
      · have h1 : ¬ (f.bitshift ≤ i ∧ i < f.bitshift + f.bitsize) := by omega
        have h2 : ¬ (i - f.bitshift < f.bitsize) := by omega
        simp [hi, hi64, hlo, h1, h2]
  · simp [hi]

theorem fld_stored (f : Field) (mem : BitVec 64) (v : Int) (h : WF f) (hw : f.bitsize < 64) :
    fld f (stored f mem v) = BitVec.ofInt 64 v &&& mask f.bitsize := by
  apply BitVec.eq_of_getLsbD_eq
  intro i hi
  rw [fld_getLsbD _ _ hw, stored_getLsbD f mem v h hw, BitVec.getLsbD_and]
  unfold mask
  rw [getLsbD_mask _ hw]
  by_cases hiw : i < f.bitsize
  · have h1 : f.bitshift + i < 8 * f.size := by have := h.2.2; omega
    have h2 : f.bitshift ≤ f.bitshift + i ∧ f.bitshift + i < f.bitshift + f.bitsize := by omega
    simp [hiw, h1, h2]
  · simp [hiw]

theorem mask_toNat (w : Nat) (hw : w < 64) : (mask w).toNat = 2 ^ w - 1 := by
  unfold mask
  have h3 : 0 < 2 ^ w := Nat.pow_pos (by omega)
  have h2 : 2 ^ w < 2 ^ 64 := Nat.pow_lt_pow_right (by omega) hw
  simp [BitVec.toNat_sub, BitVec.toNat_shiftLeft, Nat.shiftLeft_eq]
  omega

theorem cField_stored (f : Field) (mem : BitVec 64) (v : Int) (h : WF f) (hw : f.bitsize < 64) :
    (cField f (stored f mem v) : Int) = v % (2 : Int) ^ f.bitsize := by
  have e : cField f (stored f mem v) = (fld f (stored f mem v)).toNat := (fld_toNat f _ hw).symm
  rw [e, fld_stored f mem v h hw, BitVec.toNat_and, mask_toNat _ hw, Nat.and_two_pow_sub_one_eq_mod,
      BitVec.toNat_ofInt]
  have hd : (2 : Int) ^ f.bitsize ∣ (2 : Int) ^ 64 := by
    have : (64 : Nat) = f.bitsize + (64 - f.bitsize) := by omega
    rw [this, Int.pow_add]; exact Int.dvd_mul_right _ _
  have hnn : 0 ≤ v % ((2 ^ 64 : Nat) : Int) := Int.emod_nonneg _ (by simp)
  rw [Int.natCast_emod, Int.toNat_of_nonneg hnn]
  have : ((2 ^ 64 : Nat) : Int) = (2 : Int) ^ 64 := by simp
  rw [this]
  have : ((2 ^ f.bitsize : Nat) : Int) = (2 : Int) ^ f.bitsize := by simp
  rw [this]
  exact Int.emod_emod_of_dvd _ hd

end CffiVerif.Bitfield
