import CffiVerif.Model.ConstErr

/-! Helper lemmas for C30: which exception kinds leave the model of `_parse_constant`. -/
namespace CffiVerif.ConstErr
open CffiVerif.DefineLiteral (pyInt inRange)

theorem evalConst_err (tok : List Char) (h1 : tok ≠ []) (x : Exc)
    (h : evalConst tok = .error x) : x = .cdefError := by
  unfold evalConst at h
  split at h
  · exact absurd rfl h1
  · split at h
    · simp only at h
      split at h
      · cases h
      · split at h
        · split at h
          · cases h
          · cases h; rfl
        · split at h
          · split at h
            · cases h
            · cases h; rfl
          · cases h; rfl
    · split at h
      · cases h
      · split at h
        · cases h
        · cases h; rfl
      · cases h; rfl

theorem cDiv_err (a b : Int) (x : Exc) (h : cDiv a b = .error x) : x = .cdefError := by
  unfold cDiv at h
  split at h
  · cases h; rfl
  · simp only at h
    split at h <;> cases h

theorem applyBin_err (lim : Nat) (op : String) (l r : Int) (x : Exc) (h : applyBin lim op l r = .error x) :
    x = .cdefError ∨ x = .ffiError ∨ (x = .overflowError ∧ op = "<<" ∧ l ≠ 0 ∧ lim < r.toNat) := by
  unfold applyBin at h
  split at h
  · cases h
  · split at h
    · cases h
    · split at h
      · cases h
      · split at h
        · exact Or.inl (cDiv_err _ _ _ h)
        · split at h
          · cases hd : cDiv l r with
            | error e =>
              rw [hd] at h
              simp only [Except.map] at h
              cases h
              exact Or.inl (cDiv_err _ _ _ hd)
            | ok q => rw [hd] at h; simp only [Except.map] at h; cases h
          · split at h
            · split at h
              · cases h; exact Or.inl rfl
              · split at h
                · rename_i hop
                  split at h
                  · cases h
                  · rename_i hl
                    split at h
                    · rename_i hlim
                      cases h
                      exact Or.inr (Or.inr ⟨rfl, hop, hl, hlim⟩)
                    · cases h
                · cases h
            · split at h
              · cases h
              · split at h
                · cases h
                · split at h
                  · cases h
                  · cases h; exact Or.inr (Or.inl rfl)

theorem evalInt_err (lim : Nat) (env : Env) (e : Expr) (ht : TokensOk e) (hs : ShiftsOk lim env e) (x : Exc)
    (h : evalInt lim env e = .error x) : x = .cdefError ∨ x = .ffiError := by
  induction e with
  | const tok => exact Or.inl (evalConst_err tok ht x h)
  | unary op e ih =>
    simp only [evalInt] at h
    split at h
    · exact ih ht hs h
    · split at h
      · cases he : evalInt lim env e with
        | error y => rw [he] at h; simp only [Except.map] at h; cases h; exact ih ht hs he
        | ok v => rw [he] at h; simp only [Except.map] at h; cases h
      · cases h; exact Or.inr rfl
  | id name =>
    simp only [evalInt] at h
    split at h
    · cases h
    · cases h; exact Or.inr rfl
  | binop op l r ihl ihr =>
    obtain ⟨hsl, hsr, hshift⟩ := hs
    simp only [evalInt] at h
    split at h
    · rename_i e' hl; cases h; exact ihl ht.1 hsl hl
    · rename_i a hl
      split at h
      · rename_i e' hr; cases h; exact ihr ht.2 hsr hr
      · rename_i b hr
        rcases applyBin_err lim op a b x h with h1 | h1 | ⟨_, hop, ha, hlim⟩
        · exact Or.inl h1
        · exact Or.inr h1
        · rcases hshift hop a b hl hr with h0 | hle
          · exact absurd h0 ha
          · omega
  | other => simp only [evalInt] at h; cases h; exact Or.inr rfl

theorem eval_err (lim : Nat) (env : Env) (pok : Bool) (e : Expr) (ht : TokensOk e) (hs : ShiftsOk lim env e)
    (x : Exc) (h : eval lim env pok e = .error x) : x = .cdefError ∨ x = .ffiError := by
  unfold eval at h
  split at h
  · split at h
    · cases h
    · split at h
      · split at h
        · cases h
        · cases h; exact Or.inr rfl
      · cases h; exact Or.inr rfl
  · rename_i e' hne
    cases he : evalInt lim env e with
    | error y => rw [he] at h; simp only [Except.map] at h; cases h; exact evalInt_err lim env e ht hs _ he
    | ok v => rw [he] at h; simp only [Except.map] at h; cases h

end CffiVerif.ConstErr
