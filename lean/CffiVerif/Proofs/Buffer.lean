import CffiVerif.Model.Buffer
import CffiVerif.Proofs.Mem
/-! Helper lemmas for the C19 theorems: CPython's slice normalisation equals the
documented bounds; position-wise list identities for reads/writes inside a buffer. -/
namespace CffiVerif.Buffer
open CffiVerif.Mem
open CffiVerif.Index (PyArg ssizeMin ssizeMax fitsSsize)

/-! ### meaning of the definitions regenerated from the C source (Generated/BufferExprs.lean) -/

theorem gen_itemRejected (i n : Int) : G.itemRejected i n ↔ (i < 0 ∨ i ≥ n) := Iff.rfl
theorem gen_assItemRejected (i n : Int) : G.assItemRejected i n ↔ (i < 0 ∨ i ≥ n) := Iff.rfl
theorem gen_sliceLeftNegative (l : Int) : G.sliceLeftNegative l ↔ l < 0 := Iff.rfl
theorem gen_sliceLeftFloor (l : Int) : G.sliceLeftFloor l = 0 := rfl
theorem gen_sliceRightTooLarge (r n : Int) : G.sliceRightTooLarge r n ↔ r > n := Iff.rfl
theorem gen_sliceRightCeil (n : Int) : G.sliceRightCeil n = n := rfl
theorem gen_sliceLeftAfterRight (l r : Int) : G.sliceLeftAfterRight l r ↔ l > r := Iff.rfl
theorem gen_sliceLeftCollapse (r : Int) : G.sliceLeftCollapse r = r := rfl
theorem gen_sliceCount (l r : Int) : G.sliceCount l r = r - l := rfl
theorem gen_assSliceLeftNegative (l : Int) : G.assSliceLeftNegative l ↔ l < 0 := Iff.rfl
theorem gen_assSliceLeftFloor (l : Int) : G.assSliceLeftFloor l = 0 := rfl
theorem gen_assSliceRightTooLarge (r n : Int) : G.assSliceRightTooLarge r n ↔ r > n := Iff.rfl
theorem gen_assSliceRightCeil (n : Int) : G.assSliceRightCeil n = n := rfl
theorem gen_assSliceLeftAfterRight (l r : Int) : G.assSliceLeftAfterRight l r ↔ l > r := Iff.rfl
theorem gen_assSliceLeftCollapse (r : Int) : G.assSliceLeftCollapse r = r := rfl
theorem gen_assSliceCount (l r : Int) : G.assSliceCount l r = r - l := rfl
theorem gen_assSliceLenMismatch (c n : Int) : G.assSliceLenMismatch c n ↔ c ≠ n := Iff.rfl
theorem gen_subIndexNegative (i : Int) : G.subIndexNegative i ↔ i < 0 := Iff.rfl
theorem gen_subIndexFixup (i n : Int) : G.subIndexFixup i n = i + n := rfl
theorem gen_assSubIndexNegative (i : Int) : G.assSubIndexNegative i ↔ i < 0 := Iff.rfl
theorem gen_assSubIndexFixup (i n : Int) : G.assSubIndexFixup i n = i + n := rfl
theorem gen_bufExplicitSize (g : Int) : G.bufExplicitSize g ↔ g ≥ 0 := Iff.rfl
theorem gen_bufSizeAbsent (g : Int) : G.bufSizeAbsent g ↔ g < 0 := Iff.rfl
theorem gen_bufArraySize (n z : Int) : G.bufArraySize n z = n * z := rfl
theorem gen_bufSizeUnknown (g : Int) : G.bufSizeUnknown g ↔ g < 0 := Iff.rfl
theorem gen_fbFixedLength (n : Int) : G.fbFixedLength n ↔ n ≥ 0 := Iff.rfl
theorem gen_fbMinimumLength (z : Int) : G.fbMinimumLength z = z := rfl
theorem gen_fbFixedArrayLength (n : Int) : G.fbFixedArrayLength n = n := rfl
theorem gen_fbItemSizeOne (z : Int) : G.fbItemSizeOne z ↔ z = 1 := Iff.rfl
theorem gen_fbLengthSizeOne (l : Int) : G.fbLengthSizeOne l = l := rfl
theorem gen_fbItemSizePositive (z : Int) : G.fbItemSizePositive z ↔ z > 0 := Iff.rfl
theorem gen_fbLengthDiv (l z : Int) : G.fbLengthDiv l z = l.tdiv z := rfl
theorem gen_fbTooSmall (l mn : Int) : G.fbTooSmall l mn ↔ l < mn := Iff.rfl
theorem gen_cdataLenUnknown (z : Int) : G.cdataLenUnknown z = -1 := rfl
theorem gen_cdataItemSizeKnown (z : Int) : G.cdataItemSizeKnown z ↔ z ≥ 0 := Iff.rfl
theorem gen_cdataArrayLen (n z : Int) : G.cdataArrayLen n z = n * z := rfl
theorem gen_memmoveNegative (n : Int) : G.memmoveNegative n ↔ n < 0 := Iff.rfl

/-- Rewrites every generated definition into its meaning. -/
syntax "gen_normB" (Lean.Parser.Tactic.location)? : tactic
macro_rules
  | `(tactic| gen_normB $[$loc]?) => `(tactic| simp only [gen_itemRejected, gen_assItemRejected, gen_sliceLeftNegative,
      gen_sliceLeftFloor, gen_sliceRightTooLarge, gen_sliceRightCeil, gen_sliceLeftAfterRight, gen_sliceLeftCollapse,
      gen_sliceCount, gen_assSliceLeftNegative, gen_assSliceLeftFloor, gen_assSliceRightTooLarge, gen_assSliceRightCeil,
      gen_assSliceLeftAfterRight, gen_assSliceLeftCollapse, gen_assSliceCount, gen_assSliceLenMismatch,
      gen_subIndexNegative, gen_subIndexFixup, gen_assSubIndexNegative, gen_assSubIndexFixup, gen_bufExplicitSize,
      gen_bufSizeAbsent, gen_bufArraySize, gen_bufSizeUnknown, gen_fbFixedLength, gen_fbMinimumLength,
      gen_fbFixedArrayLength, gen_fbItemSizeOne, gen_fbLengthSizeOne, gen_fbItemSizePositive, gen_fbLengthDiv,
      gen_fbTooSmall, gen_cdataLenUnknown, gen_cdataItemSizeKnown, gen_cdataArrayLen, gen_memmoveNegative] $[$loc]?)

/-- The length `_fetch_as_buffer` reports for a cdata array. -/
theorem carrayLen_eq (n : Nat) (isize : Int) :
    carrayLen n isize = if isize ≥ 0 then (n : Int) * isize else -1 := rfl

/-- The array branch of `direct_from_buffer`, in plain terms. -/
theorem fromBufferArray_eq (isize ctlength ctsize : Int) (len : Nat) :
    fromBufferArray isize ctlength ctsize len =
      if ctlength ≥ 0 then (if (len : Int) < ctsize then .error .ValueError else .ok ctlength.toNat)
      else if isize = 1 then .ok len
      else if isize > 0 then .ok (len / isize.toNat)
      else .error .ZeroDivisionError := by
  unfold fromBufferArray
  gen_normB
  have h0 : ¬ ((len : Int) < 0) := by omega
  simp only [h0, if_false, Int.toNat_natCast]
  by_cases h1 : ctlength ≥ 0
  · simp only [h1, if_true]
  · simp only [h1, if_false]
    by_cases h2 : isize = 1
    · simp only [h2, if_true]
    · simp only [h2, if_false]
      by_cases h3 : isize > 0
      · simp only [h3, if_true]
        obtain ⟨k, rfl⟩ := Int.eq_ofNat_of_zero_le (Int.le_of_lt h3)
        rw [← Int.ofNat_tdiv, Int.toNat_natCast, Int.toNat_natCast]
      · simp only [h3, if_false]

/-- `mb_ass_slice` clamps exactly as `mb_slice` does. -/
theorem clampLRAss_eq (size left right : Int) : clampLRAss size left right = clampLR size left right := by
  unfold clampLRAss clampLR
  gen_normB

/-- `mb_ass_subscript` + `mb_ass_item` accept exactly the indexes `mb_subscript` + `mb_item` accept. -/
theorem normIndexAss_eq (size : Nat) (key : PyArg) : normIndexAss size key = normIndex size key := by
  unfold normIndexAss normIndex
  gen_normB

theorem adjust_eq_pyBound (size : Nat) (hs : (size : Int) ≤ ssizeMax) (x : Int) (d : Nat) :
    adjustIdx size (clampSsize x) 1 = (pyBound size d (some x) : Nat) := by
  unfold pyBound
  simp only
  unfold adjustIdx clampSsize ssizeMin ssizeMax at *
  simp only
  by_cases hx0 : x < 0
  · by_cases hx1 : x + size < 0
    · simp only [hx0, hx1, if_true]
      split <;> split <;> (try split) <;> (try split) <;> omega
    · simp only [hx0, hx1, if_true, if_false]
      split <;> split <;> (try split) <;> (try split) <;> omega
  · by_cases hx1 : x > size
    · simp only [hx0, hx1, if_true, if_false]
      split <;> split <;> (try split) <;> (try split) <;> omega
    · simp only [hx0, hx1, if_false]
      split <;> split <;> (try split) <;> (try split) <;> omega

theorem adjust_none_start (size : Nat) : adjustIdx size 0 1 = (pyBound size 0 none : Nat) := by
  unfold adjustIdx pyBound
  simp only
  split <;> (try split) <;> (try split) <;> omega

theorem adjust_none_stop (size : Nat) (hs : (size : Int) ≤ ssizeMax) :
    adjustIdx size ssizeMax 1 = (pyBound size size none : Nat) := by
  unfold adjustIdx pyBound ssizeMax at *
  simp only
  split <;> (try split) <;> (try split) <;> omega

theorem pyBound_le (n d : Nat) (hd : d ≤ n) (x : Option Int) : pyBound n d x ≤ n := by
  unfold pyBound
  cases x with
  | none => exact hd
  | some x => simp only; split <;> (try split) <;> omega

/-- `sliceBounds` computes Python's normalised bounds. -/
theorem sliceBounds_eq (size : Nat) (hs : (size : Int) ≤ ssizeMax) (i j : Option Int) (step : PyArg)
    (hstep : step = .none ∨ step = .int 1) :
    sliceBounds size (argOfOpt i) (argOfOpt j) step =
      .ok ((pyBound size 0 i : Nat), (pyBound size size j : Nat)) := by
  have hst : unpackStep step = .ok 1 := by
    rcases hstep with h | h <;> subst h
    · rfl
    · unfold unpackStep clampSsize ssizeMin ssizeMax; simp
  unfold sliceBounds unpack
  rw [hst]
  have h1 : ¬ ((1 : Int) < 0) := by omega
  simp only [h1, if_false]
  cases i with
  | none =>
    cases j with
    | none =>
      simp only [argOfOpt, unpackBound, adjust_none_start, adjust_none_stop size hs, if_true]
    | some y =>
      simp only [argOfOpt, unpackBound, adjust_none_start, adjust_eq_pyBound size hs y size, if_true]
  | some x =>
    cases j with
    | none =>
      simp only [argOfOpt, unpackBound, adjust_eq_pyBound size hs x 0, adjust_none_stop size hs, if_true]
    | some y =>
      simp only [argOfOpt, unpackBound, adjust_eq_pyBound size hs x 0, adjust_eq_pyBound size hs y size, if_true]

/-- The bytes of the buffer `(data, size)`. -/
def region (m : Bytes) (b : Buf) : Bytes := (m.drop b.data).take b.size

theorem region_length (m : Bytes) (b : Buf) (hin : b.data + b.size ≤ m.length) :
    (region m b).length = b.size := by
  unfold region; simp only [List.length_take, List.length_drop]; omega

theorem clampLR_nat (size A B : Nat) (_hA : A ≤ size) (hB : B ≤ size) :
    clampLR size A B = (((min A B : Nat) : Int), (B : Int)) := by
  unfold clampLR
  gen_normB
  have h1 : ¬ ((A : Int) < 0) := by omega
  have h2 : ¬ ((B : Int) > size) := by omega
  simp only [h1, h2, if_false]
  split
  · congr 1; omega
  · congr 1; omega

theorem getslice_core (m : Bytes) (b : Buf) (hin : b.data + b.size ≤ m.length) (A B : Nat)
    (_hA : A ≤ b.size) (hB : B ≤ b.size) :
    Mem.read m (b.data + min A B) (B - min A B) = some (((region m b).take B).drop A) := by
  unfold Mem.read
  rw [if_pos (by omega)]
  congr 1
  apply List.ext_getElem?
  intro k
  unfold region
  simp only [List.getElem?_take, List.getElem?_drop]
  by_cases h1 : k < B - min A B
  · have a1 : A + k < B := by omega
    have a2 : A + k < b.size := by omega
    have a3 : b.data + min A B + k = b.data + (A + k) := by omega
    simp only [h1, a1, a2, a3, if_true]
  · by_cases h2 : A + k < B
    · omega
    · simp only [h1, h2, if_false]

/-- Replace the buffer's bytes by `r` (same length) inside the flat memory. -/
def splice (m : Bytes) (b : Buf) (r : Bytes) : Bytes := m.take b.data ++ r ++ m.drop (b.data + b.size)

theorem setslice_core (m : Bytes) (b : Buf) (hin : b.data + b.size ≤ m.length) (A B : Nat)
    (hA : A ≤ b.size) (hB : B ≤ b.size) (bs : Bytes) (hl : bs.length = B - A) :
    write m (b.data + min A B) bs =
      some (splice m b ((region m b).take A ++ bs ++ (region m b).drop (if B < A then A else B))) := by
  obtain ⟨m', hw⟩ := write_isSome (m := m) (off := b.data + min A B) (bs := bs) (by omega)
  rw [hw]
  congr 1
  apply List.ext_getElem?
  intro k
  rw [write_getElem? hw]
  unfold splice region
  simp only [List.getElem?_append, List.length_append, List.length_take, List.length_drop,
    List.getElem?_take, List.getElem?_drop]
  by_cases hAB : B < A
  · -- empty slice: nothing changes
    have hl0 : bs.length = 0 := by omega
    have hnil : bs = [] := List.eq_nil_of_length_eq_zero hl0
    subst hnil
    simp only [hAB, if_true, List.length_nil, List.getElem?_nil]
    have c0 : ¬ (b.data + min A B ≤ k ∧ k < b.data + min A B + 0) := by omega
    simp only [c0, if_false]
    by_cases c1 : k < b.data
    · have x1 : k < min b.data m.length + (min A (min b.size (m.length - b.data)) + 0 + (min b.size (m.length - b.data) - A)) := by omega
      have x2 : k < min b.data m.length := by omega
      simp only [x1, x2, c1, if_true]
    · by_cases c2 : k < b.data + b.size
      · have x1 : k < min b.data m.length + (min A (min b.size (m.length - b.data)) + 0 + (min b.size (m.length - b.data) - A)) := by omega
        have x2 : ¬ k < min b.data m.length := by omega
        simp only [x1, x2, if_true, if_false]
        by_cases c3 : k - min b.data m.length < min A (min b.size (m.length - b.data)) + 0
        · have x3 : k - min b.data m.length < min A (min b.size (m.length - b.data)) := by omega
          have x4 : k - min b.data m.length < A := by omega
          have x5 : k - min b.data m.length < b.size := by omega
          have x6 : b.data + (k - min b.data m.length) = k := by omega
          simp only [c3, x3, x4, x5, x6, if_true]
        · have x3 : ¬ k - min b.data m.length < min A (min b.size (m.length - b.data)) := by omega
          have x5 : A + (k - min b.data m.length - (min A (min b.size (m.length - b.data)) + 0)) < b.size := by omega
          have x6 : b.data + (A + (k - min b.data m.length - (min A (min b.size (m.length - b.data)) + 0))) = k := by omega
          simp only [c3, x3, x5, x6, if_true, if_false]
      · have x1 : ¬ k < min b.data m.length + (min A (min b.size (m.length - b.data)) + 0 + (min b.size (m.length - b.data) - A)) := by omega
        have x6 : b.data + b.size + (k - (min b.data m.length + (min A (min b.size (m.length - b.data)) + 0 + (min b.size (m.length - b.data) - A)))) = k := by omega
        simp only [x1, x6, if_false]
  · simp only [hAB, if_false]
    have hmin : min A B = A := by omega
    rw [hmin]
    by_cases c1 : k < b.data
    · have c0 : ¬ (b.data + A ≤ k ∧ k < b.data + A + bs.length) := by omega
      have x1 : k < min b.data m.length + (min A (min b.size (m.length - b.data)) + bs.length + (min b.size (m.length - b.data) - B)) := by omega
      have x2 : k < min b.data m.length := by omega
      simp only [c0, x1, x2, c1, if_true, if_false]
    · by_cases c2 : k < b.data + A
      · have c0 : ¬ (b.data + A ≤ k ∧ k < b.data + A + bs.length) := by omega
        have x1 : k < min b.data m.length + (min A (min b.size (m.length - b.data)) + bs.length + (min b.size (m.length - b.data) - B)) := by omega
        have x2 : ¬ k < min b.data m.length := by omega
        have x3 : k - min b.data m.length < min A (min b.size (m.length - b.data)) + bs.length := by omega
        have x4 : k - min b.data m.length < min A (min b.size (m.length - b.data)) := by omega
        have x5 : k - min b.data m.length < A := by omega
        have x6 : k - min b.data m.length < b.size := by omega
        have x7 : b.data + (k - min b.data m.length) = k := by omega
        simp only [c0, x1, x2, x3, x4, x5, x6, x7, if_true, if_false]
      · by_cases c3 : k < b.data + A + bs.length
        · have c0 : (b.data + A ≤ k ∧ k < b.data + A + bs.length) := by omega
          have x1 : k < min b.data m.length + (min A (min b.size (m.length - b.data)) + bs.length + (min b.size (m.length - b.data) - B)) := by omega
          have x2 : ¬ k < min b.data m.length := by omega
          have x3 : k - min b.data m.length < min A (min b.size (m.length - b.data)) + bs.length := by omega
          have x4 : ¬ k - min b.data m.length < min A (min b.size (m.length - b.data)) := by omega
          have x7 : k - min b.data m.length - min A (min b.size (m.length - b.data)) = k - (b.data + A) := by omega
          simp only [c0, x1, x2, x3, x4, x7, and_self, if_true, if_false]
        · have c0 : ¬ (b.data + A ≤ k ∧ k < b.data + A + bs.length) := by omega
          by_cases c4 : k < b.data + b.size
          · have x1 : k < min b.data m.length + (min A (min b.size (m.length - b.data)) + bs.length + (min b.size (m.length - b.data) - B)) := by omega
            have x2 : ¬ k < min b.data m.length := by omega
            have x3 : ¬ k - min b.data m.length < min A (min b.size (m.length - b.data)) + bs.length := by omega
            have x5 : B + (k - min b.data m.length - (min A (min b.size (m.length - b.data)) + bs.length)) < b.size := by omega
            have x6 : b.data + (B + (k - min b.data m.length - (min A (min b.size (m.length - b.data)) + bs.length))) = k := by omega
            simp only [c0, x1, x2, x3, x5, x6, if_true, if_false]
          · have x1 : ¬ k < min b.data m.length + (min A (min b.size (m.length - b.data)) + bs.length + (min b.size (m.length - b.data) - B)) := by omega
            have x6 : b.data + b.size + (k - (min b.data m.length + (min A (min b.size (m.length - b.data)) + bs.length + (min b.size (m.length - b.data) - B)))) = k := by omega
            simp only [c0, x1, x6, if_false]

theorem normIndex_spec (size : Nat) (hs : (size : Int) ≤ ssizeMax) (i : Int) :
    normIndex size (.int i) =
      if 0 ≤ i ∧ i < size then .ok i.toNat
      else if -(size : Int) ≤ i ∧ i < 0 then .ok (i + size).toNat
      else .error .IndexError := by
  unfold normIndex
  gen_normB
  by_cases hf : fitsSsize i
  · rw [if_neg (fun h => h hf)]
    unfold fitsSsize ssizeMin ssizeMax at *
    by_cases hneg : i < 0
    · have h1 : ¬ (0 ≤ i ∧ i < size) := by omega
      rw [if_pos hneg, if_neg h1]
      by_cases hc : i + size < 0 ∨ i + size ≥ size
      · have h2 : ¬ (-(size : Int) ≤ i ∧ i < 0) := by omega
        rw [if_pos hc, if_neg h2]
      · have h2 : (-(size : Int) ≤ i ∧ i < 0) := by omega
        rw [if_neg hc, if_pos h2]
    · rw [if_neg hneg]
      by_cases hc : i < 0 ∨ i ≥ size
      · have h1 : ¬ (0 ≤ i ∧ i < size) := by omega
        have h2 : ¬ (-(size : Int) ≤ i ∧ i < 0) := by omega
        rw [if_pos hc, if_neg h1, if_neg h2]
      · have h1 : (0 ≤ i ∧ i < size) := by omega
        rw [if_neg hc, if_pos h1]
  · rw [if_pos hf]
    unfold fitsSsize ssizeMin ssizeMax at *
    have h1 : ¬ (0 ≤ i ∧ i < size) := by omega
    have h2 : ¬ (-(size : Int) ≤ i ∧ i < 0) := by omega
    rw [if_neg h1, if_neg h2]

theorem setitem_core (m : Bytes) (b : Buf) (hin : b.data + b.size ≤ m.length) (k : Nat)
    (hk : k < b.size) (x : UInt8) :
    write m (b.data + k) [x] = some (splice m b ((region m b).set k x)) := by
  obtain ⟨m', hw⟩ := write_isSome (m := m) (off := b.data + k) (bs := [x]) (by simp; omega)
  rw [hw]
  congr 1
  apply List.ext_getElem?
  intro t
  rw [write_getElem? hw]
  unfold splice region
  simp only [List.getElem?_append, List.length_append, List.length_take, List.length_drop,
    List.getElem?_take, List.getElem?_drop, List.length_set, List.getElem?_set, List.length_cons,
    List.length_nil]
  by_cases c1 : t < b.data
  · have c0 : ¬ (b.data + k ≤ t ∧ t < b.data + k + (0 + 1)) := by omega
    have x1 : t < min b.data m.length + min b.size (m.length - b.data) := by omega
    have x2 : t < min b.data m.length := by omega
    simp only [c0, x1, x2, c1, if_true, if_false]
  · by_cases c2 : t < b.data + b.size
    · have x1 : t < min b.data m.length + min b.size (m.length - b.data) := by omega
      have x2 : ¬ t < min b.data m.length := by omega
      by_cases c3 : t = b.data + k
      · have c0 : (b.data + k ≤ t ∧ t < b.data + k + (0 + 1)) := by omega
        have x3 : k = t - min b.data m.length := by omega
        have x4 : k < min b.size (m.length - b.data) := by omega
        have x5 : t - (b.data + k) = 0 := by omega
        simp only [c0, x1, x2, ← x3, x4, x5, and_self, if_true, if_false, List.getElem?_cons_zero]
      · have c0 : ¬ (b.data + k ≤ t ∧ t < b.data + k + (0 + 1)) := by omega
        have x3 : ¬ k = t - min b.data m.length := by omega
        have x4 : t - min b.data m.length < b.size := by omega
        have x5 : b.data + (t - min b.data m.length) = t := by omega
        simp only [c0, x1, x2, x3, x4, x5, if_true, if_false]
    · have c0 : ¬ (b.data + k ≤ t ∧ t < b.data + k + (0 + 1)) := by omega
      have x1 : ¬ t < min b.data m.length + min b.size (m.length - b.data) := by omega
      have x5 : b.data + b.size + (t - (min b.data m.length + min b.size (m.length - b.data))) = t := by omega
      simp only [c0, x1, x5, if_false]

theorem fromBuffer_accepts (rw ro : Bool) (hw : ¬ (rw = true ∧ ro = true)) :
    ¬ ((rw = true ∧ ro = true) ∨ ¬ True) := by
  intro h
  rcases h with h | h
  · exact hw h
  · exact h trivial

end CffiVerif.Buffer
