import CffiVerif.Model.Tokenizer

/-! Helper lemmas for C30: the scanning loops of the tokenizer stop at the terminator. -/
namespace CffiVerif.Tokenizer
open CffiVerif.Generated.C30Tables

theorem rd_eq_head_drop (b : Buf) (i : Nat) : rd b i = (b.drop i).head? := by
  simp [rd, List.head?_drop]

/-- `while (pred(p[k])) k++` on a suffix that ends with a byte failing `pred`: stops inside. -/
theorem scan_ok (pred : UInt8 → Bool) (h0 : pred 0 = false) (t : List UInt8) (i : Nat) :
    ∃ e, scan pred (t ++ [0]) i = some e ∧ i ≤ e ∧ e ≤ i + t.length := by
  induction t generalizing i with
  | nil => exact ⟨i, by simp [scan, h0], Nat.le_refl _, by simp⟩
  | cons c t ih =>
    by_cases hc : pred c = true
    · obtain ⟨e, he, h1, h2⟩ := ih (i + 1)
      refine ⟨e, ?_, by omega, by simp only [List.length_cons]; omega⟩
      simp [scan, hc, he]
    · refine ⟨i, ?_, Nat.le_refl _, by omega⟩
      simp [scan, hc]

theorem isIdentNext_zero : isIdentNext 0 = false := by decide
theorem isHexDigit_zero : isHexDigit 0 = false := by decide

theorem followFrom_ok (t : List UInt8) : (followFrom (t ++ [0])).isSome = true := by
  induction t with
  | nil => simp [followFrom, isSpace]
  | cons c t ih =>
    simp only [List.cons_append, followFrom]
    split
    · exact ih
    · rfl

theorem commasFrom_ok (t : List UInt8) (r n : Nat) : (commasFrom (t ++ [0]) r n).isSome = true := by
  induction t generalizing r n with
  | nil => simp [commasFrom]
  | cons c t ih =>
    simp only [List.cons_append, commasFrom]
    repeat' split
    all_goals first | exact ih _ _ | rfl

/-- Every keyword comparison reads at most `tok->size` bytes. -/
theorem kwEntries_len : ∀ e ∈ kwEntries, e.2.2.2.1 ≤ e.2.1 := by decide

theorem memcmpEq_isSome {b : Buf} {p n : Nat} (lit : List UInt8) (h : p + n ≤ b.length) :
    ∃ r, memcmpEq b p lit n = some r := by
  simp [memcmpEq, h]

theorem classifyFrom_ok (b : Buf) (p size : Nat) (c : UInt8) (hps : p + size ≤ b.length)
    (es : List (UInt8 × Nat × List UInt8 × Nat × String)) (hes : ∀ e ∈ es, e.2.2.2.1 ≤ e.2.1) (k : Kind) :
    ∃ k', classifyFrom b p size c es k = some k' := by
  induction es generalizing k with
  | nil => exact ⟨k, rfl⟩
  | cons e es ih =>
    obtain ⟨cc, sz, lit, n, name⟩ := e
    have ih' := ih (fun e he => hes e (List.mem_cons_of_mem _ he))
    simp only [classifyFrom]
    by_cases hm : (c == cc && size == sz) = true
    · simp only [hm, if_true]
      have hn : n ≤ sz := hes (cc, sz, lit, n, name) (by simp)
      have hsz : size = sz := by
        simp only [Bool.and_eq_true, beq_iff_eq] at hm; exact hm.2
      obtain ⟨r, hr⟩ := memcmpEq_isSome (b := b) (p := p) (n := n) lit (by omega)
      rw [hr]
      cases r
      · exact ih' k
      · exact ih' (.kw name)
    · simp only [hm]
      exact ih' k

/-- A suffix `c :: rest` of the buffer at index `i`: the read `p[0]` is `c`. -/
theorem rd_of_drop {b : Buf} {i : Nat} {c : UInt8} {rest : List UInt8} (h : b.drop i = c :: rest) :
    rd b i = some c := by
  rw [rd_eq_head_drop, h]; rfl

theorem length_of_drop {b : Buf} {i : Nat} {l : List UInt8} (h : b.drop i = l) (hl : l ≠ []) :
    b.length = i + l.length := by
  have : (b.drop i).length = l.length := by rw [h]
  rw [List.length_drop] at this
  have : l.length ≠ 0 := by
    intro h0; exact hl (List.length_eq_zero_iff.mp h0)
  omega

/-- The body of `next_token` started anywhere at or before the terminator returns a token
that ends at or before the terminator, without reading beyond it. -/
theorem nextFrom_ok (b : Buf) (t : List UInt8) (i : Nat) (h : b.drop i = t ++ [0]) :
    ∃ tok, nextFrom b (b.drop i) i = some tok ∧ tok.p + tok.size ≤ i + t.length ∧ i ≤ tok.p := by
  induction t generalizing i with
  | nil =>
    rw [h]
    exact ⟨⟨i, 0, .eof⟩, by simp [nextFrom, isIdentFirst, isSpace, isDigit], by simp, Nat.le_refl _⟩
  | cons c t ih =>
    have hlen : b.length = i + (t.length + 2) := by
      have := length_of_drop h (by simp)
      simpa [Nat.add_assoc] using this
    have hnext : b.drop (i + 1) = t ++ [0] := by
      have : b.drop (i + 1) = (b.drop i).drop 1 := by rw [List.drop_drop]
      rw [this, h]; rfl
    rw [h]
    simp only [List.cons_append, nextFrom, List.length_cons]
    by_cases h1 : isIdentFirst c = true
    · simp only [h1, if_true]
      obtain ⟨e, he, he1, he2⟩ := scan_ok isIdentNext isIdentNext_zero t (i + 1)
      rw [he]
      have hrd : rd b i = some c := rd_of_drop (by rw [h]; rfl)
      obtain ⟨k, hk⟩ := classifyFrom_ok b i (e - i) c (by omega) kwEntries kwEntries_len .ident
      simp only [classify, hrd, hk]
      exact ⟨_, rfl, by simp only; omega, Nat.le_refl _⟩
    · simp only [h1]
      by_cases h2 : isSpace c = true
      · simp only [h2, if_true]
        obtain ⟨tok, ht, hb1, hb2⟩ := ih (i + 1) hnext
        rw [hnext] at ht
        exact ⟨tok, ht, by omega, by omega⟩
      · simp only [h2]
        by_cases h3 : isDigit c = true
        · simp only [h3, if_true]
          cases t with
          | nil =>
            -- rest = [0]: p[1] is the terminator, not 'x'
            simp only [List.nil_append]
            have : ¬ ((0 : UInt8) == 120 || (0 : UInt8) == 88) = true := by decide
            simp only [this]
            exact ⟨⟨i, 1, .integer⟩, by simp [scan, isHexDigit], by simp, Nat.le_refl _⟩
          | cons c1 t2 =>
            simp only [List.cons_append]
            by_cases hx : (c1 == 120 || c1 == 88) = true
            · simp only [hx, if_true]
              obtain ⟨e, he, he1, he2⟩ := scan_ok isHexDigit isHexDigit_zero t2 (i + 2)
              rw [he]
              exact ⟨_, rfl, by simp only [List.length_cons]; omega, Nat.le_refl _⟩
            · simp only [hx]
              obtain ⟨e, he, he1, he2⟩ := scan_ok isHexDigit isHexDigit_zero (c1 :: t2) (i + 1)
              simp only [List.cons_append] at he
              rw [he]
              exact ⟨_, rfl, by simp only [List.length_cons] at *; omega, Nat.le_refl _⟩
        · simp only [h3]
          by_cases h4 : (c == 46) = true
          · simp only [h4, if_true]
            cases t with
            | nil =>
              simp only [List.nil_append]
              have : ¬ ((0 : UInt8) == 46) = true := by decide
              simp only [this]
              exact ⟨_, rfl, by simp, Nat.le_refl _⟩
            | cons c1 t2 =>
              simp only [List.cons_append]
              by_cases h5 : (c1 == 46) = true
              · simp only [h5, if_true]
                cases t2 with
                | nil =>
                  simp only [List.nil_append]
                  have : ¬ ((0 : UInt8) == 46) = true := by decide
                  simp only [this]
                  exact ⟨_, rfl, by simp, Nat.le_refl _⟩
                | cons c2 t3 =>
                  simp only [List.cons_append]
                  by_cases h6 : (c2 == 46) = true
                  · simp only [h6, if_true]
                    exact ⟨_, rfl, by simp only [List.length_cons]; omega, Nat.le_refl _⟩
                  · simp only [h6]
                    exact ⟨_, rfl, by simp only [List.length_cons]; omega, Nat.le_refl _⟩
              · simp only [h5]
                exact ⟨_, rfl, by simp only [List.length_cons]; omega, Nat.le_refl _⟩
          · simp only [h4]
            by_cases h7 : (c != 0) = true
            · simp only [h7, if_true]
              exact ⟨_, rfl, by simp only; omega, Nat.le_refl _⟩
            · simp only [h7]
              exact ⟨_, rfl, by simp only; omega, Nat.le_refl _⟩

/-- `(s ++ [0]).drop i` for `i ≤ s.length` is a suffix of `s` followed by the terminator. -/
theorem drop_terminated (s : List UInt8) (i : Nat) (hi : i ≤ s.length) :
    (s ++ [0]).drop i = s.drop i ++ [0] := by
  rw [List.drop_append_of_le_length hi]

/-! ### search_standard_typename -/

theorem stdEntries1_len : ∀ e ∈ stdEntries1, e.2.2.2.1 ≤ e.2.1 := by decide
theorem stdEntries2_len : ∀ e ∈ stdEntries2, e.2.2.2.1 ≤ e.2.1 := by decide
theorem stdGuard_facts : 1 ≤ stdGuard.1 ∧ stdGuard.1 ≤ stdMinSize ∧ 1 ≤ stdGuard.2.2.1 ∧ stdGuard.2.2.1 ≤ stdMinSize ∧
    stdIdx1 < stdMinSize ∧ stdIdx2 < stdMinSize2 := by decide

theorem firstMatch_ok (b : Buf) (p size : Nat) (c : UInt8) (hps : p + size ≤ b.length)
    (es : List (UInt8 × Nat × List UInt8 × Nat × Nat)) (hes : ∀ e ∈ es, e.2.2.2.1 ≤ e.2.1) :
    ∃ r, firstMatch b p size c es = some r := by
  induction es with
  | nil => exact ⟨none, rfl⟩
  | cons e es ih =>
    obtain ⟨cc, sz, lit, n, prim⟩ := e
    have ih' := ih (fun e he => hes e (List.mem_cons_of_mem _ he))
    simp only [firstMatch]
    by_cases hm : (c == cc && size == sz) = true
    · simp only [hm, if_true]
      have hn : n ≤ sz := hes (cc, sz, lit, n, prim) (by simp)
      have hsz : size = sz := by
        simp only [Bool.and_eq_true, beq_iff_eq] at hm; exact hm.2
      obtain ⟨r, hr⟩ := memcmpEq_isSome (b := b) (p := p) (n := n) lit (by omega)
      rw [hr]
      cases r
      · exact ih'
      · exact ⟨_, rfl⟩
    · simp only [hm]
      exact ih'

theorem rd_isSome {b : Buf} {i : Nat} (h : i < b.length) : ∃ c, rd b i = some c := by
  exact ⟨b[i], by simp [rd, h]⟩

theorem searchStd_ok (b : Buf) (p size : Nat) (hps : p + size ≤ b.length) :
    ∃ r, searchStd b p size = some r := by
  obtain ⟨g1, g2, g3, g4, g5, g6⟩ := stdGuard_facts
  unfold searchStd
  by_cases hsz : size < stdMinSize
  · simp only [hsz, if_true]; exact ⟨_, rfl⟩
  · simp only [hsz, if_false]
    obtain ⟨a, ha⟩ := rd_isSome (b := b) (i := p + size - stdGuard.1) (by omega)
    rw [ha]; simp only
    split
    · exact ⟨_, rfl⟩
    · obtain ⟨a2, ha2⟩ := rd_isSome (b := b) (i := p + size - stdGuard.2.2.1) (by omega)
      rw [ha2]; simp only
      split
      · exact ⟨_, rfl⟩
      · obtain ⟨c, hc⟩ := rd_isSome (b := b) (i := p + stdIdx1) (by omega)
        rw [hc]; simp only
        obtain ⟨r, hr⟩ := firstMatch_ok b p size c hps stdEntries1 stdEntries1_len
        rw [hr]
        cases r with
        | some prim => exact ⟨_, rfl⟩
        | none =>
          simp only
          by_cases h2 : (c == stdOuter2 && decide (stdMinSize2 ≤ size)) = true
          · simp only [h2, if_true]
            have hge : stdMinSize2 ≤ size := by
              simp only [Bool.and_eq_true, decide_eq_true_eq] at h2; exact h2.2
            obtain ⟨c', hc'⟩ := rd_isSome (b := b) (i := p + stdIdx2) (by omega)
            rw [hc']; simp only
            exact firstMatch_ok b p size c' hps stdEntries2 stdEntries2_len
          · simp only [h2]; exact ⟨_, rfl⟩

/-! ### _ffi_bad_type -/

theorem putAll_ok (o : Out) (l : List UInt8) (h : o.data.length + l.length ≤ o.cap) :
    ∃ o', o.putAll l = some o' ∧ o'.cap = o.cap ∧ o'.data = o.data ++ l := by
  induction l generalizing o with
  | nil => exact ⟨o, rfl, rfl, by simp⟩
  | cons c cs ih =>
    simp only [List.length_cons] at h
    have hlt : o.data.length < o.cap := by omega
    simp only [Out.putAll, Out.put, hlt, if_true]
    obtain ⟨o', h1, h2, h3⟩ := ih { o with data := o.data ++ [c] } (by simp; omega)
    exact ⟨o', h1, by simpa using h2, by simpa using h3⟩

theorem put_ok (o : Out) (c : UInt8) (h : o.data.length < o.cap) :
    o.put c = some { o with data := o.data ++ [c] } := by
  simp [Out.put, h]

end CffiVerif.Tokenizer
