import CffiVerif.Model.PkgConfig
import CffiVerif.Generated.PkgConfigPy

/-! Lemmas behind the C35 theorems. -/
namespace CffiVerif.PkgConfig
open CffiVerif.GenSrcIO (utf8Decode)

/-! ### prefixes -/

theorem starts2_eq (a b : Nat) (x : Str) (h : starts2 a b x = true) : x = a :: b :: x.drop 2 := by
  match x with
  | [] => simp [starts2] at h
  | [_] => simp [starts2] at h
  | p :: q :: r =>
    simp only [starts2, Bool.and_eq_true, beq_iff_eq] at h
    simp [h.1, h.2]

theorem starts2_excl (a b b' : Nat) (x : Str) (hb : b ≠ b') (h : starts2 a b x = true) :
    starts2 a b' x = false := by
  match x with
  | [] => simp [starts2] at h
  | [_] => simp [starts2] at h
  | p :: q :: r =>
    simp only [starts2, Bool.and_eq_true, beq_iff_eq] at h
    simp only [starts2, Bool.and_eq_false_iff, beq_eq_false_iff_ne]
    right; rw [h.2]; exact hb

/-! ### `-D` -/

theorem splitEq_some (y n v : Str) (h : splitEq y = some (n, v)) : y = n ++ 61 :: v ∧ 61 ∉ n := by
  induction y generalizing n with
  | nil => simp [splitEq] at h
  | cons c cs ih =>
    simp only [splitEq] at h
    by_cases hc : c = 61
    · simp only [hc, if_true, Option.some.injEq, Prod.mk.injEq] at h
      obtain ⟨rfl, rfl⟩ := h
      simp [hc]
    · simp only [hc, if_false] at h
      cases hs : splitEq cs with
      | none => simp [hs] at h
      | some p =>
        obtain ⟨a, b⟩ := p
        simp only [hs, Option.some.injEq, Prod.mk.injEq] at h
        obtain ⟨rfl, rfl⟩ := h
        obtain ⟨e, hn⟩ := ih a hs
        refine ⟨by rw [e]; simp, ?_⟩
        intro hm
        rcases List.mem_cons.mp hm with h' | h'
        · exact hc h'.symm
        · exact hn h'

theorem splitEq_none (y : Str) (h : splitEq y = none) : 61 ∉ y := by
  induction y with
  | nil => simp
  | cons c cs ih =>
    simp only [splitEq] at h
    by_cases hc : c = 61
    · simp [hc] at h
    · simp only [hc, if_false] at h
      cases hs : splitEq cs with
      | none =>
        intro hm
        rcases List.mem_cons.mp hm with h' | h'
        · exact hc h'.symm
        · exact ih hs h'
      | some p => obtain ⟨a, b⟩ := p; simp [hs] at h

/-- putting `-D`, the name and `=value` together again -/
def unmacro : Str × Option Str → Str
  | (n, some v) => 45 :: 68 :: (n ++ 61 :: v)
  | (n, none) => 45 :: 68 :: n

theorem unmacro_macroOf (x : Str) (h : isD x = true) : unmacro (macroOf x) = x := by
  have hx := starts2_eq 45 68 x h
  unfold macroOf
  cases hs : splitEq (x.drop 2) with
  | none => simp only [unmacro]; exact hx.symm
  | some p =>
    obtain ⟨n, v⟩ := p
    simp only [unmacro]
    rw [← (splitEq_some _ n v hs).1]
    exact hx.symm

/-! ### reassembling the token list from the outputs -/

inductive CClass where
  | inc | mac | other
  deriving Repr, DecidableEq

def cclass (x : Str) : CClass := if isI x then .inc else if isD x then .mac else .other

def reassembleC : List CClass → List Str → List (Str × Option Str) → List Str → Option (List Str)
  | [], is, ms, os => if is.isEmpty && ms.isEmpty && os.isEmpty then some [] else none
  | .inc :: cs, is, ms, os =>
    match is with
    | i :: is' => (reassembleC cs is' ms os).map ((45 :: 73 :: i) :: ·)
    | [] => none
  | .mac :: cs, is, ms, os =>
    match ms with
    | m :: ms' => (reassembleC cs is ms' os).map (unmacro m :: ·)
    | [] => none
  | .other :: cs, is, ms, os =>
    match os with
    | o :: os' => (reassembleC cs is ms os').map (o :: ·)
    | [] => none

inductive LClass where
  | dir | lib | other
  deriving Repr, DecidableEq

def lclass (x : Str) : LClass := if isL x then .dir else if isl x then .lib else .other

def reassembleL : List LClass → List Str → List Str → List Str → Option (List Str)
  | [], ds, ls, os => if ds.isEmpty && ls.isEmpty && os.isEmpty then some [] else none
  | .dir :: cs, ds, ls, os =>
    match ds with
    | d :: ds' => (reassembleL cs ds' ls os).map ((45 :: 76 :: d) :: ·)
    | [] => none
  | .lib :: cs, ds, ls, os =>
    match ls with
    | l :: ls' => (reassembleL cs ds ls' os).map ((45 :: 108 :: l) :: ·)
    | [] => none
  | .other :: cs, ds, ls, os =>
    match os with
    | o :: os' => (reassembleL cs ds ls os').map (o :: ·)
    | [] => none

theorem reassembleC_spec (ts : List Str) :
    reassembleC (ts.map cclass) (includeDirs ts) (macros ts) (otherCflags ts) = some ts := by
  induction ts with
  | nil => simp [reassembleC, includeDirs, macros, otherCflags]
  | cons x ts ih =>
    unfold includeDirs macros otherCflags at ih ⊢
    by_cases hI : isI x = true
    · have hD : isD x = false := starts2_excl 45 73 68 x (by decide) hI
      simp only [List.map_cons, cclass, hI, hD, if_true, List.filter_cons, Bool.not_true,
        Bool.false_and, Bool.false_eq_true, if_false, reassembleC, ih, Option.map_some]
      rw [← starts2_eq 45 73 x hI]
    · by_cases hD : isD x = true
      · simp only [List.map_cons, cclass, hI, hD, if_true, List.filter_cons, Bool.not_true,
          Bool.and_false, Bool.false_eq_true, if_false, reassembleC, ih, Option.map_some,
          unmacro_macroOf x hD]
      · simp only [Bool.not_eq_true] at hI hD
        simp only [List.map_cons, cclass, hI, hD, List.filter_cons, Bool.not_false,
          Bool.and_self, Bool.false_eq_true, if_false, if_true, reassembleC, ih, Option.map_some]

theorem reassembleL_spec (ts : List Str) :
    reassembleL (ts.map lclass) (libraryDirs ts) (libraries ts) (otherLibs ts) = some ts := by
  induction ts with
  | nil => simp [reassembleL, libraryDirs, libraries, otherLibs]
  | cons x ts ih =>
    unfold libraryDirs libraries otherLibs at ih ⊢
    by_cases hL : isL x = true
    · have hl : isl x = false := starts2_excl 45 76 108 x (by decide) hL
      simp only [List.map_cons, lclass, hL, hl, if_true, List.filter_cons, Bool.not_true,
        Bool.false_and, Bool.false_eq_true, if_false, reassembleL, ih, Option.map_some]
      rw [← starts2_eq 45 76 x hL]
    · by_cases hl : isl x = true
      · simp only [List.map_cons, lclass, hL, hl, if_true, List.filter_cons, Bool.not_true,
          Bool.and_false, Bool.false_eq_true, if_false, reassembleL, ih, Option.map_some]
        rw [← starts2_eq 45 108 x hl]
      · simp only [Bool.not_eq_true] at hL hl
        simp only [List.map_cons, lclass, hL, hl, List.filter_cons, Bool.not_false,
          Bool.and_self, Bool.false_eq_true, if_false, if_true, reassembleL, ih, Option.map_some]

theorem count_cflags (ts : List Str) :
    (includeDirs ts).length + (macros ts).length + (otherCflags ts).length = ts.length := by
  induction ts with
  | nil => rfl
  | cons x ts ih =>
    unfold includeDirs macros otherCflags at ih ⊢
    by_cases hI : isI x = true
    · have hD : isD x = false := starts2_excl 45 73 68 x (by decide) hI
      simp [hI, hD] at ih ⊢
      omega
    · by_cases hD : isD x = true
      · simp [hI, hD] at ih ⊢
        omega
      · simp [hI, hD] at ih ⊢
        omega

theorem count_libs (ts : List Str) :
    (libraryDirs ts).length + (libraries ts).length + (otherLibs ts).length = ts.length := by
  induction ts with
  | nil => rfl
  | cons x ts ih =>
    unfold libraryDirs libraries otherLibs at ih ⊢
    by_cases hL : isL x = true
    · have hl : isl x = false := starts2_excl 45 76 108 x (by decide) hL
      simp [hL, hl] at ih ⊢
      omega
    · by_cases hl : isl x = true
      · simp [hL, hl] at ih ⊢
        omega
      · simp [hL, hl] at ih ⊢
        omega

/-! ### merging -/

def NodupKeys {κ α : Type} (cfg : Cfg κ α) : Prop := (cfg.map Prod.fst).Nodup

theorem vals_of_not_mem {κ α : Type} [DecidableEq κ] (cfg : Cfg κ α) (k : κ)
    (h : k ∉ cfg.map Prod.fst) : vals cfg k = [] := by
  induction cfg with
  | nil => rfl
  | cons p ps ih =>
    simp only [List.map_cons, List.mem_cons, not_or] at h
    have hne : ¬ (p.1 = k) := fun e => h.1 e.symm
    simp only [vals, List.filter_cons, hne, decide_false, Bool.false_eq_true, if_false]
    exact ih h.2

theorem vals_cons {κ α : Type} [DecidableEq κ] (p : κ × List α) (ps : Cfg κ α) (k : κ) :
    vals (p :: ps) k = (if p.1 = k then p.2 else []) ++ vals ps k := by
  by_cases h : p.1 = k <;> simp [vals, h]

theorem keys_mergeKey {κ α : Type} [DecidableEq κ] (cfg : Cfg κ α) (k : κ) (v : List α) :
    ∀ k', k' ∈ (mergeKey cfg k v).map Prod.fst ↔ (k' = k ∨ k' ∈ cfg.map Prod.fst) := by
  induction cfg with
  | nil => intro k'; simp [mergeKey]
  | cons p ps ih =>
    obtain ⟨k0, v0⟩ := p
    intro k'
    simp only [mergeKey]
    by_cases h : k0 = k
    · simp only [h, if_true, List.map_cons, List.mem_cons]
      constructor
      · intro hh; right; exact hh
      · intro hh; rcases hh with hh | hh
        · left; exact hh
        · exact hh
    · simp only [h, if_false, List.map_cons, List.mem_cons, ih k']
      constructor
      · intro hh; rcases hh with hh | hh | hh
        · right; left; exact hh
        · left; exact hh
        · right; right; exact hh
      · intro hh; rcases hh with hh | hh | hh
        · right; left; exact hh
        · left; exact hh
        · right; right; exact hh

theorem nodup_mergeKey {κ α : Type} [DecidableEq κ] (cfg : Cfg κ α) (k : κ) (v : List α)
    (h : NodupKeys cfg) : NodupKeys (mergeKey cfg k v) := by
  induction cfg with
  | nil => simp [mergeKey, NodupKeys]
  | cons p ps ih =>
    obtain ⟨k0, v0⟩ := p
    unfold NodupKeys at h ih ⊢
    simp only [List.map_cons, List.nodup_cons] at h
    simp only [mergeKey]
    by_cases hk : k0 = k
    · simp only [hk, if_true, List.map_cons, List.nodup_cons]
      rw [← hk]; exact h
    · simp only [hk, if_false, List.map_cons, List.nodup_cons]
      refine ⟨?_, ih h.2⟩
      intro hm
      rcases (keys_mergeKey ps k v k0).mp hm with e | e
      · exact hk e
      · exact h.1 e

theorem vals_mergeKey {κ α : Type} [DecidableEq κ] (cfg : Cfg κ α) (k : κ) (v : List α)
    (h : NodupKeys cfg) (k' : κ) :
    vals (mergeKey cfg k v) k' = vals cfg k' ++ (if k = k' then v else []) := by
  induction cfg with
  | nil => by_cases e : k = k' <;> simp [mergeKey, vals, e]
  | cons p ps ih =>
    obtain ⟨k0, v0⟩ := p
    unfold NodupKeys at h ih
    simp only [List.map_cons, List.nodup_cons] at h
    simp only [mergeKey]
    by_cases hk : k0 = k
    · subst hk
      simp only [if_true, vals_cons]
      by_cases e : k0 = k'
      · subst e
        simp [vals_of_not_mem ps k0 h.1]
      · simp [e]
    · simp only [hk, if_false, vals_cons, ih h.2, List.append_assoc]

theorem nodup_mergeFlags {κ α : Type} [DecidableEq κ] (cfg1 cfg2 : Cfg κ α) (h : NodupKeys cfg1) :
    NodupKeys (mergeFlags cfg1 cfg2) := by
  unfold mergeFlags
  induction cfg2 generalizing cfg1 with
  | nil => simpa using h
  | cons p ps ih =>
    simp only [List.foldl_cons]
    exact ih (mergeKey cfg1 p.1 p.2) (nodup_mergeKey cfg1 p.1 p.2 h)

theorem vals_mergeFlags {κ α : Type} [DecidableEq κ] (cfg1 cfg2 : Cfg κ α) (h : NodupKeys cfg1) (k : κ) :
    vals (mergeFlags cfg1 cfg2) k = vals cfg1 k ++ vals cfg2 k := by
  unfold mergeFlags
  induction cfg2 generalizing cfg1 with
  | nil => simp [vals]
  | cons p ps ih =>
    simp only [List.foldl_cons]
    rw [ih (mergeKey cfg1 p.1 p.2) (nodup_mergeKey cfg1 p.1 p.2 h),
      vals_mergeKey cfg1 p.1 p.2 h k, vals_cons, List.append_assoc]

theorem foldl_mergeFlags {κ α : Type} [DecidableEq κ] (init : Cfg κ α) (cfgs : List (Cfg κ α))
    (h : NodupKeys init) (k : κ) :
    NodupKeys (cfgs.foldl mergeFlags init) ∧
    vals (cfgs.foldl mergeFlags init) k = vals init k ++ cfgs.flatMap (fun c => vals c k) := by
  induction cfgs generalizing init with
  | nil => simp [h]
  | cons c cs ih =>
    simp only [List.foldl_cons, List.flatMap_cons]
    have := ih (mergeFlags init c) (nodup_mergeFlags init c h)
    refine ⟨this.1, ?_⟩
    rw [this.2, vals_mergeFlags init c h k, List.append_assoc]

/-! ### failures and the per-library contributions -/

/-- what makes one `pkg-config` call fail -/
def CallFails (p : Proc) : Prop :=
  p.spawnOk = false ∨ p.status ≠ 0 ∨ utf8Decode p.out = none ∨
    ∃ s, utf8Decode p.out = some s ∧ 92 ∈ s

theorem call_error_iff (p : Proc) : call p = .error .pkgConfigError ↔ CallFails p := by
  unfold call CallFails
  by_cases h1 : p.spawnOk = false
  · simp [h1]
  · simp only [Bool.not_eq_false] at h1
    by_cases h2 : p.status = 0
    · cases hd : utf8Decode p.out with
      | none => simp [h1, h2]
      | some s =>
        by_cases h3 : 92 ∈ s
        · simp [h1, h2, h3]
        · simp [h1, h2, h3]
    · simp [h1, h2]

theorem flagsLoop_error_iff (env : Str → Flag → Proc) (libs : List Str) (ret : Cfg KeyName Item) :
    flagsLoop env libs ret = .error .pkgConfigError ↔
      ∃ lib ∈ libs, CallFails (env lib .cflags) ∨ CallFails (env lib .libs) := by
  induction libs generalizing ret with
  | nil => simp [flagsLoop]
  | cons lib libs ih =>
    simp only [flagsLoop, List.mem_cons, exists_eq_or_imp]
    cases h1 : call (env lib .cflags) with
    | error e =>
      cases e
      simp [(call_error_iff _).mp h1]
    | ok cf =>
      have n1 : ¬ CallFails (env lib .cflags) := fun hf => by
        rw [(call_error_iff _).mpr hf] at h1; cases h1
      cases h2 : call (env lib .libs) with
      | error e =>
        cases e
        simp [(call_error_iff _).mp h2]
      | ok lb =>
        have n2 : ¬ CallFails (env lib .libs) := fun hf => by
          rw [(call_error_iff _).mpr hf] at h2; cases h2
        simp only [n1, n2, or_self, false_or]
        exact ih _

/-- what one library contributes: `kwargs(libname)` of its two decoded outputs -/
def libCfg (env : Str → Flag → Proc) (lib : Str) : Option (Cfg KeyName Item) :=
  match call (env lib .cflags), call (env lib .libs) with
  | .ok cf, .ok lb => some (kwargsOf cf lb)
  | _, _ => none

/-- the contributions of all requested libraries, in order (`none` if a call fails) -/
def perLib (env : Str → Flag → Proc) : List Str → Option (List (Cfg KeyName Item))
  | [] => some []
  | lib :: libs =>
    match libCfg env lib, perLib env libs with
    | some c, some cs => some (c :: cs)
    | _, _ => none

theorem flagsLoop_ok (env : Str → Flag → Proc) (libs : List Str) (ret r : Cfg KeyName Item)
    (h : flagsLoop env libs ret = .ok r) :
    ∃ cfgs, perLib env libs = some cfgs ∧ r = cfgs.foldl mergeFlags ret := by
  induction libs generalizing ret with
  | nil =>
    simp only [flagsLoop, Except.ok.injEq] at h
    exact ⟨[], rfl, by simp [h]⟩
  | cons lib libs ih =>
    simp only [flagsLoop] at h
    cases h1 : call (env lib .cflags) with
    | error e => simp [h1] at h
    | ok cf =>
      cases h2 : call (env lib .libs) with
      | error e => simp [h1, h2] at h
      | ok lb =>
        simp only [h1, h2] at h
        obtain ⟨cfgs, hf, hr⟩ := ih _ h
        exact ⟨kwargsOf cf lb :: cfgs, by simp [perLib, libCfg, h1, h2, hf], by simp [hr]⟩

/-! ### the model is the translation of the Python source (`Generated/PkgConfigPy.lean`) -/

open CffiVerif.Generated in
theorem startsWith_eq_starts2 (a b : Nat) (x : Str) : PyText.startsWith [a, b] x = starts2 a b x := by
  match x with
  | [] => simp [PyText.startsWith, starts2, List.isPrefixOf]
  | [p] => simp [PyText.startsWith, starts2, List.isPrefixOf]
  | p :: q :: r =>
    simp only [PyText.startsWith, starts2, List.isPrefixOf, Bool.and_true]
    rw [Bool.eq_iff_iff]
    simp only [Bool.and_eq_true, beq_iff_eq]
    constructor <;> rintro ⟨rfl, rfl⟩ <;> exact ⟨rfl, rfl⟩

theorem splitEq_eq_split1 (y : Str) :
    splitEq y = if PyText.contains 61 y then some (PyText.split1 61 y) else none := by
  induction y with
  | nil => simp [splitEq, PyText.contains]
  | cons c cs ih =>
    simp only [splitEq, PyText.split1, PyText.contains] at ih ⊢
    by_cases hc : c = 61
    · simp [hc]
    · have hc' : ¬ (61 = c) := fun e => hc e.symm
      simp only [hc, if_false, ih, List.contains_cons]
      have hb : (61 == c) = false := by simp [hc']
      by_cases hm : 61 ∈ cs
      · simp [hm, hb]
      · simp [hm, hb]

theorem macroOf_eq_macro_ (x : Str) : macroOf x = Generated.PkgConfigPy.macro_ x := by
  unfold macroOf Generated.PkgConfigPy.macro_
  rw [splitEq_eq_split1]
  by_cases h : PyText.contains 61 (List.drop 2 x) = true
  · simp [h]
  · simp [h]

theorem mergeKey_eq_merge_step {κ α : Type} [DecidableEq κ] (cfg : Cfg κ α) (k : κ) (v : List α) :
    mergeKey cfg k v = Generated.PkgConfigPy.merge_step cfg k v := by
  unfold Generated.PkgConfigPy.merge_step
  induction cfg with
  | nil => simp [mergeKey, PyText.dictHas, PyText.dictSetNew]
  | cons p ps ih =>
    obtain ⟨k0, v0⟩ := p
    by_cases h : k0 = k
    · simp [mergeKey, PyText.dictHas, PyText.dictExtend, h]
    · simp only [mergeKey, h, if_false, ih]
      by_cases hh : PyText.dictHas ps k = true
      · have : PyText.dictHas ((k0, v0) :: ps) k = true := by
          simp only [PyText.dictHas, List.any_cons] at hh ⊢; simp [hh]
        simp [hh, this, PyText.dictExtend, h]
      · have : PyText.dictHas ((k0, v0) :: ps) k = false := by
          simp only [PyText.dictHas, List.any_cons, Bool.not_eq_true] at hh ⊢; simp [hh, h]
        simp only [Bool.not_eq_true] at hh
        simp [hh, this, PyText.dictSetNew]

/-- the keyword a `KeyName` stands for -/
def KeyName.name : KeyName → String
  | .include_dirs => "include_dirs" | .library_dirs => "library_dirs" | .libraries => "libraries"
  | .define_macros => "define_macros" | .extra_compile_args => "extra_compile_args"
  | .extra_link_args => "extra_link_args"

end CffiVerif.PkgConfig
