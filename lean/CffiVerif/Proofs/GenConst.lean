import CffiVerif.Model.GenConst
import CffiVerif.Proofs.CheckInt
/-! Helper lemmas for C33: 64-bit casts on value ranges, `castT` at a known width. -/
namespace CffiVerif.GenConst
open CffiVerif.CheckIntOps CffiVerif.Generated.VerifyMacros

theorem cLL_small (a : Int) (h1 : -9223372036854775808 ≤ a) (h2 : a < 9223372036854775808) : cLL a = a := by
  unfold cLL two64 two63; split <;> omega
theorem cLL_big (a : Int) (h1 : 9223372036854775808 ≤ a) (h2 : a < 18446744073709551616) :
    cLL a = a - 18446744073709551616 := by
  unfold cLL two64 two63; split <;> omega
theorem cULL_nonneg (a : Int) (h1 : 0 ≤ a) (h2 : a < 18446744073709551616) : cULL a = a := by
  unfold cULL two64; omega
theorem cULL_neg (a : Int) (h1 : -9223372036854775808 ≤ a) (h2 : a < 0) : cULL a = a + 18446744073709551616 := by
  unfold cULL two64; omega

theorem castT_eq (u size v : Int) (m : Int) (hm : (2 : Int) ^ (8 * size).toNat = m) :
    castT u size v = if u ≠ 0 then v % m else (if v % m < m / 2 then v % m else v % m - m) := by
  unfold castT; rw [hm]

end CffiVerif.GenConst
