import CffiVerif.Proofs.ConstExpr

/-! Helper lemmas for C09: `_add_integer_constant` / `_r_int_literal` on well-formed C literals
(the `#define NAME literal` and `static const T NAME = literal;` forms). -/
namespace CffiVerif.ConstExpr
open CffiVerif.CConstExpr

theorem toNat_ofNat_small (n : Nat) (h : n < 55296) : (Char.ofNat n).toNat = n := by
  have hv : n.isValidChar := Or.inl h
  simp [Char.ofNat, hv, Char.ofNatAux, Char.toNat, UInt32.toNat_ofNatLT]

theorem digitVal_lower (c : Char) : digitVal (lowerChar c) = digitVal c := by
  unfold lowerChar
  by_cases h : 65 ≤ c.toNat ∧ c.toNat ≤ 90
  · simp only [h, and_self, if_true]
    unfold digitVal
    simp only [toNat_ofNat_small (c.toNat + 32) (by omega)]
    have h1 : ¬ (48 ≤ c.toNat + 32 ∧ c.toNat + 32 ≤ 57) := by omega
    have h2 : (97 ≤ c.toNat + 32 ∧ c.toNat + 32 ≤ 122) := by omega
    have h3 : ¬ (48 ≤ c.toNat ∧ c.toNat ≤ 57) := by omega
    have h4 : ¬ (97 ≤ c.toNat ∧ c.toNat ≤ 122) := by omega
    simp only [h1, h2, h3, h4, h, and_self, if_true, if_false]
    have e : c.toNat + 32 - 97 + 10 = c.toNat - 65 + 10 := by omega
    rw [e]
  · simp only [h, if_false]

theorem digitsVal_map_lower (base : Nat) : ∀ (ds : List Char) (acc : Nat),
    digitsVal base (ds.map lowerChar) acc = digitsVal base ds acc := by
  intro ds
  induction ds with
  | nil => intro acc; rfl
  | cons c cs ih =>
    intro acc
    simp only [List.map_cons, digitsVal, digitVal_lower]
    cases digitVal c with
    | none => rfl
    | some d =>
      simp only
      split
      · exact ih _
      · rfl

/-- `s.rstrip(chars)` for a predicate. -/
theorem rstripP_append {p : Char → Bool} (body suf : List Char) (hs : ∀ c ∈ suf, p c = true)
    (hb : ∀ c, body.getLast? = some c → p c = false) :
    ((body ++ suf).reverse.dropWhile p).reverse = body := by
  rw [List.reverse_append, dropWhile_append_all _ _ (by simpa using hs)]
  have : body.reverse.dropWhile p = body.reverse := by
    cases hr : body.reverse with
    | nil => rfl
    | cons c cs =>
      have hl : body.getLast? = some c := by rw [← List.head?_reverse, hr]; rfl
      simp only [List.dropWhile_cons, hb c hl]
      rfl
  rw [this, List.reverse_reverse]

def isLowerUL (c : Char) : Bool := c == 'u' || c == 'l'

theorem lower_suffix_all {s : List Char} (h : validSuffixes.contains s = true) :
    ∀ c ∈ s.map lowerChar, isLowerUL c = true := by
  have key : ∀ t ∈ validSuffixes, (t.map lowerChar).all isLowerUL = true := by decide
  have hm : s ∈ validSuffixes := by simpa using h
  simpa using key s hm

theorem isLowerUL_digit {c : Char} (h : isLowerUL c = true) {d : Nat} (hd : digitVal c = some d) : 16 ≤ d := by
  simp only [isLowerUL, Bool.or_eq_true, beq_iff_eq] at h
  rcases h with rfl | rfl <;> (simp [digitVal] at hd; omega)

theorem last_not_lowerUL {base : Nat} (hb : base ≤ 16) (pre ds : List Char)
    (hpre : ∀ c, pre.getLast? = some c → isLowerUL c = false)
    (hds : ∀ c ∈ ds, ∃ d, digitVal c = some d ∧ d < base) :
    ∀ c, (pre ++ ds.map lowerChar).getLast? = some c → isLowerUL c = false := by
  intro c hc
  rw [List.getLast?_append] at hc
  cases hl : (ds.map lowerChar).getLast? with
  | none => rw [hl] at hc; exact hpre c (by simpa using hc)
  | some x =>
    rw [hl] at hc
    have : x = c := by simpa using hc
    subst this
    have hx := List.mem_of_getLast? hl
    obtain ⟨y, hy, rfl⟩ := List.mem_map.mp hx
    obtain ⟨d, h1, h2⟩ := hds y hy
    cases h : isLowerUL (lowerChar y) with
    | false => rfl
    | true =>
      have := isLowerUL_digit h (by rw [digitVal_lower]; exact h1)
      omega

/-- Characters that are digits of a base ≤ 16 are matched by `[0-9a-f]` (IGNORECASE). -/
theorem digit_isHex {c : Char} {d : Nat} (h : digitVal c = some d) (hd : d < 16) : isHexDigitCI c = true := by
  unfold digitVal at h
  unfold isHexDigitCI
  simp only at h ⊢
  split at h
  · rename_i h1; simp [h1.1, h1.2]
  · split at h
    · rename_i h1 h2
      simp only [Option.some.injEq] at h
      have : c.toNat ≤ 102 := by omega
      simp [h2.1, this]
    · split at h
      · rename_i h1 h2 h3
        simp only [Option.some.injEq] at h
        have : c.toNat ≤ 70 := by omega
        simp [h3.1, this]
      · cases h

theorem suffix_not_hex {s : List Char} (h : validSuffixes.contains s = true) :
    s.dropWhile isHexDigitCI = s ∧ s.all isLU = true := by
  have key : ∀ t ∈ validSuffixes, t.dropWhile isHexDigitCI = t ∧ t.all isLU = true := by decide
  have hm : s ∈ validSuffixes := by simpa using h
  exact key s hm

/-- `[0-9a-f]+[lu]*$` matches `digits ++ suffix` for a non-empty digit string of a base ≤ 16. -/
theorem matchDigitsLU_digits {base : Nat} (hb : base ≤ 16) (ds suf : List Char) (hne : ds ≠ [])
    (hds : ∀ c ∈ ds, ∃ d, digitVal c = some d ∧ d < base) (hs : validSuffixes.contains suf = true) :
    matchDigitsLU (ds ++ suf) = true := by
  unfold matchDigitsLU
  have hall : ∀ c ∈ ds, isHexDigitCI c = true := by
    intro c hc
    obtain ⟨d, h1, h2⟩ := hds c hc
    exact digit_isHex h1 (by omega)
  have := suffix_not_hex hs
  simp only [dropWhile_append_all ds suf hall, this.1, this.2, Bool.and_true, decide_eq_true_eq,
    List.length_append]
  have : 0 < ds.length := List.length_pos_iff.mpr hne
  omega

/-- The `lower().rstrip("ul")` step on `pre ++ digits ++ suffix`. -/
theorem strip_lower {base : Nat} (hb : base ≤ 16) (pre ds suf : List Char)
    (hpre : ∀ c, (pre.map lowerChar).getLast? = some c → isLowerUL c = false)
    (hds : ∀ c ∈ ds, ∃ d, digitVal c = some d ∧ d < base) (hs : validSuffixes.contains suf = true) :
    lowerStripUL (pre ++ ds ++ suf) = pre.map lowerChar ++ ds.map lowerChar := by
  unfold lowerStripUL
  rw [List.map_append, List.map_append]
  exact rstripP_append (p := fun c => c == 'u' || c == 'l') _ _
    (fun c hc => lower_suffix_all hs c hc)
    (fun c hc => last_not_lowerUL hb _ ds hpre hds c hc)

theorem addIntegerConstant_render (l : IntLit) (n : Nat) (h : l.value? = some n) (hbin : l.base ≠ .bin) :
    addIntegerConstant l.render = .ok (n : Int) ∧ addIntegerConstant ('-' :: l.render) = .ok (-(n : Int)) := by
  unfold IntLit.value? at h
  have hsuf : validSuffixes.contains l.suffix = true := by
    cases hc : validSuffixes.contains l.suffix with
    | true => rfl
    | false => rw [hc] at h; simp at h
  simp only [hsuf, not_true_eq_false, if_false] at h
  have hl : lowerChar '-' = '-' := by decide
  have h0 : lowerChar '0' = '0' := by decide
  cases hbase : l.base with
  | bin => exact absurd hbase hbin
  | dec =>
    simp only [hbase] at h
    cases hdig : l.digits with
    | nil => simp [hdig] at h
    | cons c cs =>
      simp only [hdig] at h
      by_cases hc0 : c = '0'
      · simp [hc0] at h
      simp only [hc0, if_false] at h
      have hmem := digitsVal_mem _ _ _ h
      obtain ⟨d, hd1, hd2⟩ := hmem c (by simp)
      have hrange := digit_lt_10_range hd1 hd2
      have hlc : lowerChar c = c := by
        unfold lowerChar; have : ¬ (65 ≤ c.toNat ∧ c.toNat ≤ 90) := by omega
        simp [this]
      have hcm : ¬ c = '-' := by intro e; subst e; simp at hrange
      have hval : digitsVal 10 (c :: cs.map lowerChar) 0 = some n := by
        have := digitsVal_map_lower 10 (c :: cs) 0
        rw [List.map_cons, hlc] at this; rw [this]; exact h
      have s1 := strip_lower (base := 10) (by omega) [] (c :: cs) l.suffix (by simp) hmem hsuf
      have s2 := strip_lower (base := 10) (by omega) ['-'] (c :: cs) l.suffix (by simp [hl, isLowerUL]) hmem hsuf
      simp only [List.nil_append, List.map_nil, List.map_cons, hlc] at s1
      simp only [List.cons_append, List.nil_append, List.map_cons, List.map_nil, hlc, hl] at s2
      have hoct : octalRewrite (c :: cs.map lowerChar) = c :: cs.map lowerChar := by
        unfold octalRewrite
        split
        · rename_i heq; simp only [List.cons.injEq] at heq; exact absurd heq.1 hc0
        · rfl
      have hpy : pyIntBase0 (c :: cs.map lowerChar) = some n := by
        unfold pyIntBase0
        split
        all_goals first
          | (rename_i heq; simp only [List.cons.injEq] at heq; exact absurd heq.1 hc0)
          | skip
        simp [pyInt, hval]
      simp only [IntLit.render, hbase, hdig]
      constructor
      · unfold addIntegerConstant
        simp only [s1, List.head?_cons, Option.some.injEq, hcm, if_false, hoct, hpy]
      · unfold addIntegerConstant
        simp only [List.cons_append] at s2 ⊢
        simp only [s2, List.head?_cons, if_true, List.drop_succ_cons, List.drop_zero, hoct, hpy]
  | oct =>
    simp only [hbase] at h
    have hmem := digitsVal_mem _ _ _ h
    have hval : digitsVal 8 (l.digits.map lowerChar) 0 = some n := by rw [digitsVal_map_lower]; exact h
    have s1 := strip_lower (base := 8) (by omega) ['0'] l.digits l.suffix (by simp [h0, isLowerUL]) hmem hsuf
    have s2 := strip_lower (base := 8) (by omega) ['-', '0'] l.digits l.suffix (by simp [h0, isLowerUL]) hmem hsuf
    simp only [List.cons_append, List.nil_append, List.map_cons, List.map_nil, hl, h0] at s1 s2
    have hpy : pyIntBase0 (octalRewrite ('0' :: l.digits.map lowerChar)) = some n := by
      cases hd : l.digits.map lowerChar with
      | nil =>
        have hn : n = 0 := by rw [hd] at hval; simpa [digitsVal] using hval.symm
        subst hn
        simp [octalRewrite, pyIntBase0]
      | cons c cs =>
        rw [hd] at hval
        have hcx : ¬ c = 'x' := by
          intro e; subst e
          simp [digitsVal, digitVal] at hval
        simp only [octalRewrite, hcx, if_false]
        simp [pyIntBase0, pyInt, hval]
    simp only [IntLit.render, hbase]
    constructor
    · unfold addIntegerConstant
      simp only [s1, List.head?_cons, Option.some.injEq, show ¬ ('0' = '-') by decide, if_false, hpy]
    · unfold addIntegerConstant
      simp only [s2, List.head?_cons, if_true, List.drop_succ_cons, List.drop_zero, hpy]
  | hex =>
    simp only [hbase] at h
    by_cases hne : l.digits = []
    · simp [hne] at h
    simp only [hne, if_false] at h
    have hmem := digitsVal_mem _ _ _ h
    have hval : digitsVal 16 (l.digits.map lowerChar) 0 = some n := by rw [digitsVal_map_lower]; exact h
    have hne' : l.digits.map lowerChar ≠ [] := by simpa using hne
    have hp : pyInt 16 (l.digits.map lowerChar) = some n := by
      cases hd : l.digits.map lowerChar with
      | nil => exact absurd hd hne'
      | cons a as => rw [hd] at hval; simp [pyInt, hval]
    have hpy : pyIntBase0 (octalRewrite ('0' :: 'x' :: l.digits.map lowerChar)) = some n := by
      simp [octalRewrite, pyIntBase0, hp]
    have hx : ∀ x : Char, (x = 'x' ∨ x = 'X') → lowerChar x = 'x' := by
      intro x hx; rcases hx with rfl | rfl <;> decide
    have key : ∀ x : Char, (x = 'x' ∨ x = 'X') →
        addIntegerConstant ('0' :: x :: (l.digits ++ l.suffix)) = .ok (n : Int) ∧
        addIntegerConstant ('-' :: '0' :: x :: (l.digits ++ l.suffix)) = .ok (-(n : Int)) := by
      intro x hxx
      have s1 := strip_lower (base := 16) (by omega) ['0', x] l.digits l.suffix
        (by simp [hx x hxx, isLowerUL]) hmem hsuf
      have s2 := strip_lower (base := 16) (by omega) ['-', '0', x] l.digits l.suffix
        (by simp [hx x hxx, isLowerUL]) hmem hsuf
      simp only [List.cons_append, List.nil_append, List.map_cons, List.map_nil, hl, h0, hx x hxx] at s1 s2
      constructor
      · unfold addIntegerConstant
        simp only [s1, List.head?_cons, Option.some.injEq, show ¬ ('0' = '-') by decide, if_false, hpy]
      · unfold addIntegerConstant
        simp only [s2, List.head?_cons, if_true, List.drop_succ_cons, List.drop_zero, hpy]
    simp only [IntLit.render, hbase]
    cases l.upper
    · exact key 'x' (Or.inl rfl)
    · exact key 'X' (Or.inr rfl)

theorem matchIntLiteral_render (l : IntLit) (n : Nat) (h : l.value? = some n) (hbin : l.base ≠ .bin) :
    matchIntLiteral l.render = true ∧ matchIntLiteral ('-' :: l.render) = true := by
  have hneg : matchIntLiteral ('-' :: l.render) = matchAfterSign l.render := rfl
  unfold IntLit.value? at h
  have hsuf : validSuffixes.contains l.suffix = true := by
    cases hc : validSuffixes.contains l.suffix with
    | true => rfl
    | false => rw [hc] at h; simp at h
  simp only [hsuf, not_true_eq_false, if_false] at h
  -- the token starts with a digit, not with '-'
  have hpos : ∀ (c : Char) (t : List Char), l.render = c :: t → ¬ c = '-' →
      matchIntLiteral l.render = matchAfterSign l.render := by
    intro c t e hc
    unfold matchIntLiteral
    rw [e]
    split
    · rename_i heq; simp only [List.cons.injEq] at heq; exact absurd heq.1 hc
    · rfl
  cases hbase : l.base with
  | bin => exact absurd hbase hbin
  | dec =>
    simp only [hbase] at h
    cases hdig : l.digits with
    | nil => simp [hdig] at h
    | cons c cs =>
      simp only [hdig] at h
      by_cases hc0 : c = '0'
      · simp [hc0] at h
      simp only [hc0, if_false] at h
      have hmem := digitsVal_mem _ _ _ h
      obtain ⟨d, hd1, hd2⟩ := hmem c (by simp)
      have hrange := digit_lt_10_range hd1 hd2
      have hcm : ¬ c = '-' := by intro e; subst e; simp at hrange
      have hr : l.render = c :: (cs ++ l.suffix) := by simp [IntLit.render, hbase, hdig]
      have hm : matchAfterSign l.render = true := by
        unfold matchAfterSign
        have := matchDigitsLU_digits (base := 10) (by omega) (c :: cs) l.suffix (by simp) hmem hsuf
        rw [hr]; simp only [List.cons_append] at this
        simp [this]
      exact ⟨by rw [hpos c _ hr hcm]; exact hm, by rw [hneg]; exact hm⟩
  | oct =>
    simp only [hbase] at h
    have hmem := digitsVal_mem _ _ _ h
    have hr : l.render = '0' :: (l.digits ++ l.suffix) := by simp [IntLit.render, hbase]
    have hm : matchAfterSign l.render = true := by
      unfold matchAfterSign
      have hmem' : ∀ c ∈ '0' :: l.digits, ∃ d, digitVal c = some d ∧ d < 8 := by
        intro c hc
        rcases List.mem_cons.mp hc with rfl | hc
        · exact ⟨0, by decide, by decide⟩
        · exact hmem c hc
      have := matchDigitsLU_digits (base := 8) (by omega) ('0' :: l.digits) l.suffix (by simp) hmem' hsuf
      rw [hr]; simp only [List.cons_append] at this
      simp [this]
    exact ⟨by rw [hpos '0' _ hr (by decide)]; exact hm, by rw [hneg]; exact hm⟩
  | hex =>
    simp only [hbase] at h
    by_cases hne : l.digits = []
    · simp [hne] at h
    simp only [hne, if_false] at h
    have hmem := digitsVal_mem _ _ _ h
    have hd := matchDigitsLU_digits (base := 16) (by omega) l.digits l.suffix hne hmem hsuf
    have hr : l.render = '0' :: (if l.upper then 'X' else 'x') :: (l.digits ++ l.suffix) := by
      simp [IntLit.render, hbase]
    have hm : matchAfterSign l.render = true := by
      unfold matchAfterSign
      rw [hr]
      cases l.upper <;> simp [hd]
    exact ⟨by rw [hpos '0' _ hr (by decide)]; exact hm, by rw [hneg]; exact hm⟩

end CffiVerif.ConstExpr
