import CffiVerif.Model.Ownership

/-!
Invariants of the `Ownership` transition system and their preservation by every
operation (used by `Props/C21.lean`).
-/
namespace CffiVerif.Ownership

@[simp] theorem objs_set (s : State) (i j : Nat) (o : Obj) :
    (s.set i o).objs j = if j = i then some o else s.objs j := rfl
@[simp] theorem next_set (s : State) (i : Nat) (o : Obj) : (s.set i o).next = s.next := rfl
@[simp] theorem objs_push (s : State) (j : Nat) (o : Obj) :
    (s.push o).objs j = if j = s.next then some o else s.objs j := rfl
@[simp] theorem next_push (s : State) (o : Obj) : (s.push o).next = s.next + 1 := rfl

theorem live_def (s : State) (i : Nat) (o : Obj) :
    s.live i = some o ↔ s.objs i = some o ∧ o.alive = true := by
  unfold State.live; split <;> simp_all <;> grind

theorem live_none (s : State) (i : Nat) :
    s.live i = none ↔ ∀ o, s.objs i = some o → o.alive = false := by
  unfold State.live; split <;> simp_all

/-- A struct pointer may point to an in-line struct or to an allocator wrapper. -/
def isStructTarget (k : Kind) : Prop := k = .owning true ∨ ∃ d o, k = .gcp d o

/-- Ghost bookkeeping of one wrapper: the destructor slot is full only before any
call; once empty the number of calls is determined by how it was emptied. -/
def GcpInv (o : Obj) : Prop :=
  match o.kind with
  | .gcp d _ =>
      (d.isSome = true → o.calls = 0 ∧ o.alive = true ∧ o.released = false ∧ o.noned = false ∧
          o.hadDtor = true) ∧
      (d = none → o.calls = if o.hadDtor && !o.noned then 1 else 0) ∧
      (d = none → o.hadDtor = true → o.noned = false → o.alive = false ∨ o.released = true)
  | _ => o.calls = 0

def Alive (s : State) (x : Nat) : Prop := ∃ ox, s.objs x = some ox ∧ ox.alive = true

structure Inv (s : State) : Prop where
  /-- identities at or beyond `next` are unused -/
  wf : ∀ i, s.next ≤ i → s.objs i = none
  /-- a live object refers only to live objects -/
  nd : ∀ y oy, s.objs y = some oy → oy.alive = true → ∀ x ∈ edges oy, Alive s x
  ghost : ∀ x o, s.objs x = some o → GcpInv o
  /-- live handles have pairwise distinct addresses -/
  hd : ∀ h1 h2 o1 o2 x1 x2 a, s.objs h1 = some o1 → s.objs h2 = some o2 →
        o1.alive = true → o2.alive = true →
        o1.kind = .handle x1 a → o2.kind = .handle x2 a → h1 = h2
  /-- a struct pointer points to a struct object -/
  sk : ∀ p op sid, s.objs p = some op → op.kind = .structptr sid →
        ∃ os, s.objs sid = some os ∧ isStructTarget os.kind
  /-- the source of a `from_buffer` cdata is a buffer object -/
  fb : ∀ f of b r, s.objs f = some of → of.kind = .frombuf b r →
        ∃ ob fl, s.objs b = some ob ∧ ob.kind = .py .buf fl

theorem inv_init : Inv init := by
  constructor <;> simp [init]

theorem lt_next {s : State} (h : Inv s) {i : Nat} {o : Obj} (hi : s.objs i = some o) : i < s.next := by
  by_cases hlt : i < s.next
  · exact hlt
  · have := h.wf i (by omega); simp_all

/-- How one object may change in place. -/
structure Step1 (s : State) (o o' : Obj) : Prop where
  alive : o'.alive = o.alive
  edges : ∀ x ∈ edges o', x ∈ edges o ∨ Alive s x
  ghost : GcpInv o'
  handle : ∀ x a, o'.kind = .handle x a → o.kind = .handle x a
  sptr : ∀ sid, o'.kind = .structptr sid → o.kind = .structptr sid
  target : isStructTarget o.kind → isStructTarget o'.kind
  pybuf : ∀ fl, o.kind = .py .buf fl → ∃ fl', o'.kind = .py .buf fl'
  fbuf : ∀ b r, o'.kind = .frombuf b r → ∃ r', o.kind = .frombuf b r'

theorem inv_set {s : State} (h : Inv s) {i : Nat} {o o' : Obj} (hi : s.objs i = some o)
    (st : Step1 s o o') : Inv (s.set i o') := by
  have alive_mono : ∀ x, Alive s x → Alive (s.set i o') x := by
    intro x ⟨ox, hx, ha⟩
    by_cases hxi : x = i
    · subst hxi
      refine ⟨o', by simp, ?_⟩
      rw [st.alive]; simp_all
    · exact ⟨ox, by simp [hxi, hx], ha⟩
  constructor
  · intro j hj
    have := lt_next h hi
    simp only [next_set] at hj
    simp only [objs_set]
    rw [if_neg (by omega)]
    exact h.wf j hj
  · intro y oy hy ha x hx
    simp only [objs_set] at hy
    by_cases hyi : y = i
    · subst hyi
      simp only [if_true, Option.some.injEq] at hy
      subst hy
      rcases st.edges x hx with h1 | h1
      · exact alive_mono x (h.nd y o hi (by rw [← st.alive]; exact ha) x h1)
      · exact alive_mono x h1
    · rw [if_neg hyi] at hy
      exact alive_mono x (h.nd y oy hy ha x hx)
  · intro x ox hx
    simp only [objs_set] at hx
    by_cases hxi : x = i
    · subst hxi; simp at hx; subst hx; exact st.ghost
    · rw [if_neg hxi] at hx; exact h.ghost x ox hx
  · intro h1 h2 o1 o2 x1 x2 a e1 e2 a1 a2 k1 k2
    simp only [objs_set] at e1 e2
    by_cases c1 : h1 = i <;> by_cases c2 : h2 = i
    · rw [c1, c2]
    · subst c1
      simp at e1; subst e1
      rw [if_neg c2] at e2
      exact h.hd h1 h2 o o2 x1 x2 a hi e2 (by rw [← st.alive]; exact a1) a2 (st.handle _ _ k1) k2
    · subst c2
      simp at e2; subst e2
      rw [if_neg c1] at e1
      exact h.hd h1 h2 o1 o x1 x2 a e1 hi a1 (by rw [← st.alive]; exact a2) k1 (st.handle _ _ k2)
    · rw [if_neg c1] at e1; rw [if_neg c2] at e2
      exact h.hd h1 h2 o1 o2 x1 x2 a e1 e2 a1 a2 k1 k2
  · intro p op sid hp hk
    simp only [objs_set] at hp
    have key : ∃ os, s.objs sid = some os ∧ isStructTarget os.kind := by
      by_cases hpi : p = i
      · subst hpi; simp at hp; subst hp
        exact h.sk p o sid hi (st.sptr sid hk)
      · rw [if_neg hpi] at hp; exact h.sk p op sid hp hk
    obtain ⟨os, hs, ht⟩ := key
    by_cases hsi : sid = i
    · subst hsi
      refine ⟨o', by simp, ?_⟩
      rw [hi] at hs; simp at hs; subst hs
      exact st.target ht
    · exact ⟨os, by simp [hsi, hs], ht⟩
  · intro f of b r hf hk
    simp only [objs_set] at hf
    have key : ∃ ob fl, s.objs b = some ob ∧ ob.kind = .py .buf fl := by
      by_cases hfi : f = i
      · subst hfi; simp at hf; subst hf
        obtain ⟨r', hr⟩ := st.fbuf b r hk
        exact h.fb f o b r' hi hr
      · rw [if_neg hfi] at hf; exact h.fb f of b r hf hk
    obtain ⟨ob, fl, hb, hbk⟩ := key
    by_cases hbi : b = i
    · subst hbi
      rw [hi] at hb; simp at hb; subst hb
      obtain ⟨fl', hfl⟩ := st.pybuf fl hbk
      exact ⟨o', fl', by simp, hfl⟩
    · exact ⟨ob, fl, by simp [hbi, hb], hbk⟩

/-- What a newly created object must satisfy. -/
structure Fresh (s : State) (o : Obj) : Prop where
  edges : ∀ x ∈ edges o, Alive s x
  ghost : GcpInv o
  handle : ∀ x a, o.kind = .handle x a → ∀ h oh x', s.objs h = some oh → oh.alive = true →
      oh.kind ≠ .handle x' a
  sptr : ∀ sid, o.kind = .structptr sid → ∃ os, s.objs sid = some os ∧ isStructTarget os.kind
  fbuf : ∀ b r, o.kind = .frombuf b r → ∃ ob fl, s.objs b = some ob ∧ ob.kind = .py .buf fl

theorem inv_push {s : State} (h : Inv s) {o : Obj} (fr : Fresh s o) : Inv (s.push o) := by
  have old : ∀ x ox, s.objs x = some ox → (s.push o).objs x = some ox := by
    intro x ox hx
    have := lt_next h hx
    simp only [objs_push]; rw [if_neg (by omega)]; exact hx
  have alive_mono : ∀ x, Alive s x → Alive (s.push o) x := by
    intro x ⟨ox, hx, ha⟩
    exact ⟨ox, old x ox hx, ha⟩
  constructor
  · intro j hj
    simp only [next_push] at hj
    simp only [objs_push]
    rw [if_neg (by omega)]
    exact h.wf j (by omega)
  · intro y oy hy ha x hx
    simp only [objs_push] at hy
    by_cases hyn : y = s.next
    · subst hyn; simp at hy; subst hy
      exact alive_mono x (fr.edges x hx)
    · rw [if_neg hyn] at hy
      exact alive_mono x (h.nd y oy hy ha x hx)
  · intro x ox hx
    simp only [objs_push] at hx
    by_cases hxn : x = s.next
    · subst hxn; simp at hx; subst hx; exact fr.ghost
    · rw [if_neg hxn] at hx; exact h.ghost x ox hx
  · intro h1 h2 o1 o2 x1 x2 a e1 e2 a1 a2 k1 k2
    simp only [objs_push] at e1 e2
    by_cases c1 : h1 = s.next <;> by_cases c2 : h2 = s.next
    · rw [c1, c2]
    · subst c1; simp at e1; subst e1
      rw [if_neg c2] at e2
      exact absurd k2 (fr.handle x1 a k1 h2 o2 x2 e2 a2)
    · subst c2; simp at e2; subst e2
      rw [if_neg c1] at e1
      exact absurd k1 (fr.handle x2 a k2 h1 o1 x1 e1 a1)
    · rw [if_neg c1] at e1; rw [if_neg c2] at e2
      exact h.hd h1 h2 o1 o2 x1 x2 a e1 e2 a1 a2 k1 k2
  · intro p op sid hp hk
    simp only [objs_push] at hp
    have key : ∃ os, s.objs sid = some os ∧ isStructTarget os.kind := by
      by_cases hpn : p = s.next
      · subst hpn; simp at hp; subst hp
        exact fr.sptr sid hk
      · rw [if_neg hpn] at hp; exact h.sk p op sid hp hk
    obtain ⟨os, hs, ht⟩ := key
    exact ⟨os, old sid os hs, ht⟩
  · intro f of b r hf hk
    simp only [objs_push] at hf
    have key : ∃ ob fl, s.objs b = some ob ∧ ob.kind = .py .buf fl := by
      by_cases hfn : f = s.next
      · subst hfn; simp at hf; subst hf
        exact fr.fbuf b r hk
      · rw [if_neg hfn] at hf; exact h.fb f of b r hf hk
    obtain ⟨ob, fl, hb, hbk⟩ := key
    exact ⟨ob, fl, old b ob hb, hbk⟩

theorem alive_of_live {s : State} {x : Nat} {o : Obj} (h : s.live x = some o) : Alive s x :=
  ⟨o, ((live_def s x o).mp h).1, ((live_def s x o).mp h).2⟩

theorem alive_push {s : State} (h : Inv s) (o : Obj) {x : Nat} (hx : Alive s x) : Alive (s.push o) x := by
  obtain ⟨ox, hx, ha⟩ := hx
  have := lt_next h hx
  exact ⟨ox, by simp only [objs_push]; rw [if_neg (by omega)]; exact hx, ha⟩

theorem alive_push_self (s : State) (o : Obj) (ha : o.alive = true) : Alive (s.push o) s.next :=
  ⟨o, by simp, ha⟩

/-! ### in-place changes -/

theorem step1_ext {s : State} {o : Obj} (g : GcpInv o) (n : Nat) : Step1 s o { o with ext := n } := by
  refine ⟨rfl, ?_, ?_, ?_, ?_, ?_, ?_, ?_⟩
  · intro x hx; left; simpa [edges] using hx
  · simpa [GcpInv] using g
  · intro x a h; exact h
  · intro sid h; exact h
  · intro h; exact h
  · intro fl h; exact ⟨fl, h⟩
  · intro b r h; exact ⟨r, h⟩

theorem step1_gcNone {s : State} {o : Obj} {d orig : Option Nat} (g : GcpInv o) (hk : o.kind = .gcp d orig) :
    Step1 s o { o with kind := .gcp none orig, noned := o.noned || d.isSome } := by
  refine ⟨rfl, ?_, ?_, ?_, ?_, ?_, ?_, ?_⟩
  · intro x hx; left
    simp only [edges, hk] at hx ⊢
    simp at hx ⊢; right; exact hx
  · simp only [GcpInv, hk] at g ⊢
    cases d with
    | none => simpa using g
    | some dd => simp at g ⊢; simp [g]
  · intro x a h; simp at h
  · intro sid h; simp at h
  · intro _; right; exact ⟨_, _, rfl⟩
  · intro fl h; simp [hk] at h
  · intro b r h; simp at h

theorem step1_finalize {s : State} {o : Obj} {d orig : Option Nat} (g : GcpInv o) (hk : o.kind = .gcp d orig) :
    Step1 s o { finalizeGcp o with released := true } := by
  have hf : finalizeGcp o = { o with kind := .gcp none none, calls := o.calls + (if d.isSome then 1 else 0) } := by
    simp [finalizeGcp, hk]
  rw [hf]
  refine ⟨rfl, ?_, ?_, ?_, ?_, ?_, ?_, ?_⟩
  · intro x hx; simp [edges] at hx
  · simp only [GcpInv, hk] at g ⊢
    cases d with
    | none => simp at g ⊢; exact g.1
    | some dd => simp at g ⊢; simp [g]
  · intro x a h; simp at h
  · intro sid h; simp at h
  · intro _; right; exact ⟨_, _, rfl⟩
  · intro fl h; simp [hk] at h
  · intro b r h; simp at h

theorem step1_frombuf {s : State} {o : Obj} {src : Nat} {rel : Bool} (g : GcpInv o)
    (hk : o.kind = .frombuf src rel) :
    Step1 s o { o with kind := .frombuf src true, released := true } := by
  refine ⟨rfl, ?_, ?_, ?_, ?_, ?_, ?_, ?_⟩
  · intro x hx; simp [edges] at hx
  · simp only [GcpInv, hk] at g ⊢; exact g
  · intro x a h; simp at h
  · intro sid h; simp at h
  · intro h; rcases h with h | ⟨_, _, h⟩ <;> simp [hk] at h
  · intro fl h; simp [hk] at h
  · intro b r h; simp at h; exact ⟨rel, by rw [hk, h.1]⟩

theorem step1_fields {s : State} {o : Obj} {t : PyTag} {fl fl' : List Nat} (g : GcpInv o)
    (hk : o.kind = .py t fl) (hsub : ∀ x ∈ fl', x ∈ fl ∨ Alive s x) :
    Step1 s o { o with kind := .py t fl' } := by
  refine ⟨rfl, ?_, ?_, ?_, ?_, ?_, ?_, ?_⟩
  · intro x hx; simp only [edges, hk] at hx ⊢; exact hsub x hx
  · simp only [GcpInv, hk] at g ⊢; exact g
  · intro x a h; simp at h
  · intro sid h; simp at h
  · intro h; rcases h with h | ⟨_, _, h⟩ <;> simp [hk] at h
  · intro fl0 h; rw [hk] at h; simp at h; exact ⟨fl', by rw [h.1]⟩
  · intro b r h; simp at h

/-! ### new objects -/

theorem fresh_leaf {s : State} (k : Kind) (e : Nat) (hk : (∃ t, k = .py t []) ∨ (∃ b, k = .owning b)) :
    Fresh s (mkObj k e) := by
  rcases hk with ⟨t, rfl⟩ | ⟨b, rfl⟩ <;>
  · refine ⟨?_, ?_, ?_, ?_, ?_⟩
    · intro x hx; simp [edges, mkObj] at hx
    · simp [GcpInv, mkObj]
    · intro x a h; simp [mkObj] at h
    · intro sid h; simp [mkObj] at h
    · intro b r h; simp [mkObj] at h

theorem fresh_structptr {s : State} (sid e : Nat) (ha : Alive s sid)
    (ht : ∃ os, s.objs sid = some os ∧ isStructTarget os.kind) :
    Fresh s (mkObj (.structptr sid) e) := by
  refine ⟨?_, ?_, ?_, ?_, ?_⟩
  · intro x hx; simp [edges, mkObj] at hx; subst hx; exact ha
  · simp [GcpInv, mkObj]
  · intro x a h; simp [mkObj] at h
  · intro sid' h; simp [mkObj] at h; subst h; exact ht
  · intro b r h; simp [mkObj] at h

theorem fresh_gcp {s : State} (d : Option Nat) (orig e : Nat) (isAlloc : Bool)
    (hd : ∀ dd, d = some dd → Alive s dd) (ho : Alive s orig) :
    Fresh s (mkObj (.gcp d (some orig)) e d.isSome isAlloc) := by
  refine ⟨?_, ?_, ?_, ?_, ?_⟩
  · intro x hx
    simp [edges, mkObj] at hx
    rcases hx with hx | hx
    · exact hd x hx
    · subst hx; exact ho
  · cases d <;> simp [GcpInv, mkObj]
  · intro x a h; simp [mkObj] at h
  · intro sid h; simp [mkObj] at h
  · intro b r h; simp [mkObj] at h

theorem fresh_frombuf {s : State} (b e : Nat) (hb : Alive s b)
    (hbuf : ∃ ob fl, s.objs b = some ob ∧ ob.kind = .py .buf fl) : Fresh s (mkObj (.frombuf b false) e) := by
  refine ⟨?_, ?_, ?_, ?_, ?_⟩
  · intro x hx; simp [edges, mkObj] at hx; subst hx; exact hb
  · simp [GcpInv, mkObj]
  · intro x a h; simp [mkObj] at h
  · intro sid h; simp [mkObj] at h
  · intro b' r h; simp [mkObj] at h; rw [← h.1]; exact hbuf

/-! ### handles -/

theorem findHandle_none {s : State} (h : Inv s) {addr : Nat} (hf : findHandle s addr = none) :
    ∀ hh oh x', s.objs hh = some oh → oh.alive = true → oh.kind ≠ .handle x' addr := by
  intro hh oh x' ho ha hk
  unfold findHandle at hf
  rw [List.findSome?_eq_none_iff] at hf
  have := hf hh (List.mem_range.mpr (lt_next h ho))
  have hl : s.live hh = some oh := (live_def s hh oh).mpr ⟨ho, ha⟩
  simp [hl, hk] at this

theorem findHandle_some {s : State} {addr hh obj : Nat} (hf : findHandle s addr = some (hh, obj)) :
    ∃ oh, s.live hh = some oh ∧ oh.kind = .handle obj addr := by
  unfold findHandle at hf
  obtain ⟨y, _, hy⟩ := List.exists_of_findSome?_eq_some hf
  split at hy
  · rename_i o ho
    split at hy
    · rename_i ob a hk
      split at hy
      · rename_i hadd
        simp at hy
        obtain ⟨rfl, rfl⟩ := hy
        subst hadd
        exact ⟨o, ho, hk⟩
      · simp at hy
    · simp at hy
  · simp at hy

theorem fresh_handle {s : State} (h : Inv s) (x addr e : Nat) (hx : Alive s x)
    (hf : findHandle s addr = none) : Fresh s (mkObj (.handle x addr) e) := by
  refine ⟨?_, ?_, ?_, ?_, ?_⟩
  · intro y hy; simp [edges, mkObj] at hy; subst hy; exact hx
  · simp [GcpInv, mkObj]
  · intro x' a hk hh oh x'' ho ha
    simp [mkObj] at hk
    obtain ⟨_, rfl⟩ := hk
    exact findHandle_none h hf hh oh x'' ho ha
  · intro sid h; simp [mkObj] at h
  · intro b r h; simp [mkObj] at h

/-! ### every operation preserves the invariant -/

theorem objs_of_live {s : State} {x : Nat} {o : Obj} (h : s.live x = some o) : s.objs x = some o :=
  ((live_def s x o).mp h).1

theorem inv_release {s : State} (h : Inv s) (x : Nat) : Inv (release s x).1 := by
  unfold release
  split
  · exact h
  · rename_i o ho
    have hox := objs_of_live ho
    split
    · exact h
    · exact h
    · exact h
    · exact h
    · exact h
    · rename_i sid hk
      split
      · rename_i os hos
        split
        · rename_i d orig hks
          exact inv_set h (objs_of_live hos) (step1_finalize (h.ghost _ _ (objs_of_live hos)) hks)
        · exact h
      · exact h
    · rename_i d orig hk
      exact inv_set h hox (step1_finalize (h.ghost _ _ hox) hk)
    · rename_i src rel hk
      split
      · exact h
      · exact inv_set h hox (step1_frombuf (h.ghost _ _ hox) hk)

theorem freeOk_alive {s : State} {free : Option Nat} (hf : freeOk s free = true) :
    ∀ dd, free = some dd → Alive s dd := by
  intro dd hdd
  subst hdd
  simp only [freeOk] at hf
  cases hl : s.live dd with
  | none => simp [hl] at hf
  | some o => exact alive_of_live hl

/-! ### destructor activations -/

theorem inv_frames {s : State} (h : Inv s) (fs : List Nat) : Inv { s with frames := fs } :=
  ⟨h.wf, h.nd, h.ghost, h.hd, h.sk, h.fb⟩

theorem fresh_frame {s : State} (pins : List Nat) (e : Nat) (hp : ∀ p ∈ pins, Alive s p) :
    Fresh s (mkObj (.frame pins) e) := by
  refine ⟨?_, ?_, ?_, ?_, ?_⟩
  · intro x hx; simp [edges, mkObj] at hx; exact hp x hx
  · simp [GcpInv, mkObj]
  · intro x a h; simp [mkObj] at h
  · intro sid h; simp [mkObj] at h
  · intro b r h; simp [mkObj] at h

theorem inv_pushFrame {s : State} (h : Inv s) (pins : List Nat) (hp : ∀ p ∈ pins, Alive s p) :
    Inv (s.pushFrame pins) :=
  inv_frames (inv_push h (fresh_frame pins 1 hp)) _

theorem alive_pushFrame {s : State} (h : Inv s) (pins : List Nat) {x : Nat} (hx : Alive s x) :
    Alive (s.pushFrame pins) x := by
  have := alive_push h (mkObj (.frame pins) 1) hx
  exact this

theorem objs_pushFrame {s : State} (h : Inv s) (pins : List Nat) {y : Nat} {o : Obj}
    (hy : s.objs y = some o) : (s.pushFrame pins).objs y = some o := by
  have := lt_next h hy
  simp only [State.pushFrame, objs_push]; rw [if_neg (by omega)]; exact hy

theorem inv_pushFrames {s : State} (h : Inv s) (fs : List (List Nat))
    (hp : ∀ pins ∈ fs, ∀ p ∈ pins, Alive s p) : Inv (s.pushFrames fs) := by
  induction fs generalizing s with
  | nil => exact h
  | cons pins rest ih =>
    simp only [State.pushFrames]
    refine ih (inv_pushFrame h pins (hp pins (by simp))) ?_
    intro ps hps p hpp
    exact alive_pushFrame h pins (hp ps (by simp [hps]) p hpp)

theorem objs_pushFrames {s : State} (h : Inv s) (fs : List (List Nat))
    (hp : ∀ pins ∈ fs, ∀ p ∈ pins, Alive s p) {y : Nat} {o : Obj} (hy : s.objs y = some o) :
    (s.pushFrames fs).objs y = some o := by
  induction fs generalizing s with
  | nil => exact hy
  | cons pins rest ih =>
    simp only [State.pushFrames]
    refine ih (inv_pushFrame h pins (hp pins (by simp))) ?_ (objs_pushFrame h pins hy)
    intro ps hps p hpp
    exact alive_pushFrame h pins (hp ps (by simp [hps]) p hpp)

theorem alive_set {s : State} {i : Nat} {o o' : Obj} (hi : s.objs i = some o) (ha : o'.alive = o.alive)
    {p : Nat} (hp : Alive s p) : Alive (s.set i o') p := by
  obtain ⟨op, hop, hpa⟩ := hp
  by_cases hpi : p = i
  · subst hpi; rw [hi] at hop; simp at hop; subst hop
    exact ⟨o', by simp, by rw [ha]; exact hpa⟩
  · exact ⟨op, by simp [hpi, hop], hpa⟩

theorem release_alive {s : State} (x : Nat) {p : Nat} (hp : Alive s p) : Alive (release s x).1 p := by
  unfold release
  split
  · exact hp
  · rename_i o ho
    have hox := objs_of_live ho
    split
    · exact hp
    · exact hp
    · exact hp
    · exact hp
    · exact hp
    · split
      · rename_i os hos
        split
        · rename_i d orig hks
          refine alive_set (objs_of_live hos) ?_ hp
          simp [finalizeGcp, hks]
        · exact hp
      · exact hp
    · rename_i d orig hk
      refine alive_set hox ?_ hp
      simp [finalizeGcp, hk]
    · rename_i src rel hk
      split
      · exact hp
      · exact alive_set (o' := { o with kind := .frombuf src true, released := true }) hox rfl hp

/-- what a release that calls a destructor tells about the state before -/
theorem release_fired {s : State} {x w : Nat} {l : List Nat} (h : (release s x).2 = .ok (w :: l)) :
    Alive s x ∧ ∃ ow, s.live w = some ow := by
  unfold release at h
  split at h
  · simp at h
  · rename_i o ho
    have hax := alive_of_live ho
    split at h
    · simp at h
    · simp at h
    · simp at h
    · simp at h
    · simp at h
    · split at h
      · rename_i os hos
        split at h
        · split at h
          · simp at h; exact ⟨hax, os, by rw [← h.1]; exact hos⟩
          · simp at h
        · simp at h
      · simp at h
    · split at h
      · simp at h; exact ⟨hax, o, by rw [← h.1]; exact ho⟩
      · simp at h
    · split at h <;> simp at h

theorem callPins_alive {s : State} (h : Inv s) {w : Nat} {ow : Obj} (hw : s.live w = some ow)
    {pins : List Nat} (hc : callPins s w = some pins) : ∀ p ∈ pins, Alive s p := by
  have e := (live_def s w ow).mp hw
  simp only [callPins, e.1] at hc
  split at hc
  · rename_i d orig hk
    simp at hc; subst hc
    intro p hp
    exact h.nd w ow e.1 e.2 p (by simpa [edges, hk] using hp)
  · simp at hc

theorem inv_opRelease {s : State} (h : Inv s) (x : Nat) : Inv (opRelease s x).1 := by
  unfold opRelease
  have hr := inv_release h x
  split
  · rename_i w l hok
    split
    · rename_i pins hc
      obtain ⟨hax, ow, how⟩ := release_fired hok
      refine inv_pushFrame hr _ ?_
      intro p hp
      simp only [List.mem_append] at hp
      rcases hp with hp | hp
      · split at hp
        · simp at hp; rw [hp]; exact release_alive x hax
        · simp at hp
          rcases hp with hp | hp
          · rw [hp]; exact release_alive x hax
          · rw [hp]; exact release_alive x (alive_of_live how)
      · exact release_alive x (callPins_alive h how hc p hp)
    · exact hr
  · exact hr

theorem step1_ret {s : State} {o : Obj} {pins : List Nat} (g : GcpInv o) (hk : o.kind = .frame pins) :
    Step1 s o { o with kind := .frame [], ext := 0 } := by
  refine ⟨rfl, ?_, ?_, ?_, ?_, ?_, ?_, ?_⟩
  · intro x hx; simp [edges] at hx
  · simp only [GcpInv, hk] at g ⊢; exact g
  · intro x a h; simp at h
  · intro sid h; simp at h
  · intro h; rcases h with h | ⟨_, _, h⟩ <;> simp [hk] at h
  · intro fl h; simp [hk] at h
  · intro b r h; simp at h

theorem inv_opRet {s : State} (h : Inv s) : Inv (opRet s).1 := by
  unfold opRet
  split
  · split
    · rename_i o ho
      split
      · rename_i pins hk
        exact inv_frames (inv_set h (objs_of_live ho) (step1_ret (h.ghost _ _ (objs_of_live ho)) hk)) _
      · exact h
    · exact h
  · exact h

theorem gcpInv_dead_finalize {o : Obj} (g : GcpInv o) : GcpInv { finalizeObj o with alive := false } := by
  obtain ⟨k, al, e, c, hd, ia, r, n⟩ := o
  cases k with
  | gcp d orig =>
    simp only [GcpInv, finalizeObj, finalizeGcp] at g ⊢
    cases d with
    | none => simp at g ⊢; exact g.1
    | some dd => simp at g ⊢; simp [g]
  | _ => simpa [GcpInv, finalizeObj] using g

theorem kind_finalizeObj (o : Obj) :
    (∀ sid, (finalizeObj o).kind = .structptr sid → o.kind = .structptr sid) ∧
    (isStructTarget o.kind → isStructTarget (finalizeObj o).kind) ∧
    (∀ fl, o.kind = .py .buf fl → (finalizeObj o).kind = .py .buf fl) ∧
    (∀ b r, (finalizeObj o).kind = .frombuf b r → ∃ r', o.kind = .frombuf b r') := by
  obtain ⟨k, al, e, c, hd, ia, r, n⟩ := o
  cases k with
  | gcp d orig =>
    simp only [finalizeObj, finalizeGcp]
    exact ⟨by simp, fun _ => Or.inr ⟨_, _, rfl⟩, by simp, by simp⟩
  | frombuf src rel => simp [finalizeObj, isStructTarget]
  | _ => simp [finalizeObj]

theorem collect_kind (s : State) (S : List Nat) (y : Nat) (oy : Obj)
    (hy : (collectState s S).objs y = some oy) :
    ∃ o, s.objs y = some o ∧ (∀ sid, oy.kind = .structptr sid → o.kind = .structptr sid) ∧
      (isStructTarget o.kind → isStructTarget oy.kind) ∧
      (∀ fl, o.kind = .py .buf fl → oy.kind = .py .buf fl) ∧
      (∀ b r, oy.kind = .frombuf b r → ∃ r', o.kind = .frombuf b r') := by
  simp only [collectState] at hy
  cases hs : s.objs y with
  | none => simp [hs] at hy
  | some o =>
    simp only [hs] at hy
    refine ⟨o, rfl, ?_⟩
    by_cases hm : y ∈ S
    · simp [hm] at hy; subst hy
      exact kind_finalizeObj o
    · simp [hm] at hy; subst hy
      exact ⟨fun _ h => h, fun h => h, fun _ h => h, fun _ r h => ⟨r, h⟩⟩

theorem inv_collect {s : State} (h : Inv s) (S : List Nat) (hok : collectOk s S = true) :
    Inv (collectState s S) := by
  unfold collectOk at hok
  simp only [Bool.and_eq_true, List.all_eq_true, List.mem_range] at hok
  obtain ⟨_, c2⟩ := hok
  have unchanged : ∀ y oy, (collectState s S).objs y = some oy → oy.alive = true →
      y ∉ S ∧ s.objs y = some oy := by
    intro y oy hy ha
    simp only [collectState] at hy
    cases hs : s.objs y with
    | none => simp [hs] at hy
    | some o =>
      simp only [hs] at hy
      by_cases hm : y ∈ S
      · simp [hm] at hy; subst hy; simp at ha
      · simp [hm] at hy; subst hy; exact ⟨hm, rfl⟩
  have keep : ∀ y oy, s.objs y = some oy → y ∉ S → (collectState s S).objs y = some oy := by
    intro y oy hy hm
    simp [collectState, hy, hm]
  constructor
  · intro i hi
    have := h.wf i hi
    simp [collectState, this]
  · intro y oy hy ha x hx
    obtain ⟨hyS, hy0⟩ := unchanged y oy hy ha
    obtain ⟨ox, hox, hax⟩ := h.nd y oy hy0 ha x hx
    have hyl : s.live y = some oy := (live_def s y oy).mpr ⟨hy0, ha⟩
    have := c2 y (lt_next h hy0)
    simp only [hyl] at this
    simp only [Bool.or_eq_true, decide_eq_true_eq, List.all_eq_true, Bool.not_eq_eq_eq_not,
      Bool.not_true, decide_eq_false_iff_not] at this
    rcases this with hin | hout
    · exact absurd hin hyS
    · exact ⟨ox, keep x ox hox (hout x hx), hax⟩
  · intro x ox hx
    simp only [collectState] at hx
    cases hs : s.objs x with
    | none => simp [hs] at hx
    | some o =>
      have g := h.ghost x o hs
      simp only [hs] at hx
      by_cases hm : x ∈ S
      · simp [hm] at hx; subst hx
        exact gcpInv_dead_finalize g
      · simp [hm] at hx; subst hx; exact g
  · intro h1 h2 o1 o2 x1 x2 a e1 e2 a1 a2 k1 k2
    exact h.hd h1 h2 o1 o2 x1 x2 a (unchanged h1 o1 e1 a1).2 (unchanged h2 o2 e2 a2).2 a1 a2 k1 k2
  · intro p op sid hp hk
    obtain ⟨o, ho, hsp, _⟩ := collect_kind s S p op hp
    obtain ⟨os, hos, hts⟩ := h.sk p o sid ho (hsp sid hk)
    cases hc : (collectState s S).objs sid with
    | none => simp [collectState, hos] at hc; split at hc <;> simp at hc
    | some os' =>
      obtain ⟨o2, ho2, _, ht2, _⟩ := collect_kind s S sid os' hc
      rw [hos] at ho2; simp at ho2; subst ho2
      exact ⟨os', rfl, ht2 hts⟩
  · intro f of b r hf hk
    obtain ⟨o, ho, _, _, _, hfb⟩ := collect_kind s S f of hf
    obtain ⟨r', hr'⟩ := hfb b r hk
    obtain ⟨ob, fl, hob, hbk⟩ := h.fb f o b r' ho hr'
    cases hc : (collectState s S).objs b with
    | none => simp [collectState, hob] at hc; split at hc <;> simp at hc
    | some ob' =>
      obtain ⟨o2, ho2, _, _, hpb, _⟩ := collect_kind s S b ob' hc
      rw [hob] at ho2; simp at ho2; subst ho2
      exact ⟨ob', fl, rfl, hpb fl hbk⟩

theorem inv_opCollect {s : State} (h : Inv s) (S : List Nat) : Inv (opCollect s S).1 := by
  unfold opCollect
  split
  · rename_i hok
    refine inv_pushFrames (inv_collect h S hok) _ ?_
    intro pins hpins p hp
    simp only [List.mem_map] at hpins
    obtain ⟨w, _, rfl⟩ := hpins
    simp only [List.mem_filter, isAlive] at hp
    cases hl : (collectState s S).live p with
    | none => simp [hl] at hp
    | some op => exact alive_of_live hl
  · exact h

theorem inv_opFinalize {s : State} (h : Inv s) (x : Nat) (S : List Nat) : Inv (opFinalize s x S).1 := by
  unfold opFinalize
  split
  · split
    · rename_i o ho
      have hox := objs_of_live ho
      split
      · rename_i d orig hk
        have h1 := inv_set h hox (step1_finalize (h.ghost _ _ hox) hk)
        have keep : ∀ p, Alive s p → Alive (s.set x { finalizeGcp o with released := true }) p := by
          intro p hp
          exact alive_set hox (by simp [finalizeGcp, hk]) hp
        split
        · rename_i dd
          refine inv_pushFrame h1 _ ?_
          intro p hp
          simp only [List.mem_cons] at hp
          have e := (live_def s x o).mp ho
          rcases hp with rfl | rfl | hp
          · exact keep _ (alive_of_live ho)
          · exact keep _ (h.nd x o e.1 e.2 _ (by simp [edges, hk]))
          · exact keep _ (h.nd x o e.1 e.2 _ (by simp [edges, hk]; right; simpa using hp))
        · exact h1
      · exact h
    · exact h
  · exact h

theorem inv_step {s : State} (h : Inv s) (op : Op) : Inv (step s op).1 := by
  cases op with
  | newPy tag => exact inv_push h (fresh_leaf _ _ (Or.inl ⟨tag, rfl⟩))
  | newPlain => exact inv_push h (fresh_leaf _ _ (Or.inr ⟨false, rfl⟩))
  | newStruct =>
    have h1 : Inv (s.push (mkObj (.owning true) 0)) := inv_push h (fresh_leaf _ _ (Or.inr ⟨true, rfl⟩))
    exact inv_push h1 (fresh_structptr _ _ (alive_push_self s _ rfl)
      ⟨mkObj (.owning true) 0, by simp, Or.inl rfl⟩)
  | allocPlain free =>
    simp only [step, opAllocPlain]
    split
    · rename_i hf
      have h1 : Inv (s.push (mkObj (.owning false) 0)) := inv_push h (fresh_leaf _ _ (Or.inr ⟨false, rfl⟩))
      exact inv_push h1 (fresh_gcp free s.next 1 true
        (fun dd hdd => alive_push h _ (freeOk_alive hf dd hdd)) (alive_push_self s _ rfl))
    · exact h
  | allocStruct free =>
    simp only [step, opAllocStruct]
    split
    · rename_i hf
      have h1 : Inv (s.push (mkObj (.owning false) 0)) := inv_push h (fresh_leaf _ _ (Or.inr ⟨false, rfl⟩))
      have h2 := inv_push h1 (fresh_gcp free s.next 0 true
        (fun dd hdd => alive_push h _ (freeOk_alive hf dd hdd)) (alive_push_self s _ rfl))
      refine inv_push h2 (fresh_structptr _ _ ?_ ?_)
      · have := alive_push_self (s.push (mkObj (.owning false) 0))
          (mkObj (.gcp free (some s.next)) 0 free.isSome true) rfl
        simpa using this
      · exact ⟨mkObj (.gcp free (some s.next)) 0 free.isSome true, by simp, Or.inr ⟨_, _, rfl⟩⟩
    · exact h
  | gc p d =>
    simp only [step, opGc]
    split
    · rename_i op od hp hd
      split
      · exact inv_push h (fresh_gcp (some d) p 1 false
          (fun dd hdd => by simp at hdd; subst hdd; exact alive_of_live hd) (alive_of_live hp))
      · exact h
    · exact h
  | gcNone g =>
    simp only [step, opGcNone]
    split
    · rename_i o ho
      split
      · rename_i d orig hk
        exact inv_set h (objs_of_live ho) (step1_gcNone (h.ghost _ _ (objs_of_live ho)) hk)
      · exact h
    · exact h
  | release x => exact inv_opRelease h x
  | withExit x => exact inv_opRelease h x
  | dropRef x =>
    simp only [step, opDropRef]
    split
    · rename_i o ho
      split
      · exact h
      · exact inv_set h (objs_of_live ho) (step1_ext (h.ghost _ _ (objs_of_live ho)) _)
    · exact h
  | store c x =>
    simp only [step, opStore]
    split
    · rename_i oc ox hc hx
      split
      · rename_i t fl hk
        exact inv_set h (objs_of_live hc) (step1_fields (h.ghost _ _ (objs_of_live hc)) hk
          (fun y hy => by
            simp at hy
            rcases hy with rfl | hy
            · right; exact alive_of_live hx
            · left; exact hy))
      · exact h
    · exact h
  | clear c =>
    simp only [step, opClear]
    split
    · rename_i oc hc
      split
      · rename_i t fl hk
        exact inv_set h (objs_of_live hc) (step1_fields (h.ghost _ _ (objs_of_live hc)) hk
          (fun y hy => by simp at hy))
      · exact h
    · exact h
  | alias p =>
    simp only [step, opAlias]
    split
    · split
      · split
        · rename_i os hos
          exact inv_set h (objs_of_live hos) (step1_ext (h.ghost _ _ (objs_of_live hos)) _)
        · exact h
      · exact h
    · exact h
  | newHandle x addr =>
    simp only [step, opNewHandle]
    split
    · rename_i ox hx
      split
      · exact h
      · rename_i hf
        simp at hf
        exact inv_push h (fresh_handle h x addr 1 (alive_of_live hx) hf)
    · exact h
  | fromHandle addr =>
    simp only [step, opFromHandle]
    split
    · split
      · rename_i oo hoo
        exact inv_set h (objs_of_live hoo) (step1_ext (h.ghost _ _ (objs_of_live hoo)) _)
      · exact h
    · exact h
  | fromBuffer b =>
    simp only [step, opFromBuffer]
    split
    · rename_i ob hb
      split
      · rename_i fl hk
        exact inv_push h (fresh_frombuf b 1 (alive_of_live hb) ⟨ob, fl, objs_of_live hb, hk⟩)
      · exact h
    · exact h
  | resize b =>
    simp only [step, opResize]
    split
    · split
      · split <;> exact h
      · exact h
    · exact h
  | collect S => exact inv_opCollect h S
  | finalize x S => exact inv_opFinalize h x S
  | ret => exact inv_opRet h

theorem inv_run {s : State} (h : Inv s) (ops : List Op) : Inv (run s ops) := by
  induction ops generalizing s with
  | nil => exact h
  | cons op rest ih => exact ih (inv_step h op)

/-! ### how a single object can evolve -/

structure Evolve (o o' : Obj) : Prop where
  handle : ∀ x a, o.kind = .handle x a → o'.kind = .handle x a
  gcpNone : ∀ orig, o.kind = .gcp none orig → (∃ orig', o'.kind = .gcp none orig') ∧ o'.calls = o.calls
  flags : o'.hadDtor = o.hadDtor ∧ o'.isAlloc = o.isAlloc
  calls : o.calls ≤ o'.calls
  gcp : ∀ d orig, o.kind = .gcp d orig → ∃ d' orig', o'.kind = .gcp d' orig'

theorem Evolve.refl (o : Obj) : Evolve o o :=
  ⟨fun _ _ h => h, fun orig h => ⟨⟨orig, h⟩, rfl⟩, ⟨rfl, rfl⟩, Nat.le_refl _, fun d orig h => ⟨d, orig, h⟩⟩

theorem Evolve.trans {a b c : Obj} (h1 : Evolve a b) (h2 : Evolve b c) : Evolve a c := by
  refine ⟨fun x ad h => h2.handle x ad (h1.handle x ad h), ?_, ?_, Nat.le_trans h1.calls h2.calls, ?_⟩
  · intro orig h
    obtain ⟨⟨o1, hk1⟩, hc1⟩ := h1.gcpNone orig h
    obtain ⟨ho2, hc2⟩ := h2.gcpNone o1 hk1
    exact ⟨ho2, by rw [hc2, hc1]⟩
  · exact ⟨by rw [h2.flags.1, h1.flags.1], by rw [h2.flags.2, h1.flags.2]⟩
  · intro d orig h
    obtain ⟨d1, o1, hk1⟩ := h1.gcp d orig h
    exact h2.gcp d1 o1 hk1

theorem evolve_ext (o : Obj) (n : Nat) : Evolve o { o with ext := n } :=
  ⟨fun _ _ h => h, fun orig h => ⟨⟨orig, h⟩, rfl⟩, ⟨rfl, rfl⟩, Nat.le_refl _, fun d orig h => ⟨d, orig, h⟩⟩

theorem evolve_gcNone {o : Obj} {d orig : Option Nat} (hk : o.kind = .gcp d orig) :
    Evolve o { o with kind := .gcp none orig, noned := o.noned || d.isSome } := by
  refine ⟨?_, ?_, ⟨rfl, rfl⟩, Nat.le_refl _, fun _ _ _ => ⟨_, _, rfl⟩⟩
  · intro x a h; simp [hk] at h
  · intro orig0 h; exact ⟨⟨orig, rfl⟩, rfl⟩

theorem evolve_finalize {o : Obj} {d orig : Option Nat} (hk : o.kind = .gcp d orig) (r : Bool) :
    Evolve o { finalizeGcp o with released := r } := by
  have hf : finalizeGcp o = { o with kind := .gcp none none, calls := o.calls + (if d.isSome then 1 else 0) } := by
    simp [finalizeGcp, hk]
  rw [hf]
  refine ⟨?_, ?_, ⟨rfl, rfl⟩, by simp, fun _ _ _ => ⟨_, _, rfl⟩⟩
  · intro x a h; simp [hk] at h
  · intro orig0 h
    rw [hk] at h; simp at h
    refine ⟨⟨none, rfl⟩, ?_⟩
    simp [h.1]

theorem evolve_other {o o' : Obj} (hh : ∀ x a, o.kind ≠ .handle x a) (hg : ∀ d orig, o.kind ≠ .gcp d orig)
    (hc : o'.calls = o.calls) (hf : o'.hadDtor = o.hadDtor ∧ o'.isAlloc = o.isAlloc) : Evolve o o' :=
  ⟨fun x a h => absurd h (hh x a), fun orig h => absurd h (hg none orig), hf, by rw [hc]; exact Nat.le_refl _,
   fun d orig h => absurd h (hg d orig)⟩

theorem evolve_finalizeObj (o : Obj) : Evolve o { finalizeObj o with alive := false } := by
  obtain ⟨k, al, e, c, hd, ia, r, n⟩ := o
  cases k with
  | gcp d orig =>
    refine ⟨by simp, ?_, ⟨rfl, rfl⟩, by simp [finalizeObj, finalizeGcp], ?_⟩
    · intro orig0 h
      simp at h
      simp [finalizeObj, finalizeGcp, h.1]
    · intro _ _ _; exact ⟨none, none, by simp [finalizeObj, finalizeGcp]⟩
  | handle obj a => exact ⟨by simp [finalizeObj], by simp, ⟨rfl, rfl⟩, by simp [finalizeObj], by simp⟩
  | _ => exact ⟨by simp, by simp, ⟨rfl, rfl⟩, by simp [finalizeObj], by simp⟩

theorem evolve_set {s : State} {x i : Nat} {o oi oi' : Obj} (hx : s.objs x = some o)
    (hi : s.objs i = some oi) (he : Evolve oi oi') :
    ∃ o', (s.set i oi').objs x = some o' ∧ Evolve o o' := by
  by_cases hxi : x = i
  · subst hxi
    rw [hi] at hx; simp at hx; subst hx
    exact ⟨oi', by simp, he⟩
  · exact ⟨o, by simp [hxi, hx], Evolve.refl o⟩

theorem evolve_push {s : State} (h : Inv s) {x : Nat} {o : Obj} (hx : s.objs x = some o) (n : Obj) :
    (s.push n).objs x = some o := by
  have := lt_next h hx
  simp only [objs_push]; rw [if_neg (by omega)]; exact hx

theorem release_evolve {s : State} (x y : Nat) (o : Obj) (hy : s.objs y = some o) :
    ∃ o', (release s x).1.objs y = some o' ∧ Evolve o o' := by
  unfold release
  split
  · exact ⟨o, hy, Evolve.refl o⟩
  · rename_i ox hox
    have hox' := objs_of_live hox
    split
    · exact ⟨o, hy, Evolve.refl o⟩
    · exact ⟨o, hy, Evolve.refl o⟩
    · exact ⟨o, hy, Evolve.refl o⟩
    · exact ⟨o, hy, Evolve.refl o⟩
    · exact ⟨o, hy, Evolve.refl o⟩
    · split
      · rename_i os hos
        split
        · rename_i d orig hks
          exact evolve_set hy (objs_of_live hos) (evolve_finalize hks true)
        · exact ⟨o, hy, Evolve.refl o⟩
      · exact ⟨o, hy, Evolve.refl o⟩
    · rename_i d orig hk
      exact evolve_set hy hox' (evolve_finalize hk true)
    · rename_i src rel hk
      split
      · exact ⟨o, hy, Evolve.refl o⟩
      · exact evolve_set hy hox' (evolve_other (by simp [hk]) (by simp [hk]) rfl ⟨rfl, rfl⟩)

theorem opRelease_evolve {s : State} (h : Inv s) (x y : Nat) (o : Obj) (hy : s.objs y = some o) :
    ∃ o', (opRelease s x).1.objs y = some o' ∧ Evolve o o' := by
  obtain ⟨o', ho', ev⟩ := release_evolve (s := s) x y o hy
  unfold opRelease
  split
  · split
    · exact ⟨o', objs_pushFrame (inv_release h x) _ ho', ev⟩
    · exact ⟨o', ho', ev⟩
  · exact ⟨o', ho', ev⟩

theorem step_evolve {s : State} (h : Inv s) (op : Op) (y : Nat) (o : Obj) (hy : s.objs y = some o) :
    ∃ o', (step s op).1.objs y = some o' ∧ Evolve o o' := by
  have same : ∃ o', s.objs y = some o' ∧ Evolve o o' := ⟨o, hy, Evolve.refl o⟩
  cases op with
  | newPy tag => exact ⟨o, evolve_push h hy _, Evolve.refl o⟩
  | newPlain => exact ⟨o, evolve_push h hy _, Evolve.refl o⟩
  | newStruct =>
    have h1 : Inv (s.push (mkObj (.owning true) 0)) := inv_push h (fresh_leaf _ _ (Or.inr ⟨true, rfl⟩))
    exact ⟨o, evolve_push h1 (evolve_push h hy _) _, Evolve.refl o⟩
  | allocPlain free =>
    simp only [step, opAllocPlain]
    split
    · have h1 : Inv (s.push (mkObj (.owning false) 0)) := inv_push h (fresh_leaf _ _ (Or.inr ⟨false, rfl⟩))
      exact ⟨o, evolve_push h1 (evolve_push h hy _) _, Evolve.refl o⟩
    · exact same
  | allocStruct free =>
    have hs := inv_step h (.allocStruct free)
    simp only [step, opAllocStruct] at hs ⊢
    split
    · rename_i hf
      have h1 : Inv (s.push (mkObj (.owning false) 0)) := inv_push h (fresh_leaf _ _ (Or.inr ⟨false, rfl⟩))
      have h2 := inv_push h1 (fresh_gcp free s.next 0 true
        (fun dd hdd => alive_push h _ (freeOk_alive hf dd hdd)) (alive_push_self s _ rfl))
      exact ⟨o, evolve_push h2 (evolve_push h1 (evolve_push h hy _) _) _, Evolve.refl o⟩
    · exact same
  | gc p d =>
    simp only [step, opGc]
    split
    · split
      · exact ⟨o, evolve_push h hy _, Evolve.refl o⟩
      · exact same
    · exact same
  | gcNone g =>
    simp only [step, opGcNone]
    split
    · rename_i og hg
      split
      · rename_i d orig hk
        exact evolve_set hy (objs_of_live hg) (evolve_gcNone hk)
      · exact same
    · exact same
  | release x => exact opRelease_evolve h x y o hy
  | withExit x => exact opRelease_evolve h x y o hy
  | dropRef x =>
    simp only [step, opDropRef]
    split
    · rename_i ox hx
      split
      · exact same
      · exact evolve_set hy (objs_of_live hx) (evolve_ext _ _)
    · exact same
  | store c x =>
    simp only [step, opStore]
    split
    · rename_i oc ox hc hx
      split
      · rename_i t fl hk
        exact evolve_set hy (objs_of_live hc) (evolve_other (by simp [hk]) (by simp [hk]) rfl ⟨rfl, rfl⟩)
      · exact same
    · exact same
  | clear c =>
    simp only [step, opClear]
    split
    · rename_i oc hc
      split
      · rename_i t fl hk
        exact evolve_set hy (objs_of_live hc) (evolve_other (by simp [hk]) (by simp [hk]) rfl ⟨rfl, rfl⟩)
      · exact same
    · exact same
  | alias p =>
    simp only [step, opAlias]
    split
    · split
      · split
        · rename_i os hos
          exact evolve_set hy (objs_of_live hos) (evolve_ext _ _)
        · exact same
      · exact same
    · exact same
  | newHandle x addr =>
    simp only [step, opNewHandle]
    split
    · split
      · exact same
      · exact ⟨o, evolve_push h hy _, Evolve.refl o⟩
    · exact same
  | fromHandle addr =>
    simp only [step, opFromHandle]
    split
    · split
      · rename_i oo hoo
        exact evolve_set hy (objs_of_live hoo) (evolve_ext _ _)
      · exact same
    · exact same
  | fromBuffer b =>
    simp only [step, opFromBuffer]
    split
    · split
      · exact ⟨o, evolve_push h hy _, Evolve.refl o⟩
      · exact same
    · exact same
  | resize b =>
    simp only [step, opResize]
    split
    · split
      · split <;> exact same
      · exact same
    · exact same
  | collect S =>
    have hI := inv_opCollect h S
    simp only [step, opCollect] at hI ⊢
    split
    · rename_i hok
      have hpins : ∀ pins ∈ (firedIn s S).map (fun w => ((callPins s w).getD []).filter (isAlive (collectState s S))),
          ∀ p ∈ pins, Alive (collectState s S) p := by
        intro pins hpins p hp
        simp only [List.mem_map] at hpins
        obtain ⟨w, _, rfl⟩ := hpins
        simp only [List.mem_filter, isAlive] at hp
        cases hl : (collectState s S).live p with
        | none => simp [hl] at hp
        | some op => exact alive_of_live hl
      by_cases hm : y ∈ S
      · exact ⟨{ finalizeObj o with alive := false },
          objs_pushFrames (inv_collect h S hok) _ hpins (by simp [collectState, hy, hm]), evolve_finalizeObj o⟩
      · exact ⟨o, objs_pushFrames (inv_collect h S hok) _ hpins (by simp [collectState, hy, hm]), Evolve.refl o⟩
    · exact same
  | finalize x S =>
    simp only [step, opFinalize]
    split
    · split
      · rename_i ox hox
        split
        · rename_i d orig hk
          have h1 := inv_set h (objs_of_live hox) (step1_finalize (h.ghost _ _ (objs_of_live hox)) hk)
          obtain ⟨o', ho', ev⟩ := evolve_set hy (objs_of_live hox) (evolve_finalize hk true)
          split
          · exact ⟨o', objs_pushFrame h1 _ ho', ev⟩
          · exact ⟨o', ho', ev⟩
        · exact same
      · exact same
    · exact same
  | ret =>
    simp only [step, opRet]
    split
    · split
      · rename_i of hof
        split
        · rename_i pins hk
          exact evolve_set hy (objs_of_live hof) (evolve_other (by simp [hk]) (by simp [hk]) rfl ⟨rfl, rfl⟩)
        · exact same
      · exact same
    · exact same

theorem run_evolve {s : State} (h : Inv s) (ops : List Op) (y : Nat) (o : Obj) (hy : s.objs y = some o) :
    ∃ o', (run s ops).objs y = some o' ∧ Evolve o o' := by
  induction ops generalizing s o with
  | nil => exact ⟨o, hy, Evolve.refl o⟩
  | cons op rest ih =>
    obtain ⟨o1, h1, e1⟩ := step_evolve h op y o hy
    obtain ⟨o2, h2, e2⟩ := ih (inv_step h op) o1 h1
    exact ⟨o2, h2, Evolve.trans e1 e2⟩

/-! ### helpers of the property theorems -/

theorem gcpInv_le_one {o : Obj} (g : GcpInv o) : o.calls ≤ 1 := by
  unfold GcpInv at g
  split at g
  · rename_i d orig hk
    cases d with
    | none => have := g.2.1 rfl; rw [this]; split <;> omega
    | some dd => have := (g.1 rfl).1; omega
  · omega

theorem set_self {s : State} {i : Nat} {o : Obj} (h : s.objs i = some o) : s.set i o = s := by
  cases s with
  | mk objs next frames =>
    simp only [State.set, State.mk.injEq, and_true]
    funext j
    by_cases hj : j = i
    · subst hj; simp at h ⊢; exact h.symm
    · simp [hj]

theorem live_set_self (s : State) (i : Nat) (o : Obj) (ha : o.alive = true) : (s.set i o).live i = some o := by
  simp [State.live, ha]

theorem live_set_other (s : State) (i j : Nat) (o : Obj) (hne : j ≠ i) : (s.set i o).live j = s.live j := by
  simp [State.live, hne]

theorem fromHandle_live {s : State} (hinv : Inv s) (h x a : Nat) (oh : Obj)
    (hl : s.live h = some oh) (hk : oh.kind = .handle x a) :
    (step s (.fromHandle a)).2 = .ok [x] := by
  have e := (live_def _ _ _).mp hl
  simp only [step, opFromHandle]
  cases hf : findHandle s a with
  | none => exact absurd hk (findHandle_none hinv hf h oh x e.1 e.2)
  | some pr =>
    obtain ⟨h', obj⟩ := pr
    obtain ⟨oh', hl', hk'⟩ := findHandle_some hf
    have e' := (live_def _ _ _).mp hl'
    have : h' = h := hinv.hd h' h oh' oh obj x a e'.1 e.1 e'.2 e.2 hk' hk
    subst this
    rw [hl] at hl'; simp at hl'; subst hl'
    rw [hk] at hk'; simp at hk'; subst hk'
    obtain ⟨ox, hox, hoxa⟩ := hinv.nd h' oh e.1 e.2 x (by simp [edges, hk])
    have : s.live x = some ox := (live_def _ _ _).mpr ⟨hox, hoxa⟩
    simp [this]

/-! ### release and activations -/

theorem release_next (s : State) (x : Nat) : (release s x).1.next = s.next := by
  unfold release
  split
  · rfl
  · split <;> try rfl
    · split
      · split <;> rfl
      · rfl
    · split <;> rfl

theorem live_pushFrame_old (s : State) (pins : List Nat) (j : Nat) (hj : j ≠ s.next) :
    (s.pushFrame pins).live j = s.live j := by
  simp [State.live, State.pushFrame, hj]

theorem set_pushFrame (s : State) (pins : List Nat) (i : Nat) (o : Obj) (hi : i ≠ s.next) :
    (s.pushFrame pins).set i o = (s.set i o).pushFrame pins := by
  simp only [State.set, State.pushFrame, State.push, State.mk.injEq, and_true, true_and]
  funext j
  by_cases h1 : j = i
  · subst h1; simp [hi]
  · simp [h1]

/-- `cdata_exit` does not see an activation that was started before it (for operands that exist) -/
theorem release_pushFrame {s : State} (h : Inv s) (x : Nat) (pins : List Nat) (hx : x < s.next) :
    release (s.pushFrame pins) x = ((release s x).1.pushFrame pins, (release s x).2) := by
  have hxne : x ≠ s.next := by omega
  unfold release
  rw [live_pushFrame_old s pins x hxne]
  split
  · rfl
  · rename_i o ho
    split
    · rfl
    · rfl
    · rfl
    · rfl
    · rfl
    · rename_i sid hk
      obtain ⟨os0, hos0, _⟩ := h.sk x o sid (objs_of_live ho) hk
      have hsid : sid ≠ s.next := Nat.ne_of_lt (lt_next h hos0)
      rw [live_pushFrame_old s pins sid hsid]
      split
      · split
        · rw [set_pushFrame s pins sid _ hsid]
        · rfl
      · rfl
    · rw [set_pushFrame s pins x _ hxne]
    · split
      · rfl
      · rw [set_pushFrame s pins x _ hxne]

/-- `cdata_exit` applied twice: the second application changes nothing and calls nothing. -/
theorem release_idem_core (s : State) (x : Nat) (l : List Nat)
    (hok : (release s x).2 = .ok l) :
    release (release s x).1 x = ((release s x).1, .ok []) := by
  unfold release at hok
  split at hok
  · simp at hok
  · rename_i o ho
    have hoa := ((live_def s x o).mp ho)
    split at hok
    · simp at hok
    · simp at hok
    · -- owning, not a struct: no effect
      rename_i hk
      have e : release s x = (s, .ok []) := by unfold release; simp [ho, hk]
      rw [e]; exact e
    · simp at hok
    · simp at hok
    · rename_i sid hk
      split at hok
      · rename_i os hos
        have hosa := ((live_def s sid os).mp hos)
        split at hok
        · rename_i d orig hks
          have hne : x ≠ sid := by
            intro e; subst e; rw [ho] at hos; simp at hos; subst hos; rw [hk] at hks; simp at hks
          have e : release s x = (s.set sid { finalizeGcp os with released := true },
              .ok (if fires os then [sid] else [])) := by
            unfold release; simp [ho, hk, hos, hks]
          rw [e]
          have hf : finalizeGcp os = { os with kind := .gcp none none, calls := os.calls + (if d.isSome then 1 else 0) } := by simp [finalizeGcp, hks]
          have l1 := live_set_other s sid x { finalizeGcp os with released := true } hne
          have l2 := live_set_self s sid { finalizeGcp os with released := true }
            (by rw [hf]; exact hosa.2)
          unfold release
          simp only [l1, ho, hk, l2]
          rw [hf]
          simp only [finalizeGcp, fires, Option.isSome_none, Bool.false_eq_true, if_false, Nat.add_zero]
          congr 1
          exact set_self (by simp)
        · rename_i hnk
          have e : release s x = (s, .ok []) := by
            unfold release; simp only [ho, hk, hos]
            try (split <;> first | rfl | (rename_i d orig hks; exact absurd hks (hnk d orig)))
          rw [e]; exact e
      · rename_i hnone
        have e : release s x = (s, .ok []) := by unfold release; simp [ho, hk, hnone]
        rw [e]; exact e
    · rename_i d orig hk
      have e : release s x = (s.set x { finalizeGcp o with released := true },
          .ok (if fires o then [x] else [])) := by
        unfold release; simp [ho, hk]
      rw [e]
      have hf : finalizeGcp o = { o with kind := .gcp none none, calls := o.calls + (if d.isSome then 1 else 0) } := by simp [finalizeGcp, hk]
      have l2 := live_set_self s x { finalizeGcp o with released := true } (by rw [hf]; exact hoa.2)
      unfold release
      simp only [l2]
      rw [hf]
      simp only [finalizeGcp, fires, Option.isSome_none, Bool.false_eq_true, if_false, Nat.add_zero]
      congr 1
      exact set_self (by simp)
    · rename_i src rel hk
      by_cases hr : rel = true
      · have e : release s x = (s, .ok []) := by unfold release; simp [ho, hk, hr]
        rw [e]; exact e
      · have e : release s x = (s.set x { o with kind := .frombuf src true, released := true }, .ok []) := by
          unfold release; simp [ho, hk, hr]
        rw [e]
        have l2 := live_set_self s x { o with kind := .frombuf src true, released := true } hoa.2
        unfold release
        simp [l2]


theorem release_drops_export_core (s : State) (f b : Nat) (l : List Nat)
    (hok : (release s f).2 = .ok l) : exportsOn (release s f).1 b f = false := by
  cases hl : s.live f with
  | none => simp [release, hl] at hok
  | some o =>
    have hoa := (live_def s f o).mp hl
    cases hk : o.kind with
    | py t fl => simp [release, hl, hk] at hok
    | handle x a => simp [release, hl, hk] at hok
    | frame pins => simp [release, hl, hk] at hok
    | owning st =>
      cases st
      · simp [release, hl, hk, exportsOn]
      · simp [release, hl, hk] at hok
    | structptr sid =>
      have hnf : ∀ s' : State, s'.live f = some o → exportsOn s' b f = false := by
        intro s' h'; simp [exportsOn, h', hk]
      unfold release
      simp only [hl, hk]
      split
      · rename_i os hos
        split
        · rename_i d orig hks
          have hne : f ≠ sid := by
            intro e; subst e; rw [hl] at hos; simp at hos; subst hos; rw [hk] at hks; simp at hks
          exact hnf _ (by rw [live_set_other _ _ _ _ hne]; exact hl)
        · exact hnf _ hl
      · exact hnf _ hl
    | gcp d orig =>
      have hf : finalizeGcp o = { o with kind := .gcp none none, calls := o.calls + (if d.isSome then 1 else 0) } := by
        simp [finalizeGcp, hk]
      have e : release s f = (s.set f { finalizeGcp o with released := true },
          .ok (if fires o then [f] else [])) := by
        unfold release; simp [hl, hk]
      rw [e]
      have l2 := live_set_self s f { finalizeGcp o with released := true } (by rw [hf]; exact hoa.2)
      simp only [exportsOn]
      rw [l2]
      simp [hf]
    | frombuf src rel =>
      cases rel
      · have e : release s f = (s.set f { o with kind := .frombuf src true, released := true }, .ok []) := by
          unfold release; simp [hl, hk]
        rw [e]
        have l2 := live_set_self s f { o with kind := .frombuf src true, released := true } hoa.2
        simp only [exportsOn]
        rw [l2]
        simp
      · simp [release, hl, hk, exportsOn]


/-- In the model a release that calls a destructor has emptied and marked the wrapper before:
the activation (`opRelease` pushes the frame onto *this* state) starts afterwards. -/
theorem release_marks {s : State} {x w : Nat} {l : List Nat} (h : (release s x).2 = .ok (w :: l)) :
    ∃ o, (release s x).1.objs w = some o ∧ o.kind = .gcp none none ∧ o.released = true := by
  cases hl : s.live x with
  | none => simp [release, hl] at h
  | some o =>
    cases hk : o.kind with
    | py t fl => simp [release, hl, hk] at h
    | frame pins => simp [release, hl, hk] at h
    | handle a b => simp [release, hl, hk] at h
    | owning st => cases st <;> simp [release, hl, hk] at h
    | frombuf src rel => cases rel <;> simp [release, hl, hk] at h
    | gcp d orig =>
      have e : release s x = (s.set x { finalizeGcp o with released := true },
          .ok (if fires o then [x] else [])) := by
        unfold release; simp [hl, hk]
      rw [e] at h ⊢
      have hw : w = x := by
        by_cases hf : fires o = true
        · simp [hf] at h; exact h.1.symm
        · simp [hf] at h
      subst hw
      exact ⟨{ finalizeGcp o with released := true }, by simp, by simp [finalizeGcp, hk], rfl⟩
    | structptr sid =>
      cases hs : s.live sid with
      | none => simp [release, hl, hk, hs] at h
      | some os =>
        cases hks : os.kind with
        | gcp d orig =>
          have e : release s x = (s.set sid { finalizeGcp os with released := true },
              .ok (if fires os then [sid] else [])) := by
            unfold release; simp [hl, hk, hs, hks]
          rw [e] at h ⊢
          have hw : w = sid := by
            by_cases hf : fires os = true
            · simp [hf] at h; exact h.1.symm
            · simp [hf] at h
          subst hw
          exact ⟨{ finalizeGcp os with released := true }, by simp, by simp [finalizeGcp, hks], rfl⟩
        | py t fl => simp [release, hl, hk, hs, hks] at h
        | frame pins => simp [release, hl, hk, hs, hks] at h
        | handle a b => simp [release, hl, hk, hs, hks] at h
        | owning st => simp [release, hl, hk, hs, hks] at h
        | frombuf src rel => simp [release, hl, hk, hs, hks] at h
        | structptr s2 => simp [release, hl, hk, hs, hks] at h

end CffiVerif.Ownership
