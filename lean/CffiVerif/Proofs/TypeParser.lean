import CffiVerif.Model.TypeParser
import CffiVerif.Proofs.CName

/-!
Lemmas about the model of the C type-string parser (`Model/TypeParser.lean`):
how the tokenizer splits concatenations, how the number rule reads the decimal /
octal / hex text of a length, and that `parseSequel` inverts the token printer of
declarators (`dtoks`).
-/
namespace CffiVerif.TypeParser
open CffiVerif.CName

/-! ### Tokenizer -/

/-- `s` is empty or starts with a character that cannot continue an identifier. -/
def DelimStart : Str → Prop
  | [] => True
  | c :: _ => isIdentNext c = false

/-- `s` is empty or starts with a character that cannot continue a number token. -/
def NumStop : Str → Prop
  | [] => True
  | c :: _ => isHexDigit c = false ∧ c ≠ 'x' ∧ c ≠ 'X'

theorem run_idle_cons (c : Char) (s : Str) :
    run .idle (c :: s) = (fromIdle c).1 ++ run (fromIdle c).2 s := by
  simp [run, step]

theorem run_idle_space (s : Str) : run .idle (' ' :: s) = run .idle s := by
  rw [run_idle_cons]; simp [fromIdle, isIdentFirst, isSpace]

/-- One-character tokens. -/
theorem run_idle_sym (c : Char) (s : Str)
    (h1 : isIdentFirst c = false) (h2 : isSpace c = false) (h3 : isDigit c = false) (h4 : c ≠ '.') :
    run .idle (c :: s) = .sym c :: run .idle s := by
  rw [run_idle_cons]; simp [fromIdle, h1, h2, h3, h4]

theorem run_idle_star (s : Str) : run .idle ('*' :: s) = .sym '*' :: run .idle s :=
  run_idle_sym _ _ (by decide) (by decide) (by decide) (by decide)
theorem run_idle_lparen (s : Str) : run .idle ('(' :: s) = .sym '(' :: run .idle s :=
  run_idle_sym _ _ (by decide) (by decide) (by decide) (by decide)
theorem run_idle_rparen (s : Str) : run .idle (')' :: s) = .sym ')' :: run .idle s :=
  run_idle_sym _ _ (by decide) (by decide) (by decide) (by decide)
theorem run_idle_lbracket (s : Str) : run .idle ('[' :: s) = .sym '[' :: run .idle s :=
  run_idle_sym _ _ (by decide) (by decide) (by decide) (by decide)
theorem run_idle_rbracket (s : Str) : run .idle (']' :: s) = .sym ']' :: run .idle s :=
  run_idle_sym _ _ (by decide) (by decide) (by decide) (by decide)

/-- Leaving an identifier at a delimiter. -/
theorem run_ident_end (acc s : Str) (h : DelimStart s) :
    run (.inIdent acc) s = classify acc :: run .idle s := by
  cases s with
  | nil => simp [run, flush]
  | cons c s =>
    simp only [DelimStart] at h
    simp [run, step, h, flush]

theorem run_ident_more (acc cs s : Str) (h : ∀ c ∈ cs, isIdentNext c = true) :
    run (.inIdent acc) (cs ++ s) = run (.inIdent (acc ++ cs)) s := by
  induction cs generalizing acc with
  | nil => simp
  | cons c cs ih =>
    have hc : isIdentNext c = true := h c (by simp)
    simp only [List.cons_append, run, step, hc, if_true, List.nil_append]
    rw [ih _ (fun x hx => h x (by simp [hx]))]
    simp

/-- A word: an identifier-first character followed by identifier characters. -/
def isWordB : Str → Bool
  | [] => false
  | c :: cs => isIdentFirst c && cs.all isIdentNext

def IsWord (w : Str) : Prop := isWordB w = true

theorem run_word (w s : Str) (hw : IsWord w) (hs : DelimStart s) :
    run .idle (w ++ s) = classify w :: run .idle s := by
  cases w with
  | nil => exact absurd hw (by simp [IsWord, isWordB])
  | cons c cs =>
    simp only [IsWord, isWordB, Bool.and_eq_true, List.all_eq_true] at hw
    obtain ⟨h1, h2⟩ := hw
    rw [List.cons_append, run_idle_cons]
    simp only [fromIdle, h1, if_true, List.nil_append]
    rw [run_ident_more _ _ _ h2, run_ident_end _ _ hs]
    simp

/-- Words separated by single spaces. -/
def joinSp : List Str → Str
  | [] => []
  | [w] => w
  | w :: v :: rest => w ++ ' ' :: joinSp (v :: rest)

theorem run_words (ws : List Str) (s : Str) (hw : ∀ w ∈ ws, IsWord w) (hs : DelimStart s) :
    run .idle (joinSp ws ++ s) = ws.map classify ++ run .idle s := by
  induction ws with
  | nil => simp [joinSp]
  | cons w rest ih =>
    cases rest with
    | nil =>
      simp only [joinSp, List.map, List.cons_append, List.nil_append]
      exact run_word w s (hw w (by simp)) hs
    | cons v rest =>
      simp only [joinSp, List.map_cons, List.cons_append, List.append_assoc]
      rw [run_word w _ (hw w (by simp)) (by simp [DelimStart, isIdentNext, isIdentFirst, isDigit])]
      rw [run_idle_space]
      have := ih (fun x hx => hw x (by simp [hx]))
      simp only [List.map_cons, List.cons_append] at this
      rw [this]

/-! ### Number tokens -/

theorem run_numRest (acc ds s : Str) (h : ∀ c ∈ ds, isHexDigit c = true) (hs : NumStop s) :
    run (.numRest acc) (ds ++ s) = .int (acc ++ ds) :: run .idle s := by
  induction ds generalizing acc with
  | nil =>
    cases s with
    | nil => simp [run, flush]
    | cons c s =>
      obtain ⟨h1, _, _⟩ := hs
      simp [run, step, h1, flush]
  | cons d ds ih =>
    have hd : isHexDigit d = true := h d (by simp)
    simp only [List.cons_append, run, step, hd, if_true, List.nil_append]
    rw [ih _ (fun x hx => h x (by simp [hx]))]
    simp

/-- A number token that starts with a decimal digit and continues with hex digits
(no `x`): what the texts of array lengths are. -/
theorem run_number (d : Char) (ds s : Str) (hd : isDigit d = true)
    (h : ∀ c ∈ ds, isHexDigit c = true) (hs : NumStop s) :
    run .idle (d :: ds ++ s) = .int (d :: ds) :: run .idle s := by
  have hf : isIdentFirst d = false := by
    revert hd; simp only [isDigit, isIdentFirst, Bool.and_eq_true, decide_eq_true_eq]
    intro ⟨h1, h2⟩
    have : d.val.toNat ≤ 57 := h2
    have h1' : 48 ≤ d.val.toNat := h1
    simp only [Bool.or_eq_false_iff, Bool.and_eq_false_iff, decide_eq_false_iff_not]
    refine ⟨⟨⟨Or.inl ?_, Or.inl ?_⟩, ?_⟩, ?_⟩
    · intro (hh : 65 ≤ d.val.toNat); omega
    · intro (hh : 97 ≤ d.val.toNat); omega
    · intro e; subst e; exact absurd this (by decide)
    · intro e; subst e; exact absurd h1' (by decide)
  have hsp : isSpace d = false := by
    revert hd; simp only [isDigit, isSpace, Bool.and_eq_true, decide_eq_true_eq]
    intro ⟨h1, _⟩
    have h1' : 48 ≤ d.val.toNat := h1
    simp only [Bool.or_eq_false_iff, decide_eq_false_iff_not]
    refine ⟨⟨⟨⟨⟨?_, ?_⟩, ?_⟩, ?_⟩, ?_⟩, ?_⟩ <;> (intro e; subst e; exact absurd h1' (by decide))
  have e1 : fromIdle d = ([], .num1 [d]) := by simp [fromIdle, hf, hsp, hd]
  rw [List.cons_append, run_idle_cons, e1]
  simp only [List.nil_append]
  cases ds with
  | nil =>
    cases s with
    | nil => simp [run, flush]
    | cons c s =>
      obtain ⟨h1, h2, h3⟩ := hs
      simp [run, step, h1, h2, h3, flush]
  | cons e ds =>
    have he : isHexDigit e = true := h e (by simp)
    have e2 : step (.num1 [d]) e = ([], .numRest [d, e]) := by simp [step, he]
    rw [List.cons_append, run, e2]
    simp only [List.nil_append]
    rw [run_numRest _ _ _ (fun x hx => h x (by simp [hx])) hs]
    simp

/-! ### Digits: printing a length and reading it back -/

/-- Digit character of `d < 16` (lower-case hex). -/
def hexDigitChar (d : Nat) : Char := if d < 10 then Char.ofNat (48 + d) else Char.ofNat (87 + d)

/-- Base-`b` text of `n` (fuel `f > n` suffices). -/
def digF (b : Nat) : Nat → Nat → Str
  | 0, _ => []
  | f + 1, n => if n < b then [hexDigitChar n] else digF b f (n / b) ++ [hexDigitChar (n % b)]

def digitsOf (b n : Nat) : Str := digF b (n + 1) n

theorem hexDigit_facts : ∀ d, d < 16 →
    isHexDigit (hexDigitChar d) = true ∧ hexVal (hexDigitChar d) = d ∧
    (d < 10 → isDigit (hexDigitChar d) = true ∧ hexDigitChar d = digitChar d) ∧
    (1 ≤ d → hexDigitChar d ≠ '0') ∧ hexDigitChar d ≠ 'x' ∧ hexDigitChar d ≠ 'X' := by
  decide

theorem decF_eq_digF (f n : Nat) : decF f n = digF 10 f n := by
  induction f generalizing n with
  | zero => rfl
  | succ f ih =>
    simp only [decF, digF]
    split
    · rename_i h
      rw [((hexDigit_facts n (by omega)).2.2.1 h).2]
    · rw [ih, ((hexDigit_facts (n % 10) (by omega)).2.2.1 (Nat.mod_lt _ (by omega))).2]

theorem dec_eq (n : Nat) : dec n = digitsOf 10 n := decF_eq_digF _ _

theorem digitsVal_append (b : Nat) (xs ys : Str) (acc : Nat) :
    digitsVal b (xs ++ ys) acc = (digitsVal b xs acc).bind (digitsVal b ys) := by
  induction xs generalizing acc with
  | nil => simp [digitsVal]
  | cons c xs ih =>
    simp only [List.cons_append, digitsVal]
    split
    · exact ih _
    · rfl

theorem digitsVal_single (b d acc : Nat) (hb : b ≤ 16) (hd : d < b) :
    digitsVal b [hexDigitChar d] acc = some (acc * b + d) := by
  have := hexDigit_facts d (by omega)
  simp [digitsVal, this.1, this.2.1, hd]

/-- Reading the base-`b` text of `n` gives `n` back. -/
theorem digitsVal_digF (b : Nat) (hb2 : 2 ≤ b) (hb : b ≤ 16) (f n acc : Nat) (hf : n < f) :
    digitsVal b (digF b f n) acc = some (acc * b ^ (digF b f n).length + n) := by
  induction f generalizing n acc with
  | zero => omega
  | succ f ih =>
    simp only [digF]
    split
    · rename_i h
      rw [digitsVal_single b n acc hb h]; simp
    · rename_i h
      have hlt : n / b < f := by
        have : n / b < n := Nat.div_lt_self (by omega) (by omega)
        omega
      rw [digitsVal_append, ih _ _ hlt]
      simp only [Option.bind_some, List.length_append, List.length_singleton]
      rw [digitsVal_single b _ _ hb (Nat.mod_lt _ (by omega))]
      congr 1
      rw [Nat.pow_succ, Nat.add_mul, Nat.mul_assoc, Nat.add_assoc]
      congr 1
      exact Nat.div_add_mod' n b

theorem digitsVal_digitsOf (b : Nat) (hb2 : 2 ≤ b) (hb : b ≤ 16) (n : Nat) :
    digitsVal b (digitsOf b n) 0 = some n := by
  rw [digitsOf, digitsVal_digF b hb2 hb _ _ _ (by omega)]; simp

theorem digF_ne_nil (b f n : Nat) : digF b (f + 1) n ≠ [] := by
  simp only [digF]; split <;> simp

/-- All characters of the text are hex digits below the base; the first one is not `0`
for a positive number. -/
theorem digF_chars (b : Nat) (hb2 : 2 ≤ b) (hb : b ≤ 16) (f n : Nat) :
    ∀ c ∈ digF b f n, isHexDigit c = true ∧ c ≠ 'x' ∧ c ≠ 'X' ∧ (b ≤ 10 → isDigit c = true) := by
  induction f generalizing n with
  | zero => simp [digF]
  | succ f ih =>
    simp only [digF]
    have key : ∀ d, d < b → isHexDigit (hexDigitChar d) = true ∧ hexDigitChar d ≠ 'x' ∧
        hexDigitChar d ≠ 'X' ∧ (b ≤ 10 → isDigit (hexDigitChar d) = true) := by
      intro d hd
      have := hexDigit_facts d (by omega)
      exact ⟨this.1, this.2.2.2.2.1, this.2.2.2.2.2, fun h10 => (this.2.2.1 (by omega)).1⟩
    split
    · rename_i h; intro c hc; simp at hc; subst hc; exact key n h
    · intro c hc
      simp only [List.mem_append, List.mem_singleton] at hc
      rcases hc with hc | hc
      · exact ih _ c hc
      · subst hc; exact key _ (Nat.mod_lt _ (by omega))

theorem digF_head (b : Nat) (hb2 : 2 ≤ b) (hb : b ≤ 16) (f n : Nat) (hf : n < f) (hn : 1 ≤ n) :
    ∃ c rest, digF b f n = c :: rest ∧ c ≠ '0' := by
  induction f generalizing n with
  | zero => omega
  | succ f ih =>
    simp only [digF]
    split
    · rename_i h
      exact ⟨_, [], rfl, (hexDigit_facts n (by omega)).2.2.2.1 hn⟩
    · rename_i h
      have hlt : n / b < f := by
        have : n / b < n := Nat.div_lt_self (by omega) (by omega)
        omega
      have h1 : 1 ≤ n / b := (Nat.le_div_iff_mul_le (by omega)).mpr (by omega)
      obtain ⟨c, rest, e, hc⟩ := ih _ hlt h1
      exact ⟨c, rest ++ [hexDigitChar (n % b)], by rw [e]; rfl, hc⟩

theorem digitsOf_zero (b : Nat) (hb2 : 2 ≤ b) : digitsOf b 0 = ['0'] := by
  simp only [digitsOf, digF]
  rw [if_pos (by omega)]; rfl

/-- `strtoull(text, &end, 0)` of the decimal text. -/
theorem numValue_dec (n : Nat) (hn : n ≤ maxSsize) : numValue (dec n) = .ok n := by
  rw [dec_eq]
  by_cases h0 : n = 0
  · subst h0; rw [digitsOf_zero 10 (by omega)]; simp [numValue, digitsVal, maxSsize]
  · obtain ⟨c, rest, e, hc⟩ := digF_head 10 (by omega) (by omega) (n + 1) n (by omega) (by omega)
    have hv := digitsVal_digitsOf 10 (by omega) (by omega) n
    rw [digitsOf] at hv ⊢
    rw [e] at hv ⊢
    have : numValue (c :: rest) = (match digitsVal 10 (c :: rest) 0 with
        | some n => if n ≤ maxSsize then .ok n else .error .parse
        | none => .error .parse) := by
      unfold numValue
      split <;> simp_all
    rw [this, hv]; simp [hn]

/-- … of the octal text `0ddd`. -/
theorem numValue_oct (n : Nat) (hn : n ≤ maxSsize) : numValue ('0' :: digitsOf 8 n) = .ok n := by
  have hv := digitsVal_digitsOf 8 (by omega) (by omega) n
  have hch := digF_chars 8 (by omega) (by omega) (n + 1) n
  have : numValue ('0' :: digitsOf 8 n) = (match digitsVal 8 (digitsOf 8 n) 0 with
      | some n => if n ≤ maxSsize then .ok n else .error .parse
      | none => .error .parse) := by
    unfold numValue
    rw [digitsOf] at *
    split
    · rename_i d ds heq
      have := hch 'x' (by simp at heq; rw [heq]; simp)
      exact absurd rfl this.2.1
    · rename_i d ds heq
      have := hch 'X' (by simp at heq; rw [heq]; simp)
      exact absurd rfl this.2.2.1
    · rename_i ds _ _ heq
      simp at heq; subst heq; rfl
    · rename_i h1 h2 h3
      exact absurd rfl (h3 _)
  rw [this, hv]; simp [hn]

/-- … of the hex text `0xhhh`. -/
theorem numValue_hex (n : Nat) (hn : n ≤ maxSsize) :
    numValue ('0' :: 'x' :: digitsOf 16 n) = .ok n := by
  have hv := digitsVal_digitsOf 16 (by omega) (by omega) n
  obtain ⟨d, ds, e⟩ : ∃ d ds, digitsOf 16 n = d :: ds := by
    cases h : digitsOf 16 n with
    | nil => exact absurd h (digF_ne_nil 16 n n)
    | cons d ds => exact ⟨d, ds, rfl⟩
  rw [e] at hv ⊢
  simp only [numValue, hv]; simp [hn]

/-! ### Declarator tokens and `parseSequel` -/

/-- Tokens of array suffixes (function suffixes are not printed by this fragment). -/
def sfxToks : List Suffix → List Tok
  | [] => []
  | .arr none :: r => .sym '[' :: .sym ']' :: sfxToks r
  | .arr (some n) :: r => .sym '[' :: .int (dec n) :: .sym ']' :: sfxToks r
  | .fn _ _ :: r => sfxToks r

def stars (n : Nat) : List Tok := List.replicate n (.sym '*')

/-- Tokens of a declarator: stars, optional grouping parentheses, suffixes. -/
def dtoks : Decl → List Tok
  | .flat s sfx => stars s ++ sfxToks sfx
  | .group s g sfx => stars s ++ .sym '(' :: (dtoks g ++ .sym ')' :: sfxToks sfx)

/-- Only array suffixes, with lengths an array can have. -/
def ArrOnly : List Suffix → Prop
  | [] => True
  | .arr none :: r => ArrOnly r
  | .arr (some n) :: r => n ≤ maxSsize ∧ ArrOnly r
  | .fn _ _ :: _ => False

/-- The declarator's text starts with `*` or `[` (what makes `(` a grouping parenthesis). -/
def Groupable : Decl → Prop
  | .flat s sfx => 0 < s ∨ sfx ≠ []
  | .group s _ _ => 0 < s

def Printable : Decl → Prop
  | .flat _ sfx => ArrOnly sfx
  | .group _ g sfx => Printable g ∧ Groupable g ∧ ArrOnly sfx

/-- Fuel `parseSequel` needs for a declarator. -/
def need : Decl → Nat
  | .flat _ _ => 2
  | .group _ g _ => need g + 2

/-- What may follow a declarator: the end, `)` or `,`. -/
inductive Stop : List Tok → Prop
  | nil : Stop []
  | close (r) : Stop (.sym ')' :: r)
  | comma (r) : Stop (.sym ',' :: r)

theorem header_stars (s : Nat) (more : List Tok) (n : Nat) (abi : Bool) :
    header (stars s ++ more) n abi = header more (n + s) abi := by
  induction s generalizing n with
  | zero => simp [stars]
  | succ s ih =>
    simp only [stars, List.replicate_succ, List.cons_append, header]
    have := ih (n + 1)
    simp only [stars] at this
    rw [this]; congr 1; omega

theorem header_sfx (sfx : List Suffix) (rest : List Tok) (hr : Stop rest) (n : Nat) (abi : Bool) :
    header (sfxToks sfx ++ rest) n abi = (n, abi, sfxToks sfx ++ rest) := by
  cases sfx with
  | nil => cases hr <;> simp [sfxToks, header]
  | cons x r =>
    cases x with
    | arr len => cases len <;> simp [sfxToks, header]
    | fn a e =>
      -- function suffixes print nothing: look at what follows
      induction r with
      | nil => cases hr <;> simp [sfxToks, header]
      | cons y r ih =>
        cases y with
        | arr len => cases len <;> simp [sfxToks, header]
        | fn a' e' => simpa [sfxToks] using ih

theorem header_lparen (more : List Tok) (n : Nat) (abi : Bool) :
    header (.sym '(' :: more) n abi = (n, abi, .sym '(' :: more) := by
  simp [header]

theorem skipName_sfx (sfx : List Suffix) (rest : List Tok) (hr : Stop rest) :
    skipName (sfxToks sfx ++ rest) = (false, sfxToks sfx ++ rest) := by
  induction sfx with
  | nil => cases hr <;> simp [sfxToks, skipName]
  | cons x r ih =>
    cases x with
    | arr len => cases len <;> simp [sfxToks, skipName]
    | fn a e => simpa [sfxToks] using ih

theorem parens_sfx (ctx : Ctx) (f : Nat) (cg abi : Bool) (sfx : List Suffix) (rest : List Tok)
    (hr : Stop rest) :
    parens ctx (f + 1) cg abi (sfxToks sfx ++ rest) = .ok (none, [], abi, sfxToks sfx ++ rest) := by
  induction sfx with
  | nil => cases hr <;> simp [sfxToks, parens]
  | cons x r ih =>
    cases x with
    | arr len => cases len <;> simp [sfxToks, parens]
    | fn a e => simpa [sfxToks] using ih

theorem arrays_sfx (ctx : Ctx) (sfx : List Suffix) (rest : List Tok) (hs : ArrOnly sfx)
    (hr : Stop rest) : arrays ctx (sfxToks sfx ++ rest) = .ok (sfx, rest) := by
  induction sfx with
  | nil => cases hr <;> simp [sfxToks, arrays]
  | cons x r ih =>
    cases x with
    | arr len =>
      cases len with
      | none =>
        simp only [ArrOnly] at hs
        simp [sfxToks, arrays, ih hs, bind, Except.bind, pure, Except.pure]
      | some n =>
        simp only [ArrOnly] at hs
        simp [sfxToks, arrays, ih hs.2, numValue_dec n hs.1, bind, Except.bind, pure, Except.pure]
    | fn a e => exact absurd hs (by simp [ArrOnly])

theorem startsGroup_dtoks (g : Decl) (more : List Tok) (hg : Groupable g) (hp : Printable g) :
    startsGroup (dtoks g ++ more) = true ∧ absorbAbi false (dtoks g ++ more) = (false, dtoks g ++ more) := by
  cases g with
  | flat s sfx =>
    cases s with
    | succ s => simp [dtoks, stars, List.replicate_succ, startsGroup, absorbAbi]
    | zero =>
      simp only [Groupable] at hg
      cases sfx with
      | nil => simp at hg
      | cons x r =>
        cases x with
        | arr len => cases len <;> simp [dtoks, stars, sfxToks, startsGroup, absorbAbi]
        | fn a e => exact absurd hp (by simp [Printable, ArrOnly])
  | group s g' sfx =>
    cases s with
    | succ s => simp [dtoks, stars, List.replicate_succ, startsGroup, absorbAbi]
    | zero => simp [Groupable] at hg

/-- **`parse_sequel` inverts the declarator printer**: on the tokens of a printable
declarator followed by the end, `)` or `,`, it returns that declarator and stops there. -/
theorem parseSequel_dtoks (ctx : Ctx) (d : Decl) :
    ∀ (rest : List Tok) (f : Nat), Printable d → Stop rest → need d ≤ f →
      parseSequel ctx f (dtoks d ++ rest) = .ok (d, rest) := by
  induction d with
  | flat s sfx =>
    intro rest f hp hr hf
    obtain ⟨f', rfl⟩ : ∃ f', f = f' + 2 := ⟨f - 2, by simp only [need] at hf; omega⟩
    simp only [Printable] at hp
    simp only [dtoks, List.append_assoc, parseSequel, header_stars, header_sfx sfx rest hr,
      skipName_sfx sfx rest hr, parens_sfx ctx f' _ _ sfx rest hr]
    simp [bind, Except.bind, pure, Except.pure, arrays_sfx ctx sfx rest hp hr]
  | group s g sfx ih =>
    intro rest f hp hr hf
    obtain ⟨f', rfl⟩ : ∃ f', f = f' + 2 := ⟨f - 2, by simp only [need] at hf; omega⟩
    simp only [Printable] at hp
    obtain ⟨hpg, hgg, hsfx⟩ := hp
    have hf' : need g ≤ f' := by simp only [need] at hf; omega
    have hsg := startsGroup_dtoks g (.sym ')' :: (sfxToks sfx ++ rest)) hgg hpg
    have hrec := ih (.sym ')' :: (sfxToks sfx ++ rest)) f' hpg (Stop.close _) hf'
    obtain ⟨f'', rfl⟩ : ∃ f'', f' = f'' + 1 := ⟨f' - 1, by
      have : 2 ≤ need g := by cases g <;> simp [need]
      omega⟩
    have e : dtoks (.group s g sfx) ++ rest =
        stars s ++ (.sym '(' :: (dtoks g ++ .sym ')' :: (sfxToks sfx ++ rest))) := by simp [dtoks]
    rw [e, parseSequel]
    simp only [header_stars, header_lparen]
    simp only [skipName]
    rw [parens]
    simp only [hsg.1, hsg.2]
    rw [hrec]
    simp only [Bool.not_false, Bool.and_self, if_true, bind, Except.bind, expectClose,
      parens_sfx ctx f'' false false sfx rest hr, arrays_sfx ctx sfx rest hsfx hr, pure, Except.pure]
    simp

/-! ### The fragment without function types -/

/-- Type trees of the primitive / struct / union / enum / pointer / array fragment. -/
inductive FTy where
  | prim (n : Str)
  | agg (k : AggKind) (tag : Str)
  | ptr (t : FTy)
  | arr (t : FTy) (len : Option Nat)

def FTy.toTy : FTy → Ty
  | .prim n => .prim n
  | .agg k tag => .agg k tag
  | .ptr t => .ptr t.toTy
  | .arr t len => .arr t.toTy len

/-- The specifier part of the name. -/
def FTy.baseName : FTy → Str
  | .prim n => n
  | .agg k tag => aggName k tag
  | .ptr t => t.baseName
  | .arr t _ => t.baseName

def FTy.leaf : FTy → FTy
  | .ptr t => t.leaf
  | .arr t _ => t.leaf
  | t => t

/-- All array lengths fit a `Py_ssize_t`. -/
def FTy.LensOK : FTy → Prop
  | .ptr t => t.LensOK
  | .arr t len => t.LensOK ∧ ∀ n, len = some n → n ≤ maxSsize
  | _ => True

/-! ### Declarators with a hole at the name position -/

def Decl.star : Decl → Decl
  | .flat s x => .flat (s + 1) x
  | .group s g x => .group (s + 1) g x

def Decl.snoc : Decl → Suffix → Decl
  | .flat s x, a => .flat s (x ++ [a])
  | .group s g x, a => .group s g (x ++ [a])

def Decl.nstars : Decl → Nat
  | .flat s _ => s
  | .group s _ _ => s

def paren (d : Decl) : Decl := .group 0 d []

theorem ptrN_succ (n : Nat) (t : Ty) : ptrN (n + 1) t = ptrN n (.ptr t) := rfl

theorem applySfx_append (x y : List Suffix) (t : Ty) :
    applySfx (x ++ y) t = applySfx x (applySfx y t) := by
  induction x with
  | nil => rfl
  | cons a x ih => cases a <;> simp [applySfx, ih]

theorem star_apply (d : Decl) (b : Ty) : d.star.apply b = d.apply (.ptr b) := by
  cases d <;> simp [Decl.star, Decl.apply, ptrN_succ]

theorem paren_apply (d : Decl) (b : Ty) : (paren d).apply b = d.apply b := by
  simp [paren, Decl.apply, applySfx, ptrN]

theorem snoc_apply (d : Decl) (len : Option Nat) (b : Ty) (h : d.nstars = 0) :
    (d.snoc (.arr len)).apply b = d.apply (.arr b len) := by
  cases d <;> simp only [Decl.nstars] at h <;> subst h <;>
    simp [Decl.snoc, Decl.apply, applySfx_append, applySfx, ptrN]

theorem star_nstars (d : Decl) : 0 < d.star.nstars := by cases d <;> simp [Decl.star, Decl.nstars]
theorem snoc_nstars (d : Decl) (a : Suffix) : (d.snoc a).nstars = d.nstars := by
  cases d <;> simp [Decl.snoc, Decl.nstars]

theorem ArrOnly_append (x : List Suffix) (len : Option Nat) (hx : ArrOnly x)
    (hl : ∀ n, len = some n → n ≤ maxSsize) : ArrOnly (x ++ [.arr len]) := by
  induction x with
  | nil => cases len <;> simp [ArrOnly]; exact hl _ rfl
  | cons a x ih =>
    cases a with
    | arr l => cases l <;> simp only [List.cons_append, ArrOnly] at hx ⊢
               · exact ih hx
               · exact ⟨hx.1, ih hx.2⟩
    | fn a e => exact absurd hx (by simp [ArrOnly])

/-! ### Length texts -/

theorem dec_shape (n : Nat) : ∃ c ds, dec n = c :: ds ∧ isDigit c = true ∧ ∀ x ∈ ds, isHexDigit x = true := by
  rw [dec_eq, digitsOf]
  have hch := digF_chars 10 (by omega) (by omega) (n + 1) n
  cases h : digF 10 (n + 1) n with
  | nil => exact absurd h (digF_ne_nil 10 n n)
  | cons c ds =>
    rw [h] at hch
    exact ⟨c, ds, rfl, (hch c (by simp)).2.2.2 (by omega), fun x hx => (hch x (by simp [hx])).1⟩

theorem run_lenText (len : Option Nat) (s : Str) :
    run .idle (lenText len ++ s) = sfxToks [.arr len] ++ run .idle s := by
  cases len with
  | none =>
    simp only [lenText, sfxToks]
    show run .idle ('[' :: ']' :: s) = _
    rw [run_idle_lbracket, run_idle_rbracket]; rfl
  | some n =>
    obtain ⟨c, ds, e, hc, hds⟩ := dec_shape n
    simp only [lenText, sfxToks, List.cons_append, List.append_assoc, List.nil_append]
    rw [run_idle_lbracket, e]
    have := run_number c ds (']' :: s) hc hds ⟨by decide, by decide, by decide⟩
    simp only [List.cons_append] at this ⊢
    rw [this, run_idle_rbracket]

/-! ### Leaves: the specifier part of a printed name -/

/-- What may follow the specifiers of a printed name: nothing or a punctuation token. -/
inductive DeclStart : List Tok → Prop
  | nil : DeclStart []
  | sym (c : Char) (r : List Tok) : DeclStart (.sym c :: r)

def kwPrimWords : List (List Str) :=
  [["int"], ["char"], ["void"], ["_Bool"], ["float"], ["double"], ["long", "double"],
   ["signed", "char"], ["unsigned", "char"], ["short"], ["unsigned", "short"], ["unsigned", "int"],
   ["long"], ["unsigned", "long"], ["long", "long"], ["unsigned", "long", "long"]].map (·.map String.toList)

theorem kwPrim_words : ∀ ws ∈ kwPrimWords, ∀ w ∈ ws, isWordB w = true := by decide

theorem kwPrim_base (ctx : Ctx) : ∀ ws ∈ kwPrimWords, ∀ rest, DeclStart rest →
    parseBase ctx (ws.map classify ++ rest) = .ok (.prim (joinSp ws), rest) := by
  intro ws hws rest hr
  simp only [kwPrimWords, List.map_cons, List.map_nil, List.mem_cons, List.not_mem_nil, or_false] at hws
  rcases hws with rfl | rfl | rfl | rfl | rfl | rfl | rfl | rfl | rfl | rfl | rfl | rfl | rfl | rfl | rfl | rfl <;>
    cases hr <;> rfl

instance (w : Str) : Decidable (IsWord w) := inferInstanceAs (Decidable (isWordB w = true))

theorem std_words : ∀ n ∈ standardTypenames, isWordB n = true ∧ classify n = .ident n := by decide

/-- A tag that is printed as `struct tag` / `union tag` / `enum tag`. -/
structure PlainTag (tag : Str) : Prop where
  word : isWordB tag = true
  ident : classify tag = .ident tag
  noDollar : tag.head? ≠ some '$'
  notFile : tag ≠ "_IO_FILE".toList

/-- The leaf types whose printed name the parser reads back in the context `ctx`. -/
inductive WFLeaf (ctx : Ctx) : FTy → Prop
  | kwPrim (ws : List Str) : ws ∈ kwPrimWords → WFLeaf ctx (.prim (joinSp ws))
  | stdPrim (n : Str) : n ∈ standardTypenames → ctx.typedefs.lookup n = none → WFLeaf ctx (.prim n)
  | struct (tag : Str) (c : Bool) : PlainTag tag → ctx.aggs.lookup tag = some (.struct, c) →
      WFLeaf ctx (.agg .struct tag)
  | union (tag : Str) (c : Bool) : PlainTag tag → ctx.aggs.lookup tag = some (.union, c) →
      WFLeaf ctx (.agg .union tag)
  | enum (tag : Str) : PlainTag tag → ctx.enums.contains tag = true → WFLeaf ctx (.agg .enum tag)
  | file : ctx.typedefs.lookup "FILE".toList = none → WFLeaf ctx (.agg .struct "_IO_FILE".toList)
  | anon (k : AggKind) (c : Char) (nm : Str) : c ≠ '$' → isDigitC c = false → isWordB (c :: nm) = true →
      classify (c :: nm) = .ident (c :: nm) →
      ctx.typedefs.lookup (c :: nm) = some (.agg k ('$' :: c :: nm)) → WFLeaf ctx (.agg k ('$' :: c :: nm))

theorem aggName_plain (k : AggKind) (tag : Str) (h : PlainTag tag) :
    aggName k tag = (match k with | .struct => "struct".toList | .union => "union".toList | .enum => "enum".toList)
      ++ ' ' :: tag := by
  have h1 := h.notFile
  have h2 := h.noDollar
  unfold aggName
  rw [if_neg (by intro ⟨_, e⟩; exact h1 e)]
  split
  · exact absurd rfl h2
  · cases k <;> rfl

theorem ident_base (ctx : Ctx) (s : Str) (t : Ty) (rest : List Tok) (hr : DeclStart rest)
    (h : basePlain ctx (.ident s :: rest) = .ok (t, none, rest)) :
    parseBase ctx (.ident s :: rest) = .ok (t, rest) := by
  cases hr <;> simp [parseBase, skipQuals, modifiers, h, bind, Except.bind]

/-- The specifier part of a well-formed leaf tokenizes to tokens that `parseBase` reads
back as that leaf. -/
theorem base_ok (ctx : Ctx) (L : FTy) (h : WFLeaf ctx L) :
    ∃ bt : List Tok, (∀ s, DelimStart s → run .idle (L.baseName ++ s) = bt ++ run .idle s) ∧
      (∀ rest, DeclStart rest → parseBase ctx (bt ++ rest) = .ok (L.toTy, rest)) := by
  cases h with
  | kwPrim ws hws =>
    exact ⟨ws.map classify, fun s hs => run_words ws s (kwPrim_words ws hws) hs,
      fun rest hr => kwPrim_base ctx ws hws rest hr⟩
  | stdPrim n hn hl =>
    obtain ⟨hw, hc⟩ := std_words n hn
    refine ⟨[.ident n], fun s hs => ?_, fun rest hr => ?_⟩
    · simp only [FTy.baseName]; rw [run_word n s hw hs, hc]; rfl
    · apply ident_base ctx n _ rest hr
      have : standardTypenames.contains n = true := List.contains_iff_mem.mpr hn
      simp only [basePlain, hl, this, ↓reduceIte]; rfl
  | struct tag c hp hl =>
    refine ⟨[.kw .struct_, .ident tag], fun s hs => ?_, fun rest hr => ?_⟩
    · simp only [FTy.baseName, aggName_plain _ tag hp]
      have := run_words ["struct".toList, tag] s (by intro w hw; simp at hw; rcases hw with rfl | rfl; decide; exact hp.word) hs
      have hk : classify "struct".toList = .kw .struct_ := by decide
      simp only [joinSp, List.map_cons, List.map_nil, hp.ident, hk] at this
      simpa using this
    · cases hr <;> simp [parseBase, skipQuals, modifiers, basePlain, hl, bind, Except.bind, FTy.toTy]
  | union tag c hp hl =>
    refine ⟨[.kw .union_, .ident tag], fun s hs => ?_, fun rest hr => ?_⟩
    · simp only [FTy.baseName, aggName_plain _ tag hp]
      have := run_words ["union".toList, tag] s (by intro w hw; simp at hw; rcases hw with rfl | rfl; decide; exact hp.word) hs
      have hk : classify "union".toList = .kw .union_ := by decide
      simp only [joinSp, List.map_cons, List.map_nil, hp.ident, hk] at this
      simpa using this
    · cases hr <;> simp [parseBase, skipQuals, modifiers, basePlain, hl, bind, Except.bind, FTy.toTy]
  | enum tag hp hl0 =>
    have hl : tag ∈ ctx.enums := List.contains_iff_mem.mp hl0
    refine ⟨[.kw .enum_, .ident tag], fun s hs => ?_, fun rest hr => ?_⟩
    · simp only [FTy.baseName, aggName_plain _ tag hp]
      have := run_words ["enum".toList, tag] s (by intro w hw; simp at hw; rcases hw with rfl | rfl; decide; exact hp.word) hs
      have hk : classify "enum".toList = .kw .enum_ := by decide
      simp only [joinSp, List.map_cons, List.map_nil, hp.ident, hk] at this
      simpa using this
    · cases hr <;> simp [parseBase, skipQuals, modifiers, basePlain, hl, bind, Except.bind, FTy.toTy]
  | file hl =>
    refine ⟨[.ident "FILE".toList], fun s hs => ?_, fun rest hr => ?_⟩
    · have : FTy.baseName (.agg .struct "_IO_FILE".toList) = "FILE".toList := by decide
      rw [this, run_word _ s (by decide) hs]; rfl
    · apply ident_base ctx _ _ rest hr
      have : standardTypenames.contains "FILE".toList = false := by decide
      simp only [basePlain, hl, this, FTy.toTy, ↓reduceIte, Bool.false_eq_true]
  | anon k c nm hc hd hw hi hl =>
    refine ⟨[.ident (c :: nm)], fun s hs => ?_, fun rest hr => ?_⟩
    · have : FTy.baseName (.agg k ('$' :: c :: nm)) = c :: nm := by
        simp only [FTy.baseName, aggName]
        simp [hc, hd]
      rw [this, run_word _ s hw hs, hi]; rfl
    · apply ident_base ctx _ _ rest hr
      simp only [basePlain, hl, FTy.toTy]

/-! ### Declarator texts `*…*[N]…[M]` and `ffi_getctype` -/

/-- The replacement text: `k` stars followed by bracketed lengths. -/
def declText (k : Nat) (lens : List (Option Nat)) : Str :=
  List.replicate k '*' ++ (lens.map lenText).flatten

/-- The type the declarator text denotes on top of `T`: array … of array of `k`-fold pointer to `T`. -/
def applyDecl (k : Nat) (lens : List (Option Nat)) (T : Ty) : Ty :=
  applySfx (lens.map Suffix.arr) (ptrN k T)

theorem arrOnly_map (lens : List (Option Nat)) (h : ∀ n, some n ∈ lens → n ≤ maxSsize) :
    ArrOnly (lens.map Suffix.arr) := by
  induction lens with
  | nil => simp [ArrOnly]
  | cons l lens ih =>
    cases l with
    | none => exact ih (fun n hn => h n (by simp [hn]))
    | some m => exact ⟨h m (by simp), ih (fun n hn => h n (by simp [hn]))⟩

theorem strip_eq_self (x : Str) (h1 : ∀ c, x.head? = some c → isSpaceC c = false)
    (h2 : ∀ c, x.getLast? = some c → isSpaceC c = false) : strip x = x := by
  have dw : ∀ y : Str, (∀ c, y.head? = some c → isSpaceC c = false) → y.dropWhile isSpaceC = y := by
    intro y hy
    cases y with
    | nil => rfl
    | cons c y => simp [List.dropWhile, hy c rfl]
  unfold strip
  rw [dw x h1, dw x.reverse (by intro c hc; rw [List.head?_reverse] at hc; exact h2 c hc)]
  simp

theorem lenText_ends (l : Option Nat) : ∃ m, lenText l = '[' :: (m ++ [']']) := by
  cases l with
  | none => exact ⟨[], rfl⟩
  | some n => exact ⟨dec n, rfl⟩

/-! ### Modifier order, number tokens of the three spellings -/

def isModifier (t : Tok) : Prop :=
  t = .kw .short_ ∨ t = .kw .long_ ∨ t = .kw .signed_ ∨ t = .kw .unsigned_

theorem modifiers_swap (a b : Tok) (ha : isModifier a) (hb : isModifier b) (r : List Tok) (l s : Int) :
    modifiers (a :: b :: r) l s = modifiers (b :: a :: r) l s := by
  rcases ha with rfl | rfl | rfl | rfl <;> rcases hb with rfl | rfl | rfl | rfl <;>
    simp only [modifiers] <;> repeat' split
  all_goals first | rfl | omega | (congr 1 <;> omega)

/-- `0x…` number token followed by a non-hex character. -/
theorem run_hex_number (hs s : Str) (h : ∀ c ∈ hs, isHexDigit c = true) (hst : NumStop s) :
    run .idle ('0' :: 'x' :: hs ++ s) = .int ('0' :: 'x' :: hs) :: run .idle s := by
  rw [List.cons_append, run_idle_cons]
  have e1 : fromIdle '0' = ([], .num1 ['0']) := by rfl
  have e2 : step (.num1 ['0']) 'x' = ([], .numRest ['0', 'x']) := by rfl
  rw [e1, List.cons_append, run, e2]
  simp only [List.nil_append]
  rw [run_numRest _ _ _ h hst]; rfl

end CffiVerif.TypeParser
