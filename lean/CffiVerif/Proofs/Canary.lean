import CffiVerif.Model.Canary

/-!
Inductive invariant of the `Canary` model (thread states, canaries, zombie list) and its
preservation by every event, including the zombie-freeing loop.
-/
namespace CffiVerif.Canary
set_option linter.unusedSimpArgs false
set_option linter.unusedVariables false

structure Inv (s : State) : Prop where
  a1 : ∀ t i, (s.thr t).ts = some i →
        (s.ts i).live = true ∧ (s.ts i).owner = t ∧ (s.thr t).alive = true ∧ i < s.nextTs
  a1c : ∀ t i, (s.thr t).ts = some i →
        (s.ts i).counter = (s.thr t).depth + (if (s.ts i).canary = true ∨ (s.thr t).python = true then 1 else 0)
  a2 : ∀ t i, (s.thr t).canary = some i →
        (s.ts i).canary = true ∧ (s.ts i).canTls = some t ∧ (s.thr t).tls = true ∧ (s.thr t).ts = some i
  a3 : ∀ i t, (s.ts i).canTls = some t → (s.thr t).canary = some i
  a4 : ∀ i, (s.ts i).canary = true → (s.ts i).live = true
  a5 : ∀ i, (s.ts i).zombie = true ↔ i ∈ s.zombies
  a5n : s.zombies.Nodup
  a6 : ∀ i, (s.ts i).zombie = true → (s.ts i).canary = true ∧ (s.ts i).canTls = none
  a7 : ∀ i, (s.ts i).live = true → (s.ts i).freed = 0
  a7' : ∀ i, (s.ts i).freed ≤ 1
  a8 : ∀ i, s.nextTs ≤ i → (s.ts i).live = false ∧ (s.ts i).freed = 0 ∧ (s.ts i).canary = false ∧
        (s.ts i).zombie = false ∧ (s.ts i).canTls = none ∧ (s.ts i).data = none
  a11 : ∀ t i, (s.thr t).ts = some i → (s.ts i).canary = true → (s.ts i).canTls = some t
  a12 : s.finalized = false → ∀ t, (s.thr t).ts = none → (s.thr t).depth = 0
  a13 : ∀ t, (s.thr t).alive = true → (s.thr t).started = true
  a14 : ∀ t, (s.thr t).started = false →
        (s.thr t).ts = none ∧ (s.thr t).canary = none ∧ (s.thr t).tls = false ∧ (s.thr t).depth = 0
  a15 : ∀ t i, (s.thr t).python = true → (s.thr t).ts = some i → (s.ts i).canary = false
  a16 : s.finalized = false → ∀ t, (s.thr t).alive = true → (s.thr t).python = true → (s.thr t).ts ≠ none

theorem inv_init : Inv init := by
  constructor <;> intros <;> simp_all [init]

/-- What one iteration of the zombie loop does, given the invariant. -/
theorem freeHead_eq {s : State} (hI : Inv s) (i : TsId) (rest : List TsId) (hz : s.zombies = i :: rest) :
    freeHead s = { s with zombies := rest,
                          ts := upd s.ts i { s.ts i with live := false, freed := (s.ts i).freed + 1, canary := false,
                                                         canTls := none, zombie := false, data := none } } := by
  have hzi : (s.ts i).zombie = true := (hI.a5 i).mpr (by simp [hz])
  have ⟨hc, ht⟩ := hI.a6 i hzi
  simp [freeHead, hz, clearTs, deleteTs, upd, hc, ht]
  funext j
  unfold upd
  by_cases h : j = i <;> simp [h]

theorem inv_freeHead {s : State} (hI : Inv s) : Inv (freeHead s) := by
  cases hz : s.zombies with
  | nil => simp [freeHead, hz]; exact hI
  | cons i rest =>
    rw [freeHead_eq hI i rest hz]
    have hzi : (s.ts i).zombie = true := (hI.a5 i).mpr (by simp [hz])
    have ⟨hc, ht⟩ := hI.a6 i hzi
    have hl := hI.a4 i hc
    have hnd := hI.a5n
    rw [hz] at hnd
    have hni : i ∉ rest := (List.nodup_cons.mp hnd).1
    have hnr : rest.Nodup := (List.nodup_cons.mp hnd).2
    have a1 := hI.a1; have a1c := hI.a1c; have a2 := hI.a2; have a3 := hI.a3; have a4 := hI.a4
    have a5 := hI.a5; have a6 := hI.a6; have a7 := hI.a7; have a7' := hI.a7'; have a8 := hI.a8
    have a11 := hI.a11; have a12 := hI.a12; have a13 := hI.a13; have a14 := hI.a14; have a15 := hI.a15; have a16 := hI.a16
    constructor <;> simp only [upd] <;> grind

theorem freeHead_frame {s : State} (hI : Inv s) :
    (freeHead s).thr = s.thr ∧ (freeHead s).nextTs = s.nextTs ∧ (freeHead s).finalized = s.finalized ∧
    (freeHead s).zombies = s.zombies.tail ∧ ∀ j, (s.ts j).zombie = false → (freeHead s).ts j = s.ts j := by
  cases hz : s.zombies with
  | nil => simp [freeHead, hz]
  | cons i rest =>
    rw [freeHead_eq hI i rest hz]
    have hzi : (s.ts i).zombie = true := (hI.a5 i).mpr (by simp [hz])
    refine ⟨rfl, rfl, rfl, by simp, ?_⟩
    intro j hj
    have : j ≠ i := by intro h; subst h; simp [hzi] at hj
    simp [upd, this]

theorem freeZombies_spec (n : Nat) {s : State} (hI : Inv s) (hn : s.zombies.length ≤ n) :
    Inv (freeZombies n s) ∧ (freeZombies n s).zombies = [] ∧ (freeZombies n s).thr = s.thr ∧
    (freeZombies n s).nextTs = s.nextTs ∧ (freeZombies n s).finalized = s.finalized ∧
    ∀ j, (s.ts j).zombie = false → (freeZombies n s).ts j = s.ts j := by
  induction n generalizing s with
  | zero =>
    have : s.zombies = [] := List.length_eq_zero_iff.mp (Nat.le_zero.mp hn)
    simp [freeZombies, this, hI]
  | succ n ih =>
    have hI' := inv_freeHead hI
    obtain ⟨ht, hx, hf, hz, hts⟩ := freeHead_frame hI
    have hlen : (freeHead s).zombies.length ≤ n := by
      rw [hz, List.length_tail]; omega
    obtain ⟨i1, i2, i3, i4, i5, i6⟩ := ih hI' hlen
    simp only [freeZombies]
    refine ⟨i1, i2, by rw [i3, ht], by rw [i4, hx], by rw [i5, hf], ?_⟩
    intro j hj
    have h1 := hts j hj
    rw [i6 j (by rw [h1]; exact hj), h1]

set_option hygiene false in
macro "inv_facts " hI:ident : tactic => `(tactic| (
  have a1 := ($hI).a1; have a1c := ($hI).a1c; have a2 := ($hI).a2; have a3 := ($hI).a3; have a4 := ($hI).a4
  have a5 := ($hI).a5; have a5n := ($hI).a5n; have a6 := ($hI).a6; have a7 := ($hI).a7; have a7' := ($hI).a7'
  have a8 := ($hI).a8; have a11 := ($hI).a11; have a12 := ($hI).a12; have a13 := ($hI).a13
  have a14 := ($hI).a14; have a15 := ($hI).a15; have a16 := ($hI).a16))

theorem inv_spawn {s s' : State} (hI : Inv s) (t : Tid) (py : Bool) (h : step? s (.spawn t py) = some s') :
    Inv s' := by
  simp only [step?] at h
  split at h
  · simp at h
  · rename_i hg
    inv_facts hI
    split at h <;> cases h <;> constructor <;> simp only [upd] <;> grind

theorem inv_enter_old {s s' : State} (hI : Inv s) (t : Tid) (i : TsId) (hts : (s.thr t).ts = some i)
    (h : step? s (.enter t) = some s') : Inv s' := by
  simp only [step?, hts] at h
  split at h
  · cases h
    inv_facts hI
    constructor <;> simp only [upd] <;> grind
  · simp at h

theorem inv_setData {s s' : State} (hI : Inv s) (t : Tid) (v : Nat) (h : step? s (.setData t v) = some s') :
    Inv s' := by
  simp only [step?] at h
  split at h
  · simp at h
  · split at h
    · simp at h
    · cases h
      inv_facts hI
      constructor <;> simp only [upd] <;> grind

/-- the state after `PyGILState_Ensure()` made a thread state for `t`, before `thread_canary_register` -/
def allocFor (s : State) (t : Tid) : State :=
  { s with nextTs := s.nextTs + 1,
           ts := upd s.ts s.nextTs { live := true, counter := 1, owner := t },
           thr := upd s.thr t { s.thr t with ts := some s.nextTs, depth := (s.thr t).depth + 1 } }

theorem inv_alloc {s : State} (hI : Inv s) (t : Tid) (ha : (s.thr t).alive = true) (hf : s.finalized = false)
    (hts : (s.thr t).ts = none) : Inv (allocFor s t) := by
  inv_facts hI
  have hd := a12 hf t hts
  constructor <;> simp only [allocFor, upd] <;> grind

/-- `thread_canary_register` after the zombies are gone: the canary is created and linked -/
def registerFor (s2 : State) (t : Tid) (i : TsId) : State :=
  { s2 with ts := upd s2.ts i { s2.ts i with canary := true, canTls := some t, counter := (s2.ts i).counter + 1 },
            thr := upd s2.thr t { s2.thr t with tls := true, canary := some i } }

theorem step_enter_new {s s' : State} (t : Tid) (hts : (s.thr t).ts = none)
    (h : step? s (.enter t) = some s') :
    (s.thr t).alive = true ∧ s.finalized = false ∧
    s' = registerFor (freeZombies (allocFor s t).zombies.length (allocFor s t)) t s.nextTs := by
  simp only [step?, hts] at h
  split at h
  · rename_i hg
    cases h
    refine ⟨hg.1, by simpa using hg.2, ?_⟩
    rfl
  · simp at h

theorem inv_enter_new {s s' : State} (hI : Inv s) (t : Tid) (hts : (s.thr t).ts = none)
    (h : step? s (.enter t) = some s') : Inv s' ∧ s'.zombies = [] := by
  obtain ⟨ha, hf, hs'⟩ := step_enter_new t hts h
  have hI1 := inv_alloc hI t ha hf hts
  obtain ⟨hI2, hz, hthr, hnx, hfin, hsame⟩ := freeZombies_spec (allocFor s t).zombies.length hI1 (Nat.le_refl _)
  have hfresh : ((allocFor s t).ts s.nextTs).zombie = false := by simp [allocFor, upd]
  have hsi := hsame s.nextTs hfresh
  generalize freeZombies (allocFor s t).zombies.length (allocFor s t) = s2 at *
  have e1 : s2.ts s.nextTs = { live := true, counter := 1, owner := t } := by rw [hsi]; simp [allocFor, upd]
  have e2 : s2.thr t = { s.thr t with ts := some s.nextTs, depth := (s.thr t).depth + 1 } := by
    rw [hthr]; simp [allocFor, upd]
  have e3 : s2.nextTs = s.nextTs + 1 := by rw [hnx]; simp [allocFor]
  have e4 : ∀ u, u ≠ t → s2.thr u = s.thr u := by intro u hu; rw [hthr]; simp [allocFor, upd, hu]
  have hcan : (s.thr t).canary = none := by
    cases hc : (s.thr t).canary with
    | none => rfl
    | some j => have := (hI.a2 t j hc).2.2.2; simp [hts] at this
  subst hs'
  refine ⟨?_, hz⟩
  inv_facts hI2
  constructor <;> simp only [registerFor, upd] <;> grind

theorem clearTs_nocanary {s : State} {i : TsId} (h : (s.ts i).canary = false) :
    clearTs s i = { s with ts := upd s.ts i { s.ts i with data := none } } := by
  simp [clearTs, h]

theorem upd_same {α : Type} (f : Nat → α) (i : Nat) (v : α) : upd f i v i = v := by simp [upd]
theorem upd_other {α : Type} (f : Nat → α) (i j : Nat) (v : α) (h : j ≠ i) : upd f i v j = f j := by simp [upd, h]
theorem upd_upd {α : Type} (f : Nat → α) (i : Nat) (v w : α) : upd (upd f i v) i w = upd f i w := by
  funext j; by_cases h : j = i <;> simp [upd, h]

theorem inv_exit {s s' : State} (hI : Inv s) (t : Tid) (h : step? s (.exit t) = some s') : Inv s' := by
  simp only [step?] at h
  split at h
  · simp at h
  · rename_i hd
    split at h
    · simp at h
    · rename_i i hts
      inv_facts hI
      have h1 := a1 t i hts
      have h1c := a1c t i hts
      split at h
      · -- the counter reached 0: only for a thread state without canary of a non-Python thread
        rename_i hc
        have hcan : (s.ts i).canary = false := by
          cases hcc : (s.ts i).canary with
          | false => rfl
          | true => simp [hcc] at h1c; omega
        rw [clearTs_nocanary (by simp [upd_same, hcan])] at h
        simp only [deleteTs, upd_same, upd_upd] at h
        cases h
        constructor <;> simp only [upd] <;> grind
      · cases h
        constructor <;> simp only [upd] <;> grind

theorem python_no_canary {s : State} (hI : Inv s) (t : Tid) (hp : (s.thr t).python = true) :
    (s.thr t).canary = none := by
  cases hc : (s.thr t).canary with
  | none => rfl
  | some j =>
    have h2 := hI.a2 t j hc
    have := hI.a15 t j hp h2.2.2.2
    simp [h2.1] at this

theorem tlsDestructor_nocanary {s : State} {t : Tid} (h : (s.thr t).canary = none) :
    tlsDestructor s t = some s := by
  simp [tlsDestructor, h]

/-- the thread record of an ended thread -/
def deadThr (python : Bool) : Thr := { started := true, alive := false, python := python }

theorem inv_te_plain {s : State} (hI : Inv s) (t : Tid) (ha : (s.thr t).alive = true)
    (hd : (s.thr t).depth = 0) (hc : (s.thr t).canary = none) (hts : (s.thr t).python = true → (s.thr t).ts = none) :
    Inv { s with thr := upd s.thr t (deadThr (s.thr t).python) } := by
  inv_facts hI
  constructor <;> simp only [upd, deadThr] <;> grind

theorem inv_te_python {s : State} (hI : Inv s) (t : Tid) (i : TsId) (ha : (s.thr t).alive = true)
    (hd : (s.thr t).depth = 0) (hp : (s.thr t).python = true) (hts : (s.thr t).ts = some i) :
    Inv { s with ts := upd s.ts i { s.ts i with data := none, live := false, freed := (s.ts i).freed + 1 },
                 thr := upd s.thr t (deadThr (s.thr t).python) } := by
  inv_facts hI
  have hcan := python_no_canary hI t hp
  have hci := a15 t i hp hts
  constructor <;> simp only [upd, deadThr] <;> grind

theorem inv_te_canary {s : State} (hI : Inv s) (t : Tid) (j : TsId) (ha : (s.thr t).alive = true)
    (hd : (s.thr t).depth = 0) (hp : (s.thr t).python = false) (hc : (s.thr t).canary = some j) :
    Inv { s with zombies := s.zombies ++ [j],
                 ts := upd s.ts j { s.ts j with canTls := none, zombie := true },
                 thr := upd s.thr t (deadThr (s.thr t).python) } := by
  inv_facts hI
  have h2 := a2 t j hc
  have hnz : (s.ts j).zombie = false := by
    cases hz : (s.ts j).zombie with
    | false => rfl
    | true => have := (a6 j hz).2; simp [h2.2.1] at this
  have hnm : j ∉ s.zombies := by intro hm; have := (a5 j).mpr hm; simp [hnz] at this
  have hnd : (s.zombies ++ [j]).Nodup := by
    rw [List.nodup_append]
    refine ⟨a5n, by simp, ?_⟩
    intro a ha b hb
    simp at hb
    subst hb
    intro h; subst h; exact hnm ha
  constructor <;> simp only [upd, deadThr] <;> grind

theorem step_threadExit {s s' : State} (hI : Inv s) (t : Tid) (h : step? s (.threadExit t) = some s') :
    (s.thr t).alive = true ∧ (s.thr t).depth = 0 ∧
    ((s.thr t).canary = none ∧ ((s.thr t).python = true → (s.thr t).ts = none) ∧
        s' = { s with thr := upd s.thr t (deadThr (s.thr t).python) } ∨
     (∃ i, (s.thr t).python = true ∧ (s.thr t).ts = some i ∧
        s' = { s with ts := upd s.ts i { s.ts i with data := none, live := false, freed := (s.ts i).freed + 1 },
                      thr := upd s.thr t (deadThr (s.thr t).python) }) ∨
     (∃ j, (s.thr t).python = false ∧ (s.thr t).canary = some j ∧
        s' = { s with zombies := s.zombies ++ [j],
                      ts := upd s.ts j { s.ts j with canTls := none, zombie := true },
                      thr := upd s.thr t (deadThr (s.thr t).python) })) := by
  simp only [step?] at h
  split at h
  · rename_i hg
    obtain ⟨ha, hd⟩ := hg
    refine ⟨ha, hd, ?_⟩
    cases hp : (s.thr t).python with
    | true =>
      have hcan := python_no_canary hI t hp
      cases hts : (s.thr t).ts with
      | none =>
        have hs1 : pythonEpilogue s t = s := by simp [pythonEpilogue, hp, hts]
        rw [hs1, tlsDestructor_nocanary hcan] at h
        cases h
        left
        exact ⟨hcan, fun _ => rfl, by simp [deadThr, hp]⟩
      | some i =>
        have hci := hI.a15 t i hp hts
        have hs1 : pythonEpilogue s t = deleteTs (clearTs s i) i := by simp [pythonEpilogue, hp, hts]
        rw [hs1, clearTs_nocanary hci] at h
        simp only [deleteTs, upd_same, upd_upd] at h
        rw [tlsDestructor_nocanary (by simpa using hcan)] at h
        cases h
        right; left
        exact ⟨i, rfl, rfl, by simp [deadThr, hp]⟩
    | false =>
      have hs1 : pythonEpilogue s t = s := by simp [pythonEpilogue, hp]
      rw [hs1] at h
      cases hc : (s.thr t).canary with
      | none =>
        rw [tlsDestructor_nocanary hc] at h
        cases h
        left
        exact ⟨rfl, by simp, by simp [deadThr, hp]⟩
      | some j =>
        have h2 := hI.a2 t j hc
        have hnz : (s.ts j).zombie = false := by
          cases hz : (s.ts j).zombie with
          | false => rfl
          | true => have := (hI.a6 j hz).2; simp [h2.2.1] at this
        simp only [tlsDestructor, h2.2.2.1, hc, hnz, if_true] at h
        simp at h
        cases h
        right; right
        exact ⟨j, rfl, rfl, by simp [deadThr, hp]⟩
  · simp at h

theorem inv_threadExit {s s' : State} (hI : Inv s) (t : Tid) (h : step? s (.threadExit t) = some s') :
    Inv s' := by
  obtain ⟨ha, hd, h1 | ⟨i, hp, hts, rfl⟩ | ⟨j, hp, hc, rfl⟩⟩ := step_threadExit hI t h
  · obtain ⟨hc, hts, rfl⟩ := h1
    exact inv_te_plain hI t ha hd hc hts
  · exact inv_te_python hI t i ha hd hp hts
  · exact inv_te_canary hI t j ha hd hp hc

theorem inv_finalize {s s' : State} (hI : Inv s) (h : step? s .finalize = some s') : Inv s' := by
  simp only [step?] at h
  split at h
  · simp at h
  · cases h
    inv_facts hI
    constructor <;> simp only [] <;> grind

theorem inv_step {s s' : State} {l : Label} (hI : Inv s) (h : step? s l = some s') : Inv s' := by
  cases l with
  | spawn t py => exact inv_spawn hI t py h
  | enter t =>
    cases hts : (s.thr t).ts with
    | none => exact (inv_enter_new hI t hts h).1
    | some i => exact inv_enter_old hI t i hts h
  | exit t => exact inv_exit hI t h
  | setData t v => exact inv_setData hI t v h
  | threadExit t => exact inv_threadExit hI t h
  | finalize => exact inv_finalize hI h

theorem reachable_inv {s : State} (h : Reachable s) : Inv s := by
  induction h with
  | init => exact inv_init
  | step l _ hs ih => exact inv_step ih hs

end CffiVerif.Canary
