import CffiVerif.Model.Flatten
import CffiVerif.Generated.FlattenPy

/-! Lemmas behind the C32 theorems: the digit printer is inverted by a
left-to-right evaluation, the parser inverts `flatten`, insertion sort by key
is a function of the multiset of items when the keys are distinct. -/
namespace CffiVerif.Flatten

/-! ### digits -/

theorem digitsAux_acc (b f n : Nat) (acc : List Nat) :
    digitsAux b f n acc = digitsAux b f n [] ++ acc := by
  induction f generalizing n acc with
  | zero => simp [digitsAux]
  | succ f ih =>
    unfold digitsAux
    split
    · simp
    · rw [ih (n / b) (digitChar (n % b) :: acc), ih (n / b) [digitChar (n % b)]]
      simp

theorem natDigits_ne_nil (b n : Nat) : natDigits b n ≠ [] := by
  unfold natDigits digitsAux
  split
  · simp
  · rw [digitsAux_acc]; simp

/-- evaluating the printed digits from the left gives the number back, for any
digit-value function `g` that inverts `digitChar` below the base -/
theorem foldl_digitsAux (b : Nat) (g : Nat → Nat) (hb : 2 ≤ b)
    (hg : ∀ d, d < b → g (digitChar d) = d) (f n : Nat) (h : n < f) :
    (digitsAux b f n []).foldl (fun a c => a * b + g c) 0 = n := by
  induction f generalizing n with
  | zero => omega
  | succ f ih =>
    unfold digitsAux
    split
    · rename_i hn
      simp [hg n hn]
    · rename_i hn
      have hlt : n / b < n := Nat.div_lt_self (by omega) (by omega)
      rw [digitsAux_acc, List.foldl_append, ih (n / b) (by omega)]
      simp only [List.foldl_cons, List.foldl_nil]
      rw [hg _ (Nat.mod_lt _ (by omega))]
      exact Nat.div_add_mod' n b

theorem foldl_natDigits (b : Nat) (g : Nat → Nat) (hb : 2 ≤ b)
    (hg : ∀ d, d < b → g (digitChar d) = d) (n : Nat) :
    (natDigits b n).foldl (fun a c => a * b + g c) 0 = n :=
  foldl_digitsAux b g hb hg (n + 1) n (by omega)

/-- every printed character is the character of a digit below the base -/
theorem mem_digitsAux (b : Nat) (hb : 2 ≤ b) (f n : Nat) :
    ∀ c ∈ digitsAux b f n [], ∃ d, d < b ∧ c = digitChar d := by
  induction f generalizing n with
  | zero => simp [digitsAux]
  | succ f ih =>
    unfold digitsAux
    split
    · rename_i hn
      intro c hc
      simp at hc
      exact ⟨n, hn, hc⟩
    · intro c hc
      rw [digitsAux_acc] at hc
      simp only [List.mem_append, List.mem_singleton] at hc
      rcases hc with hc | hc
      · exact ih _ c hc
      · exact ⟨n % b, Nat.mod_lt _ (by omega), hc⟩

theorem mem_natDigits (b : Nat) (hb : 2 ≤ b) (n : Nat) :
    ∀ c ∈ natDigits b n, ∃ d, d < b ∧ c = digitChar d := mem_digitsAux b hb _ _

theorem isDec_of_mem_natDigits (n c : Nat) (h : c ∈ natDigits 10 n) : isDec c = true := by
  obtain ⟨d, hd, rfl⟩ := mem_natDigits 10 (by omega) n c h
  simp [isDec, digitChar, hd]
  omega

theorem natDigits_injective (b : Nat) (hb : 2 ≤ b) (_hb' : b ≤ 16) (n m : Nat)
    (h : natDigits b n = natDigits b m) : n = m := by
  have hg : ∀ d, d < b → (fun c => if c < 58 then c - 48 else c - 87) (digitChar d) = d := by
    intro d hd
    simp only [digitChar]
    split <;> split <;> omega
  have h1 := foldl_natDigits b (fun c => if c < 58 then c - 48 else c - 87) hb hg n
  have h2 := foldl_natDigits b (fun c => if c < 58 then c - 48 else c - 87) hb hg m
  rw [h] at h1
  omega

/-! ### reading numbers back -/

theorem readNat_append (ds : List Nat) (t : Nat) (rest : List Nat) (a : Nat)
    (hds : ∀ c ∈ ds, isDec c = true) (ht : isDec t = false) :
    readNat (ds ++ t :: rest) a = (ds.foldl (fun a c => a * 10 + (c - 48)) a, t :: rest) := by
  induction ds generalizing a with
  | nil => simp [readNat, ht]
  | cons d ds ih =>
    have hd : isDec d = true := hds d (by simp)
    simp only [List.cons_append, readNat, hd, if_true, List.foldl_cons]
    exact ih _ (fun c hc => hds c (by simp [hc]))

theorem readNat_natDigits (n t : Nat) (rest : List Nat) (ht : isDec t = false) :
    readNat (natDigits 10 n ++ t :: rest) 0 = (n, t :: rest) := by
  rw [readNat_append _ _ _ _ (isDec_of_mem_natDigits n) ht]
  have := foldl_natDigits 10 (fun c => c - 48) (by omega)
    (by intro d hd; simp only [digitChar, hd, if_true]; omega) n
  rw [this]

theorem parseHeader_nat (n t : Nat) (rest : List Nat) (ht : isDec t = false) :
    parseHeader (natDigits 10 n ++ t :: rest) = some (false, n, t, rest) := by
  have hne := natDigits_ne_nil 10 n
  cases hx : natDigits 10 n with
  | nil => exact absurd hx hne
  | cons c cs =>
    have hc : isDec c = true := isDec_of_mem_natDigits n c (by rw [hx]; simp)
    have hc45 : c ≠ 45 := by
      intro h; subst h; simp [isDec] at hc
    have := readNat_natDigits n t rest ht
    rw [hx] at this
    simp only [List.cons_append] at this ⊢
    simp only [parseHeader, hc45, if_false, this]

theorem parseHeader_int (i : Int) (t : Nat) (rest : List Nat) (ht : isDec t = false) :
    parseHeader (intDigits i ++ t :: rest) = some (decide (i < 0), i.natAbs, t, rest) := by
  unfold intDigits
  split
  · rename_i hneg
    simp only [List.cons_append, parseHeader, if_true, readNat_natDigits _ _ _ ht, hneg, decide_true]
  · rename_i hpos
    rw [parseHeader_nat _ _ _ ht]
    have : i.toNat = i.natAbs := by omega
    simp only [hpos, decide_false, this]

theorem int_of_header (i : Int) :
    (if decide (i < 0) = true then -((i.natAbs : Nat) : Int) else ((i.natAbs : Nat) : Int)) = i := by
  split
  · rename_i h; simp at h; omega
  · rename_i h; simp at h; omega

theorem parseKey_flattenKey (k : Key) (rest : List Nat) :
    parseKey (flattenKey k ++ rest) = some (k, rest) := by
  cases k with
  | int i =>
    simp only [flattenKey, List.append_assoc, List.singleton_append, parseKey,
      parseHeader_int i 105 rest (by decide), int_of_header]
  | str s =>
    simp only [flattenKey, List.append_assoc, List.cons_append, parseKey,
      parseHeader_nat s.length 115 (s ++ rest) (by decide)]
    simp

/-! ### sorting -/

theorem strLe_total (a b : Str) : strLe a b = true ∨ strLe b a = true := by
  induction a generalizing b with
  | nil => simp [strLe]
  | cons x xs ih =>
    cases b with
    | nil => simp [strLe]
    | cons y ys =>
      simp only [strLe]
      by_cases h1 : x < y
      · simp [h1]
      · by_cases h2 : y < x
        · simp [h1, h2]
        · simp only [h1, h2, if_false]; exact ih ys

theorem strLe_trans (a b c : Str) (h1 : strLe a b = true) (h2 : strLe b c = true) :
    strLe a c = true := by
  induction a generalizing b c with
  | nil => simp [strLe]
  | cons x xs ih =>
    cases b with
    | nil => simp [strLe] at h1
    | cons y ys =>
      cases c with
      | nil => simp [strLe] at h2
      | cons z zs =>
        simp only [strLe] at h1 h2 ⊢
        by_cases hxy : x < y
        · by_cases hyz : y < z
          · have : x < z := by omega
            simp [this]
          · by_cases hzy : z < y
            · simp [hyz, hzy] at h2
            · have : x < z := by omega
              simp [this]
        · by_cases hyx : y < x
          · simp [hxy, hyx] at h1
          · simp only [hxy, hyx, if_false] at h1
            have hxy' : x = y := by omega
            subst hxy'
            by_cases hxz : x < z
            · simp [hxz]
            · by_cases hzx : z < x
              · simp [hxz, hzx] at h2
              · simp only [hxz, hzx, if_false] at h2 ⊢
                exact ih ys zs h1 h2

theorem strLe_antisymm (a b : Str) (h1 : strLe a b = true) (h2 : strLe b a = true) : a = b := by
  induction a generalizing b with
  | nil => cases b with
    | nil => rfl
    | cons y ys => simp [strLe] at h2
  | cons x xs ih =>
    cases b with
    | nil => simp [strLe] at h1
    | cons y ys =>
      simp only [strLe] at h1 h2
      by_cases hxy : x < y
      · have : ¬ y < x := by omega
        simp [hxy, this] at h2
      · by_cases hyx : y < x
        · simp [hxy, hyx] at h1
        · simp only [hxy, hyx, if_false] at h1 h2
          have : x = y := by omega
          subst this
          rw [ih ys h1 h2]

theorem Key.le_total (a b : Key) : Key.le a b = true ∨ Key.le b a = true := by
  cases a <;> cases b <;> simp only [Key.le, decide_eq_true_eq]
  · omega
  · simp
  · simp
  · exact strLe_total _ _

theorem Key.le_trans (a b c : Key) (h1 : Key.le a b = true) (h2 : Key.le b c = true) :
    Key.le a c = true := by
  cases a <;> cases b <;> cases c <;> simp only [Key.le, decide_eq_true_eq] at h1 h2 ⊢ <;>
    first
      | omega
      | exact strLe_trans _ _ _ h1 h2
      | (simp at h1; done)
      | (simp at h2; done)

theorem Key.le_antisymm (a b : Key) (h1 : Key.le a b = true) (h2 : Key.le b a = true) : a = b := by
  cases a <;> cases b <;> simp only [Key.le, decide_eq_true_eq] at h1 h2
  · congr; omega
  · simp at h2
  · simp at h1
  · rw [strLe_antisymm _ _ h1 h2]

/-- sorted by key -/
def SortedPairs {α : Type} (l : List (Key × α)) : Prop :=
  l.Pairwise (fun p q => Key.le p.1 q.1 = true)

theorem insertPair_perm {α : Type} (p : Key × α) (l : List (Key × α)) :
    (insertPair p l).Perm (p :: l) := by
  induction l with
  | nil => simp [insertPair]
  | cons q qs ih =>
    simp only [insertPair]
    split
    · exact List.Perm.refl _
    · exact (List.Perm.cons q ih).trans (List.Perm.swap p q qs)

theorem sortPairs_perm {α : Type} (l : List (Key × α)) : (sortPairs l).Perm l := by
  induction l with
  | nil => simp [sortPairs]
  | cons p ps ih =>
    simp only [sortPairs]
    exact (insertPair_perm p _).trans (List.Perm.cons p ih)

theorem insertPair_sorted {α : Type} (p : Key × α) (l : List (Key × α)) (h : SortedPairs l) :
    SortedPairs (insertPair p l) := by
  induction l with
  | nil => simp [insertPair, SortedPairs]
  | cons q qs ih =>
    simp only [insertPair]
    unfold SortedPairs at h ⊢
    split
    · rename_i hpq
      rw [List.pairwise_cons]
      refine ⟨?_, h⟩
      intro r hr
      rcases List.mem_cons.mp hr with rfl | hr
      · exact hpq
      · exact Key.le_trans _ _ _ hpq ((List.pairwise_cons.mp h).1 r hr)
    · rename_i hpq
      have hqp : Key.le q.1 p.1 = true := by
        rcases Key.le_total p.1 q.1 with h' | h'
        · exact absurd h' hpq
        · exact h'
      rw [List.pairwise_cons] at h ⊢
      refine ⟨?_, ih h.2⟩
      intro r hr
      have := (insertPair_perm p qs).subset hr
      rcases List.mem_cons.mp this with rfl | hr'
      · exact hqp
      · exact h.1 r hr'

theorem sortPairs_sorted {α : Type} (l : List (Key × α)) : SortedPairs (sortPairs l) := by
  induction l with
  | nil => simp [sortPairs, SortedPairs]
  | cons p ps ih => exact insertPair_sorted p _ ih

theorem sortPairs_length {α : Type} (l : List (Key × α)) : (sortPairs l).length = l.length :=
  (sortPairs_perm l).length_eq

/-- two items with the same key are the same item when keys are distinct -/
theorem eq_of_key_eq {α : Type} (l : List (Key × α)) (hnd : (l.map Prod.fst).Nodup)
    (a b : Key × α) (ha : a ∈ l) (hb : b ∈ l) (hk : a.1 = b.1) : a = b := by
  induction l with
  | nil => simp at ha
  | cons x xs ih =>
    simp only [List.map_cons, List.nodup_cons] at hnd
    rcases List.mem_cons.mp ha with rfl | ha' <;> rcases List.mem_cons.mp hb with rfl | hb'
    · rfl
    · exact absurd (List.mem_map.mpr ⟨b, hb', hk.symm⟩) hnd.1
    · exact absurd (List.mem_map.mpr ⟨a, ha', hk⟩) hnd.1
    · exact ih hnd.2 ha' hb'

/-- **sorting forgets the insertion order** of a dict -/
theorem sortPairs_eq_of_perm {α : Type} (l l' : List (Key × α)) (hp : l.Perm l')
    (hnd : (l.map Prod.fst).Nodup) : sortPairs l = sortPairs l' := by
  have hperm : (sortPairs l).Perm (sortPairs l') :=
    (sortPairs_perm l).trans (hp.trans (sortPairs_perm l').symm)
  refine List.Perm.eq_of_pairwise (le := fun (p q : Key × α) => Key.le p.1 q.1 = true) ?_
    (sortPairs_sorted l) (sortPairs_sorted l') hperm
  intro a b ha hb h1 h2
  have ha' : a ∈ l := (sortPairs_perm l).subset ha
  have hb' : b ∈ l := hp.symm.subset ((sortPairs_perm l').subset hb)
  exact eq_of_key_eq l hnd a b ha' hb' (Key.le_antisymm _ _ h1 h2)

theorem insertPair_map {α β : Type} (g : α → β) (p : Key × α) (l : List (Key × α)) :
    insertPair (p.1, g p.2) (l.map fun q => (q.1, g q.2)) = (insertPair p l).map fun q => (q.1, g q.2) := by
  induction l with
  | nil => simp [insertPair]
  | cons q qs ih =>
    simp only [List.map_cons, insertPair]
    split
    · simp
    · simp [ih]

theorem sortPairs_map {α β : Type} (g : α → β) (l : List (Key × α)) :
    sortPairs (l.map fun q => (q.1, g q.2)) = (sortPairs l).map fun q => (q.1, g q.2) := by
  induction l with
  | nil => simp [sortPairs]
  | cons p ps ih =>
    simp only [List.map_cons, sortPairs, ih]
    exact insertPair_map g p _

/-! ### the parser inverts `flatten` -/

theorem flattenPairs_eq_map (kvs : List (Key × Val)) :
    flattenPairs kvs = kvs.map fun q => (q.1, flatten q.2) := by
  induction kvs with
  | nil => simp [flattenPairs]
  | cons p ps ih => obtain ⟨k, v⟩ := p; simp [flattenPairs, ih]

theorem canonPairs_eq_map (kvs : List (Key × Val)) :
    canonPairs kvs = kvs.map fun q => (q.1, canon q.2) := by
  induction kvs with
  | nil => simp [canonPairs]
  | cons p ps ih => obtain ⟨k, v⟩ := p; simp [canonPairs, ih]

theorem joinPairs_append (l : List (Key × Str)) (rest : Str) (p : Key × Str) :
    joinPairs (p :: l) ++ rest = flattenKey p.1 ++ (p.2 ++ (joinPairs l ++ rest)) := by
  obtain ⟨k, s⟩ := p
  simp [joinPairs]

/-- items whose values all parse back are parsed back as a sequence -/
theorem parseMany_pairs (fuel : Nat) (ps : List (Key × Val))
    (h : ∀ p ∈ ps, ∀ rest, parseVal fuel (flatten p.2 ++ rest) = some (canon p.2, rest))
    (rest : Str) :
    parseMany (parsePair (parseVal fuel)) ps.length
        (joinPairs (ps.map fun q => (q.1, flatten q.2)) ++ rest)
      = some (ps.map fun q => (q.1, canon q.2), rest) := by
  induction ps with
  | nil => simp [parseMany, joinPairs]
  | cons p ps ih =>
    have hp := h p (by simp)
    have ih' := ih (fun q hq => h q (by simp [hq]))
    simp only [List.map_cons, List.length_cons, joinPairs_append, parseMany, parsePair,
      parseKey_flattenKey, hp, ih']

theorem parseMany_list (fuel : Nat) (xs : List Val)
    (h : ∀ x ∈ xs, ∀ rest, parseVal fuel (flatten x ++ rest) = some (canon x, rest))
    (rest : Str) :
    parseMany (parseVal fuel) xs.length (flattenList xs ++ rest) = some (canonList xs, rest) := by
  induction xs with
  | nil => simp [parseMany, flattenList, canonList]
  | cons x xs ih =>
    have hx := h x (by simp)
    have ih' := ih (fun q hq => h q (by simp [hq]))
    simp only [List.length_cons, flattenList, List.append_assoc, parseMany, hx, ih', canonList]

mutual
theorem parse_flatten_aux : (v : Val) →
    ∃ f, ∀ fuel, f ≤ fuel → ∀ rest, parseVal fuel (flatten v ++ rest) = some (canon v, rest)
  | .int i => ⟨1, by
      intro fuel hf rest
      obtain ⟨f', rfl⟩ : ∃ f', fuel = f' + 1 := ⟨fuel - 1, by omega⟩
      simp only [flatten, List.append_assoc, List.singleton_append, parseVal,
        parseHeader_int i 105 rest (by decide), int_of_header, canon]⟩
  | .str s => ⟨1, by
      intro fuel hf rest
      obtain ⟨f', rfl⟩ : ∃ f', fuel = f' + 1 := ⟨fuel - 1, by omega⟩
      simp only [flatten, List.append_assoc, List.cons_append, parseVal,
        parseHeader_nat s.length 115 (s ++ rest) (by decide), canon]
      simp⟩
  | .list xs => by
      obtain ⟨f, hf⟩ := parse_flatten_list xs
      refine ⟨f + 1, ?_⟩
      intro fuel hfu rest
      obtain ⟨f', rfl⟩ : ∃ f', fuel = f' + 1 := ⟨fuel - 1, by omega⟩
      have := parseMany_list f' xs (hf f' (by omega)) rest
      simp only [flatten, List.append_assoc, List.cons_append, parseVal,
        parseHeader_nat xs.length 108 (flattenList xs ++ rest) (by decide), this, canon]
  | .dict kvs => by
      obtain ⟨f, hf⟩ := parse_flatten_pairs kvs
      refine ⟨f + 1, ?_⟩
      intro fuel hfu rest
      obtain ⟨f', rfl⟩ : ∃ f', fuel = f' + 1 := ⟨fuel - 1, by omega⟩
      have hmem : ∀ p ∈ sortPairs kvs, ∀ rest,
          parseVal f' (flatten p.2 ++ rest) = some (canon p.2, rest) :=
        fun p hp => hf f' (by omega) p ((sortPairs_perm kvs).subset hp)
      have := parseMany_pairs f' (sortPairs kvs) hmem rest
      rw [sortPairs_length] at this
      simp only [flatten, List.append_assoc, List.cons_append, parseVal, flattenPairs_eq_map,
        sortPairs_map, canonPairs_eq_map,
        parseHeader_nat kvs.length 100 _ (by decide), this, canon]
theorem parse_flatten_list : (xs : List Val) →
    ∃ f, ∀ fuel, f ≤ fuel → ∀ x ∈ xs, ∀ rest,
      parseVal fuel (flatten x ++ rest) = some (canon x, rest)
  | [] => ⟨0, by simp⟩
  | x :: xs => by
      obtain ⟨f1, h1⟩ := parse_flatten_aux x
      obtain ⟨f2, h2⟩ := parse_flatten_list xs
      refine ⟨max f1 f2, ?_⟩
      intro fuel hfu y hy rest
      rcases List.mem_cons.mp hy with rfl | hy
      · exact h1 fuel (by omega) rest
      · exact h2 fuel (by omega) y hy rest
theorem parse_flatten_pairs : (kvs : List (Key × Val)) →
    ∃ f, ∀ fuel, f ≤ fuel → ∀ p ∈ kvs, ∀ rest,
      parseVal fuel (flatten p.2 ++ rest) = some (canon p.2, rest)
  | [] => ⟨0, by simp⟩
  | (k, v) :: kvs => by
      obtain ⟨f1, h1⟩ := parse_flatten_aux v
      obtain ⟨f2, h2⟩ := parse_flatten_pairs kvs
      refine ⟨max f1 f2, ?_⟩
      intro fuel hfu y hy rest
      rcases List.mem_cons.mp hy with rfl | hy
      · exact h1 fuel (by omega) rest
      · exact h2 fuel (by omega) y hy rest
end

/-! ### joining with NUL -/

def NoNul (s : Str) : Prop := ∀ c ∈ s, c ≠ 0

/-- splitting at the first NUL is unambiguous when the text before it has none -/
theorem append_nul_inj (p q r s : Str) (hp : NoNul p) (hq : NoNul q)
    (h : p ++ 0 :: r = q ++ 0 :: s) : p = q ∧ r = s := by
  induction p generalizing q with
  | nil =>
    cases q with
    | nil => simpa using h
    | cons y ys =>
      simp only [List.nil_append, List.cons_append, List.cons.injEq] at h
      exact absurd h.1.symm (hq y (by simp))
  | cons x xs ih =>
    cases q with
    | nil =>
      simp only [List.nil_append, List.cons_append, List.cons.injEq] at h
      exact absurd h.1 (hp x (by simp))
    | cons y ys =>
      simp only [List.cons_append, List.cons.injEq] at h
      have := ih ys (fun c hc => hp c (by simp [hc])) (fun c hc => hq c (by simp [hc])) h.2
      exact ⟨by rw [h.1, this.1], this.2⟩

theorem noNul_joinNul_ne (p : Str) (q : Str) (ps : List Str) (r : Str) (hr : NoNul r) :
    r ≠ p ++ 0 :: joinNul (q :: ps) := by
  intro h
  exact hr 0 (by rw [h]; simp) rfl

theorem joinNul_injective (ps qs : List Str) (hps : ∀ p ∈ ps, NoNul p) (hqs : ∀ q ∈ qs, NoNul q)
    (hne : ps ≠ []) (hne' : qs ≠ []) (h : joinNul ps = joinNul qs) : ps = qs := by
  induction ps generalizing qs with
  | nil => exact absurd rfl hne
  | cons p ps ih =>
    cases qs with
    | nil => exact absurd rfl hne'
    | cons q qs =>
      cases ps with
      | nil =>
        cases qs with
        | nil => simpa [joinNul] using h
        | cons q' qs' =>
          simp only [joinNul] at h
          exact absurd h (noNul_joinNul_ne q q' qs' p (hps p (by simp)))
      | cons p' ps' =>
        cases qs with
        | nil =>
          simp only [joinNul] at h
          exact absurd h.symm (noNul_joinNul_ne p p' ps' q (hqs q (by simp)))
        | cons q' qs' =>
          simp only [joinNul] at h
          have h' := append_nul_inj p q _ _ (hps p (by simp)) (hqs q (by simp)) h
          have := ih (q' :: qs') (fun x hx => hps x (by simp [hx]))
            (fun x hx => hqs x (by simp [hx])) (by simp) (by simp) h'.2
          rw [h'.1, this]

/-! ### NUL-free values flatten to NUL-free text -/

theorem noNul_natDigits (b : Nat) (hb : 2 ≤ b) (n : Nat) : NoNul (natDigits b n) := by
  intro c hc
  obtain ⟨d, _, rfl⟩ := mem_natDigits b hb n c hc
  simp only [digitChar]
  split <;> omega

theorem noNul_intDigits (i : Int) : NoNul (intDigits i) := by
  unfold intDigits
  split
  · intro c hc
    rcases List.mem_cons.mp hc with rfl | hc
    · decide
    · exact noNul_natDigits 10 (by omega) _ c hc
  · exact noNul_natDigits 10 (by omega) _

theorem NoNul.append {a b : Str} (ha : NoNul a) (hb : NoNul b) : NoNul (a ++ b) := by
  intro c hc
  rcases List.mem_append.mp hc with h | h
  · exact ha c h
  · exact hb c h

theorem NoNul.cons {a : Nat} {b : Str} (ha : a ≠ 0) (hb : NoNul b) : NoNul (a :: b) := by
  intro c hc
  rcases List.mem_cons.mp hc with rfl | h
  · exact ha
  · exact hb c h

def Key.NoNul : Key → Prop
  | .int _ => True
  | .str s => Flatten.NoNul s

mutual
/-- no `str` inside the value contains a NUL character -/
def Val.NoNul : Val → Prop
  | .int _ => True
  | .str s => Flatten.NoNul s
  | .list xs => Val.NoNulList xs
  | .dict kvs => Val.NoNulPairs kvs
def Val.NoNulList : List Val → Prop
  | [] => True
  | x :: xs => Val.NoNul x ∧ Val.NoNulList xs
def Val.NoNulPairs : List (Key × Val) → Prop
  | [] => True
  | (k, v) :: kvs => (Key.NoNul k ∧ Val.NoNul v) ∧ Val.NoNulPairs kvs
end

theorem noNul_flattenKey (k : Key) (h : Key.NoNul k) : NoNul (flattenKey k) := by
  cases k with
  | int i => exact (noNul_intDigits i).append (NoNul.cons (by decide) (by intro c hc; simp at hc))
  | str s => exact (noNul_natDigits 10 (by omega) _).append (NoNul.cons (by decide) h)

theorem noNul_joinPairs (l : List (Key × Str))
    (h : ∀ p ∈ l, Key.NoNul p.1 ∧ NoNul p.2) : NoNul (joinPairs l) := by
  induction l with
  | nil => intro c hc; simp [joinPairs] at hc
  | cons p ps ih =>
    obtain ⟨k, s⟩ := p
    simp only [joinPairs]
    have hp := h (k, s) (by simp)
    exact ((noNul_flattenKey k hp.1).append hp.2).append (ih (fun q hq => h q (by simp [hq])))

mutual
theorem noNul_flatten : (v : Val) → Val.NoNul v → NoNul (flatten v)
  | .int i, _ => by
      simp only [flatten]
      exact (noNul_intDigits i).append (NoNul.cons (by decide) (by intro c hc; simp at hc))
  | .str s, h => by
      simp only [flatten]
      exact (noNul_natDigits 10 (by omega) _).append (NoNul.cons (by decide) h)
  | .list xs, h => by
      simp only [flatten]
      exact (noNul_natDigits 10 (by omega) _).append
        (NoNul.cons (by decide) (noNul_flattenList xs h))
  | .dict kvs, h => by
      simp only [flatten]
      refine (noNul_natDigits 10 (by omega) _).append (NoNul.cons (by decide) ?_)
      apply noNul_joinPairs
      intro p hp
      exact noNul_flattenPairs kvs h p ((sortPairs_perm _).subset hp)
theorem noNul_flattenList : (xs : List Val) → Val.NoNulList xs → NoNul (flattenList xs)
  | [], _ => by intro c hc; simp [flattenList] at hc
  | x :: xs, h => by
      simp only [flattenList]
      exact (noNul_flatten x h.1).append (noNul_flattenList xs h.2)
theorem noNul_flattenPairs : (kvs : List (Key × Val)) → Val.NoNulPairs kvs →
    ∀ p ∈ flattenPairs kvs, Key.NoNul p.1 ∧ NoNul p.2
  | [], _ => by intro p hp; simp [flattenPairs] at hp
  | (k, v) :: kvs, h => by
      intro p hp
      simp only [flattenPairs, List.mem_cons] at hp
      rcases hp with rfl | hp
      · exact ⟨h.1.1, noNul_flatten v h.1.2⟩
      · exact noNul_flattenPairs kvs h.2 p hp
end

/-! ### the two halves of the key and the hexadecimal suffix -/

theorem evens_odds_injective {α : Type} (l l' : List α)
    (he : evens l = evens l') (ho : odds l = odds l') : l = l' := by
  induction l using evens.induct generalizing l' with
  | case1 =>
    cases l' with
    | nil => rfl
    | cons a t => cases t <;> simp [evens] at he
  | case2 a =>
    cases l' with
    | nil => simp [evens] at he
    | cons b t =>
      cases t with
      | nil => simpa [evens] using he
      | cons c t' => simp [odds] at ho
  | case3 a b rest ih =>
    cases l' with
    | nil => simp [evens] at he
    | cons c t =>
      cases t with
      | nil => simp [odds] at ho
      | cons d t' =>
        simp only [evens, odds, List.cons.injEq] at he ho
        rw [he.1, ho.1, ih t' he.2 ho.2]

def hexVal (c : Nat) : Nat := if c < 58 then c - 48 else c - 87

theorem hexVal_digitChar (d : Nat) (hd : d < 16) : hexVal (digitChar d) = d := by
  simp only [hexVal, digitChar]
  split <;> split <;> omega

/-- value of a hexadecimal digit string -/
def hexValue (s : Str) : Nat := s.foldl (fun a c => a * 16 + hexVal c) 0

theorem hexValue_natDigits (n : Nat) : hexValue (natDigits 16 n) = n :=
  foldl_natDigits 16 hexVal (by omega) hexVal_digitChar n

theorem foldl_hex_dropZeros (s : Str) :
    (s.dropWhile (fun c => [48, 120].contains c)).foldl (fun a c => a * 16 + hexVal c) 0
      = s.foldl (fun a c => a * 16 + hexVal c) 0 ∨ 120 ∈ s := by
  induction s with
  | nil => left; rfl
  | cons c cs ih =>
    by_cases h48 : c = 48
    · subst h48
      rcases ih with ih | ih
      · left
        simp only [List.dropWhile_cons, List.foldl_cons]
        simpa [hexVal] using ih
      · right; simp [ih]
    · by_cases h120 : c = 120
      · right; simp [h120]
      · left
        simp [h48, h120]

theorem not_x_mem_natDigits (n : Nat) : 120 ∉ natDigits 16 n := by
  intro h
  obtain ⟨d, hd, he⟩ := mem_natDigits 16 (by omega) n 120 h
  simp only [digitChar] at he
  split at he <;> omega

/-- `k1` evaluates to the CRC it was printed from -/
theorem hexValue_k1 (c : Nat) : hexValue (k1 c) = c := by
  unfold k1 lstrip pyHex
  have h1 : ([48, 120].contains 48) = true := by decide
  have h2 : ([48, 120].contains 120) = true := by decide
  simp only [List.dropWhile_cons, h1, h2, if_true]
  rcases foldl_hex_dropZeros (natDigits 16 c) with h | h
  · unfold hexValue; rw [h]; exact hexValue_natDigits c
  · exact absurd h (not_x_mem_natDigits c)

theorem not_x_mem_k1 (c : Nat) : 120 ∉ k1 c := by
  unfold k1 lstrip pyHex
  have h1 : ([48, 120].contains 48) = true := by decide
  have h2 : ([48, 120].contains 120) = true := by decide
  simp only [List.dropWhile_cons, h1, h2, if_true]
  intro h
  exact not_x_mem_natDigits c ((List.dropWhile_sublist _).subset h)

theorem k2_eq (c : Nat) : k2 c = 120 :: natDigits 16 c := by
  unfold k2 lstrip pyHex
  simp

theorem append_x_inj (p q r s : Str) (hp : 120 ∉ p) (hq : 120 ∉ q)
    (h : p ++ 120 :: r = q ++ 120 :: s) : p = q ∧ r = s := by
  induction p generalizing q with
  | nil =>
    cases q with
    | nil => simpa using h
    | cons y ys =>
      simp only [List.nil_append, List.cons_append, List.cons.injEq] at h
      exact absurd (by simp [h.1]) hq
  | cons x xs ih =>
    cases q with
    | nil =>
      simp only [List.nil_append, List.cons_append, List.cons.injEq] at h
      exact absurd (by simp [h.1]) hp
    | cons y ys =>
      simp only [List.cons_append, List.cons.injEq] at h
      have := ih ys (fun hc => hp (by simp [hc])) (fun hc => hq (by simp [hc])) h.2
      exact ⟨by rw [h.1, this.1], this.2⟩

/-! ### the model is the translation of the Python source (`Generated/FlattenPy.lean`) -/

theorem intDigits_natCast (n : Nat) : intDigits ((n : Nat) : Int) = natDigits 10 n := by
  unfold PyText.intDigits
  have : ¬ ((n : Int) < 0) := by omega
  simp [this]

theorem joinNul_eq_join (ps : List Str) : joinNul ps = PyText.join [0] ps := by
  induction ps with
  | nil => rfl
  | cons p ps ih =>
    cases ps with
    | nil => rfl
    | cons q qs => simp only [joinNul, PyText.join, ih, List.append_assoc, List.singleton_append]

theorem evens_eq_everySecond {α : Type} (l : List α) : evens l = PyText.everySecond l := by
  induction l using evens.induct with
  | case1 => rfl
  | case2 a => rfl
  | case3 a b rest ih => simp only [evens, PyText.everySecond, ih]

theorem odds_cons_eq {α : Type} (a : α) (t : List α) : odds (a :: t) = PyText.everySecond t := by
  induction t using evens.induct generalizing a with
  | case1 => rfl
  | case2 b => rfl
  | case3 b c rest ih => simp only [odds, PyText.everySecond, ih c]

theorem odds_eq_sliceStep2 {α : Type} (l : List α) : odds l = PyText.sliceStep2 1 l := by
  cases l with
  | nil => rfl
  | cons a t => simp only [PyText.sliceStep2, List.drop_succ_cons, List.drop_zero, odds_cons_eq]

theorem evens_eq_sliceStep2 {α : Type} (l : List α) : evens l = PyText.sliceStep2 0 l := by
  simp only [PyText.sliceStep2, List.drop_zero, evens_eq_everySecond]

/-- `rstrip` removes nothing from a string none of whose characters is in the set -/
theorem rstrip_of_not_mem (chars s : Str) (h : ∀ c ∈ s, chars.contains c = false) :
    PyText.rstrip chars s = s := by
  unfold PyText.rstrip
  cases hr : s.reverse with
  | nil =>
    have : s = [] := by simpa using hr
    simp [this]
  | cons a as =>
    have ha : a ∈ s := by
      have : a ∈ s.reverse := by rw [hr]; simp
      simpa using this
    simp only [List.dropWhile_cons, h a ha]
    rw [← hr]; simp

theorem no_L_in_hex_suffix (chars : Str) (c : Nat) :
    ∀ x ∈ lstrip chars (pyHex c), ([76] : Str).contains x = false := by
  intro x hx
  have hx' : x ∈ pyHex c := (List.dropWhile_sublist _).subset hx
  simp only [PyText.pyHex, List.mem_cons] at hx'
  rcases hx' with rfl | rfl | hx'
  · decide
  · decide
  · obtain ⟨d, hd, rfl⟩ := mem_natDigits 16 (by omega) c x hx'
    simp only [PyText.digitChar]
    split <;> simp <;> omega

theorem name_of_eq (crc : List Nat → Nat) (hcrc : ∀ l, crc l < 4294967296) (tag classKey : Str)
    (kb : List Nat) :
    Generated.FlattenPy.name_of crc tag classKey kb = some (moduleName crc tag classKey kb) := by
  unfold Generated.FlattenPy.name_of moduleName k1 k2
  simp only [← evens_eq_sliceStep2, ← odds_eq_sliceStep2, Nat.mod_eq_of_lt (hcrc _)]
  have e1 := rstrip_of_not_mem [76] _ (no_L_in_hex_suffix [48, 120] (crc (evens kb)))
  have e2 := rstrip_of_not_mem [76] _ (no_L_in_hex_suffix [48] (crc (odds kb)))
  simp only [lstrip] at e1 e2
  simp only [PyText.lstrip, lstrip, e1, e2, PyText.format, Option.map_some, List.append_nil,
    List.append_assoc]

end CffiVerif.Flatten
