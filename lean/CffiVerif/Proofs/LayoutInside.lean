import CffiVerif.Proofs.LayoutNested
/-
C01, `unit_inside`: every `CFieldObject` produced by the loop denotes storage
inside the object (`cf_offset + sizeof(cf_type) ≤ ct_size`), and the bits of a
bit-field lie inside its storage unit (`cf_bitshift + cf_bitsize ≤ 8·sizeof T`).
-/
namespace CffiVerif.Layout
open CffiVerif.GccLayout

/-! ### every member's storage lies inside the object -/

/-- the bits of a bit-field lie inside its storage unit -/
def BitsInUnit (c : CField) (n : Nat) : Prop := ∀ sh w, c.bits = some (sh, w) → sh + w ≤ 8 * n

/-- invariant for a field already emitted, relative to the running alignment `A`
and maximum `m`: either its storage ends below `m`, or it starts at a multiple of
an alignment `a ≤ A`, is no larger than `a`, and starts below `m`. -/
def Inside (A m : Nat) (c : CField) : Prop :=
  ∀ n, c.fsize = some n →
    (c.offset + n ≤ m ∨ ∃ a, A16 a ∧ a ≤ A ∧ c.offset % a = 0 ∧ n ≤ a ∧ c.offset < m) ∧ BitsInUnit c n

theorem Inside.mono {A m A' m' : Nat} {c : CField} (h : Inside A m c) (hA : A ≤ A') (hm : m ≤ m') :
    Inside A' m' c := by
  intro n hn
  obtain ⟨h1, h2⟩ := h n hn
  refine ⟨?_, h2⟩
  rcases h1 with h1 | ⟨a, ha, hle, hmod, hna, hlt⟩
  · exact Or.inl (by omega)
  · exact Or.inr ⟨a, ha, by omega, hmod, hna, by omega⟩

/-- the members of a nested aggregate lie inside it -/
def SubOK (f : FField CField) : Prop :=
  ∀ c ∈ f.sub, ∃ S, f.size = some S ∧ ∀ n, c.fsize = some n → c.offset + n ≤ S ∧ BitsInUnit c n

theorem alignDown_mod (b a : Nat) (ha : A16 a) : alignDown b a % a = 0 ∧ alignDown b a ≤ b := by
  rw [alignDown_A16 _ _ ha]
  rcases ha with rfl | rfl | rfl | rfl | rfl <;> simp only [alignDownA] <;> omega

theorem bump_ge (A x bo m : Nat) :
    m ≤ (bumpRef A x bo m).byteoffsetmax ∧ roundupBytes x bo ≤ (bumpRef A x bo m).byteoffsetmax := by
  simp only [bumpRef]; split <;> omega

theorem step_inside (u : Bool) (p : Nat) (last : Bool) (s s' : St) (f : FField CField) (o : List CField)
    (hp : PackOK p) (hf : WFField p last f) (hsub : SubOK f) (hA : A16 s.alignment)
    (h : stepC u (packCfg p).1 (packCfg p).2 last s f = .ok (s', o)) :
    s.alignment ≤ s'.alignment ∧ s.byteoffsetmax ≤ s'.byteoffsetmax ∧ A16 s'.alignment ∧
      ∀ c ∈ o, Inside s'.alignment s'.byteoffsetmax c := by
  have hsz := size_check last f p hf
  obtain ⟨hfa, hfb, hfx⟩ := hf
  obtain ⟨hfal, hfa16⟩ := falign_eq p f.align hp hfa
  cases hb : f.bits with
  | none =>
    rw [hb] at hsz
    rw [stepC_eq_ref] at h
    unfold stepCRef at h
    simp only [hb, hsz, hfal, Bool.false_eq_true, if_false, Bool.and_true] at h
    generalize (if u = true then 0 else s.byteoffset) = b0 at *
    generalize (if u = true then 0 else s.bitoffset) = bo0 at *
    generalize alignUp (roundupBytes b0 bo0) (capAlign p f.align) = B at *
    injection h with h
    injection h with hs ho
    subst hs ho
    have hA' : A16 (if decide (s.alignment < capAlign p f.align) = true then capAlign p f.align else s.alignment) := by
      split <;> assumption
    refine ⟨?_, (bump_ge _ _ _ _).1, hA', ?_⟩
    · simp only [bumpRef]; split <;> simp_all <;> omega
    · intro c hc
      by_cases hanon : (!f.named && f.isAgg) = true
      · simp only [hanon, if_true, List.mem_map] at hc
        obtain ⟨c0, hc0, rfl⟩ := hc
        obtain ⟨S, hS, hin⟩ := hsub c0 hc0
        intro n hn
        obtain ⟨h1, h2⟩ := hin n hn
        refine ⟨Or.inl ?_, h2⟩
        have := (bump_ge (if decide (s.alignment < capAlign p f.align) = true then capAlign p f.align else s.alignment)
          (B + S) 0 s.byteoffsetmax).2
        simp only [roundupBytes_def, Nat.lt_irrefl, if_false, Nat.add_zero] at this
        simp only [hS]
        omega
      · simp only [hanon, Bool.false_eq_true, if_false, List.mem_singleton] at hc
        subst hc
        intro n hn
        refine ⟨Or.inl ?_, by intro sh w hbw; simp at hbw⟩
        simp only [] at hn
        have := (bump_ge (if decide (s.alignment < capAlign p f.align) = true then capAlign p f.align else s.alignment)
          (B + n) 0 s.byteoffsetmax).2
        simp only [roundupBytes_def, Nat.lt_irrefl, if_false, Nat.add_zero] at this
        simp only [hn]
        omega
  | some w =>
    obtain ⟨hp0, hint, ⟨sz, hsize, hw, hsza⟩, hnamed⟩ := hfb w hb
    subst hp0
    have hcap : capAlign 0 f.align = f.align := by simp [capAlign]
    rw [hcap] at hfal hfa16
    have hpk : (packCfg 0).2 = false := by simp [packCfg_def]
    rw [stepC_eq_ref] at h
    unfold stepCRef at h
    simp only [hb, hfal, hpk, hint, hsize, Bool.false_eq_true, if_false, Bool.not_true, Bool.false_and,
      Option.isNone_some] at h
    have hbit0 : True := trivial
    generalize (if u = true then 0 else s.byteoffset) = b0 at *
    generalize (if u = true then 0 else s.bitoffset) = bo0 at *
    have hnw : ¬ (w > 8 * sz) := by omega
    simp only [hnw, if_false] at h
    obtain ⟨hdm, hdle⟩ := alignDown_mod b0 f.align hfa16
    generalize alignDown b0 f.align = fob at *
    have hA' : A16 (if (decide (s.alignment < f.align) && f.named) = true then f.align else s.alignment) := by
      split <;> assumption
    have hAle : s.alignment ≤ (if (decide (s.alignment < f.align) && f.named) = true then f.align else s.alignment) := by
      split <;> simp_all <;> omega
    have hAn : f.named = true →
        f.align ≤ (if (decide (s.alignment < f.align) && f.named) = true then f.align else s.alignment) := by
      intro hn; simp only [hn, Bool.and_true]; split <;> simp_all
    have hfpos : 0 < f.align := by unfold A16 at hfa16; omega
    by_cases hw0 : w = 0
    · simp only [hw0, if_true] at h
      have hn := hnamed hw0
      simp only [hn, Bool.false_eq_true, if_false] at h
      rw [hn] at hAle hA'
      injection h with h
      injection h with hs ho
      subst hs ho
      exact ⟨hAle, (bump_ge _ _ _ _).1, hA', by intro c hc; simp at hc⟩
    · simp only [hw0, if_false] at h
      by_cases hfit : (b0 - fob) * 8 + bo0 + w > 8 * sz
      · simp only [hfit, if_true] at h
        injection h with h
        injection h with hs ho
        subst hs ho
        refine ⟨hAle, (bump_ge _ _ _ _).1, hA', ?_⟩
        intro c hc
        by_cases hn : f.named = true
        · simp only [hn, if_true, List.mem_singleton] at hc
          subst hc
          intro n hnn
          simp only [Option.some.injEq] at hnn
          subst hnn
          refine ⟨Or.inr ⟨f.align, hfa16, hAn hn, ?_, hsza, ?_⟩, ?_⟩
          · simp only [Nat.add_mod_right]; exact hdm
          · have := (bump_ge (if (decide (s.alignment < f.align) && f.named) = true then f.align else s.alignment)
              (fob + f.align + (0 + w) / 8) ((0 + w) % 8) s.byteoffsetmax).2
            simp only [roundupBytes_def] at this
            simp only []
            split at this <;> omega
          · intro sh w' hbw
            simp only [Option.some.injEq, Prod.mk.injEq] at hbw
            omega
        · simp only [hn, Bool.false_eq_true, if_false, List.not_mem_nil] at hc
      · simp only [hfit, if_false] at h
        injection h with h
        injection h with hs ho
        subst hs ho
        refine ⟨hAle, (bump_ge _ _ _ _).1, hA', ?_⟩
        intro c hc
        by_cases hn : f.named = true
        · simp only [hn, if_true, List.mem_singleton] at hc
          subst hc
          intro n hnn
          simp only [Option.some.injEq] at hnn
          subst hnn
          refine ⟨Or.inr ⟨f.align, hfa16, hAn hn, hdm, hsza, ?_⟩, ?_⟩
          · have := (bump_ge (if (decide (s.alignment < f.align) && f.named) = true then f.align else s.alignment)
              (b0 + (bo0 + w) / 8) ((bo0 + w) % 8) s.byteoffsetmax).2
            simp only [roundupBytes_def] at this
            simp only []
            split at this <;> omega
          · intro sh w' hbw
            simp only [Option.some.injEq, Prod.mk.injEq] at hbw
            omega
        · simp only [hn, Bool.false_eq_true, if_false, List.not_mem_nil] at hc

theorem loop_inside (u : Bool) (p : Nat) (hp : PackOK p) :
    ∀ (fs : List (FField CField)) (s s' : St) (os : List CField), WFList p fs → (∀ f ∈ fs, SubOK f) →
      A16 s.alignment → loopC u (packCfg p).1 (packCfg p).2 fs s = .ok (s', os) →
      s.alignment ≤ s'.alignment ∧ s.byteoffsetmax ≤ s'.byteoffsetmax ∧ A16 s'.alignment ∧
        ∀ c ∈ os, Inside s'.alignment s'.byteoffsetmax c
  | [], s, s', os, _, _, hA, h => by
    simp only [loopC, Except.ok.injEq, Prod.mk.injEq] at h
    obtain ⟨rfl, rfl⟩ := h
    exact ⟨Nat.le_refl _, Nat.le_refl _, hA, by intro c hc; simp at hc⟩
  | f :: rest, s, s', os, hw, hsub, hA, h => by
    simp only [loopC] at h
    cases h1 : stepC u (packCfg p).1 (packCfg p).2 rest.isEmpty s f with
    | error e => simp [h1] at h
    | ok r1 =>
      obtain ⟨s1, o1⟩ := r1
      simp only [h1] at h
      cases h2 : loopC u (packCfg p).1 (packCfg p).2 rest s1 with
      | error e => simp [h2] at h
      | ok r2 =>
        obtain ⟨s2, o2⟩ := r2
        simp only [h2, Except.ok.injEq, Prod.mk.injEq] at h
        obtain ⟨rfl, rfl⟩ := h
        obtain ⟨a1, m1, A1, i1⟩ := step_inside u p rest.isEmpty s s1 f o1 hp hw.1 (hsub f (by simp)) hA h1
        obtain ⟨a2, m2, A2, i2⟩ := loop_inside u p hp rest s1 s2 o2 hw.2
          (fun g hg => hsub g (by simp [hg])) A1 h2
        refine ⟨by omega, by omega, A2, ?_⟩
        intro c hc
        rcases List.mem_append.mp hc with hc | hc
        · exact (i1 c hc).mono a2 m2
        · exact i2 c hc

theorem inside_final (A m off n : Nat) (hA : A16 A)
    (h : off + n ≤ m ∨ ∃ a, A16 a ∧ a ≤ A ∧ off % a = 0 ∧ n ≤ a ∧ off < m) : off + n ≤ alignUp m A := by
  rcases h with h | ⟨a, ha, hle, hmod, hna, hlt⟩
  · rw [alignUp_A16 _ _ hA]
    rcases hA with rfl | rfl | rfl | rfl | rfl <;> simp only [alignUpA, alignDownA] <;> omega
  · rw [alignUp_A16 _ _ hA]
    rcases hA with rfl | rfl | rfl | rfl | rfl <;> rcases ha with rfl | rfl | rfl | rfl | rfl <;>
      simp only [alignUpA, alignDownA] <;> omega

theorem complete_inside (u : Bool) (p : Nat) (fs : List (FField CField)) (l : CLayout) (hp : PackOK p)
    (hw : WFList p fs) (hsub : ∀ f ∈ fs, SubOK f) (h : completeC u p fs = .ok l) :
    ∀ c ∈ l.fields, ∀ n, c.fsize = some n → c.offset + n ≤ l.size ∧ BitsInUnit c n := by
  simp only [completeC] at h
  cases h1 : loopC u (packCfg p).1 (packCfg p).2 fs St.init with
  | error e => simp [h1] at h
  | ok r =>
    obtain ⟨s', os⟩ := r
    simp only [h1, Except.ok.injEq] at h
    subst h
    obtain ⟨_, _, hA, hin⟩ := loop_inside u p hp fs St.init s' os hw hsub (Or.inl rfl) h1
    intro c hc n hn
    obtain ⟨h1, h2⟩ := hin c hc n hn
    refine ⟨?_, h2⟩
    have := inside_final _ _ _ _ hA h1
    simp only [finishC_ref]
    split <;> omega

mutual
theorem info_inside : (t : Ty) → WFTy t → ∀ i, infoC t = .ok i →
    ∀ c ∈ i.sub, ∀ n, c.fsize = some n → c.offset + n ≤ i.size ∧ BitsInUnit c n
  | .prim size align intlike, _, i, hi => by
    rw [infoC] at hi; cases hi; intro c hc; simp at hc
  | .arr elem len, _, i, hi => by
    rw [infoC] at hi
    cases h : infoC elem with
    | error e => simp [h] at hi
    | ok j => simp only [h, Except.ok.injEq] at hi; subst hi; intro c hc; simp at hc
  | .agg u p fields, hw, i, hi => by
    rw [WFTy] at hw
    rw [infoC] at hi
    cases h : fieldsC fields with
    | error e => simp [h] at hi
    | ok cs =>
      simp only [h] at hi
      cases h2 : completeC u p cs with
      | error e => simp [h2] at hi
      | ok l =>
        simp only [h2, Except.ok.injEq] at hi
        subst hi
        obtain ⟨cs', hcs', hwl, _⟩ := fields_ok p fields hw.2
        rw [h] at hcs'; cases hcs'
        exact complete_inside u p cs l hw.1 hwl (fields_inside p fields hw.2 cs h) h2
theorem fields_inside : (p : Nat) → (fs : Fields) → WFFields p fs → ∀ cs, fieldsC fs = .ok cs →
    ∀ f ∈ cs, SubOK f
  | _, .nil, _, cs, h => by rw [fieldsC] at h; cases h; intro f hf; simp at hf
  | p, .cons named bits flex ty rest, hw, cs, h => by
    rw [WFFields] at hw
    rw [fieldsC] at h
    cases h1 : infoC ty with
    | error e => simp [h1] at h
    | ok i =>
      simp only [h1] at h
      cases h2 : fieldsC rest with
      | error e => simp [h2] at h
      | ok cs' =>
        simp only [h2, Except.ok.injEq] at h
        subst h
        intro f hf
        rcases List.mem_cons.mp hf with rfl | hf
        · intro c hc
          cases flex with
          | true => simp [CInfo.toField] at hc
          | false =>
            simp only [CInfo.toField, Bool.false_eq_true, if_false] at hc
            exact ⟨i.size, by simp [CInfo.toField], info_inside ty hw.1 i h1 c hc⟩
        · exact fields_inside p rest hw.2.1 cs' h2 f hf
end

end CffiVerif.Layout
