import CffiVerif.Model.Call

/-! Helper lemmas for `Props/C13.lean` (and `Props/C14.lean`). -/
namespace CffiVerif.Call
set_option linter.unusedSimpArgs false

/-! ### the macro bounds, evaluated -/

theorem apiSMax_8 : apiSMax 8 = 127 := by decide
theorem apiSMax_16 : apiSMax 16 = 32767 := by decide
theorem apiSMax_32 : apiSMax 32 = 2147483647 := by decide
theorem apiSMax_64 : apiSMax 64 = 9223372036854775807 := by decide
theorem apiSMin_8 : apiSMin 8 = -128 := by decide
theorem apiSMin_16 : apiSMin 16 = -32768 := by decide
theorem apiSMin_32 : apiSMin 32 = -2147483648 := by decide
theorem apiSMin_64 : apiSMin 64 = -9223372036854775808 := by decide
theorem apiUMax_8 : apiUMax 8 = 255 := by decide
theorem apiUMax_16 : apiUMax 16 = 65535 := by decide
theorem apiUMax_32 : apiUMax 32 = 4294967295 := by decide
theorem apiUMax_64 : apiUMax 64 = 18446744073709551615 := by decide

/-- Signed range check of the wrapper ≡ write/read-back check of `convert_from_object`. -/
theorem sint_check (s : Sz) (v : Int) (h : -two63 ≤ v ∧ v < two63) :
    (v > apiSMax s.bits ∨ v < apiSMin s.bits) ↔ v ≠ sval s (trunc s v) := by
  cases s <;>
    simp only [Sz.bits, Sz.bytes, Nat.reduceMul, Nat.reduceSub, Nat.reducePow, Int.reducePow, apiSMax_8, apiSMax_16, apiSMax_32, apiSMax_64, apiSMin_8,
      apiSMin_16, apiSMin_32, apiSMin_64, sval, trunc, two63] at * <;>
    constructor <;> intro h' <;> omega

theorem uint_check (s : Sz) (v : Int) (h : 0 ≤ v ∧ v < two64) :
    (v > apiUMax s.bits) ↔ v ≠ (trunc s v : Int) := by
  cases s <;>
    simp only [Sz.bits, Sz.bytes, Nat.reduceMul, Nat.reduceSub, Nat.reducePow, Int.reducePow, apiUMax_8, apiUMax_16, apiUMax_32, apiUMax_64, trunc, two64] at * <;>
    constructor <;> intro h' <;> omega

theorem sint_range (s : Sz) (v : Int) :
    v = sval s (trunc s v) ↔ (-(2 ^ (s.bits - 1) : Int) ≤ v ∧ v < 2 ^ (s.bits - 1)) := by
  cases s <;> simp only [Sz.bits, Sz.bytes, Nat.reduceMul, Nat.reduceSub, Nat.reducePow, Int.reducePow, sval, trunc] <;> constructor <;> intro h' <;> omega

theorem uint_range (s : Sz) (v : Int) :
    v = (trunc s v : Int) ↔ (0 ≤ v ∧ v < 2 ^ s.bits) := by
  cases s <;> simp only [Sz.bits, Sz.bytes, Nat.reduceMul, Nat.reduceSub, Nat.reducePow, Int.reducePow, trunc] <;> constructor <;> intro h' <;> omega

theorem trunc_lt (s : Sz) (v : Int) : trunc s v < 2 ^ s.bits := by
  cases s <;> simp only [Sz.bits, Sz.bytes, Nat.reduceMul, Nat.reduceSub, Nat.reducePow, Int.reducePow, trunc] <;> omega

theorem asLongLong_range (o : PyObj) (v : Int) (h : asLongLong o = .ok v) : -two63 ≤ v ∧ v < two63 := by
  cases o with
  | int n => simp only [asLongLong] at h; split at h <;> cases h; assumption
  | intlike n => simp only [asLongLong] at h; split at h <;> cases h; assumption
  | charCdata b =>
    simp only [asLongLong] at h; cases h
    have := b.toNat_lt; simp only [two63]; omega
  | float => cases h
  | bytes b => cases h
  | none => cases h
  | other => cases h

theorem asULongLongStrict_range (o : PyObj) (v : Int) (h : asULongLongStrict o = .ok v) :
    0 ≤ v ∧ v < two64 := by
  cases o with
  | int n =>
    simp only [asULongLongStrict] at h
    split at h
    · cases h
    · split at h <;> cases h; omega
  | intlike n =>
    simp only [asULongLongStrict] at h
    split at h
    · cases h
    · split at h <;> cases h; omega
  | charCdata b =>
    simp only [asULongLongStrict] at h; cases h
    have := b.toNat_lt; simp only [two64]; omega
  | float => cases h
  | bytes b => cases h
  | none => cases h
  | other => cases h

/-! ### little-endian images -/

theorem leBytes_length (n raw : Nat) : (leBytes n raw).length = n := by
  induction n generalizing raw with
  | zero => rfl
  | succ k ih => simp [leBytes, ih]

theorem leNat_leBytes (n raw : Nat) : leNat (leBytes n raw) = raw % 256 ^ n := by
  induction n generalizing raw with
  | zero => simp [leBytes, leNat, Nat.mod_one]
  | succ k ih =>
    simp only [leBytes, leNat, ih]
    have h1 : (UInt8.ofNat (raw % 256)).toNat = raw % 256 := by
      simp [UInt8.toNat_ofNat']
    rw [h1, Nat.pow_succ, Nat.mul_comm (256 ^ k) 256, Nat.mod_mul]

/-! ### the temporary array -/

def pad (s : Nat) (bs : List UInt8) : List UInt8 := bs ++ List.replicate (s - bs.length) 0

theorem pad_length (s : Nat) (bs : List UInt8) (h : bs.length ≤ s) : (pad s bs).length = s := by
  simp [pad]; omega

theorem writeAt_zeros (pre bs : List UInt8) (m s : Nat) (hb : bs.length ≤ s) (hm : s ≤ m) :
    writeAt (pre ++ List.replicate m 0) pre.length bs = (pre ++ pad s bs) ++ List.replicate (m - s) 0 := by
  unfold writeAt pad
  have h1 : List.take pre.length (pre ++ List.replicate m 0) = pre := by simp
  have h2 : List.drop (pre.length + bs.length) (pre ++ List.replicate m (0 : UInt8))
      = List.replicate (m - bs.length) 0 := by
    rw [List.drop_append]; simp
  rw [h1, h2]
  have h3 : List.replicate (m - bs.length) (0 : UInt8)
      = List.replicate (s - bs.length) 0 ++ List.replicate (m - s) 0 := by
    rw [List.replicate_append_replicate]; congr 1; omega
  rw [h3]; simp [List.append_assoc]

theorem fillItems_spec (s : Nat) (items : List (List UInt8)) (i : Nat) (pre : List UInt8) (m : Nat)
    (hpre : pre.length = i * s) (hs : ∀ bs ∈ items, bs.length ≤ s) (hm : items.length * s ≤ m) :
    fillItems s i items (pre ++ List.replicate m 0)
      = pre ++ items.flatMap (pad s) ++ List.replicate (m - items.length * s) 0 := by
  induction items generalizing i pre m with
  | nil => simp [fillItems]
  | cons bs rest ih =>
    have hb : bs.length ≤ s := hs bs (by simp)
    have hrest : ∀ x ∈ rest, x.length ≤ s := fun x hx => hs x (by simp [hx])
    have hlen : (bs :: rest).length * s = rest.length * s + s := by
      simp [Nat.succ_mul]
    rw [hlen] at hm ⊢
    have hsm : s ≤ m := by omega
    simp only [fillItems]
    rw [← hpre, writeAt_zeros pre bs m s hb hsm]
    have hpre' : (pre ++ pad s bs).length = (i + 1) * s := by
      rw [List.length_append, pad_length s bs hb, hpre, Nat.succ_mul]
    rw [ih (i + 1) (pre ++ pad s bs) (m - s) hpre' hrest (by omega)]
    simp only [List.flatMap_cons, List.append_assoc]
    congr 3
    generalize rest.length * s = q
    congr 1
    omega

end CffiVerif.Call
