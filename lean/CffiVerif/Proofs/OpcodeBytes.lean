import CffiVerif.Model.Opcode

/-!
Helper lemmas for C11 (and other users of Model/Opcode): the four-byte encoding, C strings,
integer constants and the record formats of globals, struct/unions + fields, enums, typenames.
-/
set_option linter.unusedSimpArgs false
namespace CffiVerif.Opcode
open CffiVerif.Generated.Opcodes

theorem pyByte_toNat (n : Int) (k : Nat) : (pyByte n k).toNat = ((n / (2:Int)^k) % 256).toNat := by
  unfold pyByte fmtMask
  have h1 : (0:Int) ≤ (n / (2:Int)^k) % 256 := Int.emod_nonneg _ (by decide)
  have h2 : (n / (2:Int)^k) % 256 < 256 := Int.emod_lt_of_pos _ (by decide)
  simp only [UInt8.toNat_ofNat']
  have e : ((255:Nat):Int) + 1 = 256 := by decide
  rw [e]
  omega

theorem fourBytes_eq (n : Int) : fourBytes n = [pyByte n 24, pyByte n 16, pyByte n 8, pyByte n 0] := by
  simp [fourBytes, fmtShifts]

theorem cdl4w_eq (b0 b1 b2 b3 : UInt8) :
    cdl4w b0 b1 b2 b3 = sbyte b0 * 2^24 + b1.toNat * 2^16 + b2.toNat * 2^8 + b3.toNat := by
  simp [cdl4w, cdlTerms]

theorem cdl4w_fourBytes (n : Int) (h1 : -2^31 ≤ n) (h2 : n < 2^31) :
    cdl4w (pyByte n 24) (pyByte n 16) (pyByte n 8) (pyByte n 0) = n := by
  rw [cdl4w_eq]
  unfold sbyte
  simp only [pyByte_toNat]
  split <;> omega

theorem cdl4_fourBytes_append (n : Int) (h : InRange32 n) (rest : Bytes) :
    cdl4 (fourBytes n ++ rest) = some n := by
  rw [fourBytes_eq]
  simp only [List.cons_append, List.nil_append, cdl4]
  rw [cdl4w_fourBytes n h.1 h.2]

theorem drop4_fourBytes_append (n : Int) (rest : Bytes) : (fourBytes n ++ rest).drop 4 = rest := by
  rw [fourBytes_eq]; rfl

theorem drop8_fourBytes_append (n m : Int) (rest : Bytes) :
    (fourBytes n ++ (fourBytes m ++ rest)).drop 8 = rest := by
  rw [fourBytes_eq, fourBytes_eq]; rfl

theorem getOp_opWord (op : Nat) (arg : Int) (h : op < 256) : getOp (opWord op arg) = op := by
  unfold getOp opWord cGetopBits pyArgShift
  have : (arg * 2 ^ 8 + (op:Int)) % 2 ^ 8 = op := by omega
  rw [this]; simp

theorem getArg_opWord (op : Nat) (arg : Int) (h : op < 256) : getArg (opWord op arg) = arg := by
  unfold getArg opWord cGetargShift pyArgShift
  omega

theorem opWord_inRange (op : Nat) (arg : Int) (h : op < 256) (h1 : -2^23 ≤ arg) (h2 : arg < 2^23) :
    InRange32 (opWord op arg) := by
  unfold InRange32 opWord pyArgShift
  omega

theorem cstr_noNul (b : Bytes) (h : NoNul b) : cstr b = b := by
  unfold cstr
  induction b with
  | nil => rfl
  | cons x xs ih =>
    have hx : x ≠ 0 := h x (by simp)
    have : (x != 0) = true := by simp [hx]
    simp only [List.takeWhile_cons, this, if_true]
    rw [ih (fun y hy => h y (by simp [hy]))]

theorem cstr_noNul_nul (b rest : Bytes) (h : NoNul b) : cstr (b ++ 0 :: rest) = b := by
  unfold cstr
  induction b with
  | nil => simp
  | cons x xs ih =>
    have hx : x ≠ 0 := h x (by simp)
    have : (x != 0) = true := by simp [hx]
    simp only [List.cons_append, List.takeWhile_cons, this, if_true]
    rw [ih (fun y hy => h y (by simp [hy]))]

theorem realizeInt_roundtrip (v : Int) (h1 : -2^63 ≤ v) (h2 : v < 2^64) : constRoundTrip v = some v := by
  unfold constRoundTrip realizeInt
  by_cases hv : v ≤ 0
  · simp only [hv, if_true, Nat.one_ne_zero, if_false]
    congr 1
    split <;> omega
  · simp only [hv, if_false, if_true]
    congr 1
    omega

theorem decode_encode_global (g : GlobalRec) (hop : g.op < 256) (h1 : -2^23 ≤ g.arg) (h2 : g.arg < 2^23)
    (hn : NoNul g.name)
    (hv : if isIntGlobalOp g.op = true then (-2^63 ≤ g.value ∧ g.value < 2^64) else g.value = 0) :
    (decodeGlobal (encodeGlobal g).1 (encodeGlobal g).2).bind viewGlobal = some g := by
  unfold encodeGlobal encode4 decodeGlobal
  simp only [cdl4_fourBytes_append _ (opWord_inRange _ _ hop h1 h2), drop4_fourBytes_append,
    cstr_noNul _ hn, getOp_opWord _ _ hop]
  by_cases hi : isIntGlobalOp g.op = true
  · simp only [hi, if_true] at hv ⊢
    simp only [Option.bind_some, viewGlobal, if_true]
    have := realizeInt_roundtrip g.value hv.1 hv.2
    unfold constRoundTrip at this
    rw [this]
    simp [getOp_opWord _ _ hop, getArg_opWord _ _ hop]
  · simp only [hi] at hv ⊢
    have hv' : g.value = 0 := by simpa using hv
    simp only [Bool.false_eq_true, if_false, Option.bind_some, viewGlobal, getOp_opWord _ _ hop,
      getArg_opWord _ _ hop]
    cases g; simp_all

theorem decode_encode_field (f : FieldRec) (h : FieldOk f) :
    ∃ b, encodeField f = some b ∧ (decodeField b).map viewField = some f := by
  obtain ⟨h1, h2, hn, hk⟩ := h
  rcases hk with ⟨hop, hb⟩ | ⟨hop, hb⟩
  · refine ⟨encode4 f.op f.arg ++ f.name, by simp [encodeField, hop], ?_⟩
    have hop' : f.op < 256 := by rw [hop]; decide
    unfold decodeField encode4
    simp only [cdl4_fourBytes_append _ (opWord_inRange _ _ hop' h1 h2), getOp_opWord _ _ hop']
    have : ¬ (f.op ≠ C.OP_NOOP) := by rw [hop]; decide
    simp only [this, if_false, drop4_fourBytes_append, cstr_noNul _ hn, Option.map_some, viewField,
      getOp_opWord _ _ hop', getArg_opWord _ _ hop']
    cases f; simp_all
  · refine ⟨encode4 f.op f.arg ++ fourBytes f.bits ++ f.name, ?_, ?_⟩
    · have hne : Py.OP_BITFIELD ≠ Py.OP_NOOP := by decide
      simp [encodeField, hop, hne]
    have hop' : f.op < 256 := by rw [hop]; decide
    unfold decodeField encode4
    rw [List.append_assoc]
    simp only [cdl4_fourBytes_append _ (opWord_inRange _ _ hop' h1 h2), getOp_opWord _ _ hop']
    have : f.op ≠ C.OP_NOOP := by rw [hop]; decide
    simp only [this, if_true, ne_eq, not_false_eq_true, drop4_fourBytes_append, drop8_fourBytes_append,
      cdl4_fourBytes_append _ hb, cstr_noNul _ hn, Option.map_some, viewField,
      getOp_opWord _ _ hop', getArg_opWord _ _ hop']

theorem fields_roundtrip (fs : List FieldRec) (h : ∀ f ∈ fs, FieldOk f) :
    ∃ bs, mapOpt encodeField fs = some bs ∧ (mapOpt decodeField bs).map (List.map viewField) = some fs := by
  induction fs with
  | nil => exact ⟨[], rfl, rfl⟩
  | cons f fs ih =>
    obtain ⟨bs, e1, e2⟩ := ih (fun x hx => h x (by simp [hx]))
    obtain ⟨b, e3, e4⟩ := decode_encode_field f (h f (by simp))
    refine ⟨b :: bs, by simp [mapOpt, e1, e3], ?_⟩
    cases hd : decodeField b with
    | none => simp [hd] at e4
    | some c =>
      cases hm : mapOpt decodeField bs with
      | none => simp [hm] at e2
      | some cs =>
        simp only [hd, hm, Option.map_some, Option.some.injEq] at e4 e2
        simp [mapOpt, hd, hm, e4, e2]

theorem struct_roundtrip (s : StructRec) (h : StructOk s) :
    ∃ enc, encodeStruct s = some enc ∧ ∀ nf : Nat, ∃ c cfs, decodeStruct nf enc = some (c, cfs) ∧
      cfs.map viewField = s.fields ∧ c.name = s.name ∧ c.typeIndex = s.typeIndex ∧ c.flags = s.flags ∧
      (if isOpaqueFlags s.flags then c.firstField = -1 ∧ c.numFields = 0
       else c.firstField = nf ∧ c.numFields = cfs.length) := by
  obtain ⟨h1, h2, hn, hf, ho⟩ := h
  obtain ⟨bs, e1, e2⟩ := fields_roundtrip s.fields hf
  refine ⟨(fourBytes s.typeIndex ++ fourBytes s.flags ++ s.name) :: bs, by simp [encodeStruct, e1], ?_⟩
  intro nf
  cases hm : mapOpt decodeField bs with
  | none => simp [hm] at e2
  | some cfs =>
    simp only [hm, Option.map_some, Option.some.injEq] at e2
    unfold decodeStruct
    rw [List.append_assoc]
    simp only [cdl4_fourBytes_append _ h1, drop4_fourBytes_append, cdl4_fourBytes_append _ h2,
      drop8_fourBytes_append, cstr_noNul _ hn, hm]
    by_cases hop : isOpaqueFlags s.flags = true
    · have : (testFlag s.flags C.F_OPAQUE || testFlag s.flags C.F_EXTERNAL) = true := hop
      simp only [this, if_true]
      exact ⟨_, _, rfl, e2, rfl, rfl, rfl, by simp [hop]⟩
    · have : ¬ ((testFlag s.flags C.F_OPAQUE || testFlag s.flags C.F_EXTERNAL) = true) := hop
      simp only [this, if_false]
      exact ⟨_, _, rfl, e2, rfl, rfl, rfl, by simp [hop]⟩

theorem viewStruct_at (pre cfs rest : List CField) (c : CStruct) (s : StructRec)
    (hv : cfs.map viewField = s.fields) (hn : c.name = s.name) (ht : c.typeIndex = s.typeIndex)
    (hfl : c.flags = s.flags)
    (hk : if isOpaqueFlags s.flags then c.firstField = -1 ∧ c.numFields = 0
          else c.firstField = pre.length ∧ c.numFields = cfs.length)
    (ho : isOpaqueFlags s.flags = true → s.fields = []) :
    viewStruct (pre ++ (cfs ++ rest)) c = s := by
  unfold viewStruct
  cases s with
  | mk ti fl nm fields =>
    simp only at hv hn ht hfl hk ho
    by_cases hop : isOpaqueFlags fl = true
    · simp only [hop, if_true] at hk
      have : fields = [] := ho hop
      simp [hk.1, hn, ht, hfl, this]
    · simp only [hop] at hk
      have h0 : ¬ ((pre.length : Int) < 0) := by omega
      simp only [hk.1, hk.2, h0, if_false, Int.toNat_natCast, hn, ht, hfl, StructRec.mk.injEq, true_and]
      rw [List.drop_left, List.take_left]
      exact hv

theorem structs_roundtrip (ss : List StructRec) (h : ∀ s ∈ ss, StructOk s) :
    ∃ encs, mapOpt encodeStruct ss = some encs ∧ ∀ pre : List CField, ∃ cs fs,
      decodeStructs pre.length encs = some (cs, fs) ∧ cs.map (viewStruct (pre ++ fs)) = ss := by
  induction ss with
  | nil => exact ⟨[], rfl, fun pre => ⟨[], [], rfl, rfl⟩⟩
  | cons s ss ih =>
    obtain ⟨encs, e1, e2⟩ := ih (fun x hx => h x (by simp [hx]))
    have hs := h s (by simp)
    obtain ⟨enc, e3, e4⟩ := struct_roundtrip s hs
    refine ⟨enc :: encs, by simp [mapOpt, e1, e3], ?_⟩
    intro pre
    obtain ⟨c, cfs, d1, d2, d3, d4, d5, d6⟩ := e4 pre.length
    obtain ⟨cs, fs, d7, d8⟩ := e2 (pre ++ cfs)
    refine ⟨c :: cs, cfs ++ fs, ?_, ?_⟩
    · simp only [decodeStructs, d1]
      rw [List.length_append] at d7
      simp [d7]
    · simp only [List.map_cons, List.cons.injEq]
      refine ⟨viewStruct_at pre cfs fs c s d2 d3 d4 d5 d6 hs.2.2.2.2, ?_⟩
      rw [List.append_assoc] at d8
      exact d8

theorem splitGo_append (a rest acc : Bytes) (h : (44 : UInt8) ∉ a) :
    splitGo (a ++ rest) acc = splitGo rest (a.reverse ++ acc) := by
  induction a generalizing acc with
  | nil => simp
  | cons x xs ih =>
    have hx : x ≠ 44 := fun e => h (by simp [e])
    have hxs : (44 : UInt8) ∉ xs := fun m => h (by simp [m])
    simp only [List.cons_append, splitGo, hx, if_false]
    rw [ih _ hxs]
    simp

theorem splitGo_joinComma (a : Bytes) (es : List Bytes) (ha : (44 : UInt8) ∉ a)
    (h : ∀ x ∈ es, (44 : UInt8) ∉ x) : splitGo (joinComma (a :: es)) [] = a :: es := by
  induction es generalizing a with
  | nil =>
    simp only [joinComma]
    have := splitGo_append a [] [] ha
    simp only [List.append_nil] at this
    rw [this]; simp [splitGo]
  | cons b r ih =>
    simp only [joinComma]
    rw [splitGo_append a _ [] ha]
    simp only [List.append_nil, splitGo, if_true, List.reverse_reverse]
    rw [ih b (h b (by simp)) (fun x hx => h x (by simp [hx]))]

theorem joinComma_ne_nil (a : Bytes) (es : List Bytes) (ha : a ≠ []) : joinComma (a :: es) ≠ [] := by
  cases es with
  | nil => simpa [joinComma] using ha
  | cons b r => cases a with
    | nil => exact absurd rfl ha
    | cons x xs => simp [joinComma]

theorem split_join (es : List Bytes) (h : ∀ x ∈ es, EnumNameOk x) : splitEnumerators (joinComma es) = es := by
  cases es with
  | nil => simp [splitEnumerators, joinComma]
  | cons a r =>
    unfold splitEnumerators
    have hne := joinComma_ne_nil a r (h a (by simp)).1
    simp only [hne, if_false]
    exact splitGo_joinComma a r (h a (by simp)).2.1 (fun x hx => (h x (by simp [hx])).2.1)

theorem noNul_joinComma (es : List Bytes) (h : ∀ x ∈ es, NoNul x) : NoNul (joinComma es) := by
  induction es with
  | nil => intro x hx; simp [joinComma] at hx
  | cons a r ih =>
    cases r with
    | nil => simpa [joinComma] using h a (by simp)
    | cons b r' =>
      intro x hx
      simp only [joinComma, List.mem_append, List.mem_cons] at hx
      rcases hx with hx | hx | hx
      · exact h a (by simp) x hx
      · rw [hx]; decide
      · exact ih (fun y hy => h y (by simp [hy])) x (by simpa [joinComma] using hx)

theorem enumPrims_small : ∀ e ∈ enumPrims, e.2.2 < 256 := by decide

theorem enumPrim_small (sz sg p : Nat) (h : enumPrim sz sg = some p) : p < 256 := by
  unfold enumPrim at h
  cases hf : enumPrims.find? (fun e => e.1 == sz && e.2.1 == sg) with
  | none => simp [hf] at h
  | some e =>
    simp only [hf, Option.map_some, Option.some.injEq] at h
    rw [← h]
    exact enumPrims_small e (List.mem_of_find?_eq_some hf)

theorem drop_name_nul (name rest : Bytes) : (name ++ 0 :: rest).drop (name.length + 1) = rest := by
  induction name with
  | nil => rfl
  | cons x xs ih => simpa using ih

theorem enum_roundtrip (e : EnumRec) (p : Nat) (hp : enumPrim e.size e.signed = some p)
    (ht : InRange32 e.typeIndex) (hn : NoNul e.name) (hes : ∀ x ∈ e.enumerators, EnumNameOk x) :
    ∃ b c, encodeEnum e = some b ∧ decodeEnum b = some c ∧ c.typeIndex = e.typeIndex ∧
      c.typePrim = p ∧ c.name = e.name ∧ splitEnumerators c.enumerators = e.enumerators := by
  have hp' : InRange32 (p : Int) := by
    have := enumPrim_small _ _ _ hp
    unfold InRange32; omega
  refine ⟨fourBytes e.typeIndex ++ (fourBytes ↑p ++ (e.name ++ 0 :: joinComma e.enumerators)),
    { name := e.name, typeIndex := e.typeIndex, typePrim := p, enumerators := joinComma e.enumerators },
    by simp [encodeEnum, hp], ?_, rfl, rfl, rfl, split_join _ hes⟩
  unfold decodeEnum
  simp only [cdl4_fourBytes_append _ ht, drop4_fourBytes_append, cdl4_fourBytes_append _ hp',
    drop8_fourBytes_append, cstr_noNul_nul _ _ hn, drop_name_nul,
    cstr_noNul _ (noNul_joinComma _ (fun x hx => (hes x hx).2.2))]

theorem typename_roundtrip (t : TypenameRec) (ht : InRange32 t.typeIndex) (hn : NoNul t.name) :
    decodeTypename (encodeTypename t) = some t := by
  unfold decodeTypename encodeTypename
  simp [cdl4_fourBytes_append _ ht, drop4_fourBytes_append, cstr_noNul _ hn]

theorem decodeTypes_typesBytes (ws : List Int) (h : ∀ w ∈ ws, InRange32 w) :
    decodeTypes (typesBytes ws) = ws := by
  induction ws with
  | nil => rfl
  | cons w ws ih =>
    have hw := h w (by simp)
    simp only [typesBytes, List.flatMap_cons]
    rw [fourBytes_eq]
    simp only [List.cons_append, List.nil_append, decodeTypes]
    rw [cdl4w_fourBytes w hw.1 hw.2]
    have := ih (fun x hx => h x (by simp [hx]))
    simp only [typesBytes] at this
    rw [this]

end CffiVerif.Opcode
