import CffiVerif.Proofs.CInt
import CffiVerif.Model.IntPaths
/-! Helper lemmas for `Model/IntPaths.lean`: the regenerated macro conditions mean the exact bounds; closed forms of the API-mode converters. -/
set_option linter.unusedSimpArgs false

namespace CffiVerif.IntPaths
open CffiVerif.CInt CffiVerif.Generated

/-- hand-written reading of `_cffi_to_c__Bool` (the model uses the extracted chain; `toCBool_eq_hand`) -/
def toCBoolHand (v : Int) : Int × Pending :=
  let (tmp, err) := myAsLongLong v
  if tmp = 0 then (0, err)
  else if tmp = 1 then (1, err)
  else match err with
    | some e => (1, some e)            -- `(_Bool)-1`
    | none => (1, some .overflow)      -- `(_Bool)_convert_overflow(obj, "_Bool")`

/-- hand-written reading of the emitted argument code (the model uses the extracted check; `apiArg_eq_hand`):
`if (x0 == (type)-1 && PyErr_Occurred()) return NULL;`.  Result: the object
representation of the argument the C function is called with. -/
def apiArgHand (T : IntType) (v : Int) : Except ErrKind (List UInt8) :=
  match T.kind with
  | .signed | .unsigned =>
    match cffiToCInt T v with
    | .error e => .error e
    | .ok (x0, err) =>
      match (if x0 = T.wrap (-1) then err else none) with
      | some e => .error e
      | none =>
        match err with
        | some _ => .error .systemError        -- the function is called with an exception set
        | none => .ok (writeRaw x0 T.width)
  | .bool =>
    let (x0, err) := toCBoolHand v
    match (if x0 = 1 then err else none) with   -- `(_Bool)-1` is 1
    | some e => .error e
    | none =>
      match err with
      | some _ => .error .systemError
      | none => .ok (writeRaw x0 T.width)
  | .char | .swchar => .error .typeError         -- `_cffi_to_c_char*`: an int is not a character


theorem toInt_bv (x : Int) (h : -(2 ^ 63) ≤ x ∧ x < 2 ^ 63) : (bv x).toInt = x := by
  unfold bv
  rw [BitVec.toInt_ofInt]
  unfold Int.bmod
  simp
  omega

theorem toNat_bv (x : Int) (h : 0 ≤ x ∧ x < 2 ^ 64) : ((bv x).toNat : Int) = x := by
  unfold bv
  rw [BitVec.toNat_ofInt]
  simp
  omega

theorem signed_macro_bounds_exact : ∀ f ∈ IntMacros.signedFns, ∀ t : BitVec 64,
    IntMacros.signedOverflow f.1 t = decide (t.toInt > 2 ^ (f.1 - 1) - 1 ∨ t.toInt < -(2 ^ (f.1 - 1))) := by
  intro f hf t
  simp [IntMacros.signedFns] at hf
  rcases hf with rfl | rfl | rfl | rfl <;> simp [IntMacros.signedOverflow, BitVec.slt_eq_decide]

theorem unsigned_macro_bounds_exact : ∀ f ∈ IntMacros.unsignedFns, ∀ t : BitVec 64,
    IntMacros.unsignedOverflow f.1 t = decide (t.toNat > 2 ^ f.1 - 1) := by
  intro f hf t
  simp [IntMacros.unsignedFns] at hf
  rcases hf with rfl | rfl | rfl | rfl <;> simp [IntMacros.unsignedOverflow, BitVec.ult_eq_decide]


theorem toCBody_signed (N rb : Nat) (rs : Bool) (v : Int) (hN : (N, rb, rs) ∈ IntMacros.signedFns) :
    (match myAsLongLong v with
     | (tmp, err) => toCBody (IntMacros.signedOverflow N (bv tmp)) rb rs tmp err) =
      if -(2 ^ (N - 1)) ≤ v ∧ v < 2 ^ (N - 1) then (CInt.wrap rb rs v, none)
      else (CInt.wrap rb rs (-1), some .overflow) := by
  have hb := signed_macro_bounds_exact _ hN
  simp only at hb
  rcases myAsLongLong_cases v with ⟨h1, h2, e⟩ | ⟨h, e⟩ <;> rw [e] <;> simp only [hb]
  · rw [toInt_bv v ⟨h1, h2⟩]
    simp [IntMacros.signedFns] at hN
    rcases hN with ⟨rfl, rfl, rfl⟩ | ⟨rfl, rfl, rfl⟩ | ⟨rfl, rfl, rfl⟩ | ⟨rfl, rfl, rfl⟩ <;>
      simp [toCBody] <;> split <;> split <;> first | rfl | omega
  · rw [toInt_bv (-1) (by omega)]
    simp [IntMacros.signedFns] at hN
    rcases hN with ⟨rfl, rfl, rfl⟩ | ⟨rfl, rfl, rfl⟩ | ⟨rfl, rfl, rfl⟩ | ⟨rfl, rfl, rfl⟩ <;>
      simp [toCBody] <;> omega

theorem toCBody_unsigned (N rb : Nat) (rs : Bool) (v : Int) (hN : (N, rb, rs) ∈ IntMacros.unsignedFns) :
    (match myAsUnsignedLongLong v true with
     | (tmp, err) => toCBody (IntMacros.unsignedOverflow N (bv tmp)) rb rs tmp err) =
      if 0 ≤ v ∧ v < 2 ^ N then (CInt.wrap rb rs v, none)
      else (CInt.wrap rb rs (2 ^ 64 - 1), some .overflow) := by
  have hb := unsigned_macro_bounds_exact _ hN
  simp only at hb
  rcases myAsULLStrict_cases v with ⟨h1, h2, e⟩ | ⟨h, e⟩ <;> rw [e] <;> simp only [hb]
  · have hv := toNat_bv v ⟨h1, h2⟩
    simp [IntMacros.unsignedFns] at hN
    rcases hN with ⟨rfl, rfl, rfl⟩ | ⟨rfl, rfl, rfl⟩ | ⟨rfl, rfl, rfl⟩ | ⟨rfl, rfl, rfl⟩ <;>
      simp [toCBody] <;> split <;> split <;> first | rfl | omega
  · have hv := toNat_bv (2 ^ 64 - 1) (by omega)
    simp [IntMacros.unsignedFns] at hN
    rcases hN with ⟨rfl, rfl, rfl⟩ | ⟨rfl, rfl, rfl⟩ | ⟨rfl, rfl, rfl⟩ | ⟨rfl, rfl, rfl⟩ <;>
      simp [toCBody] <;> (try split) <;> first | rfl | omega

theorem toCSigned_eq (N rb : Nat) (rs : Bool) (v : Int)
    (hfind : IntMacros.signedFns.find? (·.1 = N) = some (N, rb, rs)) :
    toCSigned N v = .ok (if -(2 ^ (N - 1)) ≤ v ∧ v < 2 ^ (N - 1) then (CInt.wrap rb rs v, none)
      else (CInt.wrap rb rs (-1), some .overflow)) := by
  have hmem : (N, rb, rs) ∈ IntMacros.signedFns := List.mem_of_find?_eq_some hfind
  have hc : convBy IntMacros.signedConv v = .ok (myAsLongLong v) := by
    simp [convBy, IntMacros.signedConv]
  unfold toCSigned
  rw [hfind]
  simp only [hc]
  exact congrArg Except.ok (toCBody_signed N rb rs v hmem)

theorem toCUnsigned_eq (N rb : Nat) (rs : Bool) (v : Int)
    (hfind : IntMacros.unsignedFns.find? (·.1 = N) = some (N, rb, rs)) :
    toCUnsigned N v = .ok (if 0 ≤ v ∧ v < 2 ^ N then (CInt.wrap rb rs v, none)
      else (CInt.wrap rb rs (2 ^ 64 - 1), some .overflow)) := by
  have hmem : (N, rb, rs) ∈ IntMacros.unsignedFns := List.mem_of_find?_eq_some hfind
  have hc : convBy IntMacros.unsignedConv v = .ok (myAsUnsignedLongLong v true) := by
    simp [convBy, IntMacros.unsignedConv]
  unfold toCUnsigned
  rw [hfind]
  simp only [hc]
  exact congrArg Except.ok (toCBody_unsigned N rb rs v hmem)

theorem apiArg_signed (name : String) (w : Width) (v : Int) :
    apiArgHand ⟨name, w, .signed⟩ v =
      if -(2 ^ (w.bits - 1)) ≤ v ∧ v < 2 ^ (w.bits - 1) then .ok (writeRaw v w) else .error .overflow := by
  cases w
  · have h := toCSigned_eq 8 32 true v (by decide)
    simp only [apiArgHand, cffiToCInt, calleeResult, IntMacros.dispatch, IntType.bytes, Width.bytes, IntType.readsSigned, retBits,
      IntMacros.signedFns, IntMacros.unsignedFns, h, List.find?, decide_true, decide_false, Option.map,
      ne_eq, not_true_eq_false, if_false, if_true, Width.bits, Nat.reduceMul, Nat.reduceSub, Int.reducePow, Int.reduceNeg,
      Nat.reduceEqDiff, Bool.false_eq_true, Nat.reducePow, Int.reduceSub]
    by_cases hr : -128 ≤ v ∧ v < 128
    · have e1 : IntType.wrap ⟨name, .w8, .signed⟩ (CInt.wrap 32 true (CInt.wrap 32 true v)) = v := by
        simp [IntType.wrap, IntType.bits, IntType.readsSigned, Width.bits, Width.bytes, CInt.wrap, wrapS]; omega
      simp [hr, e1]
    · have e1 : IntType.wrap ⟨name, .w8, .signed⟩ (CInt.wrap 32 true (CInt.wrap 32 true (-1))) = IntType.wrap ⟨name, .w8, .signed⟩ (-1) := by
        simp [IntType.wrap, IntType.bits, IntType.readsSigned, Width.bits, Width.bytes, CInt.wrap, wrapS]
      simp [hr, e1]
  · have h := toCSigned_eq 16 32 true v (by decide)
    simp only [apiArgHand, cffiToCInt, calleeResult, IntMacros.dispatch, IntType.bytes, Width.bytes, IntType.readsSigned, retBits,
      IntMacros.signedFns, IntMacros.unsignedFns, h, List.find?, decide_true, decide_false, Option.map,
      ne_eq, not_true_eq_false, if_false, if_true, Width.bits, Nat.reduceMul, Nat.reduceSub, Int.reducePow, Int.reduceNeg,
      Nat.reduceEqDiff, Bool.false_eq_true, Nat.reducePow, Int.reduceSub]
    by_cases hr : -32768 ≤ v ∧ v < 32768
    · have e1 : IntType.wrap ⟨name, .w16, .signed⟩ (CInt.wrap 32 true (CInt.wrap 32 true v)) = v := by
        simp [IntType.wrap, IntType.bits, IntType.readsSigned, Width.bits, Width.bytes, CInt.wrap, wrapS]; omega
      simp [hr, e1]
    · have e1 : IntType.wrap ⟨name, .w16, .signed⟩ (CInt.wrap 32 true (CInt.wrap 32 true (-1))) = IntType.wrap ⟨name, .w16, .signed⟩ (-1) := by
        simp [IntType.wrap, IntType.bits, IntType.readsSigned, Width.bits, Width.bytes, CInt.wrap, wrapS]
      simp [hr, e1]
  · have h := toCSigned_eq 32 32 true v (by decide)
    simp only [apiArgHand, cffiToCInt, calleeResult, IntMacros.dispatch, IntType.bytes, Width.bytes, IntType.readsSigned, retBits,
      IntMacros.signedFns, IntMacros.unsignedFns, h, List.find?, decide_true, decide_false, Option.map,
      ne_eq, not_true_eq_false, if_false, if_true, Width.bits, Nat.reduceMul, Nat.reduceSub, Int.reducePow, Int.reduceNeg,
      Nat.reduceEqDiff, Bool.false_eq_true, Nat.reducePow, Int.reduceSub]
    by_cases hr : -2147483648 ≤ v ∧ v < 2147483648
    · have e1 : IntType.wrap ⟨name, .w32, .signed⟩ (CInt.wrap 32 true (CInt.wrap 32 true v)) = v := by
        simp [IntType.wrap, IntType.bits, IntType.readsSigned, Width.bits, Width.bytes, CInt.wrap, wrapS]; omega
      simp [hr, e1]
    · have e1 : IntType.wrap ⟨name, .w32, .signed⟩ (CInt.wrap 32 true (CInt.wrap 32 true (-1))) = IntType.wrap ⟨name, .w32, .signed⟩ (-1) := by
        simp [IntType.wrap, IntType.bits, IntType.readsSigned, Width.bits, Width.bytes, CInt.wrap, wrapS]
      simp [hr, e1]
  · have h := toCSigned_eq 64 64 true v (by decide)
    simp only [apiArgHand, cffiToCInt, calleeResult, IntMacros.dispatch, IntType.bytes, Width.bytes, IntType.readsSigned, retBits,
      IntMacros.signedFns, IntMacros.unsignedFns, h, List.find?, decide_true, decide_false, Option.map,
      ne_eq, not_true_eq_false, if_false, if_true, Width.bits, Nat.reduceMul, Nat.reduceSub, Int.reducePow, Int.reduceNeg,
      Nat.reduceEqDiff, Bool.false_eq_true, Nat.reducePow, Int.reduceSub]
    by_cases hr : -9223372036854775808 ≤ v ∧ v < 9223372036854775808
    · have e1 : IntType.wrap ⟨name, .w64, .signed⟩ (CInt.wrap 64 true (CInt.wrap 64 true v)) = v := by
        simp [IntType.wrap, IntType.bits, IntType.readsSigned, Width.bits, Width.bytes, CInt.wrap, wrapS]; omega
      simp [hr, e1]
    · have e1 : IntType.wrap ⟨name, .w64, .signed⟩ (CInt.wrap 64 true (CInt.wrap 64 true (-1))) = IntType.wrap ⟨name, .w64, .signed⟩ (-1) := by
        simp [IntType.wrap, IntType.bits, IntType.readsSigned, Width.bits, Width.bytes, CInt.wrap, wrapS]
      simp [hr, e1]

theorem apiArg_unsigned (name : String) (w : Width) (v : Int) :
    apiArgHand ⟨name, w, .unsigned⟩ v =
      if 0 ≤ v ∧ v < 2 ^ w.bits then .ok (writeRaw v w) else .error .overflow := by
  cases w
  · have h := toCUnsigned_eq 8 32 true v (by decide)
    simp only [apiArgHand, cffiToCInt, calleeResult, IntMacros.dispatch, IntType.bytes, Width.bytes, IntType.readsSigned, retBits,
      IntMacros.signedFns, IntMacros.unsignedFns, h, List.find?, decide_true, decide_false, Option.map,
      ne_eq, not_true_eq_false, if_false, if_true, Width.bits, Nat.reduceMul, Nat.reduceSub, Int.reducePow, Int.reduceNeg,
      Nat.reduceEqDiff, Bool.false_eq_true, Nat.reducePow, Int.reduceSub]
    by_cases hr : 0 ≤ v ∧ v < 256
    · have e1 : IntType.wrap ⟨name, .w8, .unsigned⟩ (CInt.wrap 32 true (CInt.wrap 32 true v)) = v := by
        simp [IntType.wrap, IntType.bits, IntType.readsSigned, Width.bits, Width.bytes, CInt.wrap, wrapS, wrapU]; omega
      simp [hr, e1]
    · have e1 : IntType.wrap ⟨name, .w8, .unsigned⟩ (CInt.wrap 32 true (CInt.wrap 32 true 18446744073709551615)) = IntType.wrap ⟨name, .w8, .unsigned⟩ (-1) := by
        simp [IntType.wrap, IntType.bits, IntType.readsSigned, Width.bits, Width.bytes, CInt.wrap, wrapS, wrapU]
      simp [hr, e1]
  · have h := toCUnsigned_eq 16 32 true v (by decide)
    simp only [apiArgHand, cffiToCInt, calleeResult, IntMacros.dispatch, IntType.bytes, Width.bytes, IntType.readsSigned, retBits,
      IntMacros.signedFns, IntMacros.unsignedFns, h, List.find?, decide_true, decide_false, Option.map,
      ne_eq, not_true_eq_false, if_false, if_true, Width.bits, Nat.reduceMul, Nat.reduceSub, Int.reducePow, Int.reduceNeg,
      Nat.reduceEqDiff, Bool.false_eq_true, Nat.reducePow, Int.reduceSub]
    by_cases hr : 0 ≤ v ∧ v < 65536
    · have e1 : IntType.wrap ⟨name, .w16, .unsigned⟩ (CInt.wrap 32 true (CInt.wrap 32 true v)) = v := by
        simp [IntType.wrap, IntType.bits, IntType.readsSigned, Width.bits, Width.bytes, CInt.wrap, wrapS, wrapU]; omega
      simp [hr, e1]
    · have e1 : IntType.wrap ⟨name, .w16, .unsigned⟩ (CInt.wrap 32 true (CInt.wrap 32 true 18446744073709551615)) = IntType.wrap ⟨name, .w16, .unsigned⟩ (-1) := by
        simp [IntType.wrap, IntType.bits, IntType.readsSigned, Width.bits, Width.bytes, CInt.wrap, wrapS, wrapU]
      simp [hr, e1]
  · have h := toCUnsigned_eq 32 32 false v (by decide)
    simp only [apiArgHand, cffiToCInt, calleeResult, IntMacros.dispatch, IntType.bytes, Width.bytes, IntType.readsSigned, retBits,
      IntMacros.signedFns, IntMacros.unsignedFns, h, List.find?, decide_true, decide_false, Option.map,
      ne_eq, not_true_eq_false, if_false, if_true, Width.bits, Nat.reduceMul, Nat.reduceSub, Int.reducePow, Int.reduceNeg,
      Nat.reduceEqDiff, Bool.false_eq_true, Nat.reducePow, Int.reduceSub]
    by_cases hr : 0 ≤ v ∧ v < 4294967296
    · have e1 : IntType.wrap ⟨name, .w32, .unsigned⟩ (CInt.wrap 32 false (CInt.wrap 32 false v)) = v := by
        simp [IntType.wrap, IntType.bits, IntType.readsSigned, Width.bits, Width.bytes, CInt.wrap, wrapS, wrapU]; omega
      simp [hr, e1]
    · have e1 : IntType.wrap ⟨name, .w32, .unsigned⟩ (CInt.wrap 32 false (CInt.wrap 32 false 18446744073709551615)) = IntType.wrap ⟨name, .w32, .unsigned⟩ (-1) := by
        simp [IntType.wrap, IntType.bits, IntType.readsSigned, Width.bits, Width.bytes, CInt.wrap, wrapS, wrapU]
      simp [hr, e1]
  · have h := toCUnsigned_eq 64 64 false v (by decide)
    simp only [apiArgHand, cffiToCInt, calleeResult, IntMacros.dispatch, IntType.bytes, Width.bytes, IntType.readsSigned, retBits,
      IntMacros.signedFns, IntMacros.unsignedFns, h, List.find?, decide_true, decide_false, Option.map,
      ne_eq, not_true_eq_false, if_false, if_true, Width.bits, Nat.reduceMul, Nat.reduceSub, Int.reducePow, Int.reduceNeg,
      Nat.reduceEqDiff, Bool.false_eq_true, Nat.reducePow, Int.reduceSub]
    by_cases hr : 0 ≤ v ∧ v < 18446744073709551616
    · have e1 : IntType.wrap ⟨name, .w64, .unsigned⟩ (CInt.wrap 64 false (CInt.wrap 64 false v)) = v := by
        simp [IntType.wrap, IntType.bits, IntType.readsSigned, Width.bits, Width.bytes, CInt.wrap, wrapS, wrapU]; omega
      simp [hr, e1]
    · have e1 : IntType.wrap ⟨name, .w64, .unsigned⟩ (CInt.wrap 64 false (CInt.wrap 64 false 18446744073709551615)) = IntType.wrap ⟨name, .w64, .unsigned⟩ (-1) := by
        simp [IntType.wrap, IntType.bits, IntType.readsSigned, Width.bits, Width.bytes, CInt.wrap, wrapS, wrapU]
      simp [hr, e1]

theorem toCBoolHand_closed (v : Int) :
    toCBoolHand v = if v = 0 then (0, none) else if v = 1 then (1, none) else (1, some .overflow) := by
  unfold toCBoolHand
  rcases myAsLongLong_cases v with ⟨h1, h2, e⟩ | ⟨h, e⟩
  · rw [e]
  · rw [e]
    have h0 : ¬ v = 0 := by omega
    have h1 : ¬ v = 1 := by omega
    simp [h0, h1]

theorem apiArg_bool (name : String) (w : Width) (v : Int) :
    apiArgHand ⟨name, w, .bool⟩ v =
      if 0 ≤ v ∧ v ≤ 1 then .ok (writeRaw v w) else .error .overflow := by
  simp only [apiArgHand, toCBoolHand_closed]
  by_cases h0 : v = 0
  · subst h0; simp
  · by_cases h1 : v = 1
    · subst h1; simp
    · have : ¬ (0 ≤ v ∧ v ≤ 1) := by omega
      simp [h0, h1, this]


theorem inRange_in64 (T : IntType) (v : Int) (h : T.InRange v) : -(2 ^ 63) ≤ v ∧ v < 2 ^ 64 ∧
    (T.kind = .signed → v < 2 ^ 63) := by
  rcases T with ⟨name, w, k⟩
  cases k <;> cases w <;>
    simp [IntType.InRange, IntType.lo, IntType.hi, IntType.bits, Width.bits, Width.bytes] at h ⊢ <;> omega

theorem fficallback_reject (T : IntType) (hT : T.isInt = true) (result : List UInt8) (v : Int) (encode : Bool)
    (h : ¬ T.InRange v) : (fficallbackConvert T result v encode).2 = .error .overflow := by
  unfold fficallbackConvert
  by_cases hc : T.bytes < ffiArgBytes ∧ encode = true
  · rw [if_pos hc]
    rcases T with ⟨name, w, k⟩
    cases k <;> simp only [convert_eq _ hT, h, if_false]
  · rw [if_neg hc]
    simp only [convert_eq _ hT, h, if_false]

theorem writeRaw64_take (v : Int) (w : Width) : (writeRaw v .w64).take w.bytes = writeRaw v w := by
  unfold writeRaw
  exact toLE_take _ _ _ (by cases w <;> simp [Width.bytes])

theorem writeRaw_zext (v : Int) (w : Width) (h : 0 ≤ v ∧ v < 2 ^ w.bits) :
    writeRaw v w ++ List.replicate (8 - w.bytes) 0 = writeRaw v .w64 := by
  unfold writeRaw
  have hlt : (wrapU 64 v).toNat < 256 ^ w.bytes := by
    unfold wrapU
    cases w <;> simp [Width.bits, Width.bytes] at h ⊢ <;> omega
  have := toLE_extend w.bytes (8 - w.bytes) _ hlt
  have e : w.bytes + (8 - w.bytes) = Width.w64.bytes := by cases w <;> rfl
  rw [e] at this
  exact this.symm

theorem fficallback_accept (T : IntType) (hT : T.isInt = true) (result : List UInt8) (v : Int) (encode : Bool)
    (h : T.InRange v) :
    (fficallbackConvert T result v encode).2 = .ok () ∧
    ((fficallbackConvert T result v encode).1).take T.bytes = writeRaw v T.width ∧
    (T.bytes < ffiArgBytes → encode = true →
      ((fficallbackConvert T result v encode).1).take ffiArgBytes = writeRaw v .w64) := by
  have hb : T.bytes = (writeRaw v T.width).length := by rw [writeRaw_length]; rfl
  unfold fficallbackConvert
  by_cases hc : T.bytes < ffiArgBytes ∧ encode = true
  · rw [if_pos hc]
    rcases T with ⟨name, w, k⟩
    have hw8 : w.bytes ≤ 8 := by cases w <;> simp [Width.bytes]
    have hz : ∀ (hr : 0 ≤ v ∧ v < 2 ^ w.bits),
        List.take ffiArgBytes (poke (poke result (List.replicate ffiArgBytes 0)) (writeRaw v w)) =
          writeRaw v Width.w64 := by
      intro hr
      have := poke_zeros_take result (writeRaw v w) ffiArgBytes (by rw [writeRaw_length]; exact hw8)
      rw [this, writeRaw_length]
      exact writeRaw_zext v w hr
    cases k
    · -- signed: a first conversion to detect overflow, then the whole ffi_arg
      have h64 := inRange_in64 _ v h
      have e : myAsLongLong v = (v, none) := by
        rcases myAsLongLong_cases v with ⟨_, _, e⟩ | ⟨hn, _⟩
        · exact e
        · exact absurd ⟨h64.1, h64.2.2 rfl⟩ hn
      simp only [convert_eq _ hT, h, if_true, e, ite_self]
      refine ⟨rfl, ?_, fun _ _ => ?_⟩
      · show List.take w.bytes (poke _ (writeRaw v .w64)) = writeRaw v w
        rw [poke_take_le _ _ _ (by rw [writeRaw_length]; exact hw8), writeRaw64_take]
      · have : ffiArgBytes = (writeRaw v .w64).length := by rw [writeRaw_length]; rfl
        rw [this, poke_take]
    · simp only [convert_eq _ hT, h, if_true]
      refine ⟨trivial, ?_, fun _ _ => ?_⟩
      · rw [hb, poke_take]
      · exact hz (by
          cases w <;> simp [IntType.InRange, IntType.lo, IntType.hi, IntType.bits, Width.bits, Width.bytes] at h ⊢ <;> omega)
    · simp only [convert_eq _ hT, h, if_true]
      refine ⟨trivial, ?_, fun _ _ => ?_⟩
      · rw [hb, poke_take]
      · exact hz (by
          cases w <;> simp [IntType.InRange, IntType.lo, IntType.hi, IntType.bits, Width.bits, Width.bytes] at h ⊢ <;> omega)
    · simp [IntType.isInt] at hT
    · simp [IntType.isInt] at hT
  · rw [if_neg hc]
    simp only [convert_eq _ hT, h, if_true]
    refine ⟨trivial, ?_, fun h1 h2 => absurd ⟨h1, h2⟩ hc⟩
    rw [hb, poke_take]

theorem convert_length (T : IntType) (hT : T.isInt = true) (data : List UInt8) (v : Int)
    (hl : T.bytes ≤ data.length) : (convertFromObject T data v).1.length = data.length := by
  rw [convert_eq T hT]
  by_cases h : T.InRange v
  · simp only [h, if_true]
    exact poke_length _ _ (by rw [writeRaw_length]; exact hl)
  · simp [h]

theorem bytes_le_ffiArg (T : IntType) : T.bytes ≤ ffiArgBytes := by
  rcases T with ⟨n, w, k⟩; cases w <;> simp [IntType.bytes, Width.bytes, ffiArgBytes]

theorem fficallback_length (T : IntType) (hT : T.isInt = true) (result : List UInt8) (v : Int) (encode : Bool)
    (hl : ffiArgBytes ≤ result.length) :
    (fficallbackConvert T result v encode).1.length = result.length := by
  have hb := bytes_le_ffiArg T
  unfold fficallbackConvert
  split
  · rcases T with ⟨name, w, k⟩
    cases k
    · simp only
      have h1 := convert_length ⟨name, w, .signed⟩ hT result v (by omega)
      generalize convertFromObject ⟨name, w, .signed⟩ result v = p at h1 ⊢
      rcases p with ⟨r1, o⟩
      cases o with
      | error e => exact h1
      | ok u =>
        simp only
        split
        · exact h1
        · simp only at h1
          rw [poke_length _ _ (by rw [writeRaw_length]; simp [Width.bytes, ffiArgBytes] at hl ⊢; omega)]
          exact h1
    all_goals
      simp only
      have hz : (poke result (List.replicate ffiArgBytes 0)).length = result.length :=
        poke_length _ _ (by simpa using hl)
      rw [convert_length _ hT _ _ (by omega), hz]
  · exact convert_length T hT result v (by omega)

theorem prepareRawErr_some (T : IntType) (hT : T.isInt = true) (ev : Int) (encode : Bool) :
    prepareRawErr T (some ev) encode =
      if T.InRange ev then .ok (fficallbackConvert T (List.replicate (max T.bytes ffiArgBytes) 0) ev encode).1
      else .error .overflow := by
  unfold prepareRawErr
  by_cases h : T.InRange ev
  · have ha := (fficallback_accept T hT (List.replicate (max T.bytes ffiArgBytes) 0) ev encode h).1
    rcases hp : fficallbackConvert T (List.replicate (max T.bytes ffiArgBytes) 0) ev encode with ⟨r, o⟩
    rw [hp] at ha
    simp only at ha; subst ha
    simp [h, hp]
  · have hr := fficallback_reject T hT (List.replicate (max T.bytes ffiArgBytes) 0) ev encode h
    rcases hp : fficallbackConvert T (List.replicate (max T.bytes ffiArgBytes) 0) ev encode with ⟨r, o⟩
    rw [hp] at hr
    simp only at hr; subst hr
    simp [h, hp]

/-- the extracted chain of `_cffi_to_c__Bool`, with `_convert_overflow` returning -1 -/
theorem toCBoolBody_spec (tmp : BitVec 64) (err : Bool) :
    CastExprs.toCBoolBody tmp err (BitVec.ofInt 32 (-1)) =
      if tmp = 0#64 then (0#8, false) else if tmp = 1#64 then (1#8, false)
      else if err then (1#8, false) else (1#8, true) := by
  simp [CastExprs.toCBoolBody]

theorem bv_eq_iff (x : Int) (c : Int) (hx : -(2 ^ 63) ≤ x ∧ x < 2 ^ 63) (hc : -(2 ^ 63) ≤ c ∧ c < 2 ^ 63) :
    bv x = BitVec.ofInt 64 c ↔ x = c := by
  constructor
  · intro h
    have := congrArg BitVec.toInt h
    rw [toInt_bv x hx] at this
    have h2 := toInt_bv c hc
    unfold bv at h2
    rw [h2] at this
    exact this
  · intro h; rw [h]; rfl

theorem toCBool_eq_hand (v : Int) : toCBool v = .ok (toCBoolHand v) := by
  have hc : convBy (CastExprs.toCBoolConv, false) v = .ok (myAsLongLong v) := by
    simp [convBy, CastExprs.toCBoolConv]
  unfold toCBool toCBoolHand
  rw [hc]
  rcases myAsLongLong_cases v with ⟨h1, h2, e⟩ | ⟨h, e⟩ <;> rw [e] <;> simp only [toCBoolBody_spec]
  · have e0 : bv v = 0#64 ↔ v = 0 := bv_eq_iff v 0 ⟨h1, h2⟩ (by omega)
    have e1 : bv v = 1#64 ↔ v = 1 := bv_eq_iff v 1 ⟨h1, h2⟩ (by omega)
    by_cases h0 : v = 0
    · subst h0
      have : bv 0 = 0#64 := by decide
      simp [this]
    · by_cases h1' : v = 1
      · subst h1'
        have a : ¬ bv 1 = 0#64 := by decide
        have b : bv 1 = 1#64 := by decide
        simp [a, b]
      · have n0 : ¬ bv v = 0#64 := fun h => h0 (e0.mp h)
        have n1 : ¬ bv v = 1#64 := fun h => h1' (e1.mp h)
        simp [h0, h1', n0, n1, convertOverflow]
  · have n0 : ¬ bv (-1) = 0#64 := by decide
    have n1 : ¬ bv (-1) = 1#64 := by decide
    simp [n0, n1]
theorem argErrS8_spec (x0 : BitVec 8) (e : Bool) : CastExprs.argErrS8 x0 e = ((x0 == -1#8) && e) := by
  unfold CastExprs.argErrS8
  congr 1
  rw [Bool.eq_iff_iff]; simp only [beq_iff_eq]
  rw [← BitVec.toInt_inj, ← BitVec.toInt_inj, BitVec.toInt_signExtend_of_le (by decide),
    BitVec.toInt_signExtend_of_le (by decide)]
  simp

theorem argErrS16_spec (x0 : BitVec 16) (e : Bool) : CastExprs.argErrS16 x0 e = ((x0 == -1#16) && e) := by
  unfold CastExprs.argErrS16
  congr 1
  rw [Bool.eq_iff_iff]; simp only [beq_iff_eq]
  rw [← BitVec.toInt_inj, ← BitVec.toInt_inj, BitVec.toInt_signExtend_of_le (by decide),
    BitVec.toInt_signExtend_of_le (by decide)]
  simp

theorem argErrS32_spec (x0 : BitVec 32) (e : Bool) : CastExprs.argErrS32 x0 e = ((x0 == -1#32) && e) := by
  unfold CastExprs.argErrS32
  congr 1

theorem argErrS64_spec (x0 : BitVec 64) (e : Bool) : CastExprs.argErrS64 x0 e = ((x0 == -1#64) && e) := by
  unfold CastExprs.argErrS64
  congr 1

theorem argErrU8_spec (x0 : BitVec 8) (e : Bool) : CastExprs.argErrU8 x0 e = ((x0 == -1#8) && e) := by
  unfold CastExprs.argErrU8
  congr 1
  rw [Bool.eq_iff_iff]; simp only [beq_iff_eq]
  constructor <;> intro h <;> bv_omega

theorem argErrU16_spec (x0 : BitVec 16) (e : Bool) : CastExprs.argErrU16 x0 e = ((x0 == -1#16) && e) := by
  unfold CastExprs.argErrU16
  congr 1
  rw [Bool.eq_iff_iff]; simp only [beq_iff_eq]
  constructor <;> intro h <;> bv_omega

theorem argErrU32_spec (x0 : BitVec 32) (e : Bool) : CastExprs.argErrU32 x0 e = ((x0 == -1#32) && e) := by
  unfold CastExprs.argErrU32
  congr 1

theorem argErrU64_spec (x0 : BitVec 64) (e : Bool) : CastExprs.argErrU64 x0 e = ((x0 == -1#64) && e) := by
  unfold CastExprs.argErrU64
  congr 1

theorem argErrBool_spec (x0 : BitVec 8) (e : Bool) : CastExprs.argErrBool x0 e = ((x0 == 1#8) && e) := by
  unfold CastExprs.argErrBool
  congr 1
  rw [Bool.eq_iff_iff]; simp only [beq_iff_eq]
  simp
  constructor <;> intro h <;> bv_omega

/-- the emitted check means `x0 == (type)-1 && PyErr_Occurred()` on the values of `T` -/
theorem argCheck_spec (T : IntType) (hk : T.kind = .signed ∨ T.kind = .unsigned) (x0 : Int) (hx : T.InRange x0)
    (e : Bool) : argCheck T x0 e = (decide (x0 = T.wrap (-1)) && e) := by
  rcases T with ⟨n, w, k⟩
  rcases hk with hk | hk <;> simp only at hk <;> subst hk <;> cases w
  · simp only [argCheck, argErrS8_spec]
    congr 1
    rw [Bool.eq_iff_iff]; simp only [beq_iff_eq, decide_eq_true_eq]
    simp [IntType.InRange, IntType.lo, IntType.hi, IntType.bits, Width.bits, Width.bytes] at hx
    simp only [IntType.wrap, CInt.wrap, IntType.readsSigned, IntType.bits, Width.bits, Width.bytes, wrapS, wrapU]
    constructor
    · intro h
      have := congrArg BitVec.toNat h
      simp [BitVec.toNat_ofInt] at this
      simp; omega
    · intro h
      have h' : x0 = -1 := by simp at h; omega
      subst h'; decide
  · simp only [argCheck, argErrS16_spec]
    congr 1
    rw [Bool.eq_iff_iff]; simp only [beq_iff_eq, decide_eq_true_eq]
    simp [IntType.InRange, IntType.lo, IntType.hi, IntType.bits, Width.bits, Width.bytes] at hx
    simp only [IntType.wrap, CInt.wrap, IntType.readsSigned, IntType.bits, Width.bits, Width.bytes, wrapS, wrapU]
    constructor
    · intro h
      have := congrArg BitVec.toNat h
      simp [BitVec.toNat_ofInt] at this
      simp; omega
    · intro h
      have h' : x0 = -1 := by simp at h; omega
      subst h'; decide
  · simp only [argCheck, argErrS32_spec]
    congr 1
    rw [Bool.eq_iff_iff]; simp only [beq_iff_eq, decide_eq_true_eq]
    simp [IntType.InRange, IntType.lo, IntType.hi, IntType.bits, Width.bits, Width.bytes] at hx
    simp only [IntType.wrap, CInt.wrap, IntType.readsSigned, IntType.bits, Width.bits, Width.bytes, wrapS, wrapU]
    constructor
    · intro h
      have := congrArg BitVec.toNat h
      simp [BitVec.toNat_ofInt] at this
      simp; omega
    · intro h
      have h' : x0 = -1 := by simp at h; omega
      subst h'; decide
  · simp only [argCheck, argErrS64_spec]
    congr 1
    rw [Bool.eq_iff_iff]; simp only [beq_iff_eq, decide_eq_true_eq]
    simp [IntType.InRange, IntType.lo, IntType.hi, IntType.bits, Width.bits, Width.bytes] at hx
    simp only [IntType.wrap, CInt.wrap, IntType.readsSigned, IntType.bits, Width.bits, Width.bytes, wrapS, wrapU]
    constructor
    · intro h
      have := congrArg BitVec.toNat h
      simp [BitVec.toNat_ofInt] at this
      simp; omega
    · intro h
      have h' : x0 = -1 := by simp at h; omega
      subst h'; decide
  · simp only [argCheck, argErrU8_spec]
    congr 1
    rw [Bool.eq_iff_iff]; simp only [beq_iff_eq, decide_eq_true_eq]
    simp [IntType.InRange, IntType.lo, IntType.hi, IntType.bits, Width.bits, Width.bytes] at hx
    simp only [IntType.wrap, CInt.wrap, IntType.readsSigned, IntType.bits, Width.bits, Width.bytes, wrapS, wrapU]
    constructor
    · intro h
      have := congrArg BitVec.toNat h
      simp [BitVec.toNat_ofInt] at this
      simp; omega
    · intro h
      have h' : x0 = 255 := by simp at h; omega
      subst h'; decide
  · simp only [argCheck, argErrU16_spec]
    congr 1
    rw [Bool.eq_iff_iff]; simp only [beq_iff_eq, decide_eq_true_eq]
    simp [IntType.InRange, IntType.lo, IntType.hi, IntType.bits, Width.bits, Width.bytes] at hx
    simp only [IntType.wrap, CInt.wrap, IntType.readsSigned, IntType.bits, Width.bits, Width.bytes, wrapS, wrapU]
    constructor
    · intro h
      have := congrArg BitVec.toNat h
      simp [BitVec.toNat_ofInt] at this
      simp; omega
    · intro h
      have h' : x0 = 65535 := by simp at h; omega
      subst h'; decide
  · simp only [argCheck, argErrU32_spec]
    congr 1
    rw [Bool.eq_iff_iff]; simp only [beq_iff_eq, decide_eq_true_eq]
    simp [IntType.InRange, IntType.lo, IntType.hi, IntType.bits, Width.bits, Width.bytes] at hx
    simp only [IntType.wrap, CInt.wrap, IntType.readsSigned, IntType.bits, Width.bits, Width.bytes, wrapS, wrapU]
    constructor
    · intro h
      have := congrArg BitVec.toNat h
      simp [BitVec.toNat_ofInt] at this
      simp; omega
    · intro h
      have h' : x0 = 4294967295 := by simp at h; omega
      subst h'; decide
  · simp only [argCheck, argErrU64_spec]
    congr 1
    rw [Bool.eq_iff_iff]; simp only [beq_iff_eq, decide_eq_true_eq]
    simp [IntType.InRange, IntType.lo, IntType.hi, IntType.bits, Width.bits, Width.bytes] at hx
    simp only [IntType.wrap, CInt.wrap, IntType.readsSigned, IntType.bits, Width.bits, Width.bytes, wrapS, wrapU]
    constructor
    · intro h
      have := congrArg BitVec.toNat h
      simp [BitVec.toNat_ofInt] at this
      simp; omega
    · intro h
      have h' : x0 = 18446744073709551615 := by simp at h; omega
      subst h'; decide

theorem argCheck_bool (T : IntType) (hk : T.kind = .bool) (x0 : Int) (hx : x0 = 0 ∨ x0 = 1) (e : Bool) :
    argCheck T x0 e = (decide (x0 = 1) && e) := by
  rcases T with ⟨n, w, k⟩
  simp only at hk; subst hk
  simp only [argCheck, argErrBool_spec]
  rcases hx with rfl | rfl <;> simp

theorem wrap_inRange (T : IntType) (hb : T.kind ≠ .bool) (x : Int) : T.InRange (T.wrap x) := by
  rcases T with ⟨n, w, k⟩
  cases k <;> cases w <;>
    simp [IntType.InRange, IntType.lo, IntType.hi, IntType.wrap, CInt.wrap, IntType.readsSigned, IntType.bits,
      Width.bits, Width.bytes, wrapS, wrapU] at hb ⊢ <;> omega

theorem cffiToCInt_inRange (T : IntType) (hb : T.kind ≠ .bool) (v x0 : Int) (err : Pending)
    (h : cffiToCInt T v = .ok (x0, err)) : T.InRange x0 := by
  unfold cffiToCInt at h
  split at h
  · cases h
  · rename_i _ cu cs _
    generalize (if T.readsSigned = true then cs else cu) = c at h
    unfold calleeResult at h
    by_cases hr : retBits c.1 c.2.1 ≠ some c.2.2.1
    · rw [if_pos hr] at h; cases h
    · rw [if_neg hr] at h
      cases hm : (if c.1 = true then toCSigned c.2.1 v else toCUnsigned c.2.1 v) with
      | error e => rw [hm] at h; cases h
      | ok p =>
        rw [hm] at h
        rcases p with ⟨r, e'⟩
        simp only [Except.ok.injEq, Prod.mk.injEq] at h
        rw [← h.1]
        exact wrap_inRange T hb _

/-- the model over the extracted check and chain is the hand-written reading of the emitted code -/
theorem apiArg_eq_hand (T : IntType) (v : Int) : apiArg T v = apiArgHand T v := by
  rcases hk : T.kind with _ | _ | _ | _ | _
  · -- signed
    have hb : T.kind ≠ .bool := by rw [hk]; simp
    simp only [apiArg, apiArgHand, hk]
    cases hc : cffiToCInt T v with
    | error e => rfl
    | ok p =>
      rcases p with ⟨x0, err⟩
      have hr := cffiToCInt_inRange T hb v x0 err hc
      simp only [argCheck_spec T (Or.inl hk) x0 hr]
      by_cases hx : x0 = T.wrap (-1) <;> cases err <;> simp [hx]
  · have hb : T.kind ≠ .bool := by rw [hk]; simp
    simp only [apiArg, apiArgHand, hk]
    cases hc : cffiToCInt T v with
    | error e => rfl
    | ok p =>
      rcases p with ⟨x0, err⟩
      have hr := cffiToCInt_inRange T hb v x0 err hc
      simp only [argCheck_spec T (Or.inr hk) x0 hr]
      by_cases hx : x0 = T.wrap (-1) <;> cases err <;> simp [hx]
  · simp only [apiArg, apiArgHand, hk, toCBool_eq_hand]
    have hx : (toCBoolHand v).1 = 0 ∨ (toCBoolHand v).1 = 1 := by
      rw [toCBoolHand_closed]; split <;> (try split) <;> simp
    rcases hp : toCBoolHand v with ⟨x0, err⟩
    rw [hp] at hx
    simp only at hx
    simp only [argCheck_bool T hk x0 hx]
    by_cases h1 : x0 = 1 <;> cases err <;> simp [h1]
  · simp [apiArg, apiArgHand, hk]
  · simp [apiArg, apiArgHand, hk]

end CffiVerif.IntPaths
