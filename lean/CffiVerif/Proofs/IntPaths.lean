import CffiVerif.Proofs.CInt
import CffiVerif.Model.IntPaths
/-! Helper lemmas for `Model/IntPaths.lean`: the regenerated macro conditions mean the exact bounds; closed forms of the API-mode converters. -/
set_option linter.unusedSimpArgs false

namespace CffiVerif.IntPaths
open CffiVerif.CInt CffiVerif.Generated

theorem toInt_bv (x : Int) (h : -(2 ^ 63) ≤ x ∧ x < 2 ^ 63) : (bv x).toInt = x := by
  unfold bv
  rw [BitVec.toInt_ofInt]
  unfold Int.bmod
  simp
  omega

theorem toNat_bv (x : Int) (h : 0 ≤ x ∧ x < 2 ^ 64) : ((bv x).toNat : Int) = x := by
  unfold bv
  rw [BitVec.toNat_ofInt]
  simp
  omega

theorem signed_macro_bounds_exact : ∀ f ∈ IntMacros.signedFns, ∀ t : BitVec 64,
    IntMacros.signedOverflow f.1 t = decide (t.toInt > 2 ^ (f.1 - 1) - 1 ∨ t.toInt < -(2 ^ (f.1 - 1))) := by
  intro f hf t
  simp [IntMacros.signedFns] at hf
  rcases hf with rfl | rfl | rfl | rfl <;> simp [IntMacros.signedOverflow, BitVec.slt_eq_decide]

theorem unsigned_macro_bounds_exact : ∀ f ∈ IntMacros.unsignedFns, ∀ t : BitVec 64,
    IntMacros.unsignedOverflow f.1 t = decide (t.toNat > 2 ^ f.1 - 1) := by
  intro f hf t
  simp [IntMacros.unsignedFns] at hf
  rcases hf with rfl | rfl | rfl | rfl <;> simp [IntMacros.unsignedOverflow, BitVec.ult_eq_decide]


theorem toCBody_signed (N rb : Nat) (rs : Bool) (v : Int) (hN : (N, rb, rs) ∈ IntMacros.signedFns) :
    (match myAsLongLong v with
     | (tmp, err) => toCBody (IntMacros.signedOverflow N (bv tmp)) rb rs tmp err) =
      if -(2 ^ (N - 1)) ≤ v ∧ v < 2 ^ (N - 1) then (CInt.wrap rb rs v, none)
      else (CInt.wrap rb rs (-1), some .overflow) := by
  have hb := signed_macro_bounds_exact _ hN
  simp only at hb
  rcases myAsLongLong_cases v with ⟨h1, h2, e⟩ | ⟨h, e⟩ <;> rw [e] <;> simp only [hb]
  · rw [toInt_bv v ⟨h1, h2⟩]
    simp [IntMacros.signedFns] at hN
    rcases hN with ⟨rfl, rfl, rfl⟩ | ⟨rfl, rfl, rfl⟩ | ⟨rfl, rfl, rfl⟩ | ⟨rfl, rfl, rfl⟩ <;>
      simp [toCBody] <;> split <;> split <;> first | rfl | omega
  · rw [toInt_bv (-1) (by omega)]
    simp [IntMacros.signedFns] at hN
    rcases hN with ⟨rfl, rfl, rfl⟩ | ⟨rfl, rfl, rfl⟩ | ⟨rfl, rfl, rfl⟩ | ⟨rfl, rfl, rfl⟩ <;>
      simp [toCBody] <;> omega

theorem toCBody_unsigned (N rb : Nat) (rs : Bool) (v : Int) (hN : (N, rb, rs) ∈ IntMacros.unsignedFns) :
    (match myAsUnsignedLongLong v true with
     | (tmp, err) => toCBody (IntMacros.unsignedOverflow N (bv tmp)) rb rs tmp err) =
      if 0 ≤ v ∧ v < 2 ^ N then (CInt.wrap rb rs v, none)
      else (CInt.wrap rb rs (2 ^ 64 - 1), some .overflow) := by
  have hb := unsigned_macro_bounds_exact _ hN
  simp only at hb
  rcases myAsULLStrict_cases v with ⟨h1, h2, e⟩ | ⟨h, e⟩ <;> rw [e] <;> simp only [hb]
  · have hv := toNat_bv v ⟨h1, h2⟩
    simp [IntMacros.unsignedFns] at hN
    rcases hN with ⟨rfl, rfl, rfl⟩ | ⟨rfl, rfl, rfl⟩ | ⟨rfl, rfl, rfl⟩ | ⟨rfl, rfl, rfl⟩ <;>
      simp [toCBody] <;> split <;> split <;> first | rfl | omega
  · have hv := toNat_bv (2 ^ 64 - 1) (by omega)
    simp [IntMacros.unsignedFns] at hN
    rcases hN with ⟨rfl, rfl, rfl⟩ | ⟨rfl, rfl, rfl⟩ | ⟨rfl, rfl, rfl⟩ | ⟨rfl, rfl, rfl⟩ <;>
      simp [toCBody] <;> (try split) <;> first | rfl | omega

theorem toCSigned_eq (N rb : Nat) (rs : Bool) (v : Int)
    (hfind : IntMacros.signedFns.find? (·.1 = N) = some (N, rb, rs)) :
    toCSigned N v = .ok (if -(2 ^ (N - 1)) ≤ v ∧ v < 2 ^ (N - 1) then (CInt.wrap rb rs v, none)
      else (CInt.wrap rb rs (-1), some .overflow)) := by
  have hmem : (N, rb, rs) ∈ IntMacros.signedFns := List.mem_of_find?_eq_some hfind
  have hc : convBy IntMacros.signedConv v = .ok (myAsLongLong v) := by
    simp [convBy, IntMacros.signedConv]
  unfold toCSigned
  rw [hfind]
  simp only [hc]
  exact congrArg Except.ok (toCBody_signed N rb rs v hmem)

theorem toCUnsigned_eq (N rb : Nat) (rs : Bool) (v : Int)
    (hfind : IntMacros.unsignedFns.find? (·.1 = N) = some (N, rb, rs)) :
    toCUnsigned N v = .ok (if 0 ≤ v ∧ v < 2 ^ N then (CInt.wrap rb rs v, none)
      else (CInt.wrap rb rs (2 ^ 64 - 1), some .overflow)) := by
  have hmem : (N, rb, rs) ∈ IntMacros.unsignedFns := List.mem_of_find?_eq_some hfind
  have hc : convBy IntMacros.unsignedConv v = .ok (myAsUnsignedLongLong v true) := by
    simp [convBy, IntMacros.unsignedConv]
  unfold toCUnsigned
  rw [hfind]
  simp only [hc]
  exact congrArg Except.ok (toCBody_unsigned N rb rs v hmem)

theorem apiArg_signed (name : String) (w : Width) (v : Int) :
    apiArg ⟨name, w, .signed⟩ v =
      if -(2 ^ (w.bits - 1)) ≤ v ∧ v < 2 ^ (w.bits - 1) then .ok (writeRaw v w) else .error .overflow := by
  cases w
  · have h := toCSigned_eq 8 32 true v (by decide)
    simp only [apiArg, cffiToCInt, IntMacros.dispatch, IntType.bytes, Width.bytes, IntType.readsSigned, retBits,
      IntMacros.signedFns, IntMacros.unsignedFns, h, List.find?, decide_true, decide_false, Option.map,
      ne_eq, not_true_eq_false, if_false, if_true, Width.bits, Nat.reduceMul, Nat.reduceSub, Int.reducePow, Int.reduceNeg,
      Nat.reduceEqDiff, Bool.false_eq_true, Nat.reducePow, Int.reduceSub]
    by_cases hr : -128 ≤ v ∧ v < 128
    · have e1 : IntType.wrap ⟨name, .w8, .signed⟩ (CInt.wrap 32 true (CInt.wrap 32 true v)) = v := by
        simp [IntType.wrap, IntType.bits, IntType.readsSigned, Width.bits, Width.bytes, CInt.wrap, wrapS]; omega
      simp [hr, e1]
    · have e1 : IntType.wrap ⟨name, .w8, .signed⟩ (CInt.wrap 32 true (CInt.wrap 32 true (-1))) = IntType.wrap ⟨name, .w8, .signed⟩ (-1) := by
        simp [IntType.wrap, IntType.bits, IntType.readsSigned, Width.bits, Width.bytes, CInt.wrap, wrapS]
      simp [hr, e1]
  · have h := toCSigned_eq 16 32 true v (by decide)
    simp only [apiArg, cffiToCInt, IntMacros.dispatch, IntType.bytes, Width.bytes, IntType.readsSigned, retBits,
      IntMacros.signedFns, IntMacros.unsignedFns, h, List.find?, decide_true, decide_false, Option.map,
      ne_eq, not_true_eq_false, if_false, if_true, Width.bits, Nat.reduceMul, Nat.reduceSub, Int.reducePow, Int.reduceNeg,
      Nat.reduceEqDiff, Bool.false_eq_true, Nat.reducePow, Int.reduceSub]
    by_cases hr : -32768 ≤ v ∧ v < 32768
    · have e1 : IntType.wrap ⟨name, .w16, .signed⟩ (CInt.wrap 32 true (CInt.wrap 32 true v)) = v := by
        simp [IntType.wrap, IntType.bits, IntType.readsSigned, Width.bits, Width.bytes, CInt.wrap, wrapS]; omega
      simp [hr, e1]
    · have e1 : IntType.wrap ⟨name, .w16, .signed⟩ (CInt.wrap 32 true (CInt.wrap 32 true (-1))) = IntType.wrap ⟨name, .w16, .signed⟩ (-1) := by
        simp [IntType.wrap, IntType.bits, IntType.readsSigned, Width.bits, Width.bytes, CInt.wrap, wrapS]
      simp [hr, e1]
  · have h := toCSigned_eq 32 32 true v (by decide)
    simp only [apiArg, cffiToCInt, IntMacros.dispatch, IntType.bytes, Width.bytes, IntType.readsSigned, retBits,
      IntMacros.signedFns, IntMacros.unsignedFns, h, List.find?, decide_true, decide_false, Option.map,
      ne_eq, not_true_eq_false, if_false, if_true, Width.bits, Nat.reduceMul, Nat.reduceSub, Int.reducePow, Int.reduceNeg,
      Nat.reduceEqDiff, Bool.false_eq_true, Nat.reducePow, Int.reduceSub]
    by_cases hr : -2147483648 ≤ v ∧ v < 2147483648
    · have e1 : IntType.wrap ⟨name, .w32, .signed⟩ (CInt.wrap 32 true (CInt.wrap 32 true v)) = v := by
        simp [IntType.wrap, IntType.bits, IntType.readsSigned, Width.bits, Width.bytes, CInt.wrap, wrapS]; omega
      simp [hr, e1]
    · have e1 : IntType.wrap ⟨name, .w32, .signed⟩ (CInt.wrap 32 true (CInt.wrap 32 true (-1))) = IntType.wrap ⟨name, .w32, .signed⟩ (-1) := by
        simp [IntType.wrap, IntType.bits, IntType.readsSigned, Width.bits, Width.bytes, CInt.wrap, wrapS]
      simp [hr, e1]
  · have h := toCSigned_eq 64 64 true v (by decide)
    simp only [apiArg, cffiToCInt, IntMacros.dispatch, IntType.bytes, Width.bytes, IntType.readsSigned, retBits,
      IntMacros.signedFns, IntMacros.unsignedFns, h, List.find?, decide_true, decide_false, Option.map,
      ne_eq, not_true_eq_false, if_false, if_true, Width.bits, Nat.reduceMul, Nat.reduceSub, Int.reducePow, Int.reduceNeg,
      Nat.reduceEqDiff, Bool.false_eq_true, Nat.reducePow, Int.reduceSub]
    by_cases hr : -9223372036854775808 ≤ v ∧ v < 9223372036854775808
    · have e1 : IntType.wrap ⟨name, .w64, .signed⟩ (CInt.wrap 64 true (CInt.wrap 64 true v)) = v := by
        simp [IntType.wrap, IntType.bits, IntType.readsSigned, Width.bits, Width.bytes, CInt.wrap, wrapS]; omega
      simp [hr, e1]
    · have e1 : IntType.wrap ⟨name, .w64, .signed⟩ (CInt.wrap 64 true (CInt.wrap 64 true (-1))) = IntType.wrap ⟨name, .w64, .signed⟩ (-1) := by
        simp [IntType.wrap, IntType.bits, IntType.readsSigned, Width.bits, Width.bytes, CInt.wrap, wrapS]
      simp [hr, e1]

theorem apiArg_unsigned (name : String) (w : Width) (v : Int) :
    apiArg ⟨name, w, .unsigned⟩ v =
      if 0 ≤ v ∧ v < 2 ^ w.bits then .ok (writeRaw v w) else .error .overflow := by
  cases w
  · have h := toCUnsigned_eq 8 32 true v (by decide)
    simp only [apiArg, cffiToCInt, IntMacros.dispatch, IntType.bytes, Width.bytes, IntType.readsSigned, retBits,
      IntMacros.signedFns, IntMacros.unsignedFns, h, List.find?, decide_true, decide_false, Option.map,
      ne_eq, not_true_eq_false, if_false, if_true, Width.bits, Nat.reduceMul, Nat.reduceSub, Int.reducePow, Int.reduceNeg,
      Nat.reduceEqDiff, Bool.false_eq_true, Nat.reducePow, Int.reduceSub]
    by_cases hr : 0 ≤ v ∧ v < 256
    · have e1 : IntType.wrap ⟨name, .w8, .unsigned⟩ (CInt.wrap 32 true (CInt.wrap 32 true v)) = v := by
        simp [IntType.wrap, IntType.bits, IntType.readsSigned, Width.bits, Width.bytes, CInt.wrap, wrapS, wrapU]; omega
      simp [hr, e1]
    · have e1 : IntType.wrap ⟨name, .w8, .unsigned⟩ (CInt.wrap 32 true (CInt.wrap 32 true 18446744073709551615)) = IntType.wrap ⟨name, .w8, .unsigned⟩ (-1) := by
        simp [IntType.wrap, IntType.bits, IntType.readsSigned, Width.bits, Width.bytes, CInt.wrap, wrapS, wrapU]
      simp [hr, e1]
  · have h := toCUnsigned_eq 16 32 true v (by decide)
    simp only [apiArg, cffiToCInt, IntMacros.dispatch, IntType.bytes, Width.bytes, IntType.readsSigned, retBits,
      IntMacros.signedFns, IntMacros.unsignedFns, h, List.find?, decide_true, decide_false, Option.map,
      ne_eq, not_true_eq_false, if_false, if_true, Width.bits, Nat.reduceMul, Nat.reduceSub, Int.reducePow, Int.reduceNeg,
      Nat.reduceEqDiff, Bool.false_eq_true, Nat.reducePow, Int.reduceSub]
    by_cases hr : 0 ≤ v ∧ v < 65536
    · have e1 : IntType.wrap ⟨name, .w16, .unsigned⟩ (CInt.wrap 32 true (CInt.wrap 32 true v)) = v := by
        simp [IntType.wrap, IntType.bits, IntType.readsSigned, Width.bits, Width.bytes, CInt.wrap, wrapS, wrapU]; omega
      simp [hr, e1]
    · have e1 : IntType.wrap ⟨name, .w16, .unsigned⟩ (CInt.wrap 32 true (CInt.wrap 32 true 18446744073709551615)) = IntType.wrap ⟨name, .w16, .unsigned⟩ (-1) := by
        simp [IntType.wrap, IntType.bits, IntType.readsSigned, Width.bits, Width.bytes, CInt.wrap, wrapS, wrapU]
      simp [hr, e1]
  · have h := toCUnsigned_eq 32 32 false v (by decide)
    simp only [apiArg, cffiToCInt, IntMacros.dispatch, IntType.bytes, Width.bytes, IntType.readsSigned, retBits,
      IntMacros.signedFns, IntMacros.unsignedFns, h, List.find?, decide_true, decide_false, Option.map,
      ne_eq, not_true_eq_false, if_false, if_true, Width.bits, Nat.reduceMul, Nat.reduceSub, Int.reducePow, Int.reduceNeg,
      Nat.reduceEqDiff, Bool.false_eq_true, Nat.reducePow, Int.reduceSub]
    by_cases hr : 0 ≤ v ∧ v < 4294967296
    · have e1 : IntType.wrap ⟨name, .w32, .unsigned⟩ (CInt.wrap 32 false (CInt.wrap 32 false v)) = v := by
        simp [IntType.wrap, IntType.bits, IntType.readsSigned, Width.bits, Width.bytes, CInt.wrap, wrapS, wrapU]; omega
      simp [hr, e1]
    · have e1 : IntType.wrap ⟨name, .w32, .unsigned⟩ (CInt.wrap 32 false (CInt.wrap 32 false 18446744073709551615)) = IntType.wrap ⟨name, .w32, .unsigned⟩ (-1) := by
        simp [IntType.wrap, IntType.bits, IntType.readsSigned, Width.bits, Width.bytes, CInt.wrap, wrapS, wrapU]
      simp [hr, e1]
  · have h := toCUnsigned_eq 64 64 false v (by decide)
    simp only [apiArg, cffiToCInt, IntMacros.dispatch, IntType.bytes, Width.bytes, IntType.readsSigned, retBits,
      IntMacros.signedFns, IntMacros.unsignedFns, h, List.find?, decide_true, decide_false, Option.map,
      ne_eq, not_true_eq_false, if_false, if_true, Width.bits, Nat.reduceMul, Nat.reduceSub, Int.reducePow, Int.reduceNeg,
      Nat.reduceEqDiff, Bool.false_eq_true, Nat.reducePow, Int.reduceSub]
    by_cases hr : 0 ≤ v ∧ v < 18446744073709551616
    · have e1 : IntType.wrap ⟨name, .w64, .unsigned⟩ (CInt.wrap 64 false (CInt.wrap 64 false v)) = v := by
        simp [IntType.wrap, IntType.bits, IntType.readsSigned, Width.bits, Width.bytes, CInt.wrap, wrapS, wrapU]; omega
      simp [hr, e1]
    · have e1 : IntType.wrap ⟨name, .w64, .unsigned⟩ (CInt.wrap 64 false (CInt.wrap 64 false 18446744073709551615)) = IntType.wrap ⟨name, .w64, .unsigned⟩ (-1) := by
        simp [IntType.wrap, IntType.bits, IntType.readsSigned, Width.bits, Width.bytes, CInt.wrap, wrapS, wrapU]
      simp [hr, e1]

theorem toCBool_eq (v : Int) :
    toCBool v = if v = 0 then (0, none) else if v = 1 then (1, none) else (1, some .overflow) := by
  unfold toCBool
  rcases myAsLongLong_cases v with ⟨h1, h2, e⟩ | ⟨h, e⟩
  · rw [e]
  · rw [e]
    have h0 : ¬ v = 0 := by omega
    have h1 : ¬ v = 1 := by omega
    simp [h0, h1]

theorem apiArg_bool (name : String) (w : Width) (v : Int) :
    apiArg ⟨name, w, .bool⟩ v =
      if 0 ≤ v ∧ v ≤ 1 then .ok (writeRaw v w) else .error .overflow := by
  simp only [apiArg, toCBool_eq]
  by_cases h0 : v = 0
  · subst h0; simp
  · by_cases h1 : v = 1
    · subst h1; simp
    · have : ¬ (0 ≤ v ∧ v ≤ 1) := by omega
      simp [h0, h1, this]


theorem inRange_in64 (T : IntType) (v : Int) (h : T.InRange v) : -(2 ^ 63) ≤ v ∧ v < 2 ^ 64 ∧
    (T.kind = .signed → v < 2 ^ 63) := by
  rcases T with ⟨name, w, k⟩
  cases k <;> cases w <;>
    simp [IntType.InRange, IntType.lo, IntType.hi, IntType.bits, Width.bits, Width.bytes] at h ⊢ <;> omega

theorem fficallback_reject (T : IntType) (hT : T.isInt = true) (result : List UInt8) (v : Int) (encode : Bool)
    (h : ¬ T.InRange v) : (fficallbackConvert T result v encode).2 = .error .overflow := by
  unfold fficallbackConvert
  by_cases hc : T.bytes < ffiArgBytes ∧ encode = true
  · rw [if_pos hc]
    rcases T with ⟨name, w, k⟩
    cases k <;> simp only [convert_eq _ hT, h, if_false]
  · rw [if_neg hc]
    simp only [convert_eq _ hT, h, if_false]

theorem writeRaw64_take (v : Int) (w : Width) : (writeRaw v .w64).take w.bytes = writeRaw v w := by
  unfold writeRaw
  exact toLE_take _ _ _ (by cases w <;> simp [Width.bytes])

theorem writeRaw_zext (v : Int) (w : Width) (h : 0 ≤ v ∧ v < 2 ^ w.bits) :
    writeRaw v w ++ List.replicate (8 - w.bytes) 0 = writeRaw v .w64 := by
  unfold writeRaw
  have hlt : (wrapU 64 v).toNat < 256 ^ w.bytes := by
    unfold wrapU
    cases w <;> simp [Width.bits, Width.bytes] at h ⊢ <;> omega
  have := toLE_extend w.bytes (8 - w.bytes) _ hlt
  have e : w.bytes + (8 - w.bytes) = Width.w64.bytes := by cases w <;> rfl
  rw [e] at this
  exact this.symm

theorem fficallback_accept (T : IntType) (hT : T.isInt = true) (result : List UInt8) (v : Int) (encode : Bool)
    (h : T.InRange v) :
    (fficallbackConvert T result v encode).2 = .ok () ∧
    ((fficallbackConvert T result v encode).1).take T.bytes = writeRaw v T.width ∧
    (T.bytes < ffiArgBytes → encode = true →
      ((fficallbackConvert T result v encode).1).take ffiArgBytes = writeRaw v .w64) := by
  have hb : T.bytes = (writeRaw v T.width).length := by rw [writeRaw_length]; rfl
  unfold fficallbackConvert
  by_cases hc : T.bytes < ffiArgBytes ∧ encode = true
  · rw [if_pos hc]
    rcases T with ⟨name, w, k⟩
    have hw8 : w.bytes ≤ 8 := by cases w <;> simp [Width.bytes]
    have hz : ∀ (hr : 0 ≤ v ∧ v < 2 ^ w.bits),
        List.take ffiArgBytes (poke (poke result (List.replicate ffiArgBytes 0)) (writeRaw v w)) =
          writeRaw v Width.w64 := by
      intro hr
      have := poke_zeros_take result (writeRaw v w) ffiArgBytes (by rw [writeRaw_length]; exact hw8)
      rw [this, writeRaw_length]
      exact writeRaw_zext v w hr
    cases k
    · -- signed: a first conversion to detect overflow, then the whole ffi_arg
      have h64 := inRange_in64 _ v h
      have e : myAsLongLong v = (v, none) := by
        rcases myAsLongLong_cases v with ⟨_, _, e⟩ | ⟨hn, _⟩
        · exact e
        · exact absurd ⟨h64.1, h64.2.2 rfl⟩ hn
      simp only [convert_eq _ hT, h, if_true, e, ite_self]
      refine ⟨rfl, ?_, fun _ _ => ?_⟩
      · show List.take w.bytes (poke _ (writeRaw v .w64)) = writeRaw v w
        rw [poke_take_le _ _ _ (by rw [writeRaw_length]; exact hw8), writeRaw64_take]
      · have : ffiArgBytes = (writeRaw v .w64).length := by rw [writeRaw_length]; rfl
        rw [this, poke_take]
    · simp only [convert_eq _ hT, h, if_true]
      refine ⟨trivial, ?_, fun _ _ => ?_⟩
      · rw [hb, poke_take]
      · exact hz (by
          cases w <;> simp [IntType.InRange, IntType.lo, IntType.hi, IntType.bits, Width.bits, Width.bytes] at h ⊢ <;> omega)
    · simp only [convert_eq _ hT, h, if_true]
      refine ⟨trivial, ?_, fun _ _ => ?_⟩
      · rw [hb, poke_take]
      · exact hz (by
          cases w <;> simp [IntType.InRange, IntType.lo, IntType.hi, IntType.bits, Width.bits, Width.bytes] at h ⊢ <;> omega)
    · simp [IntType.isInt] at hT
    · simp [IntType.isInt] at hT
  · rw [if_neg hc]
    simp only [convert_eq _ hT, h, if_true]
    refine ⟨trivial, ?_, fun h1 h2 => absurd ⟨h1, h2⟩ hc⟩
    rw [hb, poke_take]

theorem convert_length (T : IntType) (hT : T.isInt = true) (data : List UInt8) (v : Int)
    (hl : T.bytes ≤ data.length) : (convertFromObject T data v).1.length = data.length := by
  rw [convert_eq T hT]
  by_cases h : T.InRange v
  · simp only [h, if_true]
    exact poke_length _ _ (by rw [writeRaw_length]; exact hl)
  · simp [h]

theorem bytes_le_ffiArg (T : IntType) : T.bytes ≤ ffiArgBytes := by
  rcases T with ⟨n, w, k⟩; cases w <;> simp [IntType.bytes, Width.bytes, ffiArgBytes]

theorem fficallback_length (T : IntType) (hT : T.isInt = true) (result : List UInt8) (v : Int) (encode : Bool)
    (hl : ffiArgBytes ≤ result.length) :
    (fficallbackConvert T result v encode).1.length = result.length := by
  have hb := bytes_le_ffiArg T
  unfold fficallbackConvert
  split
  · rcases T with ⟨name, w, k⟩
    cases k
    · simp only
      have h1 := convert_length ⟨name, w, .signed⟩ hT result v (by omega)
      generalize convertFromObject ⟨name, w, .signed⟩ result v = p at h1 ⊢
      rcases p with ⟨r1, o⟩
      cases o with
      | error e => exact h1
      | ok u =>
        simp only
        split
        · exact h1
        · simp only at h1
          rw [poke_length _ _ (by rw [writeRaw_length]; simp [Width.bytes, ffiArgBytes] at hl ⊢; omega)]
          exact h1
    all_goals
      simp only
      have hz : (poke result (List.replicate ffiArgBytes 0)).length = result.length :=
        poke_length _ _ (by simpa using hl)
      rw [convert_length _ hT _ _ (by omega), hz]
  · exact convert_length T hT result v (by omega)

theorem prepareRawErr_some (T : IntType) (hT : T.isInt = true) (ev : Int) (encode : Bool) :
    prepareRawErr T (some ev) encode =
      if T.InRange ev then .ok (fficallbackConvert T (List.replicate (max T.bytes ffiArgBytes) 0) ev encode).1
      else .error .overflow := by
  unfold prepareRawErr
  by_cases h : T.InRange ev
  · have ha := (fficallback_accept T hT (List.replicate (max T.bytes ffiArgBytes) 0) ev encode h).1
    rcases hp : fficallbackConvert T (List.replicate (max T.bytes ffiArgBytes) 0) ev encode with ⟨r, o⟩
    rw [hp] at ha
    simp only at ha; subst ha
    simp [h, hp]
  · have hr := fficallback_reject T hT (List.replicate (max T.bytes ffiArgBytes) 0) ev encode h
    rcases hp : fficallbackConvert T (List.replicate (max T.bytes ffiArgBytes) 0) ev encode with ⟨r, o⟩
    rw [hp] at hr
    simp only at hr; subst hr
    simp [h, hp]

end CffiVerif.IntPaths
