import CffiVerif.Proofs.CInt
import CffiVerif.Model.IntPaths
/-! Helper lemmas for `Model/IntPaths.lean`: the regenerated macro conditions mean the exact bounds; closed forms of the API-mode converters. -/
set_option linter.unusedSimpArgs false

namespace CffiVerif.IntPaths
open CffiVerif.CInt CffiVerif.Generated

theorem toInt_bv (x : Int) (h : -(2 ^ 63) ≤ x ∧ x < 2 ^ 63) : (bv x).toInt = x := by
  unfold bv
  rw [BitVec.toInt_ofInt]
  unfold Int.bmod
  simp
  omega

theorem toNat_bv (x : Int) (h : 0 ≤ x ∧ x < 2 ^ 64) : ((bv x).toNat : Int) = x := by
  unfold bv
  rw [BitVec.toNat_ofInt]
  simp
  omega

theorem signed_macro_bounds_exact : ∀ f ∈ IntMacros.signedFns, ∀ t : BitVec 64,
    IntMacros.signedOverflow f.1 t = decide (t.toInt > 2 ^ (f.1 - 1) - 1 ∨ t.toInt < -(2 ^ (f.1 - 1))) := by
  intro f hf t
  simp [IntMacros.signedFns] at hf
  rcases hf with rfl | rfl | rfl | rfl <;> simp [IntMacros.signedOverflow, BitVec.slt_eq_decide]

theorem unsigned_macro_bounds_exact : ∀ f ∈ IntMacros.unsignedFns, ∀ t : BitVec 64,
    IntMacros.unsignedOverflow f.1 t = decide (t.toNat > 2 ^ f.1 - 1) := by
  intro f hf t
  simp [IntMacros.unsignedFns] at hf
  rcases hf with rfl | rfl | rfl | rfl <;> simp [IntMacros.unsignedOverflow, BitVec.ult_eq_decide]


theorem toCBody_signed (N rb : Nat) (rs : Bool) (v : Int) (hN : (N, rb, rs) ∈ IntMacros.signedFns) :
    (match myAsLongLong v with
     | (tmp, err) => toCBody (IntMacros.signedOverflow N (bv tmp)) rb rs tmp err) =
      if -(2 ^ (N - 1)) ≤ v ∧ v < 2 ^ (N - 1) then (CInt.wrap rb rs v, none)
      else (CInt.wrap rb rs (-1), some .overflow) := by
  have hb := signed_macro_bounds_exact _ hN
  simp only at hb
  rcases myAsLongLong_cases v with ⟨h1, h2, e⟩ | ⟨h, e⟩ <;> rw [e] <;> simp only [hb]
  · rw [toInt_bv v ⟨h1, h2⟩]
    simp [IntMacros.signedFns] at hN
    rcases hN with ⟨rfl, rfl, rfl⟩ | ⟨rfl, rfl, rfl⟩ | ⟨rfl, rfl, rfl⟩ | ⟨rfl, rfl, rfl⟩ <;>
      simp [toCBody] <;> split <;> split <;> first | rfl | omega
  · rw [toInt_bv (-1) (by omega)]
    simp [IntMacros.signedFns] at hN
    rcases hN with ⟨rfl, rfl, rfl⟩ | ⟨rfl, rfl, rfl⟩ | ⟨rfl, rfl, rfl⟩ | ⟨rfl, rfl, rfl⟩ <;>
      simp [toCBody] <;> omega

theorem toCBody_unsigned (N rb : Nat) (rs : Bool) (v : Int) (hN : (N, rb, rs) ∈ IntMacros.unsignedFns) :
    (match myAsUnsignedLongLong v true with
     | (tmp, err) => toCBody (IntMacros.unsignedOverflow N (bv tmp)) rb rs tmp err) =
      if 0 ≤ v ∧ v < 2 ^ N then (CInt.wrap rb rs v, none)
      else (CInt.wrap rb rs (2 ^ 64 - 1), some .overflow) := by
  have hb := unsigned_macro_bounds_exact _ hN
  simp only at hb
  rcases myAsULLStrict_cases v with ⟨h1, h2, e⟩ | ⟨h, e⟩ <;> rw [e] <;> simp only [hb]
  · have hv := toNat_bv v ⟨h1, h2⟩
    simp [IntMacros.unsignedFns] at hN
    rcases hN with ⟨rfl, rfl, rfl⟩ | ⟨rfl, rfl, rfl⟩ | ⟨rfl, rfl, rfl⟩ | ⟨rfl, rfl, rfl⟩ <;>
      simp [toCBody] <;> split <;> split <;> first | rfl | omega
  · have hv := toNat_bv (2 ^ 64 - 1) (by omega)
    simp [IntMacros.unsignedFns] at hN
    rcases hN with ⟨rfl, rfl, rfl⟩ | ⟨rfl, rfl, rfl⟩ | ⟨rfl, rfl, rfl⟩ | ⟨rfl, rfl, rfl⟩ <;>
      simp [toCBody] <;> (try split) <;> first | rfl | omega

theorem toCSigned_eq (N rb : Nat) (rs : Bool) (v : Int)
    (hfind : IntMacros.signedFns.find? (·.1 = N) = some (N, rb, rs)) :
    toCSigned N v = .ok (if -(2 ^ (N - 1)) ≤ v ∧ v < 2 ^ (N - 1) then (CInt.wrap rb rs v, none)
      else (CInt.wrap rb rs (-1), some .overflow)) := by
  have hmem : (N, rb, rs) ∈ IntMacros.signedFns := List.mem_of_find?_eq_some hfind
  have hc : convBy IntMacros.signedConv v = .ok (myAsLongLong v) := by
    simp [convBy, IntMacros.signedConv]
  unfold toCSigned
  rw [hfind]
  simp only [hc]
  exact congrArg Except.ok (toCBody_signed N rb rs v hmem)

theorem toCUnsigned_eq (N rb : Nat) (rs : Bool) (v : Int)
    (hfind : IntMacros.unsignedFns.find? (·.1 = N) = some (N, rb, rs)) :
    toCUnsigned N v = .ok (if 0 ≤ v ∧ v < 2 ^ N then (CInt.wrap rb rs v, none)
      else (CInt.wrap rb rs (2 ^ 64 - 1), some .overflow)) := by
  have hmem : (N, rb, rs) ∈ IntMacros.unsignedFns := List.mem_of_find?_eq_some hfind
  have hc : convBy IntMacros.unsignedConv v = .ok (myAsUnsignedLongLong v true) := by
    simp [convBy, IntMacros.unsignedConv]
  unfold toCUnsigned
  rw [hfind]
  simp only [hc]
  exact congrArg Except.ok (toCBody_unsigned N rb rs v hmem)

theorem apiArg_signed (name : String) (w : Width) (v : Int) :
    apiArg ⟨name, w, .signed⟩ v =
      if -(2 ^ (w.bits - 1)) ≤ v ∧ v < 2 ^ (w.bits - 1) then .ok (writeRaw v w) else .error .overflow := by
  cases w
  · have h := toCSigned_eq 8 32 true v (by decide)
    simp only [apiArg, cffiToCInt, IntMacros.dispatch, IntType.bytes, Width.bytes, IntType.readsSigned, retBits,
      IntMacros.signedFns, IntMacros.unsignedFns, h, List.find?, decide_true, decide_false, Option.map,
      ne_eq, not_true_eq_false, if_false, if_true, Width.bits, Nat.reduceMul, Nat.reduceSub, Int.reducePow, Int.reduceNeg,
      Nat.reduceEqDiff, Bool.false_eq_true, Nat.reducePow, Int.reduceSub]
    by_cases hr : -128 ≤ v ∧ v < 128
    · have e1 : IntType.wrap ⟨name, .w8, .signed⟩ (CInt.wrap 32 true (CInt.wrap 32 true v)) = v := by
        simp [IntType.wrap, IntType.bits, IntType.readsSigned, Width.bits, Width.bytes, CInt.wrap, wrapS]; omega
      simp [hr, e1]
    · have e1 : IntType.wrap ⟨name, .w8, .signed⟩ (CInt.wrap 32 true (CInt.wrap 32 true (-1))) = IntType.wrap ⟨name, .w8, .signed⟩ (-1) := by
        simp [IntType.wrap, IntType.bits, IntType.readsSigned, Width.bits, Width.bytes, CInt.wrap, wrapS]
      simp [hr, e1]
  · have h := toCSigned_eq 16 32 true v (by decide)
    simp only [apiArg, cffiToCInt, IntMacros.dispatch, IntType.bytes, Width.bytes, IntType.readsSigned, retBits,
      IntMacros.signedFns, IntMacros.unsignedFns, h, List.find?, decide_true, decide_false, Option.map,
      ne_eq, not_true_eq_false, if_false, if_true, Width.bits, Nat.reduceMul, Nat.reduceSub, Int.reducePow, Int.reduceNeg,
      Nat.reduceEqDiff, Bool.false_eq_true, Nat.reducePow, Int.reduceSub]
    by_cases hr : -32768 ≤ v ∧ v < 32768
    · have e1 : IntType.wrap ⟨name, .w16, .signed⟩ (CInt.wrap 32 true (CInt.wrap 32 true v)) = v := by
        simp [IntType.wrap, IntType.bits, IntType.readsSigned, Width.bits, Width.bytes, CInt.wrap, wrapS]; omega
      simp [hr, e1]
    · have e1 : IntType.wrap ⟨name, .w16, .signed⟩ (CInt.wrap 32 true (CInt.wrap 32 true (-1))) = IntType.wrap ⟨name, .w16, .signed⟩ (-1) := by
        simp [IntType.wrap, IntType.bits, IntType.readsSigned, Width.bits, Width.bytes, CInt.wrap, wrapS]
      simp [hr, e1]
  · have h := toCSigned_eq 32 32 true v (by decide)
    simp only [apiArg, cffiToCInt, IntMacros.dispatch, IntType.bytes, Width.bytes, IntType.readsSigned, retBits,
      IntMacros.signedFns, IntMacros.unsignedFns, h, List.find?, decide_true, decide_false, Option.map,
      ne_eq, not_true_eq_false, if_false, if_true, Width.bits, Nat.reduceMul, Nat.reduceSub, Int.reducePow, Int.reduceNeg,
      Nat.reduceEqDiff, Bool.false_eq_true, Nat.reducePow, Int.reduceSub]
    by_cases hr : -2147483648 ≤ v ∧ v < 2147483648
    · have e1 : IntType.wrap ⟨name, .w32, .signed⟩ (CInt.wrap 32 true (CInt.wrap 32 true v)) = v := by
        simp [IntType.wrap, IntType.bits, IntType.readsSigned, Width.bits, Width.bytes, CInt.wrap, wrapS]; omega
      simp [hr, e1]
    · have e1 : IntType.wrap ⟨name, .w32, .signed⟩ (CInt.wrap 32 true (CInt.wrap 32 true (-1))) = IntType.wrap ⟨name, .w32, .signed⟩ (-1) := by
        simp [IntType.wrap, IntType.bits, IntType.readsSigned, Width.bits, Width.bytes, CInt.wrap, wrapS]
      simp [hr, e1]
  · have h := toCSigned_eq 64 64 true v (by decide)
    simp only [apiArg, cffiToCInt, IntMacros.dispatch, IntType.bytes, Width.bytes, IntType.readsSigned, retBits,
      IntMacros.signedFns, IntMacros.unsignedFns, h, List.find?, decide_true, decide_false, Option.map,
      ne_eq, not_true_eq_false, if_false, if_true, Width.bits, Nat.reduceMul, Nat.reduceSub, Int.reducePow, Int.reduceNeg,
      Nat.reduceEqDiff, Bool.false_eq_true, Nat.reducePow, Int.reduceSub]
    by_cases hr : -9223372036854775808 ≤ v ∧ v < 9223372036854775808
    · have e1 : IntType.wrap ⟨name, .w64, .signed⟩ (CInt.wrap 64 true (CInt.wrap 64 true v)) = v := by
        simp [IntType.wrap, IntType.bits, IntType.readsSigned, Width.bits, Width.bytes, CInt.wrap, wrapS]; omega
      simp [hr, e1]
    · have e1 : IntType.wrap ⟨name, .w64, .signed⟩ (CInt.wrap 64 true (CInt.wrap 64 true (-1))) = IntType.wrap ⟨name, .w64, .signed⟩ (-1) := by
        simp [IntType.wrap, IntType.bits, IntType.readsSigned, Width.bits, Width.bytes, CInt.wrap, wrapS]
      simp [hr, e1]

theorem apiArg_unsigned (name : String) (w : Width) (v : Int) :
    apiArg ⟨name, w, .unsigned⟩ v =
      if 0 ≤ v ∧ v < 2 ^ w.bits then .ok (writeRaw v w) else .error .overflow := by
  cases w
  · have h := toCUnsigned_eq 8 32 true v (by decide)
    simp only [apiArg, cffiToCInt, IntMacros.dispatch, IntType.bytes, Width.bytes, IntType.readsSigned, retBits,
      IntMacros.signedFns, IntMacros.unsignedFns, h, List.find?, decide_true, decide_false, Option.map,
      ne_eq, not_true_eq_false, if_false, if_true, Width.bits, Nat.reduceMul, Nat.reduceSub, Int.reducePow, Int.reduceNeg,
      Nat.reduceEqDiff, Bool.false_eq_true, Nat.reducePow, Int.reduceSub]
    by_cases hr : 0 ≤ v ∧ v < 256
    · have e1 : IntType.wrap ⟨name, .w8, .unsigned⟩ (CInt.wrap 32 true (CInt.wrap 32 true v)) = v := by
        simp [IntType.wrap, IntType.bits, IntType.readsSigned, Width.bits, Width.bytes, CInt.wrap, wrapS, wrapU]; omega
      simp [hr, e1]
    · have e1 : IntType.wrap ⟨name, .w8, .unsigned⟩ (CInt.wrap 32 true (CInt.wrap 32 true 18446744073709551615)) = IntType.wrap ⟨name, .w8, .unsigned⟩ (-1) := by
        simp [IntType.wrap, IntType.bits, IntType.readsSigned, Width.bits, Width.bytes, CInt.wrap, wrapS, wrapU]
      simp [hr, e1]
  · have h := toCUnsigned_eq 16 32 true v (by decide)
    simp only [apiArg, cffiToCInt, IntMacros.dispatch, IntType.bytes, Width.bytes, IntType.readsSigned, retBits,
      IntMacros.signedFns, IntMacros.unsignedFns, h, List.find?, decide_true, decide_false, Option.map,
      ne_eq, not_true_eq_false, if_false, if_true, Width.bits, Nat.reduceMul, Nat.reduceSub, Int.reducePow, Int.reduceNeg,
      Nat.reduceEqDiff, Bool.false_eq_true, Nat.reducePow, Int.reduceSub]
    by_cases hr : 0 ≤ v ∧ v < 65536
    · have e1 : IntType.wrap ⟨name, .w16, .unsigned⟩ (CInt.wrap 32 true (CInt.wrap 32 true v)) = v := by
        simp [IntType.wrap, IntType.bits, IntType.readsSigned, Width.bits, Width.bytes, CInt.wrap, wrapS, wrapU]; omega
      simp [hr, e1]
    · have e1 : IntType.wrap ⟨name, .w16, .unsigned⟩ (CInt.wrap 32 true (CInt.wrap 32 true 18446744073709551615)) = IntType.wrap ⟨name, .w16, .unsigned⟩ (-1) := by
        simp [IntType.wrap, IntType.bits, IntType.readsSigned, Width.bits, Width.bytes, CInt.wrap, wrapS, wrapU]
      simp [hr, e1]
  · have h := toCUnsigned_eq 32 32 false v (by decide)
    simp only [apiArg, cffiToCInt, IntMacros.dispatch, IntType.bytes, Width.bytes, IntType.readsSigned, retBits,
      IntMacros.signedFns, IntMacros.unsignedFns, h, List.find?, decide_true, decide_false, Option.map,
      ne_eq, not_true_eq_false, if_false, if_true, Width.bits, Nat.reduceMul, Nat.reduceSub, Int.reducePow, Int.reduceNeg,
      Nat.reduceEqDiff, Bool.false_eq_true, Nat.reducePow, Int.reduceSub]
    by_cases hr : 0 ≤ v ∧ v < 4294967296
    · have e1 : IntType.wrap ⟨name, .w32, .unsigned⟩ (CInt.wrap 32 false (CInt.wrap 32 false v)) = v := by
        simp [IntType.wrap, IntType.bits, IntType.readsSigned, Width.bits, Width.bytes, CInt.wrap, wrapS, wrapU]; omega
      simp [hr, e1]
    · have e1 : IntType.wrap ⟨name, .w32, .unsigned⟩ (CInt.wrap 32 false (CInt.wrap 32 false 18446744073709551615)) = IntType.wrap ⟨name, .w32, .unsigned⟩ (-1) := by
        simp [IntType.wrap, IntType.bits, IntType.readsSigned, Width.bits, Width.bytes, CInt.wrap, wrapS, wrapU]
      simp [hr, e1]
  · have h := toCUnsigned_eq 64 64 false v (by decide)
    simp only [apiArg, cffiToCInt, IntMacros.dispatch, IntType.bytes, Width.bytes, IntType.readsSigned, retBits,
      IntMacros.signedFns, IntMacros.unsignedFns, h, List.find?, decide_true, decide_false, Option.map,
      ne_eq, not_true_eq_false, if_false, if_true, Width.bits, Nat.reduceMul, Nat.reduceSub, Int.reducePow, Int.reduceNeg,
      Nat.reduceEqDiff, Bool.false_eq_true, Nat.reducePow, Int.reduceSub]
    by_cases hr : 0 ≤ v ∧ v < 18446744073709551616
    · have e1 : IntType.wrap ⟨name, .w64, .unsigned⟩ (CInt.wrap 64 false (CInt.wrap 64 false v)) = v := by
        simp [IntType.wrap, IntType.bits, IntType.readsSigned, Width.bits, Width.bytes, CInt.wrap, wrapS, wrapU]; omega
      simp [hr, e1]
    · have e1 : IntType.wrap ⟨name, .w64, .unsigned⟩ (CInt.wrap 64 false (CInt.wrap 64 false 18446744073709551615)) = IntType.wrap ⟨name, .w64, .unsigned⟩ (-1) := by
        simp [IntType.wrap, IntType.bits, IntType.readsSigned, Width.bits, Width.bytes, CInt.wrap, wrapS, wrapU]
      simp [hr, e1]

end CffiVerif.IntPaths
